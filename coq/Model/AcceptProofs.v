(* Lemmas about the GENERATED accept/selection functions of gasol_asm.py (Gen/Accept.v). C08. *)
From Coq Require Import ZArith List Bool String Lia.
From GV Require Import Model.CostPrelude Ref.Cost Gen.Push0 Gen.Accept.
Import ListNotations.
Open Scope string_scope.
Open Scope Z_scope.

(* ------------------------------------------------------------------ improves_criterion *)

Lemma improves_for1_spec : forall (l : list Z) (sc : Z) (so : list Z) (any : bool),
  improves_criterion_for1 l sc so any =
  forallb (fun x => x >=? 0) l && (any || existsb (fun x => x >? 0) l).
Proof.
  induction l as [|x l IH]; intros sc so any; cbn [improves_criterion_for1 forallb existsb].
  - now rewrite orb_false_r.
  - destruct (Z.gtb x 0) eqn:Hgt.
    + rewrite IH. assert (Hge : (x >=? 0) = true) by lia. rewrite Hge. cbn.
      now rewrite orb_true_r.
    + destruct (Z.ltb x 0) eqn:Hlt.
      * assert (Hge : (x >=? 0) = false) by lia. now rewrite Hge.
      * rewrite IH. assert (Hge : (x >=? 0) = true) by lia. now rewrite Hge.
Qed.

(* characterisation for lists of ANY length *)
Lemma improves_criterion_spec : forall (s : Z) (l : list Z),
  improves_criterion s l = true <->
  (s > 0 \/ (s = 0 /\ Forall (fun x => x >= 0) l /\ Exists (fun x => x > 0) l)).
Proof.
  intros s l. unfold improves_criterion.
  destruct (Z.gtb s 0) eqn:Hgt.
  - split; [intros _; left; lia | reflexivity].
  - destruct (Z.eqb s 0) eqn:Heq.
    + rewrite improves_for1_spec. cbn [orb].
      rewrite andb_true_iff, forallb_forall, existsb_exists, Forall_forall, Exists_exists.
      split.
      * intros [Hall [x [Hin Hx]]]. right. split; [lia|]. split.
        -- intros y Hy. specialize (Hall y Hy). lia.
        -- exists x. split; [assumption | lia].
      * intros [Hpos | [_ [Hall [x [Hin Hx]]]]]; [lia|]. split.
        -- intros y Hy. specialize (Hall y Hy). lia.
        -- exists x. split; [assumption | lia].
    + split; [discriminate|]. intros [Hpos | [Hz _]]; lia.
Qed.

Lemma improves_criterion_false_neg : forall s l, s < 0 -> improves_criterion s l = false.
Proof.
  intros s l Hs. destruct (improves_criterion s l) eqn:E; [|reflexivity].
  apply improves_criterion_spec in E. lia.
Qed.

(* ------------------------------------------------------------------ block_has_been_optimized *)

Definition dgas (o n : BlockV) := b_gas_spent o - b_gas_spent n.
Definition dsize (o n : BlockV) := b_bytes_required o - b_bytes_required n.
Definition dlen (o n : BlockV) := b_length o - b_length n.

(* the "other" measures the code passes to improves_criterion for each criterion:
   gas looks at size only, size looks at gas only, length looks at gas and size *)
Definition considered (c : string) (dg ds dl : Z) : list Z :=
  if String.eqb c "gas" then [ds] else if String.eqb c "size" then [dg] else [dg; ds].

Definition known_criterion (c : string) : Prop := c = "gas" \/ c = "size" \/ c = "length".

Lemma bhbo_unfold : forall o n c,
  block_has_been_optimized o n c =
  (String.eqb c "size" && improves_criterion (dsize o n) [dgas o n]) ||
  (String.eqb c "length" && improves_criterion (dlen o n) [dgas o n; dsize o n]) ||
  (String.eqb c "gas" && improves_criterion (dgas o n) [dsize o n]).
Proof. reflexivity. Qed.

(* exact characterisation of the accept decision *)
Lemma accept_iff : forall o n c,
  block_has_been_optimized o n c = true <->
  (known_criterion c /\
   improves_criterion (crit_saving c (dgas o n) (dsize o n) (dlen o n))
                      (considered c (dgas o n) (dsize o n) (dlen o n)) = true).
Proof.
  intros o n c. rewrite bhbo_unfold. unfold known_criterion, crit_saving, considered.
  destruct (String.eqb c "size") eqn:Es; [apply String.eqb_eq in Es; subst c; cbn; rewrite ?orb_false_r; intuition congruence|].
  destruct (String.eqb c "length") eqn:El; [apply String.eqb_eq in El; subst c; cbn; rewrite ?orb_false_r; intuition congruence|].
  destruct (String.eqb c "gas") eqn:Eg; [apply String.eqb_eq in Eg; subst c; cbn; intuition congruence|].
  cbn. apply String.eqb_neq in Es, El, Eg. split; [discriminate|]. intros [[H|[H|H]] _]; congruence.
Qed.

Lemma accept_sound_considered : forall o n c,
  block_has_been_optimized o n c = true ->
  let dg := dgas o n in let ds := dsize o n in let dl := dlen o n in
  known_criterion c /\
  crit_saving c dg ds dl >= 0 /\
  (crit_saving c dg ds dl > 0 \/
   (crit_saving c dg ds dl = 0 /\ Forall (fun x => x >= 0) (considered c dg ds dl)
                               /\ Exists (fun x => x > 0) (considered c dg ds dl))).
Proof.
  intros o n c H. apply accept_iff in H. destruct H as [Hk H].
  apply improves_criterion_spec in H. cbn zeta. split; [assumption|]. split; [|assumption].
  destruct H as [H|[H _]]; lia.
Qed.

(* the criterion never gets worse in an accepted sub-block *)
Lemma accept_never_costlier : forall o n c,
  block_has_been_optimized o n c = true ->
  crit_saving c (dgas o n) (dsize o n) (dlen o n) >= 0.
Proof. intros o n c H. now apply accept_sound_considered in H. Qed.

(* for the length criterion the property's predicate holds in full *)
Lemma accept_sound_length : forall o n,
  block_has_been_optimized o n "length" = true ->
  improves "length" (dgas o n) (dsize o n) (dlen o n).
Proof.
  intros o n H. apply accept_sound_considered in H. cbn zeta in H.
  destruct H as [_ [_ H]]. exact H.
Qed.

(* ... but for gas and size the code does not look at the length (and never at the third
   measure): the property's "no worse in the others" is not what is decided *)
Definition bv (s g l : Z) : BlockV := mkBlockV s g l [].

Lemma accept_full_refuted_gas :
  exists o n, block_has_been_optimized o n "gas" = true /\
              ~ improves "gas" (dgas o n) (dsize o n) (dlen o n).
Proof.
  exists (bv 3 6 2), (bv 2 6 3). split; [vm_compute; reflexivity|].
  unfold improves. vm_compute. intros [H|[_ [H _]]]; [discriminate|].
  inversion H as [|? ? _ H2]; subst. inversion H2 as [|? ? H3 _]; subst. now apply H3.
Qed.

Lemma accept_full_refuted_size :
  exists o n, block_has_been_optimized o n "size" = true /\
              ~ improves "size" (dgas o n) (dsize o n) (dlen o n).
Proof.
  exists (bv 3 7 2), (bv 3 6 3). split; [vm_compute; reflexivity|].
  unfold improves. vm_compute. intros [H|[_ [H _]]]; [discriminate|].
  inversion H as [|? ? _ H2]; subst. inversion H2 as [|? ? H3 _]; subst. now apply H3.
Qed.

(* the strongest true statement for all three criteria: full property whenever the ignored
   measure (length) did not get worse *)
Lemma accept_sound_partial : forall o n c,
  block_has_been_optimized o n c = true ->
  dlen o n >= 0 \/ crit_saving c (dgas o n) (dsize o n) (dlen o n) > 0 ->
  improves c (dgas o n) (dsize o n) (dlen o n).
Proof.
  intros o n c H Hl. apply accept_sound_considered in H. cbn zeta in H.
  destruct H as [Hk [_ H]]. unfold improves.
  destruct H as [H|[H0 [Hall Hex]]]; [now left|].
  destruct Hl as [Hl|Hl]; [|lia]. right. split; [assumption|].
  destruct Hk as [Hk|[Hk|Hk]]; subst c; cbn in *.
  - split.
    + inversion Hall; subst. repeat constructor; assumption.
    + inversion Hex as [? ? Hx|? ? Hx]; subst; [now constructor | inversion Hx].
  - split.
    + inversion Hall; subst. repeat constructor; assumption.
    + inversion Hex as [? ? Hx|? ? Hx]; subst; [now constructor | inversion Hx].
  - split; assumption.
Qed.

(* ------------------------------------------------------------------ compare_best_block *)

Definition seq_cost (c : string) (l : list InstrV) : Z :=
  if String.eqb c "size" then py_sum (map v_bytes_required l)
  else if String.eqb c "gas" then py_sum (map v_gas_spent l)
  else py_len l.

Lemma cbb_unfold : forall o s g c,
  compare_best_block o s g c =
  let so := seq_cost c o - seq_cost c s in
  let sg := seq_cost c o - seq_cost c g in
  if (so <=? 0) && (sg <=? 0) then (s, "both_worse_or_equal")
  else if so =? sg then (s, "tie")
  else if so <? sg then (g, "greedy") else (s, "superopt").
Proof.
  intros o s g c. unfold compare_best_block, seq_cost.
  destruct (String.eqb c "size"); [reflexivity|]. destruct (String.eqb c "gas"); reflexivity.
Qed.

(* the selection returns one of its two candidates *)
Lemma cbb_choice : forall o s g c, fst (compare_best_block o s g c) = s \/ fst (compare_best_block o s g c) = g.
Proof.
  intros o s g c. rewrite cbb_unfold. cbn zeta.
  destruct (_ && _); [now left|]. destruct (_ =? _); [now left|]. destruct (_ <? _); [now right | now left].
Qed.

(* unless both candidates are no better than the original, the chosen one is the cheaper of the
   two and strictly cheaper than the original *)
Lemma cbb_best_when_some_improves : forall o s g c,
  snd (compare_best_block o s g c) <> "both_worse_or_equal" ->
  let r := fst (compare_best_block o s g c) in
  seq_cost c r <= seq_cost c s /\ seq_cost c r <= seq_cost c g /\ seq_cost c r < seq_cost c o.
Proof.
  intros o s g c. rewrite cbb_unfold. cbn zeta.
  destruct ((seq_cost c o - seq_cost c s <=? 0) && (seq_cost c o - seq_cost c g <=? 0)) eqn:Eb.
  - cbn. congruence.
  - apply andb_false_iff in Eb.
    destruct (seq_cost c o - seq_cost c s =? seq_cost c o - seq_cost c g) eqn:Et.
    + cbn. intros _. destruct Eb; lia.
    + destruct (seq_cost c o - seq_cost c s <? seq_cost c o - seq_cost c g) eqn:El; cbn; intros _; destruct Eb; lia.
Qed.

(* when both are no better the code returns the solver's candidate even if the greedy one is
   less bad: "never picks the worse candidate" is false as stated ... *)
Definition iv (s g : Z) : InstrV := mkInstrV s g.
Lemma cbb_never_worse_refuted :
  exists o s g c, let r := fst (compare_best_block o s g c) in seq_cost c g < seq_cost c r.
Proof. exists [iv 1 3], [iv 1 3; iv 1 3], [iv 1 3], "gas". vm_compute. reflexivity. Qed.
(* ... and in that case the returned candidate is the solver's and is not cheaper than the original
   (so the accept test can only keep it on a tie) *)
Lemma cbb_both_worse : forall o s g c,
  snd (compare_best_block o s g c) = "both_worse_or_equal" ->
  fst (compare_best_block o s g c) = s /\ seq_cost c o <= seq_cost c s /\ seq_cost c o <= seq_cost c g.
Proof.
  intros o s g c. rewrite cbb_unfold. cbn zeta.
  destruct ((seq_cost c o - seq_cost c s <=? 0) && (seq_cost c o - seq_cost c g <=? 0)) eqn:Eb.
  - cbn. intros _. apply andb_true_iff in Eb. split; [reflexivity | lia].
  - destruct (_ =? _); [cbn; discriminate|]. destruct (_ <? _); cbn; discriminate.
Qed.

(* ------------------------------------------------------------------ choose_best_solution *)

Lemma cbs_disabled : forall o s g out p, p_ub_greedy p = false ->
  choose_best_solution o s g out p = (s, None).
Proof. intros o s g out p H. unfold choose_best_solution. now rewrite H. Qed.

Definition no_model_or_unsat (out : string) : bool := String.eqb out "no_model" || String.eqb out "unsat".

(* the decision table, as it is *)
Lemma cbs_table : forall o s g out p, p_ub_greedy p = true ->
  choose_best_solution o s g out p =
  match g with
  | Some gr => if no_model_or_unsat out then (gr, Some "greedy_no_model")
               else (fst (compare_best_block o s gr (p_criteria p)), Some (snd (compare_best_block o s gr (p_criteria p))))
  | None => if no_model_or_unsat out then ([], Some "both_worse_or_equal")
            else (fst (compare_best_block o s o (p_criteria p)), Some (snd (compare_best_block o s o (p_criteria p))))
  end.
Proof.
  intros o s g out p H. unfold choose_best_solution, no_model_or_unsat. rewrite H.
  destruct g as [gr|]; cbn [opt_is_none negb unopt_list andb];
    destruct (String.eqb out "no_model" || String.eqb out "unsat"); cbn [andb negb];
    try reflexivity; destruct (compare_best_block _ _ _ _); reflexivity.
Qed.

(* whatever the outcome, the chosen sequence is one of: the solver's, the greedy's, or nothing *)
Lemma cbs_candidates : forall o s g out p,
  let r := fst (choose_best_solution o s g out p) in
  r = s \/ g = Some r \/ r = [] \/ (g = None /\ r = o).
Proof.
  intros o s g out p. cbn zeta. destruct (p_ub_greedy p) eqn:H.
  - rewrite cbs_table by assumption. destruct g as [gr|]; destruct (no_model_or_unsat out); cbn [fst].
    + right. now left.
    + destruct (cbb_choice o s gr (p_criteria p)) as [E|E]; rewrite E; [now left | right; now left].
    + right. right. now left.
    + destruct (cbb_choice o s o (p_criteria p)) as [E|E]; rewrite E; [now left | right; right; right; now split].
  - rewrite cbs_disabled by assumption. now left.
Qed.

(* ------------------------------------------------------------------ running totals *)

Definition totals_step {A} (f : A -> A -> Z -> Z -> Z * Z) (acc : Z * Z) (p : A * A) : Z * Z :=
  f (fst p) (snd p) (fst acc) (snd acc).

Lemma fold_totals_gen : forall (m : BlockV -> Z) (f : BlockV -> BlockV -> Z -> Z -> Z * Z),
  (forall o n a b, f o n a b = (a + m o, b + m n)) ->
  forall (l : list (BlockV * BlockV)) a b,
  fold_left (totals_step f) l (a, b) =
  (a + fold_right Z.add 0 (map (fun p => m (fst p)) l), b + fold_right Z.add 0 (map (fun p => m (snd p)) l)).
Proof.
  intros m f Hf. induction l as [|[o n] l IH]; intros a b; cbn [fold_left map fold_right].
  - f_equal; lia.
  - unfold totals_step at 2. cbn [fst snd]. rewrite Hf, IH. cbn [fst snd]. f_equal; lia.
Qed.

Definition nontag_count (b : BlockV) : Z :=
  py_len (map (fun _ : Item => true) (filter (fun i => negb (String.eqb (i_disasm i) "tag")) (b_instructions b))).

Lemma totals_gas : forall l,
  fold_left (totals_step update_gas_count) l (0, 0) =
  (fold_right Z.add 0 (map (fun p => b_gas_spent (fst p)) l), fold_right Z.add 0 (map (fun p => b_gas_spent (snd p)) l)).
Proof. intros l. rewrite (fold_totals_gen b_gas_spent) by reflexivity. f_equal. Qed.

Lemma totals_size : forall l,
  fold_left (totals_step update_size_count) l (0, 0) =
  (fold_right Z.add 0 (map (fun p => b_bytes_required (fst p)) l), fold_right Z.add 0 (map (fun p => b_bytes_required (snd p)) l)).
Proof. intros l. rewrite (fold_totals_gen b_bytes_required) by reflexivity. f_equal. Qed.

Lemma totals_length : forall l,
  fold_left (totals_step update_length_count) l (0, 0) =
  (fold_right Z.add 0 (map (fun p => nontag_count (fst p)) l), fold_right Z.add 0 (map (fun p => nontag_count (snd p)) l)).
Proof. intros l. rewrite (fold_totals_gen nontag_count) by reflexivity. f_equal. Qed.
