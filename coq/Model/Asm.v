(* Model/Asm.v -- executable model of GASOL's assembly-JSON and plain-text readers/writers.
   NO proofs here (see AsmProofs.v).  Modelled code (sfs_generator/):
     parser_asm.py   build_asm_bytecode, build_blocks_from_asm_representation,
                     build_asm_contract, parse_asm, plain_instructions_to_asm_representation,
                     parse_blocks_from_plain_instructions
     asm_bytecode.py AsmBytecode.__init__/to_json/to_plain, is_push0
     asm_block.py    AsmBlock.add_instruction (only its exception: Bad Opcode), to_plain
     asm_contract.py set_auxdata/set_run_code/set_data_field(_with_address), to_asm_json, to_json
     asm_json.py     AsmJSON.to_json
     opcodes.py      get_opcode (only: does it raise)
   The global flag constants.push0_enabled is the explicit parameter p0.
   Python dicts are ordered association lists in *insertion order*; the input of the model is the
   dict produced by json.load (keys unique).  A Python exception is the result None.
   Outside the model (stated, and the harness keeps such inputs in a separate stream):
   item names that are not strings, JSON floats, tokens with sign/underscore/tab/non-ASCII. *)
From Coq Require Import ZArith NArith List Bool String Ascii.
From Coq Require HexadecimalString DecimalString.
Import ListNotations.
Open Scope string_scope.

(* ------------------------------------------------------------------ JSON *)

Inductive json : Type :=
| JNull
| JBool (b : bool)
| JInt (z : Z)
| JStr (s : string)
| JArr (l : list json)
| JObj (m : list (string * json)).

Definition jobj := list (string * json).

Fixpoint jlookup (k : string) (m : jobj) : option json :=
  match m with
  | [] => None
  | (k', v) :: m' => if String.eqb k k' then Some v else jlookup k m'
  end.

(* d.get(k, None): an absent key and a null value are both Python None *)
Definition py_get (k : string) (m : jobj) : option json :=
  match jlookup k m with
  | Some JNull => None
  | r => r
  end.

(* d.get(k, -1) *)
Definition py_get_m1 (k : string) (m : jobj) : json :=
  match jlookup k m with
  | Some v => v
  | None => JInt (-1)
  end.

Fixpoint json_eqb (a b : json) {struct a} : bool :=
  match a, b with
  | JNull, JNull => true
  | JBool x, JBool y => Bool.eqb x y
  | JInt x, JInt y => Z.eqb x y
  | JStr x, JStr y => String.eqb x y
  | JArr xs, JArr ys =>
      (fix go (xs ys : list json) : bool :=
         match xs, ys with
         | [], [] => true
         | x :: xs', y :: ys' => json_eqb x y && go xs' ys'
         | _, _ => false
         end) xs ys
  | JObj xs, JObj ys =>
      (fix go (xs ys : jobj) : bool :=
         match xs, ys with
         | [], [] => true
         | (k, x) :: xs', (k', y) :: ys' => String.eqb k k' && json_eqb x y && go xs' ys'
         | _, _ => false
         end) xs ys
  | _, _ => false
  end.

(* ------------------------------------------------------------------ numbers <-> text *)

Definition py_hex (n : N) : string :=                      (* hex(n)[2:], n >= 0 *)
  HexadecimalString.NilZero.string_of_uint (N.to_hex_uint n).

Definition str_of_Z (z : Z) : string :=                    (* str(int) *)
  DecimalString.NilZero.string_of_int (Z.to_int z).

Definition str_of_nat (n : nat) : string := str_of_Z (Z.of_nat n).

Definition hex_digit (c : ascii) : option N :=
  let n := N_of_ascii c in
  if (48 <=? n)%N && (n <=? 57)%N then Some (n - 48)%N
  else if (97 <=? n)%N && (n <=? 102)%N then Some (n - 87)%N
  else if (65 <=? n)%N && (n <=? 70)%N then Some (n - 55)%N
  else None.

Definition dec_digit (c : ascii) : option N :=
  let n := N_of_ascii c in
  if (48 <=? n)%N && (n <=? 57)%N then Some (n - 48)%N else None.

Fixpoint digits_acc (dig : ascii -> option N) (base : N) (s : string) (acc : N) : option N :=
  match s with
  | EmptyString => Some acc
  | String c s' =>
      match dig c with
      | Some d => digits_acc dig base s' (acc * base + d)%N
      | None => None
      end
  end.

Definition nonempty (s : string) : bool := match s with EmptyString => false | _ => true end.

Definition strip_0x (s : string) : string :=
  if prefix "0x" s || prefix "0X" s then substring 2 (length s - 2) s else s.

(* int(s, 16) on the modelled alphabet: optional 0x/0X, then one or more hex digits of either case *)
Definition py_int16 (s : string) : option N :=
  let r := strip_0x s in
  if nonempty r then digits_acc hex_digit 16 r 0 else None.

(* int(s) on the modelled alphabet: one or more decimal digits (leading zeros allowed) *)
Definition py_int10 (s : string) : option N :=
  if nonempty s then digits_acc dec_digit 10 s 0 else None.

Fixpoint contains (sub s : string) : bool :=               (* s.find(sub) != -1 / sub in s *)
  prefix sub s || match s with EmptyString => false | String _ s' => contains sub s' end.

Fixpoint all_chars (f : ascii -> bool) (s : string) : bool :=
  match s with
  | EmptyString => true
  | String c s' => f c && all_chars f s'
  end.

Definition is_dec_char (c : ascii) : bool :=
  match dec_digit c with Some _ => true | None => false end.

(* re.fullmatch("PUSH([0-9]+)", op) is not None *)
Definition is_pushn (op : string) : bool :=
  prefix "PUSH" op &&
  (let r := substring 4 (length op - 4) op in nonempty r && all_chars is_dec_char r).

(* utils.isYulKeyword *)
Definition is_yul_keyword (t : string) : bool :=
  contains "tag" t || contains "#" t || contains "$" t || contains "data" t.

(* ------------------------------------------------------------------ opcodes.get_opcode raises? *)

Definition opcode_table : list string :=
  ["---END---"; "ADD"; "ADDMOD"; "ADDRESS"; "AND"; "ASSERTFAIL"; "ASSIGNIMMUTABLE"; "BALANCE";
   "BASEFEE"; "BLOCKHASH"; "BREAKPOINT"; "BYTE"; "CALL"; "CALLCODE"; "CALLDATACOPY";
   "CALLDATALOAD"; "CALLDATASIZE"; "CALLER"; "CALLSTATIC"; "CALLVALUE"; "CHAINID"; "CODECOPY";
   "CODESIZE"; "COINBASE"; "CREATE"; "CREATE2"; "DELEGATECALL"; "DIFFICULTY"; "DIV"; "EQ"; "EXP";
   "EXTCODECOPY"; "EXTCODEHASH"; "EXTCODESIZE"; "GAS"; "GASLIMIT"; "GASPRICE"; "GT"; "INVALID";
   "ISZERO"; "JUMP"; "JUMPDEST"; "JUMPI"; "KECCAK256"; "LOG0"; "LOG1"; "LOG2"; "LOG3"; "LOG4"; "LT";
   "MCOPY"; "MLOAD"; "MOD"; "MSIZE"; "MSTORE"; "MSTORE8"; "MUL"; "MULMOD"; "NOT"; "NUMBER"; "OR";
   "ORIGIN"; "PC"; "POP"; "PREVRANDAO"; "PUSH #[$]"; "PUSH [$]"; "PUSH [tag]"; "PUSH data";
   "PUSHDEPLOYADDRESS"; "PUSHIMMUTABLE"; "PUSHLIB"; "PUSHSIZE"; "RETURN"; "REVERT"; "RNGSEED"; "SAR";
   "SDIV"; "SELFBALANCE"; "SGT"; "SHA3"; "SHL"; "SHR"; "SIGNEXTEND"; "SLOAD"; "SLOADBYTES";
   "SLOADBYTESEXT"; "SLOADEXT"; "SLT"; "SMOD"; "SSIZE"; "SSIZEEXT"; "SSTORE"; "SSTOREBYTES";
   "SSTOREBYTESEXT"; "SSTOREEXT"; "STATEROOT"; "STATICCALL"; "STOP"; "SUB"; "SUICIDE"; "TIMESTAMP";
   "TXEXECGAS"; "XOR"].

Definition mem_str (s : string) (l : list string) : bool := existsb (String.eqb s) l.

Definition one_to_16 : list string :=
  ["1"; "2"; "3"; "4"; "5"; "6"; "7"; "8"; "9"; "10"; "11"; "12"; "13"; "14"; "15"; "16"].

(* get_opcode(name) returns (does not raise ValueError "Bad Opcode") *)
Definition known_opcode (name : string) : bool :=
  mem_str name opcode_table
  || mem_str name ["SELFDESTRUCT"; "RETURNDATASIZE"; "RETURNDATACOPY"; "PUSH0"]
  || prefix "PUSH" name || prefix "tag" name
  || existsb (fun k => String.eqb name ("DUP" ++ k)) one_to_16
  || existsb (fun k => String.eqb name ("SWAP" ++ k)) one_to_16.

Definition beginning_block : list string := ["tag"; "JUMPDEST"].
Definition end_block : list string :=
  ["JUMP"; "JUMPI"; "STOP"; "RETURN"; "REVERT"; "INVALID"; "SELFDESTRUCT"].

(* AsmBlock.add_instruction recomputes the stack size of instructions_to_optimize_bytecode();
   it raises exactly when the added name is outside both sets and unknown to get_opcode *)
Definition add_ok (name : string) : bool :=
  mem_str name beginning_block || mem_str name end_block || known_opcode name.

(* ------------------------------------------------------------------ AsmBytecode *)

Record bytecode : Type := mkBC {
  bc_begin : json;
  bc_end : json;
  bc_source : json;
  bc_disasm : string;
  bc_value : option json;        (* None = Python None *)
  bc_jump_type : option json;
  bc_mod_depth : option json;
  bc_real_value : option json }.

(* pushlib_values: dict value -> index, as the list of keys in insertion order *)
Fixpoint index_of (v : json) (st : list json) : option nat :=
  match st with
  | [] => None
  | x :: st' => if json_eqb v x then Some 0%nat else option_map S (index_of v st')
  end.

Definition hashable (v : json) : bool :=
  match v with JArr _ | JObj _ => false | _ => true end.

Definition or_else {A} (a b : option A) : option A := match a with Some _ => a | None => b end.

Definition is_zero_str (v : option json) : bool :=          (* value == "0" *)
  match v with Some (JStr s) => String.eqb s "0" | _ => false end.

(* build_asm_bytecode(instruction, pushlib_values) -> (AsmBytecode, pushlib_values') *)
Definition build_asm_bytecode (p0 : bool) (ins : jobj) (st : list json)
  : option (bytecode * list json) :=
  match jlookup "name" ins with
  | Some (JStr name) =>
      let begin := py_get_m1 "begin" ins in
      let end_ := py_get_m1 "end" ins in
      let source := py_get_m1 "source" ins in
      let md := py_get "modifierDepth" ins in
      let jt := py_get "jumpType" ins in
      if String.eqb name "PUSHLIB" then
        match jlookup "value" ins with
        | None => None                                   (* KeyError *)
        | Some v =>
            if hashable v then
              let st' := match index_of v st with Some _ => st | None => (st ++ [v])%list end in
              match index_of v st' with
              | Some i =>
                  let value := Some (JInt (Z.of_nat i)) in
                  let real := match v with JNull => None | _ => Some v end in
                  Some (mkBC begin end_ source name value jt md (or_else real value), st')
              | None => None
              end
            else None                                    (* TypeError: unhashable *)
        end
      else
        let value := py_get "value" ins in
        if p0 && String.eqb name "PUSH" && is_zero_str value
        then Some (mkBC begin end_ source "PUSH0" None jt md value, st)
        else Some (mkBC begin end_ source name value jt md value, st)
  | _ => None
  end.

Definition opt_field (k : string) (v : option json) : jobj :=
  match v with Some x => [(k, x)] | None => [] end.

Definition jopt (v : option json) : json := match v with Some x => x | None => JNull end.

(* AsmBytecode.to_json, keys in insertion order *)
Definition bc_to_json (b : bytecode) : json :=
  JObj ([("begin", bc_begin b); ("end", bc_end b); ("name", JStr (bc_disasm b));
         ("source", bc_source b)]
        ++ (match bc_value b with Some _ => [("value", jopt (bc_real_value b))] | None => [] end)
        ++ opt_field "jumpType" (bc_jump_type b)
        ++ opt_field "modifierDepth" (bc_mod_depth b))%list.

Definition is_push0 (p0 : bool) (disasm : string) (value : option json) : bool :=
  p0 && String.eqb disasm "PUSH" && is_zero_str value.

(* str(value) for the value kinds the parsers produce *)
Definition py_str (v : json) : option string :=
  match v with
  | JStr s => Some s
  | JInt z => Some (str_of_Z z)
  | _ => None
  end.

(* AsmBytecode.to_plain *)
Definition bc_to_plain (p0 : bool) (b : bytecode) : option string :=
  if is_push0 p0 (bc_disasm b) (bc_value b) then Some "PUSH0"
  else match bc_value b with
       | Some v =>
           if contains "JUMP" (bc_disasm b) then Some (bc_disasm b)
           else match py_str v with
                | Some s => Some (bc_disasm b ++ " " ++ s)
                | None => None
                end
       | None => Some (bc_disasm b)
       end.

(* numeric value of a constant push, as GASOL computes it (int(value, 16); PUSH0 is 0) *)
Definition bc_numeric (b : bytecode) : option N :=
  if String.eqb (bc_disasm b) "PUSH0" then Some 0%N
  else if String.eqb (bc_disasm b) "PUSH" then
         match bc_value b with Some (JStr s) => py_int16 s | _ => None end
       else None.

(* ------------------------------------------------------------------ AsmBlock, block splitting *)

Record block : Type := mkBlock {
  b_id : nat;
  b_name : string;
  b_tag : json;                          (* -1 unless the block starts at a tag *)
  b_instrs : list bytecode;
  b_idx2real : option (list json) }.     (* None: attribute _idx2real_value never assigned *)

Definition block_name (prefix_ : string) (id : nat) : string :=
  prefix_ ++ "_block_" ++ str_of_nat id.

Definition final_names : list string := ["JUMP"; "JUMPI"; "STOP"; "RETURN"; "REVERT"; "INVALID"].

(* The while loop of build_blocks_from_asm_representation.  State: the current block
   (id, tag, reversed instructions, _idx2real_value), the next id, pushlib_values. *)
Fixpoint bb_loop (p0 : bool) (pre : string) (items : list json)
         (cid : nat) (ctag : json) (rcur : list bytecode) (cidx : option (list json))
         (nid : nat) (st : list json) {struct items} : option (list block) :=
  match items with
  | [] =>
      match rcur with
      | [] => Some []
      | _ => Some [mkBlock cid (block_name pre cid) ctag (rev rcur) (Some st)]
      end
  | JObj ins :: rest =>
      match build_asm_bytecode p0 ins st with
      | None => None
      | Some (bc, st') =>
          match jlookup "name" ins with
          | Some (JStr name) =>
              if mem_str name final_names then
                if add_ok (bc_disasm bc) then
                  match bb_loop p0 pre rest nid (JInt (-1)) [] (Some st') (S nid) [] with
                  | Some bs => Some (mkBlock cid (block_name pre cid) ctag (rev (bc :: rcur)) cidx :: bs)
                  | None => None
                  end
                else None
              else if String.eqb name "tag" then
                match jlookup "value" ins with
                | None => None                            (* KeyError *)
                | Some tv =>
                    match rcur with
                    | [] => bb_loop p0 pre rest cid tv [bc] cidx nid st'
                    | _ =>
                        match bb_loop p0 pre rest nid tv [bc] (Some st') (S nid) [] with
                        | Some bs => Some (mkBlock cid (block_name pre cid) ctag (rev rcur) cidx :: bs)
                        | None => None
                        end
                    end
                end
              else if add_ok (bc_disasm bc) then
                bb_loop p0 pre rest cid ctag (bc :: rcur) cidx nid st'
              else None
          | _ => None
          end
      end
  | _ :: _ => None
  end.

Definition build_blocks (p0 : bool) (pre : string) (items : list json) : option (list block) :=
  bb_loop p0 pre items 0 (JInt (-1)) [] None 1 [].

Definition block_to_json (b : block) : list json := map bc_to_json (b_instrs b).

Definition blocks_to_json (bs : list block) : list json := flat_map block_to_json bs.

Fixpoint sequence {A} (l : list (option A)) : option (list A) :=
  match l with
  | [] => Some []
  | None :: _ => None
  | Some x :: l' => option_map (cons x) (sequence l')
  end.

Fixpoint join (sep : string) (l : list string) : string :=
  match l with
  | [] => ""
  | [x] => x
  | x :: l' => x ++ sep ++ join sep l'
  end.

(* AsmBlock.to_plain *)
Definition block_to_plain (p0 : bool) (b : block) : option string :=
  option_map (join " ")
    (sequence (map (bc_to_plain p0)
                   (filter (fun i => negb (String.eqb (bc_disasm i) "tag")) (b_instrs b)))).

(* ------------------------------------------------------------------ AsmContract / AsmJSON *)

Record datarec : Type := mkData {
  d_aux : option json;
  d_code : list block;
  d_data : option json }.              (* the nested .data is kept as read *)

Record contract : Type := mkContract {
  c_name : string;
  c_has_asm : bool;
  c_asm_null : bool;                   (* only with proposals/C15/1: "asm": null was present *)
  c_init : list block;
  c_source_list : option json;
  c_data : list (string * datarec);    (* AsmContract.data, insertion order *)
  c_addr : list (string * json) }.     (* AsmContract.data_addresses *)

(* s.split(sep)[-1] for a one-character separator *)
Fixpoint last_after (sep : ascii) (s : string) (cur : string) : string :=
  match s with
  | EmptyString => cur
  | String c s' => if Ascii.eqb c sep then last_after sep s' "" else last_after sep s' (cur ++ String c "")
  end.

Definition simplified_cname (cname : string) : string :=
  last_after ":" (last_after "/" cname "") "".

Definition as_items (j : json) : option (list json) :=
  match j with JArr l => Some l | _ => None end.

Fixpoint build_data (p0 : bool) (sc : string) (data : jobj)
  : option (list (string * datarec) * list (string * json)) :=
  match data with
  | [] => Some ([], [])
  | (elem, JStr s) :: rest =>
      match build_data p0 sc rest with
      | Some (ds, ads) => Some (ds, (elem, JStr s) :: ads)
      | None => None
      end
  | (elem, JObj sub) :: rest =>
      match jlookup ".code" sub with
      | Some (JArr code) =>
          match build_blocks p0 (sc ++ "_run_code_of_" ++ elem) code with
          | Some blocks =>
              match build_data p0 sc rest with
              | Some (ds, ads) =>
                  Some ((elem, mkData (py_get ".auxdata" sub) blocks (py_get ".data" sub)) :: ds, ads)
              | None => None
              end
          | None => None
          end
      | _ => None
      end
  | _ :: _ => None
  end.

(* build_asm_contract(cname, cinfo) *)
Definition build_asm_contract (p0 : bool) (cname : string) (cinfo : jobj) : option contract :=
  match jlookup ".code" cinfo with
  | Some (JArr code) =>
      let sc := simplified_cname cname in
      match build_blocks p0 (sc ++ "_initial") code with
      | Some init =>
          match jlookup ".data" cinfo with
          | Some (JObj data) =>
              match build_data p0 sc data with
              | Some (ds, ads) => Some (mkContract cname true false init (py_get "sourceList" cinfo) ds ads)
              | None => None
              end
          | _ => None
          end
      | None => None
      end
  | _ => None
  end.

Definition data_to_json (d : datarec) : json :=
  JObj (opt_field ".auxdata" (d_aux d)
        ++ [(".code", JArr (blocks_to_json (d_code d)))]
        ++ opt_field ".data" (d_data d))%list.

(* AsmContract.to_asm_json *)
Definition contract_to_asm_json (c : contract) : json :=
  JObj ([(".code", JArr (blocks_to_json (c_init c)))]
        ++ opt_field "sourceList" (c_source_list c)
        ++ [(".data", JObj (map (fun kd => (fst kd, data_to_json (snd kd))) (c_data c) ++ c_addr c)%list)])%list.

(* AsmContract.to_json: one member of the "contracts" object *)
Definition contract_to_member (c : contract) : string * json :=
  if c_has_asm c then (c_name c, JObj [("asm", contract_to_asm_json c)])
  else (c_name c, JObj (if c_asm_null c then [("asm", JNull)] else [])).

Record asmjson : Type := mkAsmJson { aj_version : json; aj_contracts : list contract }.

(* kn: which variant of the code is present.  false = the pinned tree (a contract whose "asm"
   is null or absent is written back as {}), true = with proposals/C15/1-asm-null-roundtrip.patch
   ("asm": null is remembered and written back).  The harness determines kn from the source. *)
Fixpoint build_contracts (p0 kn : bool) (cs : jobj) : option (list contract) :=
  match cs with
  | [] => Some []
  | (c, JObj info) :: rest =>
      match py_get "asm" info with
      | None =>
          let isnull := kn && match jlookup "asm" info with Some _ => true | None => false end in
          option_map (cons (mkContract c false isnull [] None [] [])) (build_contracts p0 kn rest)
      | Some (JObj asm) =>
          match build_asm_contract p0 c asm with
          | Some ac => option_map (cons ac) (build_contracts p0 kn rest)
          | None => None
          end
      | Some _ => None
      end
  | _ :: _ => None
  end.

(* parse_asm on the loaded document *)
Definition parse_doc (p0 kn : bool) (d : json) : option asmjson :=
  match d with
  | JObj top =>
      match jlookup "version" top, jlookup "contracts" top with
      | Some v, Some (JObj cs) => option_map (mkAsmJson v) (build_contracts p0 kn cs)
      | _, _ => None
      end
  | _ => None
  end.

(* AsmJSON.to_json *)
Definition doc_to_json (a : asmjson) : json :=
  JObj [("version", aj_version a); ("contracts", JObj (map contract_to_member (aj_contracts a)))].

Definition roundtrip_doc (p0 kn : bool) (d : json) : option json :=
  option_map doc_to_json (parse_doc p0 kn d).

(* ------------------------------------------------------------------ plain text -> items *)

(* str.splitlines() boundaries that are single ASCII characters, and the blank of split(" ") *)
Definition is_sep (c : ascii) : bool :=
  let n := N_of_ascii c in
  (n =? 32)%N || (n =? 10)%N || (n =? 13)%N || (n =? 11)%N || (n =? 12)%N
  || (n =? 28)%N || (n =? 29)%N || (n =? 30)%N.

(* chain(line.split(" ") for line in s.splitlines()) filtered by != '' *)
Fixpoint tokenize_aux (s : string) (cur : string) : list string :=
  match s with
  | EmptyString => if nonempty cur then [cur] else []
  | String c s' =>
      if is_sep c then (if nonempty cur then cur :: tokenize_aux s' "" else tokenize_aux s' "")
      else tokenize_aux s' (cur ++ String c "")
  end.

Definition tokenize (s : string) : list string := tokenize_aux s "".

Definition item_nv (name : string) (v : json) : json := JObj [("name", JStr name); ("value", v)].
Definition item_n (name : string) : json := JObj [("name", JStr name)].

Fixpoint index_of_str (v : string) (st : list string) : option nat :=
  match st with
  | [] => None
  | x :: st' => if String.eqb v x then Some 0%nat else option_map S (index_of_str v st')
  end.

Definition ocons {A} (x : A) (l : option (list A)) : option (list A) := option_map (cons x) l.

(* plain_instructions_to_asm_representation on the token list *)
Fixpoint plain_to_asm (ops : list string) (st : list string) {struct ops} : option (list json) :=
  match ops with
  | [] => Some []
  | op :: rest =>
      if prefix "ASSIGNIMMUTABLE" op || prefix "tag" op then
        match rest with
        | v :: rest' => ocons (item_nv op (JStr v)) (plain_to_asm rest' st)
        | [] => None
        end
      else if prefix "PUSHLIB" op then
        match rest with
        | v :: rest' =>
            let st' := match index_of_str v st with Some _ => st | None => (st ++ [v])%list end in
            match index_of_str v st' with
            | Some i => ocons (item_nv op (JInt (Z.of_nat i))) (plain_to_asm rest' st')
            | None => None
            end
        | [] => None
        end
      else if negb (prefix "PUSH" op) then ocons (item_n op) (plain_to_asm rest st)
      else if contains "DEPLOYADDRESS" op then ocons (item_n op) (plain_to_asm rest st)
      else if contains "SIZE" op then ocons (item_n op) (plain_to_asm rest st)
      else if prefix "PUSH0" op then ocons (item_nv "PUSH" (JStr "0")) (plain_to_asm rest st)
      else if is_pushn op then
        match rest with
        | v :: rest' =>
            if prefix "0x" v then
              ocons (item_nv "PUSH" (JStr (substring 2 (length v - 2) v))) (plain_to_asm rest' st)
            else match py_int10 v with
                 | Some n => ocons (item_nv "PUSH" (JStr (py_hex n))) (plain_to_asm rest' st)
                 | None => None
                 end
        | [] => None
        end
      else
        match rest with
        | v :: rest' =>
            if negb (is_yul_keyword v) then
              match py_int16 v with
              | Some n => ocons (item_nv op (JStr (py_hex n))) (plain_to_asm rest' st)
              | None => None
              end
            else
              match rest' with
              | v2 :: rest'' =>
                  match py_int16 v2 with
                  | Some n => ocons (item_nv (op ++ " " ++ v) (JStr (py_hex n))) (plain_to_asm rest'' st)
                  | None => None
                  end
              | [] => None
              end
        | [] => None
        end
  end.

(* parse_blocks_from_plain_instructions(text) with the default names *)
Definition parse_plain (p0 : bool) (text : string) : option (list block) :=
  match plain_to_asm (tokenize text) [] with
  | Some items => build_blocks p0 "isolated" items
  | None => None
  end.

Definition parse_plain_instrs (p0 : bool) (text : string) : option (list (list bytecode)) :=
  option_map (map b_instrs) (parse_plain p0 text).

(* ------------------------------------------------------------------ observations
   What the correspondence check compares with the implementation (harness/c15.py builds the
   same summaries from the Python objects).  None (exception) is JNull, Some x is JArr [x]. *)

Definition obs_opt {A} (f : A -> json) (o : option A) : json :=
  match o with Some x => JArr [f x] | None => JNull end.

Definition obs_str_opt (o : option string) : json :=
  match o with Some s => JStr s | None => JNull end.

Definition obs_num_opt (o : option N) : json :=
  match o with Some n => JInt (Z.of_N n) | None => JNull end.

Definition obs_bc (p0 : bool) (b : bytecode) : json :=
  JArr [bc_to_json b; jopt (bc_value b); jopt (bc_real_value b);
        obs_str_opt (bc_to_plain p0 b); obs_num_opt (bc_numeric b)].

Definition obs_item (p0 : bool) (ins : jobj) (st : list json) : json :=
  obs_opt (fun r => JArr [obs_bc p0 (fst r); JArr (snd r)]) (build_asm_bytecode p0 ins st).

Definition obs_block (p0 : bool) (b : block) : json :=
  JArr [JInt (Z.of_nat (b_id b)); JStr (b_name b); b_tag b;
        JArr (map (obs_bc p0) (b_instrs b));
        obs_str_opt (block_to_plain p0 b);
        match b_idx2real b with Some l => JArr l | None => JNull end].

Definition obs_blocks (p0 : bool) (o : option (list block)) : json :=
  obs_opt (fun bs => JArr (map (obs_block p0) bs)) o.

Definition obs_build_blocks (p0 : bool) (pre : string) (items : list json) : json :=
  obs_blocks p0 (build_blocks p0 pre items).

Definition obs_roundtrip_doc (p0 kn : bool) (d : json) : json :=
  obs_opt (fun x => x) (roundtrip_doc p0 kn d).

Definition obs_plain_to_asm (text : string) : json :=
  obs_opt JArr (plain_to_asm (tokenize text) []).

Definition obs_parse_plain (p0 : bool) (text : string) : json :=
  obs_blocks p0 (parse_plain p0 text).

Definition obs_known (names : list string) : list bool := map add_ok names.

(* parse_plain(to_plain(b)) for every block of parse_plain(text): the property's second clause,
   evaluated by the model *)
Definition obs_plain_roundtrip (p0 : bool) (text : string) : json :=
  obs_opt (fun bs =>
    JArr (map (fun b => match block_to_plain p0 b with
                        | Some t => obs_parse_plain p0 t
                        | None => JNull end) bs)) (parse_plain p0 text).
