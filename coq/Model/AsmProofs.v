(* Model/AsmProofs.v -- lemmas about the model in Model/Asm.v (property C15). *)
From Coq Require Import ZArith NArith List Bool String Ascii Lia Permutation.
From Coq Require HexadecimalString DecimalString HexadecimalN DecimalN HexadecimalFacts.
From GV Require Import Model.Asm.
Import ListNotations.
Open Scope string_scope.

(* ================================================================== strings *)

Lemma append_nil_r : forall s : string, s ++ "" = s.
Proof. induction s as [|c s IH]; cbn; [reflexivity | now rewrite IH]. Qed.

Lemma append_assoc : forall a b c : string, (a ++ b) ++ c = a ++ (b ++ c).
Proof. induction a as [|x a IH]; intros b c; cbn; [reflexivity | now rewrite IH]. Qed.

Lemma substring_full : forall s, substring 0 (length s) s = s.
Proof. induction s as [|c s IH]; cbn; [reflexivity | now rewrite IH]. Qed.

Lemma all_chars_app : forall f a b, all_chars f (a ++ b) = all_chars f a && all_chars f b.
Proof. induction a as [|c a IH]; intros b; cbn; [reflexivity | now rewrite IH, andb_assoc]. Qed.

Lemma prefix_all_chars : forall f a s,
  prefix a s = true -> all_chars f s = true -> all_chars f a = true.
Proof.
  induction a as [|c a IH]; intros s Hp Hs; [reflexivity|].
  destruct s as [|d s]; cbn in Hp; [discriminate|].
  destruct (ascii_dec c d) as [->|]; [|discriminate].
  cbn in Hs |- *. apply andb_true_iff in Hs as [Hd Hs]. rewrite Hd. cbn. eauto.
Qed.

(* a string all of whose characters satisfy f does not contain a string with a character
   that does not *)
Lemma contains_all_chars : forall f sub s,
  all_chars f sub = false -> all_chars f s = true -> contains sub s = false.
Proof.
  intros f sub s Hsub. induction s as [|c s IH]; intros Hs.
  - cbn. destruct sub; [discriminate Hsub | reflexivity].
  - cbn [contains]. apply orb_false_iff. split.
    + destruct (prefix sub (String c s)) eqn:Hp; [|reflexivity].
      rewrite (prefix_all_chars f _ _ Hp Hs) in Hsub. discriminate.
    + cbn in Hs. apply andb_true_iff in Hs as [_ Hs]. auto.
Qed.

Lemma prefix_all_chars_false : forall f a s,
  all_chars f a = false -> all_chars f s = true -> prefix a s = false.
Proof.
  intros f a s Ha Hs. destruct (prefix a s) eqn:Hp; [|reflexivity].
  rewrite (prefix_all_chars f _ _ Hp Hs) in Ha. discriminate.
Qed.

(* ================================================================== hex / decimal *)

Definition is_lhex (c : ascii) : bool :=
  let n := N_of_ascii c in ((48 <=? n) && (n <=? 57) || (97 <=? n) && (n <=? 102))%N.
Definition is_hex (c : ascii) : bool := match hex_digit c with Some _ => true | None => false end.

Lemma lhex_string : forall d, all_chars is_lhex (HexadecimalString.NilEmpty.string_of_uint d) = true.
Proof. induction d; cbn; auto. Qed.

Lemma is_lhex_is_hex : forall s, all_chars is_lhex s = true -> all_chars is_hex s = true.
Proof.
  induction s as [|c s IH]; cbn; [reflexivity|]. intros H. apply andb_true_iff in H as [Hc Hs].
  rewrite (IH Hs), andb_true_r. clear - Hc.
  destruct c as [[] [] [] [] [] [] [] []]; try reflexivity; discriminate Hc.
Qed.

Lemma digits_hex_pos : forall d acc,
  digits_acc hex_digit 16 (HexadecimalString.NilEmpty.string_of_uint d) (N.pos acc)
  = Some (N.pos (Pos.of_hex_uint_acc d acc)).
Proof.
  induction d; intros acc; cbn [HexadecimalString.NilEmpty.string_of_uint digits_acc Pos.of_hex_uint_acc];
    try reflexivity;
    match goal with |- context [hex_digit ?c] =>
      let v := eval vm_compute in (hex_digit c) in change (hex_digit c) with v end;
    cbv iota beta;
    match goal with |- digits_acc _ _ _ ?a = Some (N.pos (Pos.of_hex_uint_acc _ ?b)) =>
      replace a with (N.pos b) by lia end; apply IHd.
Qed.

Lemma digits_hex_0 : forall d,
  digits_acc hex_digit 16 (HexadecimalString.NilEmpty.string_of_uint d) 0 = Some (N.of_hex_uint d).
Proof.
  induction d; cbn [HexadecimalString.NilEmpty.string_of_uint digits_acc]; try reflexivity;
    match goal with |- context [hex_digit ?c] =>
      let v := eval vm_compute in (hex_digit c) in change (hex_digit c) with v end;
    cbv iota beta; change (0 * 16 + 0)%N with 0%N; try exact IHd;
    match goal with |- digits_acc _ _ _ ?a = _ =>
      let v := eval vm_compute in a in change a with v end;
    rewrite digits_hex_pos; reflexivity.
Qed.

Lemma to_hex_uint_not_nil : forall n, N.to_hex_uint n <> Hexadecimal.Nil.
Proof.
  intros n H. pose proof (HexadecimalN.Unsigned.of_to n) as E. rewrite H in E. cbn in E. subst n.
  discriminate H.
Qed.

Lemma py_hex_eq : forall n, py_hex n = HexadecimalString.NilEmpty.string_of_uint (N.to_hex_uint n).
Proof.
  intros n. unfold py_hex, HexadecimalString.NilZero.string_of_uint.
  destruct (N.to_hex_uint n) eqn:E; try reflexivity. exfalso. exact (to_hex_uint_not_nil n E).
Qed.

Lemma py_hex_lhex : forall n, all_chars is_lhex (py_hex n) = true.
Proof. intros n. rewrite py_hex_eq. apply lhex_string. Qed.

Lemma py_hex_nonempty : forall n, nonempty (py_hex n) = true.
Proof.
  intros n. rewrite py_hex_eq. pose proof (to_hex_uint_not_nil n) as H.
  destruct (N.to_hex_uint n); cbn; try reflexivity. congruence.
Qed.

Lemma digits_py_hex : forall n, digits_acc hex_digit 16 (py_hex n) 0 = Some n.
Proof. intros n. rewrite py_hex_eq, digits_hex_0. now rewrite HexadecimalN.Unsigned.of_to. Qed.

Lemma strip_0x_hex : forall s, all_chars is_hex s = true -> strip_0x s = s.
Proof.
  intros s H. unfold strip_0x.
  rewrite (prefix_all_chars_false is_hex "0x" s), (prefix_all_chars_false is_hex "0X" s); auto.
Qed.

(* int(hex(n)[2:], 16) = n *)
Lemma py_int16_py_hex : forall n, py_int16 (py_hex n) = Some n.
Proof.
  intros n. unfold py_int16. rewrite strip_0x_hex by (apply is_lhex_is_hex, py_hex_lhex).
  now rewrite py_hex_nonempty, digits_py_hex.
Qed.

Lemma py_hex_zero : forall n, String.eqb (py_hex n) "0" = true -> n = 0%N.
Proof.
  intros n H. apply String.eqb_eq in H. pose proof (py_int16_py_hex n) as E. rewrite H in E.
  cbn in E. congruence.
Qed.

(* upper-casing hexadecimal letters *)
Definition upc (c : ascii) : ascii :=
  let n := N_of_ascii c in if ((97 <=? n) && (n <=? 102))%N then ascii_of_N (n - 32) else c.
Fixpoint upcase (s : string) : string :=
  match s with EmptyString => EmptyString | String c s' => String (upc c) (upcase s') end.

Lemma hex_digit_upc : forall c, hex_digit (upc c) = hex_digit c.
Proof. intros c. destruct c as [[] [] [] [] [] [] [] []]; reflexivity. Qed.

Lemma digits_upcase : forall s acc,
  digits_acc hex_digit 16 (upcase s) acc = digits_acc hex_digit 16 s acc.
Proof.
  induction s as [|c s IH]; intros acc; cbn; [reflexivity|]. rewrite hex_digit_upc.
  destruct (hex_digit c); [apply IH | reflexivity].
Qed.

Lemma upcase_is_hex : forall s, all_chars is_hex (upcase s) = all_chars is_hex s.
Proof.
  induction s as [|c s IH]; cbn; [reflexivity|]. rewrite IH. f_equal.
  unfold is_hex. now rewrite hex_digit_upc.
Qed.

Lemma upcase_nonempty : forall s, nonempty (upcase s) = nonempty s.
Proof. destruct s; reflexivity. Qed.

Fixpoint zeros (k : nat) : string :=
  match k with O => "" | S k' => String "0" (zeros k') end.

Lemma zeros_is_hex : forall k, all_chars is_hex (zeros k) = true.
Proof. induction k; cbn; auto. Qed.

Lemma digits_zeros_hex : forall k s, digits_acc hex_digit 16 (zeros k ++ s) 0 = digits_acc hex_digit 16 s 0.
Proof. induction k; intros s; cbn; [reflexivity | apply IHk]. Qed.

Lemma digits_zeros_dec : forall k s, digits_acc dec_digit 10 (zeros k ++ s) 0 = digits_acc dec_digit 10 s 0.
Proof. induction k; intros s; cbn; [reflexivity | apply IHk]. Qed.

Lemma nonempty_app_r : forall a b, nonempty b = true -> nonempty (a ++ b) = true.
Proof. destruct a; cbn; auto. Qed.

Definition hexcase (up : bool) (s : string) : string := if up then upcase s else s.

Lemma hexcase_digits : forall up s acc,
  digits_acc hex_digit 16 (hexcase up s) acc = digits_acc hex_digit 16 s acc.
Proof. destruct up; intros; cbn; [apply digits_upcase | reflexivity]. Qed.

Lemma hexcase_is_hex : forall up s, all_chars is_hex (hexcase up s) = all_chars is_hex s.
Proof. destruct up; intros; cbn; [apply upcase_is_hex | reflexivity]. Qed.

Lemma hexcase_nonempty : forall up s, nonempty (hexcase up s) = nonempty s.
Proof. destruct up; intros; cbn; [apply upcase_nonempty | reflexivity]. Qed.

(* the digits of a constant: optional leading zeros, either case *)
Definition hex_body (c : N) (z : nat) (up : bool) : string := zeros z ++ hexcase up (py_hex c).

Lemma hex_body_is_hex : forall c z up, all_chars is_hex (hex_body c z up) = true.
Proof.
  intros. unfold hex_body. rewrite all_chars_app, zeros_is_hex, hexcase_is_hex.
  apply is_lhex_is_hex, py_hex_lhex.
Qed.

Lemma hex_body_nonempty : forall c z up, nonempty (hex_body c z up) = true.
Proof. intros. apply nonempty_app_r. rewrite hexcase_nonempty. apply py_hex_nonempty. Qed.

Lemma hex_body_digits : forall c z up, digits_acc hex_digit 16 (hex_body c z up) 0 = Some c.
Proof. intros. unfold hex_body. now rewrite digits_zeros_hex, hexcase_digits, digits_py_hex. Qed.

Lemma py_int16_body : forall c z up, py_int16 (hex_body c z up) = Some c.
Proof.
  intros. unfold py_int16. rewrite strip_0x_hex by apply hex_body_is_hex.
  now rewrite hex_body_nonempty, hex_body_digits.
Qed.

Lemma py_int16_0x_body : forall c z up (X : bool),
  py_int16 ((if X then "0X" else "0x") ++ hex_body c z up) = Some c.
Proof.
  intros. unfold py_int16, strip_0x.
  assert (E : substring 2 (length ((if X then "0X" else "0x") ++ hex_body c z up) - 2)
                ((if X then "0X" else "0x") ++ hex_body c z up) = hex_body c z up).
  { destruct X; cbn; rewrite Nat.sub_0_r; apply substring_full. }
  assert (P : prefix "0x" ((if X then "0X" else "0x") ++ hex_body c z up)
              || prefix "0X" ((if X then "0X" else "0x") ++ hex_body c z up) = true).
  { destruct X; cbn; destruct (hex_body c z up); reflexivity. }
  rewrite P, E. now rewrite hex_body_nonempty, hex_body_digits.
Qed.

(* decimal *)
Definition py_dec (n : N) : string := DecimalString.NilEmpty.string_of_uint (N.to_uint n).

Lemma digits_dec_pos : forall d acc,
  digits_acc dec_digit 10 (DecimalString.NilEmpty.string_of_uint d) (N.pos acc)
  = Some (N.pos (Pos.of_uint_acc d acc)).
Proof.
  induction d; intros acc; cbn [DecimalString.NilEmpty.string_of_uint digits_acc Pos.of_uint_acc];
    try reflexivity;
    match goal with |- context [dec_digit ?c] =>
      let v := eval vm_compute in (dec_digit c) in change (dec_digit c) with v end;
    cbv iota beta;
    match goal with |- digits_acc _ _ _ ?a = Some (N.pos (Pos.of_uint_acc _ ?b)) =>
      replace a with (N.pos b) by lia end; apply IHd.
Qed.

Lemma digits_dec_0 : forall d,
  digits_acc dec_digit 10 (DecimalString.NilEmpty.string_of_uint d) 0 = Some (N.of_uint d).
Proof.
  induction d; cbn [DecimalString.NilEmpty.string_of_uint digits_acc]; try reflexivity;
    match goal with |- context [dec_digit ?c] =>
      let v := eval vm_compute in (dec_digit c) in change (dec_digit c) with v end;
    cbv iota beta; change (0 * 10 + 0)%N with 0%N; try exact IHd;
    match goal with |- digits_acc _ _ _ ?a = _ =>
      let v := eval vm_compute in a in change a with v end;
    rewrite digits_dec_pos; reflexivity.
Qed.

Lemma py_dec_nonempty : forall n, nonempty (py_dec n) = true.
Proof.
  intros n. unfold py_dec. destruct (N.to_uint n) eqn:E; cbn; try reflexivity.
  pose proof (DecimalN.Unsigned.of_to n) as H. rewrite E in H. cbn in H. subst n. discriminate E.
Qed.

Lemma py_int10_dec : forall n z, py_int10 (zeros z ++ py_dec n) = Some n.
Proof.
  intros n z. unfold py_int10. rewrite nonempty_app_r by apply py_dec_nonempty.
  rewrite digits_zeros_dec. unfold py_dec. rewrite digits_dec_0. now rewrite DecimalN.Unsigned.of_to.
Qed.

(* ================================================================== items from text *)

Definition m1 : json := JInt (-1).

(* the AsmBytecode the two parsers build from {"name": name, "value": v} / {"name": name} *)
Definition bc_nv (p0 : bool) (name v : string) : bytecode :=
  if p0 && String.eqb name "PUSH" && String.eqb v "0"
  then mkBC m1 m1 m1 "PUSH0" None None None (Some (JStr v))
  else mkBC m1 m1 m1 name (Some (JStr v)) None None (Some (JStr v)).

Definition bc_n (name : string) : bytecode := mkBC m1 m1 m1 name None None None None.

Lemma build_nv : forall p0 name v st,
  String.eqb name "PUSHLIB" = false ->
  build_asm_bytecode p0 [("name", JStr name); ("value", JStr v)] st = Some (bc_nv p0 name v, st).
Proof.
  intros p0 name v st H. unfold build_asm_bytecode, bc_nv. cbn. rewrite H. cbn.
  destruct (p0 && String.eqb name "PUSH" && String.eqb v "0"); reflexivity.
Qed.

Lemma build_n : forall p0 name st,
  String.eqb name "PUSHLIB" = false ->
  build_asm_bytecode p0 [("name", JStr name)] st = Some (bc_n name, st).
Proof.
  intros p0 name st H. unfold build_asm_bytecode, bc_n. cbn. rewrite H. cbn.
  rewrite andb_false_r. reflexivity.
Qed.

Definition is_hexx (c : ascii) : bool := is_hex c || Ascii.eqb c "x" || Ascii.eqb c "X".

Lemma is_hex_hexx : forall s, all_chars is_hex s = true -> all_chars is_hexx s = true.
Proof.
  induction s as [|c s IH]; cbn; [reflexivity|]. intros H. apply andb_true_iff in H as [Hc Hs].
  unfold is_hexx at 1. rewrite Hc. cbn. auto.
Qed.

Lemma hexx_not_keyword : forall v, all_chars is_hexx v = true -> is_yul_keyword v = false.
Proof.
  intros v H. unfold is_yul_keyword.
  rewrite (contains_all_chars is_hexx "tag" v), (contains_all_chars is_hexx "#" v),
          (contains_all_chars is_hexx "$" v), (contains_all_chars is_hexx "data" v); auto.
Qed.

Lemma hex_not_keyword : forall v, all_chars is_hex v = true -> is_yul_keyword v = false.
Proof. intros. now apply hexx_not_keyword, is_hex_hexx. Qed.

(* side conditions under which a token is read as the name of a push with a hexadecimal
   operand (last two branches of plain_instructions_to_asm_representation) *)
Definition push_op_ok (op : string) : bool :=
  negb (prefix "ASSIGNIMMUTABLE" op) && negb (prefix "tag" op) && negb (prefix "PUSHLIB" op)
  && prefix "PUSH" op && negb (contains "DEPLOYADDRESS" op) && negb (contains "SIZE" op)
  && negb (prefix "PUSH0" op) && negb (is_pushn op).

Ltac split_andb H :=
  repeat match type of H with
         | (_ && _) = true => let H1 := fresh H in apply andb_true_iff in H as [H H1]
         end.

Ltac negb_hyps :=
  repeat match goal with
         | H : negb _ = true |- _ => apply negb_true_iff in H
         end.

Lemma p2a_push_value : forall op v rest st n,
  push_op_ok op = true -> is_yul_keyword v = false -> py_int16 v = Some n ->
  plain_to_asm (op :: v :: rest) st = ocons (item_nv op (JStr (py_hex n))) (plain_to_asm rest st).
Proof.
  intros op v rest st n Hop Hk Hv. unfold push_op_ok in Hop. split_andb Hop. negb_hyps.
  cbn [plain_to_asm]. rewrite Hop, Hop6, Hop5, Hop4, Hop3, Hop2, Hop1, Hop0, Hk, Hv. reflexivity.
Qed.

Lemma p2a_push_kw : forall op kw v rest st n,
  push_op_ok op = true -> is_yul_keyword kw = true -> py_int16 v = Some n ->
  plain_to_asm (op :: kw :: v :: rest) st
  = ocons (item_nv (op ++ " " ++ kw) (JStr (py_hex n))) (plain_to_asm rest st).
Proof.
  intros op kw v rest st n Hop Hk Hv. unfold push_op_ok in Hop. split_andb Hop. negb_hyps.
  cbn [plain_to_asm]. rewrite Hop, Hop6, Hop5, Hop4, Hop3, Hop2, Hop1, Hop0, Hk, Hv. reflexivity.
Qed.

Definition pushn_names : list string :=
  ["PUSH1"; "PUSH2"; "PUSH3"; "PUSH4"; "PUSH5"; "PUSH6"; "PUSH7"; "PUSH8"; "PUSH9"; "PUSH10";
   "PUSH11"; "PUSH12"; "PUSH13"; "PUSH14"; "PUSH15"; "PUSH16"; "PUSH17"; "PUSH18"; "PUSH19";
   "PUSH20"; "PUSH21"; "PUSH22"; "PUSH23"; "PUSH24"; "PUSH25"; "PUSH26"; "PUSH27"; "PUSH28";
   "PUSH29"; "PUSH30"; "PUSH31"; "PUSH32"].

Definition pushn_op_ok (op : string) : bool :=
  negb (prefix "ASSIGNIMMUTABLE" op) && negb (prefix "tag" op) && negb (prefix "PUSHLIB" op)
  && prefix "PUSH" op && negb (contains "DEPLOYADDRESS" op) && negb (contains "SIZE" op)
  && negb (prefix "PUSH0" op) && is_pushn op.

Lemma pushn_names_ok : forall nm, In nm pushn_names -> pushn_op_ok nm = true.
Proof.
  assert (H : forallb pushn_op_ok pushn_names = true) by (vm_compute; reflexivity).
  intros nm Hin. rewrite forallb_forall in H. auto.
Qed.

Lemma p2a_pushn_0x : forall op body rest st,
  pushn_op_ok op = true ->
  plain_to_asm (op :: ("0x" ++ body) :: rest) st = ocons (item_nv "PUSH" (JStr body)) (plain_to_asm rest st).
Proof.
  intros op body rest st Hop. unfold pushn_op_ok in Hop. split_andb Hop. negb_hyps.
  cbn [plain_to_asm]. rewrite Hop, Hop6, Hop5, Hop4, Hop3, Hop2, Hop1, Hop0.
  cbn. rewrite Nat.sub_0_r, substring_full. destruct body; reflexivity.
Qed.

Lemma p2a_pushn_dec : forall op v rest st n,
  pushn_op_ok op = true -> prefix "0x" v = false -> py_int10 v = Some n ->
  plain_to_asm (op :: v :: rest) st = ocons (item_nv "PUSH" (JStr (py_hex n))) (plain_to_asm rest st).
Proof.
  intros op v rest st n Hop Hx Hv. unfold pushn_op_ok in Hop. split_andb Hop. negb_hyps.
  cbn [plain_to_asm]. rewrite Hop, Hop6, Hop5, Hop4, Hop3, Hop2, Hop1, Hop0, Hx, Hv. reflexivity.
Qed.

(* ================================================================== const_value *)

(* The spellings of a constant c in plain text, as token lists.
   After PUSH the operand is hexadecimal (optionally 0x/0X-prefixed); after PUSH1..PUSH32 it is
   hexadecimal if it starts with 0x and decimal otherwise; PUSH0 spells 0. *)
Inductive spelling : N -> list string -> Prop :=
| sp_push_hex : forall c z up, spelling c ["PUSH"; hex_body c z up]
| sp_push_0x : forall c z up X, spelling c ["PUSH"; (if X : bool then "0X" else "0x") ++ hex_body c z up]
| sp_pushn_0x : forall nm c z up, In nm pushn_names -> spelling c [nm; "0x" ++ hex_body c z up]
| sp_pushn_dec : forall nm c z, In nm pushn_names -> spelling c [nm; zeros z ++ py_dec c]
| sp_push0 : spelling 0 ["PUSH0"].

Definition parse_tokens (p0 : bool) (toks : list string) : option (list block) :=
  match plain_to_asm toks [] with
  | Some items => build_blocks p0 "isolated" items
  | None => None
  end.

Definition value_of_tokens (p0 : bool) (toks : list string) : option N :=
  match parse_tokens p0 toks with
  | Some [b] => match b_instrs b with [bc] => bc_numeric bc | _ => None end
  | _ => None
  end.

Lemma value_of_push_item : forall p0 v c,
  py_int16 v = Some c ->
  match build_blocks p0 "isolated" [item_nv "PUSH" (JStr v)] with
  | Some [b] => match b_instrs b with [bc] => bc_numeric bc | _ => None end
  | _ => None
  end = Some c.
Proof.
  intros p0 v c Hv. unfold build_blocks, item_nv. cbn [bb_loop].
  rewrite build_nv by reflexivity. cbn [jlookup String.eqb Ascii.eqb Bool.eqb].
  unfold bc_nv. cbn [String.eqb Ascii.eqb Bool.eqb andb].
  destruct p0; cbn [andb].
  - destruct (String.eqb v "0") eqn:E.
    + cbn. apply String.eqb_eq in E. subst v. cbn in Hv. congruence.
    + cbn. exact Hv.
  - cbn. exact Hv.
Qed.

Lemma dec_no_0x : forall z c, prefix "0x" (zeros z ++ py_dec c) = false.
Proof.
  intros z c. destruct z as [|[|z]]; cbn.
  - unfold py_dec. destruct (N.to_uint c) as [|u|u|u|u|u|u|u|u|u|u]; try reflexivity.
    cbn. destruct u; reflexivity.
  - unfold py_dec. destruct (N.to_uint c); reflexivity.
  - reflexivity.
Qed.

Theorem const_value_tokens : forall p0 c toks, spelling c toks -> value_of_tokens p0 toks = Some c.
Proof.
  intros p0 c toks H. unfold value_of_tokens, parse_tokens. destruct H.
  - rewrite (p2a_push_value "PUSH" _ [] [] c); [| reflexivity | apply hex_not_keyword, hex_body_is_hex | apply py_int16_body].
    cbn [plain_to_asm ocons option_map]. apply value_of_push_item, py_int16_py_hex.
  - rewrite (p2a_push_value "PUSH" _ [] [] c); [| reflexivity | | apply py_int16_0x_body].
    + cbn [plain_to_asm ocons option_map]. apply value_of_push_item, py_int16_py_hex.
    + apply hexx_not_keyword. rewrite all_chars_app. rewrite (is_hex_hexx _ (hex_body_is_hex c z up)).
      destruct X; reflexivity.
  - rewrite p2a_pushn_0x by (now apply pushn_names_ok).
    cbn [plain_to_asm ocons option_map]. apply value_of_push_item, py_int16_body.
  - rewrite (p2a_pushn_dec nm _ [] [] c); [| now apply pushn_names_ok | apply dec_no_0x | apply py_int10_dec].
    cbn [plain_to_asm ocons option_map]. apply value_of_push_item, py_int16_py_hex.
  - destruct p0; reflexivity.
Qed.

(* ================================================================== tokenization *)

Definition no_sep (c : ascii) : bool := negb (is_sep c).
Definition token (t : string) : bool := nonempty t && all_chars no_sep t.

Lemma tokenize_aux_token : forall t rest cur,
  all_chars no_sep t = true -> tokenize_aux (t ++ rest) cur = tokenize_aux rest (cur ++ t).
Proof.
  induction t as [|a t IH]; intros rest cur H; cbn [append].
  - now rewrite append_nil_r.
  - cbn in H. apply andb_true_iff in H as [Ha Ht]. unfold no_sep in Ha. apply negb_true_iff in Ha.
    cbn [tokenize_aux]. rewrite Ha, IH by exact Ht. now rewrite append_assoc.
Qed.

Lemma tokenize_join : forall ts,
  Forall (fun t => token t = true) ts -> tokenize (join " " ts) = ts.
Proof.
  induction ts as [|t ts IH]; intros HF; [reflexivity|].
  inversion HF as [|? ? Ht HF']; subst. unfold token in Ht. apply andb_true_iff in Ht as [Hn Hc].
  destruct ts as [|t' ts'].
  - cbn [join]. unfold tokenize. pose proof (tokenize_aux_token t "" "" Hc) as E.
    rewrite append_nil_r in E. rewrite E. cbn. now rewrite Hn.
  - change (join " " (t :: t' :: ts')) with (t ++ String " " (join " " (t' :: ts'))).
    unfold tokenize. rewrite tokenize_aux_token by exact Hc. cbn [append tokenize_aux].
    change (is_sep " ") with true. cbv iota. rewrite Hn. f_equal. apply IH, HF'.
Qed.

Lemma join_app : forall sep a b, a <> [] -> b <> [] ->
  join sep (a ++ b)%list = join sep a ++ sep ++ join sep b.
Proof.
  induction a as [|x a IH]; intros b Ha Hb; [congruence|].
  destruct a as [|y a].
  - cbn [app]. destruct b; [congruence | reflexivity].
  - change (join sep ((x :: y :: a) ++ b)%list) with (x ++ sep ++ join sep ((y :: a) ++ b)%list).
    rewrite IH by (congruence || assumption).
    change (join sep (x :: y :: a)) with (x ++ sep ++ join sep (y :: a)).
    now rewrite !append_assoc.
Qed.

Lemma join_concat : forall tss, Forall (fun ts => ts <> []) tss ->
  join " " (map (join " ") tss) = join " " (List.concat tss).
Proof.
  induction tss as [|ts tss IH]; intros HF; [reflexivity|].
  inversion HF as [|? ? Hts HF']; subst. destruct tss as [|ts' tss'].
  - cbn. now rewrite app_nil_r.
  - change (join " " (map (join " ") (ts :: ts' :: tss')))
      with (join " " ts ++ " " ++ join " " (map (join " ") (ts' :: tss'))).
    rewrite IH by exact HF'.
    change (List.concat (ts :: ts' :: tss')) with (ts ++ List.concat (ts' :: tss'))%list.
    rewrite join_app; [reflexivity | exact Hts |].
    inversion HF' as [|? ? Hts' _]; subst. cbn. destruct ts'; [congruence | discriminate].
Qed.

(* ================================================================== plain_roundtrip *)

(* What the plain-text parser can produce for a tag-free block, PUSHLIB aside: *)
Inductive pitem : Type :=
| PI_op (op : string)                    (* OP                  -> {"name": OP} *)
| PI_push0                               (* PUSH0 (push0 on)    -> PUSH0 *)
| PI_assign (v : string)                 (* ASSIGNIMMUTABLE v *)
| PI_push (op : string) (n : N)          (* PUSH h / PUSHIMMUTABLE h, h canonical hexadecimal *)
| PI_pushkw (op kw : string) (n : N).    (* PUSH [tag] h / PUSH #[$] h / PUSH [$] h / PUSH data h *)

Definition pi_tokens (i : pitem) : list string :=
  match i with
  | PI_op op => [op]
  | PI_push0 => ["PUSH0"]
  | PI_assign v => ["ASSIGNIMMUTABLE"; v]
  | PI_push op n => [op; py_hex n]
  | PI_pushkw op kw n => [op; kw; py_hex n]
  end.

Definition pi_json (i : pitem) : json :=
  match i with
  | PI_op op => item_n op
  | PI_push0 => item_nv "PUSH" (JStr "0")
  | PI_assign v => item_nv "ASSIGNIMMUTABLE" (JStr v)
  | PI_push op n => item_nv op (JStr (py_hex n))
  | PI_pushkw op kw n => item_nv (op ++ " " ++ kw) (JStr (py_hex n))
  end.

Definition pi_bc (p0 : bool) (i : pitem) : bytecode :=
  match i with
  | PI_op op => bc_n op
  | PI_push0 => bc_nv p0 "PUSH" "0"
  | PI_assign v => bc_nv p0 "ASSIGNIMMUTABLE" v
  | PI_push op n => bc_nv p0 op (py_hex n)
  | PI_pushkw op kw n => bc_nv p0 (op ++ " " ++ kw) (py_hex n)
  end.

Definition pi_name (i : pitem) : string :=
  match i with
  | PI_op op => op
  | PI_push0 => "PUSH"
  | PI_assign _ => "ASSIGNIMMUTABLE"
  | PI_push op _ => op
  | PI_pushkw op kw _ => op ++ " " ++ kw
  end.

(* a name that neither ends a block nor starts one, is not renumbered, and is accepted by
   AsmBlock.add_instruction *)
Definition inner_name (nm : string) : bool :=
  negb (String.eqb nm "PUSHLIB") && negb (String.eqb nm "tag") && negb (mem_str nm final_names)
  && add_ok nm.

Definition op_ok (op : string) : bool :=
  token op && negb (prefix "ASSIGNIMMUTABLE" op) && negb (prefix "tag" op)
  && negb (prefix "PUSHLIB" op)
  && (negb (prefix "PUSH" op) || contains "DEPLOYADDRESS" op || contains "SIZE" op)
  && negb (String.eqb op "PUSHLIB") && negb (String.eqb op "tag") && add_ok op.

Definition pi_ok (p0 : bool) (i : pitem) : bool :=
  match i with
  | PI_op op => op_ok op
  | PI_push0 => p0
  | PI_assign v => token v
  | PI_push op n =>
      push_op_ok op && token op && inner_name op && negb (contains "JUMP" op)
      && negb (p0 && String.eqb op "PUSH" && N.eqb n 0)
  | PI_pushkw op kw n =>
      push_op_ok op && token op && token kw && is_yul_keyword kw
      && inner_name (op ++ " " ++ kw) && negb (contains "JUMP" (op ++ " " ++ kw))
      && negb (String.eqb (op ++ " " ++ kw) "PUSH")
  end.

Definition pi_final (i : pitem) : bool := mem_str (pi_name i) final_names.

Lemma lhex_no_sep : forall s, all_chars is_lhex s = true -> all_chars no_sep s = true.
Proof.
  induction s as [|c s IH]; cbn; [reflexivity|]. intros H. apply andb_true_iff in H as [Hc Hs].
  rewrite (IH Hs), andb_true_r. clear - Hc.
  destruct c as [[] [] [] [] [] [] [] []]; try reflexivity; discriminate Hc.
Qed.

Lemma py_hex_token : forall n, token (py_hex n) = true.
Proof. intros n. unfold token. now rewrite py_hex_nonempty, (lhex_no_sep _ (py_hex_lhex n)). Qed.

Lemma pi_tokens_ok : forall p0 i, pi_ok p0 i = true -> Forall (fun t => token t = true) (pi_tokens i).
Proof.
  intros p0 i H. destruct i; cbn in H |- *.
  - unfold op_ok in H. split_andb H. auto.
  - auto.
  - auto.
  - split_andb H. auto using py_hex_token.
  - split_andb H. auto using py_hex_token.
Qed.

Lemma pi_tokens_nonempty : forall i, pi_tokens i <> [].
Proof. destruct i; discriminate. Qed.

Lemma push_cond_false : forall p0 op n,
  negb (p0 && String.eqb op "PUSH" && N.eqb n 0) = true ->
  p0 && String.eqb op "PUSH" && String.eqb (py_hex n) "0" = false.
Proof.
  intros p0 op n H. apply negb_true_iff in H.
  destruct (String.eqb (py_hex n) "0") eqn:E; [|now rewrite andb_false_r].
  apply py_hex_zero in E. subst n. now rewrite andb_true_r in *.
Qed.

(* to_plain of the items of the class *)
Lemma pi_to_plain : forall p0 i, pi_ok p0 i = true ->
  bc_to_plain p0 (pi_bc p0 i) = Some (join " " (pi_tokens i)).
Proof.
  intros p0 i H. destruct i; cbn [pi_bc pi_tokens join] in *.
  - unfold bc_to_plain, bc_n, is_push0. cbn. now rewrite andb_false_r.
  - cbn [pi_ok] in H. subst p0. reflexivity.
  - unfold bc_nv. cbn [String.eqb Ascii.eqb Bool.eqb]. rewrite andb_false_r. cbn [andb].
    unfold bc_to_plain, is_push0. cbn. now rewrite andb_false_r.
  - cbn [pi_ok] in H. split_andb H. apply negb_true_iff in H1. pose proof (push_cond_false _ _ _ H0) as C.
    unfold bc_nv. rewrite C. unfold bc_to_plain, is_push0. cbn [bc_disasm bc_value is_zero_str].
    now rewrite C, H1.
  - cbn [pi_ok] in H. split_andb H. apply negb_true_iff in H0, H1.
    unfold bc_nv. rewrite H0, andb_false_r. cbn [andb].
    unfold bc_to_plain, is_push0. cbn [bc_disasm bc_value is_zero_str py_str].
    rewrite H0, andb_false_r, H1. cbn [andb]. now rewrite !append_assoc.
Qed.

Ltac destruct_if := match goal with |- context [if ?c then _ else _] => destruct c end.

Ltac rw_hyps :=
  repeat match goal with
         | H : ?x = true |- context [?x] => rewrite H
         | H : ?x = false |- context [?x] => rewrite H
         end.

Lemma pi_not_tag : forall p0 i, pi_ok p0 i = true ->
  negb (String.eqb (bc_disasm (pi_bc p0 i)) "tag") = true.
Proof.
  intros p0 i H. destruct i; cbn [pi_bc pi_ok] in *.
  - unfold op_ok in H. split_andb H. negb_hyps. cbn [bc_n bc_disasm]. now rw_hyps.
  - unfold bc_nv. destruct_if; reflexivity.
  - unfold bc_nv. destruct_if; reflexivity.
  - split_andb H. unfold inner_name in *.
    repeat match goal with H' : (_ && _) = true |- _ => apply andb_true_iff in H' as [? ?] end.
    negb_hyps. unfold bc_nv. destruct_if; [reflexivity | cbn [bc_disasm]; now rw_hyps].
  - split_andb H. unfold inner_name in *.
    repeat match goal with H' : (_ && _) = true |- _ => apply andb_true_iff in H' as [? ?] end.
    negb_hyps. unfold bc_nv. destruct_if; [reflexivity | cbn [bc_disasm]; now rw_hyps].
Qed.

Lemma block_to_plain_class : forall p0 its id nm tg idx,
  Forall (fun i => pi_ok p0 i = true) its ->
  block_to_plain p0 (mkBlock id nm tg (map (pi_bc p0) its) idx)
  = Some (join " " (List.concat (map pi_tokens its))).
Proof.
  intros p0 its id nm tg idx HF. unfold block_to_plain. cbn [b_instrs].
  assert (Ef : filter (fun i => negb (String.eqb (bc_disasm i) "tag")) (map (pi_bc p0) its)
               = map (pi_bc p0) its).
  { induction HF as [|i its Hi _ IH]; [reflexivity|]. cbn [map filter].
    rewrite (pi_not_tag _ _ Hi). now rewrite IH. }
  rewrite Ef. clear Ef.
  assert (Es : sequence (map (bc_to_plain p0) (map (pi_bc p0) its))
               = Some (map (join " ") (map pi_tokens its))).
  { induction HF as [|i its Hi _ IH]; [reflexivity|]. cbn [map sequence].
    rewrite (pi_to_plain _ _ Hi), IH. reflexivity. }
  rewrite Es. cbn [option_map]. f_equal. apply join_concat.
  clear. induction its; constructor; auto using pi_tokens_nonempty.
Qed.

(* reading the tokens of an item of the class *)
Ltac split_all :=
  repeat match goal with H : (_ && _) = true |- _ => apply andb_true_iff in H as [? ?] end.

Lemma p2a_item : forall p0 i rest st, pi_ok p0 i = true ->
  plain_to_asm (pi_tokens i ++ rest)%list st = ocons (pi_json i) (plain_to_asm rest st).
Proof.
  intros p0 i rest st H. destruct i; cbn [pi_tokens pi_json app pi_ok] in *.
  - unfold op_ok in H. split_all. negb_hyps. cbn [plain_to_asm]. rw_hyps. cbn [orb].
    destruct (prefix "PUSH" op), (contains "DEPLOYADDRESS" op), (contains "SIZE" op);
      try reflexivity; discriminate.
  - reflexivity.
  - reflexivity.
  - split_all. apply p2a_push_value; auto.
    + apply hex_not_keyword, is_lhex_is_hex, py_hex_lhex.
    + apply py_int16_py_hex.
  - split_all. apply p2a_push_kw; auto. apply py_int16_py_hex.
Qed.

Lemma p2a_items : forall p0 its st, Forall (fun i => pi_ok p0 i = true) its ->
  plain_to_asm (List.concat (map pi_tokens its)) st = Some (map pi_json its).
Proof.
  intros p0 its st HF. induction HF as [|i its Hi _ IH]; [reflexivity|].
  cbn [map List.concat]. rewrite (p2a_item p0) by exact Hi. now rewrite IH.
Qed.

(* block building on the items of the class *)
Lemma add_ok_bc_nv : forall p0 nm v, add_ok nm = true -> add_ok (bc_disasm (bc_nv p0 nm v)) = true.
Proof. intros. unfold bc_nv. destruct_if; [reflexivity | assumption]. Qed.

Lemma bb_step_nv : forall p0 pre nm v rest cid ctag rcur cidx nid st,
  inner_name nm = true ->
  bb_loop p0 pre (item_nv nm (JStr v) :: rest) cid ctag rcur cidx nid st
  = bb_loop p0 pre rest cid ctag (bc_nv p0 nm v :: rcur) cidx nid st.
Proof.
  intros. unfold inner_name in *. split_all. negb_hyps. unfold item_nv. cbn [bb_loop].
  rewrite build_nv by assumption. cbn [jlookup String.eqb Ascii.eqb Bool.eqb].
  rw_hyps. now rewrite add_ok_bc_nv.
Qed.

Lemma bb_step_n : forall p0 pre nm rest cid ctag rcur cidx nid st,
  inner_name nm = true ->
  bb_loop p0 pre (item_n nm :: rest) cid ctag rcur cidx nid st
  = bb_loop p0 pre rest cid ctag (bc_n nm :: rcur) cidx nid st.
Proof.
  intros. unfold inner_name in *. split_all. negb_hyps. unfold item_n. cbn [bb_loop].
  rewrite build_n by assumption. cbn [jlookup String.eqb Ascii.eqb Bool.eqb].
  rw_hyps. cbn [bc_n bc_disasm]. now rw_hyps.
Qed.

Lemma pi_inner : forall p0 i, pi_ok p0 i = true -> pi_final i = false -> inner_name (pi_name i) = true.
Proof.
  intros p0 i H Hf. destruct i; cbn [pi_name pi_ok] in *; try reflexivity.
  - unfold op_ok, inner_name, pi_final in *. cbn [pi_name] in Hf. split_all. negb_hyps. now rw_hyps.
  - split_all. assumption.
  - split_all. assumption.
Qed.

Lemma bb_step_item : forall p0 pre i rest cid ctag rcur cidx nid st,
  pi_ok p0 i = true -> pi_final i = false ->
  bb_loop p0 pre (pi_json i :: rest) cid ctag rcur cidx nid st
  = bb_loop p0 pre rest cid ctag (pi_bc p0 i :: rcur) cidx nid st.
Proof.
  intros p0 pre i rest cid ctag rcur cidx nid st H Hf. pose proof (pi_inner _ _ H Hf) as Hi.
  destruct i; cbn [pi_json pi_bc pi_name] in *; auto using bb_step_n, bb_step_nv.
Qed.

Lemma bb_steps : forall p0 pre its rest cid ctag rcur cidx nid st,
  Forall (fun i => pi_ok p0 i = true) its -> Forall (fun i => pi_final i = false) its ->
  bb_loop p0 pre (map pi_json its ++ rest)%list cid ctag rcur cidx nid st
  = bb_loop p0 pre rest cid ctag (rev (map (pi_bc p0) its) ++ rcur)%list cidx nid st.
Proof.
  intros p0 pre its. induction its as [|i its IH]; intros rest cid ctag rcur cidx nid st Ho Hf;
    [reflexivity|].
  inversion Ho; inversion Hf; subst. cbn [map app]. rewrite bb_step_item by assumption.
  rewrite IH by assumption. cbn [rev]. now rewrite <- app_assoc.
Qed.

Lemma bb_final : forall p0 pre i cid ctag rcur cidx nid st,
  pi_ok p0 i = true -> pi_final i = true ->
  bb_loop p0 pre [pi_json i] cid ctag rcur cidx nid st
  = Some [mkBlock cid (block_name pre cid) ctag (rev (pi_bc p0 i :: rcur)) cidx].
Proof.
  intros p0 pre i cid ctag rcur cidx nid st H Hf. unfold pi_final in Hf.
  destruct i; cbn [pi_name pi_ok] in *.
  - unfold op_ok in H. split_all. negb_hyps. cbn [pi_json pi_bc]. unfold item_n. cbn [bb_loop].
    rewrite build_n by assumption. cbn [jlookup String.eqb Ascii.eqb Bool.eqb].
    rw_hyps. cbn [bc_n bc_disasm]. now rw_hyps.
  - vm_compute in Hf. discriminate.
  - vm_compute in Hf. discriminate.
  - split_all. unfold inner_name in *. split_all. negb_hyps. congruence.
  - split_all. unfold inner_name in *. split_all. negb_hyps. congruence.
Qed.

(* The class of blocks: a non-empty sequence of items of the class in which only the last
   item may be a block terminator (JUMP JUMPI STOP RETURN REVERT INVALID). *)
Definition block_ok (p0 : bool) (its : list pitem) : bool :=
  match its with [] => false | _ => true end
  && forallb (pi_ok p0) its
  && forallb (fun i => negb (pi_final i)) (removelast its).

Lemma build_blocks_class : forall p0 pre its, block_ok p0 its = true ->
  option_map (map b_instrs) (build_blocks p0 pre (map pi_json its)) = Some [map (pi_bc p0) its].
Proof.
  intros p0 pre its H. unfold block_ok in H.
  apply andb_true_iff in H as [H Hnf]. apply andb_true_iff in H as [Hne Hok].
  assert (Hne' : its <> []) by (destruct its; [discriminate | congruence]). clear Hne.
  rewrite forallb_forall in Hok, Hnf.
  remember (removelast its) as ini eqn:Eini. remember (last its (PI_op "")) as l eqn:El.
  pose proof (app_removelast_last (PI_op "") Hne') as E. rewrite <- Eini, <- El in E.
  assert (Hini : Forall (fun i => pi_ok p0 i = true) ini).
  { apply Forall_forall. intros x Hx. apply Hok. rewrite E. apply in_or_app. now left. }
  assert (Hl : pi_ok p0 l = true).
  { apply Hok. rewrite E. apply in_or_app. right. now left. }
  assert (Hnf' : Forall (fun i => pi_final i = false) ini).
  { apply Forall_forall. intros x Hx. apply negb_true_iff. now apply Hnf. }
  rewrite E. unfold build_blocks. rewrite !map_app. cbn [map]. rewrite bb_steps by assumption.
  rewrite app_nil_r. destruct (pi_final l) eqn:Hfl.
  - rewrite bb_final by assumption. cbn [option_map map b_instrs rev].
    now rewrite rev_involutive.
  - rewrite bb_step_item by assumption. cbn [bb_loop]. cbn [option_map map b_instrs rev].
    now rewrite rev_involutive.
Qed.

Theorem plain_roundtrip_class : forall p0 its id nm tg idx, block_ok p0 its = true ->
  exists text,
    block_to_plain p0 (mkBlock id nm tg (map (pi_bc p0) its) idx) = Some text
    /\ parse_plain_instrs p0 text = Some [map (pi_bc p0) its].
Proof.
  intros p0 its id nm tg idx H. pose proof H as H'. unfold block_ok in H'.
  apply andb_true_iff in H' as [H' _]. apply andb_true_iff in H' as [_ Hok].
  rewrite forallb_forall in Hok.
  assert (HF : Forall (fun i => pi_ok p0 i = true) its) by now apply Forall_forall.
  eexists. split; [apply block_to_plain_class; exact HF|].
  unfold parse_plain_instrs, parse_plain. rewrite tokenize_join.
  - rewrite (p2a_items p0) by exact HF. now apply build_blocks_class.
  - clear - HF. induction HF as [|i its Hi _ IH]; cbn [map List.concat]; [constructor|].
    apply Forall_app. split; [eapply pi_tokens_ok; eassumption | assumption].
Qed.

(* ================================================================== JSON round trip *)

(* equality of JSON values up to the order of object members *)
Inductive jperm : json -> json -> Prop :=
| jp_refl : forall a, jperm a a
| jp_arr : forall xs ys, Forall2 jperm xs ys -> jperm (JArr xs) (JArr ys)
| jp_obj : forall xs ys zs,
    Forall2 (fun a b => fst a = fst b /\ jperm (snd a) (snd b)) xs ys ->
    Permutation ys zs -> jperm (JObj xs) (JObj zs).

Definition mrel (a b : string * json) : Prop := fst a = fst b /\ jperm (snd a) (snd b).

Lemma mrel_refl_list : forall l, Forall2 mrel l l.
Proof. induction l; constructor; auto. split; [reflexivity | apply jp_refl]. Qed.

Lemma jperm_obj_perm : forall xs zs, Permutation xs zs -> jperm (JObj xs) (JObj zs).
Proof. intros. eapply jp_obj; [apply mrel_refl_list | assumption]. Qed.

(* ---- the documents solc writes (combined-json asm), as a typed syntax.  jsoncpp writes
   object members in sorted key order; that is the order used here. *)

Record sitem : Type := mkSItem {
  si_begin : Z; si_end : Z;
  si_jt : option string;            (* jumpType *)
  si_md : option Z;                 (* modifierDepth *)
  si_name : string;
  si_source : Z;
  si_value : option string }.

Definition sitem_members (i : sitem) : jobj :=
  ([("begin", JInt (si_begin i)); ("end", JInt (si_end i))]
   ++ opt_field "jumpType" (option_map JStr (si_jt i))
   ++ opt_field "modifierDepth" (option_map JInt (si_md i))
   ++ [("name", JStr (si_name i)); ("source", JInt (si_source i))]
   ++ opt_field "value" (option_map JStr (si_value i)))%list.

Definition sitem_json (i : sitem) : json := JObj (sitem_members i).

Record ssub : Type := mkSSub {
  ss_aux : option string;
  ss_code : list sitem;
  ss_data : option json }.          (* nested .data: any JSON value but null *)

Inductive smember : Type :=
| SM_sub (s : ssub)
| SM_str (s : string).

Record sasm : Type := mkSAsm {
  sa_code : list sitem;
  sa_data : list (string * smember);
  sa_source_list : option json }.

Inductive scontract : Type :=
| SC_asm (a : sasm)
| SC_empty                          (* {}            (the shipped files) *)
| SC_null.                          (* {"asm": null} (solc for interfaces / abstract contracts) *)

Record sdoc : Type := mkSDoc { sd_contracts : list (string * scontract); sd_version : json }.

Definition code_json (c : list sitem) : json := JArr (map sitem_json c).

Definition ssub_json (s : ssub) : json :=
  JObj (opt_field ".auxdata" (option_map JStr (ss_aux s))
        ++ [(".code", code_json (ss_code s))]
        ++ opt_field ".data" (ss_data s))%list.

Definition smember_json (m : string * smember) : string * json :=
  match snd m with
  | SM_sub s => (fst m, ssub_json s)
  | SM_str s => (fst m, JStr s)
  end.

Definition sasm_json (a : sasm) : json :=
  JObj ([(".code", code_json (sa_code a)); (".data", JObj (map smember_json (sa_data a)))]
        ++ opt_field "sourceList" (sa_source_list a))%list.

Definition scontract_json (c : string * scontract) : string * json :=
  match snd c with
  | SC_asm a => (fst c, JObj [("asm", sasm_json a)])
  | SC_empty => (fst c, JObj [])
  | SC_null => (fst c, JObj [("asm", JNull)])
  end.

Definition sdoc_json (d : sdoc) : json :=
  JObj [("contracts", JObj (map scontract_json (sd_contracts d))); ("version", sd_version d)].

(* ---- the documented respelling: with push0 enabled, PUSH "0" is written PUSH0 (in the code
   GASOL parses: the top-level .code and the .code of the members of the top-level .data) *)

Definition sitem_spell (p0 : bool) (i : sitem) : sitem :=
  if p0 && String.eqb (si_name i) "PUSH"
     && match si_value i with Some v => String.eqb v "0" | None => false end
  then mkSItem (si_begin i) (si_end i) (si_jt i) (si_md i) "PUSH0" (si_source i) None
  else i.

Definition ssub_spell (p0 : bool) (s : ssub) : ssub :=
  mkSSub (ss_aux s) (map (sitem_spell p0) (ss_code s)) (ss_data s).

Definition smember_spell (p0 : bool) (m : string * smember) : string * smember :=
  match snd m with
  | SM_sub s => (fst m, SM_sub (ssub_spell p0 s))
  | SM_str _ => m
  end.

Definition sasm_spell (p0 : bool) (a : sasm) : sasm :=
  mkSAsm (map (sitem_spell p0) (sa_code a)) (map (smember_spell p0) (sa_data a)) (sa_source_list a).

Definition scontract_spell (p0 : bool) (c : string * scontract) : string * scontract :=
  match snd c with
  | SC_asm a => (fst c, SC_asm (sasm_spell p0 a))
  | _ => c
  end.

Definition sdoc_spell (p0 : bool) (d : sdoc) : sdoc :=
  mkSDoc (map (scontract_spell p0) (sd_contracts d)) (sd_version d).

(* ---- well-formedness (boolean) *)

Definition sitem_ok (i : sitem) : bool :=
  add_ok (si_name i)
  && (if String.eqb (si_name i) "PUSHLIB" || String.eqb (si_name i) "tag"
      then match si_value i with Some _ => true | None => false end else true).

Definition not_null (o : option json) : bool :=
  match o with Some JNull => false | _ => true end.

Definition ssub_ok (s : ssub) : bool := forallb sitem_ok (ss_code s) && not_null (ss_data s).

Definition smember_ok (m : string * smember) : bool :=
  match snd m with SM_sub s => ssub_ok s | SM_str _ => true end.

Fixpoint nodup_keys (l : list string) : bool :=
  match l with [] => true | k :: l' => negb (mem_str k l') && nodup_keys l' end.

Definition sasm_ok (a : sasm) : bool :=
  forallb sitem_ok (sa_code a) && forallb smember_ok (sa_data a) && not_null (sa_source_list a)
  && nodup_keys (map fst (sa_data a)).

(* kn = false (the pinned tree): no contract may be written {"asm": null} *)
Definition scontract_ok (kn : bool) (c : string * scontract) : bool :=
  match snd c with SC_asm a => sasm_ok a | SC_empty => true | SC_null => kn end.

Definition sdoc_ok (kn : bool) (d : sdoc) : bool :=
  forallb (scontract_ok kn) (sd_contracts d) && nodup_keys (map fst (sd_contracts d)).

(* the boolean predicate on JSON documents: D is the rendering of a well-formed typed document
   (decided by the harness-independent recognizer below only through the typed syntax) *)
Definition solc_shaped (kn : bool) (D : json) : Prop := exists d, sdoc_ok kn d = true /\ D = sdoc_json d.

(* ---- items *)

Definition bc_of_sitem (p0 : bool) (i : sitem) (st : list json) : bytecode * list json :=
  let b := JInt (si_begin i) in let e := JInt (si_end i) in let s := JInt (si_source i) in
  let jt := option_map JStr (si_jt i) in let md := option_map JInt (si_md i) in
  let v := option_map JStr (si_value i) in
  if String.eqb (si_name i) "PUSHLIB" then
    match si_value i with
    | Some lib =>
        let st' := match index_of (JStr lib) st with Some _ => st | None => (st ++ [JStr lib])%list end in
        match index_of (JStr lib) st' with
        | Some k => (mkBC b e s (si_name i) (Some (JInt (Z.of_nat k))) jt md (Some (JStr lib)), st')
        | None => (mkBC b e s (si_name i) None jt md None, st)
        end
    | None => (mkBC b e s (si_name i) None jt md None, st)
    end
  else if p0 && String.eqb (si_name i) "PUSH" && is_zero_str v
       then (mkBC b e s "PUSH0" None jt md v, st)
       else (mkBC b e s (si_name i) v jt md v, st).

Lemma index_of_app_self : forall v st, json_eqb v v = true ->
  index_of v (st ++ [v])%list <> None.
Proof.
  intros v st Hv. induction st as [|x st IH]; cbn.
  - now rewrite Hv.
  - destruct (json_eqb v x); [discriminate|]. destruct (index_of v (st ++ [v])%list); [discriminate | congruence].
Qed.

Lemma sitem_lookup_name : forall i, jlookup "name" (sitem_members i) = Some (JStr (si_name i)).
Proof. intros [b e [jt|] [md|] nm s [v|]]; reflexivity. Qed.

Lemma sitem_lookup_value : forall i, jlookup "value" (sitem_members i) = option_map JStr (si_value i).
Proof. intros [b e [jt|] [md|] nm s [v|]]; reflexivity. Qed.

Lemma build_sitem : forall p0 i st, sitem_ok i = true ->
  build_asm_bytecode p0 (sitem_members i) st = Some (bc_of_sitem p0 i st).
Proof.
  intros p0 i st H. unfold sitem_ok in H. apply andb_true_iff in H as [_ H].
  unfold build_asm_bytecode. rewrite sitem_lookup_name, sitem_lookup_value. unfold bc_of_sitem.
  destruct i as [b e jt md nm s v]; cbn [si_begin si_end si_jt si_md si_name si_source si_value] in *.
  destruct (String.eqb nm "PUSHLIB") eqn:El.
  - cbn [orb] in H. destruct v as [lib|]; [|discriminate]. cbn [option_map hashable].
    assert (Hne : index_of (JStr lib)
              (match index_of (JStr lib) st with Some _ => st | None => (st ++ [JStr lib])%list end) <> None).
    { destruct (index_of (JStr lib) st) eqn:E; [congruence|]. apply index_of_app_self. cbn. apply String.eqb_refl. }
    destruct (index_of (JStr lib) _) eqn:E2; [|congruence].
    destruct jt, md; reflexivity.
  - destruct jt, md, v; cbn; destruct (p0 && _ && _); reflexivity.
Qed.

Lemma bc_of_sitem_disasm_ok : forall p0 i st, sitem_ok i = true ->
  add_ok (bc_disasm (fst (bc_of_sitem p0 i st))) = true.
Proof.
  intros p0 i st H. unfold sitem_ok in H. apply andb_true_iff in H as [H _]. unfold bc_of_sitem.
  destruct (String.eqb (si_name i) "PUSHLIB").
  - destruct (si_value i); [|exact H]. destruct (index_of _ _); exact H.
  - destruct (p0 && _ && _); [reflexivity | exact H].
Qed.

(* to_json of the parsed item = the item, up to member order and the PUSH0 spelling *)
Lemma sitem_roundtrip : forall p0 i st, sitem_ok i = true ->
  jperm (bc_to_json (fst (bc_of_sitem p0 i st))) (sitem_json (sitem_spell p0 i)).
Proof.
  intros p0 i st H. unfold sitem_ok in H. apply andb_true_iff in H as [_ H].
  destruct i as [b e jt md nm s v]; cbn [si_name si_value] in H.
  unfold bc_of_sitem, sitem_spell, sitem_json, sitem_members, bc_to_json.
  cbn [si_begin si_end si_jt si_md si_name si_source si_value].
  set (J := opt_field "jumpType" (option_map JStr jt)).
  set (M := opt_field "modifierDepth" (option_map JInt md)).
  assert (P : forall NS V : jobj,
    Permutation ([("begin", JInt b); ("end", JInt e)] ++ (NS ++ V) ++ J ++ M)%list
                ([("begin", JInt b); ("end", JInt e)] ++ J ++ M ++ NS ++ V)%list).
  { intros NS V. apply Permutation_app_head. rewrite (app_assoc J M). apply Permutation_app_comm. }
  destruct (String.eqb nm "PUSHLIB") eqn:El.
  - cbn [orb] in H. destruct v as [lib|]; [|discriminate].
    assert (E : p0 && String.eqb nm "PUSH" && String.eqb lib "0" = false).
    { apply String.eqb_eq in El. subst nm. cbn. now rewrite andb_false_r. }
    cbn [option_map]. rewrite E.
    destruct (index_of (JStr lib) _) eqn:E2.
    + cbn [fst bc_begin bc_end bc_source bc_disasm bc_value bc_real_value bc_jump_type bc_mod_depth jopt
           si_begin si_end si_jt si_md si_name si_source si_value option_map].
      fold J. fold M. apply jperm_obj_perm.
      exact (P [("name", JStr nm); ("source", JInt s)] (opt_field "value" (Some (JStr lib)))).
    + exfalso. revert E2. destruct (index_of (JStr lib) st) eqn:E3; [congruence|].
      apply index_of_app_self. cbn. apply String.eqb_refl.
  - destruct v as [v|]; cbn [option_map is_zero_str].
    + destruct (p0 && String.eqb nm "PUSH" && String.eqb v "0").
      * cbn [fst bc_begin bc_end bc_source bc_disasm bc_value bc_real_value bc_jump_type bc_mod_depth jopt
             si_begin si_end si_jt si_md si_name si_source si_value option_map].
        fold J. fold M. apply jperm_obj_perm.
        exact (P [("name", JStr "PUSH0"); ("source", JInt s)] []).
      * cbn [fst bc_begin bc_end bc_source bc_disasm bc_value bc_real_value bc_jump_type bc_mod_depth jopt
             si_begin si_end si_jt si_md si_name si_source si_value option_map].
        fold J. fold M. apply jperm_obj_perm.
        exact (P [("name", JStr nm); ("source", JInt s)] (opt_field "value" (Some (JStr v)))).
    + rewrite !andb_false_r.
      cbn [fst bc_begin bc_end bc_source bc_disasm bc_value bc_real_value bc_jump_type bc_mod_depth jopt
           si_begin si_end si_jt si_md si_name si_source si_value option_map].
      fold J. fold M. apply jperm_obj_perm.
      exact (P [("name", JStr nm); ("source", JInt s)] []).
Qed.

(* ---- code lists: splitting into blocks and flattening back loses nothing *)

Lemma F2_refl : forall l, Forall2 jperm l l.
Proof. induction l; constructor; auto using jp_refl. Qed.

Lemma F2_mid : forall A x y B B', jperm x y -> Forall2 jperm B B' ->
  Forall2 jperm (A ++ x :: B)%list (A ++ y :: B')%list.
Proof. intros. apply Forall2_app; [apply F2_refl | constructor; assumption]. Qed.

Lemma bb_flat : forall p0 pre its cid ctag rcur cidx nid st R,
  forallb sitem_ok its = true ->
  Forall2 jperm (map bc_to_json (rev rcur)) R ->
  exists bs,
    bb_loop p0 pre (map sitem_json its) cid ctag rcur cidx nid st = Some bs
    /\ Forall2 jperm (blocks_to_json bs) (R ++ map sitem_json (map (sitem_spell p0) its))%list.
Proof.
  intros p0 pre its. induction its as [|i its IH]; intros cid ctag rcur cidx nid st R Hok HR.
  - cbn [map bb_loop]. destruct rcur as [|r rcur].
    + inversion HR; subst. exists []. split; [reflexivity | constructor].
    + eexists. split; [reflexivity|]. cbn [blocks_to_json flat_map block_to_json b_instrs].
      rewrite !app_nil_r. exact HR.
  - cbn [forallb] in Hok. apply andb_true_iff in Hok as [Hi Hok].
    cbn [map]. unfold sitem_json at 1. cbn [bb_loop].
    rewrite build_sitem by exact Hi. pose proof (bc_of_sitem_disasm_ok p0 i st Hi) as Hadd.
    pose proof (sitem_roundtrip p0 i st Hi) as Hrt.
    destruct (bc_of_sitem p0 i st) as [bc st'] eqn:Eb. cbn [fst] in Hadd, Hrt.
    rewrite sitem_lookup_name.
    assert (Hsnoc : Forall2 jperm (map bc_to_json (rev (bc :: rcur)))
                      (R ++ [sitem_json (sitem_spell p0 i)])%list).
    { cbn [rev]. rewrite map_app. apply Forall2_app; [exact HR | repeat constructor; exact Hrt]. }
    assert (Hone : Forall2 jperm (map bc_to_json (rev [bc])) [sitem_json (sitem_spell p0 i)]).
    { repeat constructor. exact Hrt. }
    destruct (mem_str (si_name i) final_names) eqn:Ef.
    + rewrite Hadd.
      destruct (IH nid (JInt (-1)) [] (Some st') (S nid) [] [] Hok (Forall2_nil _)) as [bs [E F]].
      rewrite E. eexists. split; [reflexivity|].
      cbn [blocks_to_json flat_map block_to_json b_instrs]. fold (blocks_to_json bs).
      replace (R ++ sitem_json (sitem_spell p0 i) :: map sitem_json (map (sitem_spell p0) its))%list
        with ((R ++ [sitem_json (sitem_spell p0 i)]) ++ map sitem_json (map (sitem_spell p0) its))%list
        by (now rewrite <- app_assoc).
      apply Forall2_app; [exact Hsnoc | exact F].
    + destruct (String.eqb (si_name i) "tag") eqn:Et.
      * rewrite sitem_lookup_value. unfold sitem_ok in Hi. apply andb_true_iff in Hi as [_ Hv].
        rewrite Et, orb_true_r in Hv. destruct (si_value i) as [tv|]; [|discriminate].
        cbn [option_map]. destruct rcur as [|r rcur].
        -- inversion HR; subst.
           destruct (IH cid (JStr tv) [bc] cidx nid st' _ Hok Hone) as [bs [E F]].
           rewrite E. eexists. split; [reflexivity|]. exact F.
        -- destruct (IH nid (JStr tv) [bc] (Some st') (S nid) [] _ Hok Hone) as [bs [E F]].
           rewrite E. eexists. split; [reflexivity|].
           cbn [blocks_to_json flat_map block_to_json b_instrs]. fold (blocks_to_json bs).
           apply Forall2_app; [exact HR | exact F].
      * rewrite Hadd. destruct (IH cid ctag (bc :: rcur) cidx nid st' _ Hok Hsnoc) as [bs [E F]].
        rewrite E. eexists. split; [reflexivity|]. rewrite <- app_assoc in F. exact F.
Qed.

Lemma build_blocks_roundtrip : forall p0 pre its, forallb sitem_ok its = true ->
  exists bs, build_blocks p0 pre (map sitem_json its) = Some bs
    /\ jperm (JArr (blocks_to_json bs)) (code_json (map (sitem_spell p0) its)).
Proof.
  intros p0 pre its H. unfold build_blocks.
  destruct (bb_flat p0 pre its 0%nat (JInt (-1)) [] None 1%nat [] [] H (Forall2_nil _)) as [bs [E F]].
  exists bs. split; [exact E|]. apply jp_arr. exact F.
Qed.

(* ---- sub-assemblies, .data, contracts, documents *)

Lemma ssub_lookup_code : forall s, jlookup ".code" match ssub_json s with JObj m => m | _ => [] end
  = Some (JArr (map sitem_json (ss_code s))).
Proof. intros [[a|] c [d|]]; reflexivity. Qed.

Lemma ssub_get_aux : forall s, py_get ".auxdata" match ssub_json s with JObj m => m | _ => [] end
  = option_map JStr (ss_aux s).
Proof. intros [[a|] c [d|]]; reflexivity. Qed.

Lemma ssub_get_data : forall s, not_null (ss_data s) = true ->
  py_get ".data" match ssub_json s with JObj m => m | _ => [] end = ss_data s.
Proof. intros [[a|] c [[]|]] H; try reflexivity; discriminate H. Qed.

Lemma build_data_roundtrip : forall p0 sc ms, forallb smember_ok ms = true ->
  exists ds ads Y,
    build_data p0 sc (map smember_json ms) = Some (ds, ads)
    /\ Forall2 mrel (map (fun kd => (fst kd, data_to_json (snd kd))) ds ++ ads)%list Y
    /\ Permutation Y (map smember_json (map (smember_spell p0) ms)).
Proof.
  intros p0 sc ms. induction ms as [|[k m] ms IH]; intros Hok.
  - exists [], [], []. repeat split; constructor.
  - cbn [forallb] in Hok. apply andb_true_iff in Hok as [Hm Hok].
    destruct (IH Hok) as [ds [ads [Y [E [F P]]]]]. destruct m as [s|str].
    + unfold smember_ok in Hm. cbn [snd] in Hm. unfold ssub_ok in Hm. apply andb_true_iff in Hm as [Hc Hd].
      destruct (build_blocks_roundtrip p0 (sc ++ "_run_code_of_" ++ k) (ss_code s) Hc) as [bs [Eb Jb]].
      cbn [map]. unfold smember_json at 1. cbn [snd fst]. unfold ssub_json at 1. cbn [build_data].
      pose proof (ssub_lookup_code s) as L1. pose proof (ssub_get_aux s) as L2.
      pose proof (ssub_get_data s Hd) as L3. unfold ssub_json in L1, L2, L3. rewrite L1, Eb, E, L2, L3.
      eexists _, _, ((k, ssub_json (ssub_spell p0 s)) :: Y). split; [reflexivity|]. split.
      * cbn [map app fst snd]. constructor; [|exact F]. split; [reflexivity|].
        cbn [snd]. unfold data_to_json, ssub_json, ssub_spell. cbn [d_aux d_code d_data ss_aux ss_code ss_data].
        eapply jp_obj; [|apply Permutation_refl].
        apply Forall2_app; [apply mrel_refl_list|].
        constructor; [|apply mrel_refl_list]. split; [reflexivity | exact Jb].
      * cbn [map]. unfold smember_spell at 1, smember_json at 1. cbn [snd fst].
        apply perm_skip. exact P.
    + cbn [map]. unfold smember_json at 1. cbn [snd fst build_data]. rewrite E.
      apply Forall2_app_inv_l in F as [Y1 [Y2 [F1 [F2 EY]]]]. subst Y.
      exists ds, ((k, JStr str) :: ads), (Y1 ++ (k, JStr str) :: Y2)%list.
      split; [reflexivity|]. split.
      * apply Forall2_app; [exact F1|]. constructor; [|exact F2]. split; [reflexivity | apply jp_refl].
      * cbn [map]. unfold smember_spell at 1, smember_json at 1. cbn [snd fst].
        apply Permutation_sym, Permutation_cons_app, Permutation_sym. exact P.
Qed.

Lemma build_asm_contract_roundtrip : forall p0 cname a, sasm_ok a = true ->
  exists c,
    build_asm_contract p0 cname match sasm_json a with JObj m => m | _ => [] end = Some c
    /\ c_name c = cname /\ c_has_asm c = true
    /\ jperm (contract_to_asm_json c) (sasm_json (sasm_spell p0 a)).
Proof.
  intros p0 cname a H. unfold sasm_ok in H.
  apply andb_true_iff in H as [H _]. apply andb_true_iff in H as [H Hsl]. apply andb_true_iff in H as [Hc Hd].
  destruct (build_blocks_roundtrip p0 (simplified_cname cname ++ "_initial") (sa_code a) Hc) as [bs [Eb Jb]].
  destruct (build_data_roundtrip p0 (simplified_cname cname) (sa_data a) Hd) as [ds [ads [Y [Ed [F P]]]]].
  assert (Esl : py_get "sourceList" match sasm_json a with JObj m => m | _ => [] end = sa_source_list a).
  { unfold sasm_json. destruct (sa_source_list a) as [[]|]; try reflexivity; discriminate Hsl. }
  unfold build_asm_contract. rewrite Esl. unfold sasm_json, code_json.
  cbn [app jlookup String.eqb Ascii.eqb Bool.eqb]. rewrite Eb, Ed.
  eexists. split; [reflexivity|]. split; [reflexivity|]. split; [reflexivity|].
  unfold contract_to_asm_json, sasm_spell. cbn [c_init c_source_list c_data c_addr sa_code sa_data sa_source_list].
  eapply jp_obj with (ys := ([(".code", code_json (map (sitem_spell p0) (sa_code a)))]
                             ++ opt_field "sourceList" (sa_source_list a)
                             ++ [(".data", JObj (map smember_json (map (smember_spell p0) (sa_data a))))])%list).
  - apply Forall2_app; [constructor; [split; [reflexivity | exact Jb] | constructor]|].
    apply Forall2_app; [apply mrel_refl_list|].
    constructor; [|constructor]. split; [reflexivity|]. eapply jp_obj; eassumption.
  - cbn [app]. apply perm_skip.
    change ((".data", JObj (map smember_json (map (smember_spell p0) (sa_data a)))) :: opt_field "sourceList" (sa_source_list a))
      with ([(".data", JObj (map smember_json (map (smember_spell p0) (sa_data a))))] ++ opt_field "sourceList" (sa_source_list a))%list.
    apply Permutation_app_comm.
Qed.

Lemma build_contracts_roundtrip : forall p0 kn cs, forallb (scontract_ok kn) cs = true ->
  exists cs',
    build_contracts p0 kn (map scontract_json cs) = Some cs'
    /\ Forall2 mrel (map contract_to_member cs') (map scontract_json (map (scontract_spell p0) cs)).
Proof.
  intros p0 kn cs. induction cs as [|[k c] cs IH]; intros Hok.
  - exists []. split; [reflexivity | constructor].
  - cbn [forallb] in Hok. apply andb_true_iff in Hok as [Hc Hok].
    destruct (IH Hok) as [cs' [E F]]. destruct c as [a| |].
    + unfold scontract_ok in Hc. cbn [snd] in Hc.
      destruct (build_asm_contract_roundtrip p0 k a Hc) as [c [Ec [En [Eh J]]]].
      cbn [map]. unfold scontract_json at 1. cbn [snd fst build_contracts].
      unfold py_get. cbn [jlookup String.eqb Ascii.eqb Bool.eqb].
      unfold sasm_json in Ec |- *. rewrite Ec, E. eexists. split; [reflexivity|].
      cbn [map]. constructor; [|exact F].
      unfold contract_to_member. rewrite Eh, En. unfold scontract_spell, scontract_json. cbn [snd fst].
      split; [reflexivity|]. eapply jp_obj; [|apply Permutation_refl].
      constructor; [|constructor]. split; [reflexivity | exact J].
    + cbn [map]. unfold scontract_json at 1. cbn [snd fst build_contracts].
      unfold py_get. cbn [jlookup]. rewrite andb_false_r, E. eexists. split; [reflexivity|].
      cbn [map]. constructor; [|exact F]. split; [reflexivity | apply jp_refl].
    + unfold scontract_ok in Hc. cbn [snd] in Hc. subst kn.
      cbn [map]. unfold scontract_json at 1. cbn [snd fst build_contracts].
      unfold py_get. cbn [jlookup String.eqb Ascii.eqb Bool.eqb andb]. rewrite E.
      eexists. split; [reflexivity|].
      cbn [map]. constructor; [|exact F]. split; [reflexivity | apply jp_refl].
Qed.

(* json_roundtrip on the typed syntax *)
Theorem json_roundtrip_typed : forall p0 kn d, sdoc_ok kn d = true ->
  exists out,
    roundtrip_doc p0 kn (sdoc_json d) = Some out
    /\ jperm out (sdoc_json (sdoc_spell p0 d)).
Proof.
  intros p0 kn d H. unfold sdoc_ok in H. apply andb_true_iff in H as [H _].
  destruct (build_contracts_roundtrip p0 kn (sd_contracts d) H) as [cs' [E F]].
  unfold roundtrip_doc, parse_doc, sdoc_json. cbn [jlookup String.eqb Ascii.eqb Bool.eqb].
  rewrite E. cbn [option_map]. eexists. split; [reflexivity|].
  unfold doc_to_json, sdoc_spell. cbn [aj_version aj_contracts sd_contracts sd_version].
  eapply jp_obj with (ys := [("version", sd_version d);
                             ("contracts", JObj (map scontract_json (map (scontract_spell p0) (sd_contracts d))))]).
  - constructor; [split; [reflexivity | apply jp_refl]|].
    constructor; [|constructor]. split; [reflexivity|].
    eapply jp_obj; [exact F | apply Permutation_refl].
  - apply perm_swap.
Qed.

Theorem json_roundtrip_shaped : forall p0 kn D, solc_shaped kn D ->
  exists out d,
    D = sdoc_json d /\ roundtrip_doc p0 kn D = Some out /\ jperm out (sdoc_json (sdoc_spell p0 d)).
Proof.
  intros p0 kn D [d [Hok ->]]. destruct (json_roundtrip_typed p0 kn d Hok) as [out [E J]].
  exists out, d. auto.
Qed.

(* with push0 disabled nothing is respelled *)
Lemma sdoc_spell_false : forall d, sdoc_spell false d = d.
Proof.
  assert (Hi : forall l, map (sitem_spell false) l = l).
  { induction l as [|i l IH]; cbn; [reflexivity|]. now rewrite IH. }
  assert (Hm : forall l, map (smember_spell false) l = l).
  { induction l as [|[k [s|s]] l IH]; cbn [map]; [reflexivity| |]; rewrite IH; [|reflexivity].
    unfold smember_spell, ssub_spell. cbn [snd fst]. rewrite Hi. now destruct s. }
  assert (Hc : forall l, map (scontract_spell false) l = l).
  { induction l as [|[k [a| |]] l IH]; cbn [map]; [reflexivity| | |]; rewrite IH; try reflexivity.
    unfold scontract_spell, sasm_spell. cbn [snd fst]. rewrite Hi, Hm. now destruct a. }
  intros [cs v]. unfold sdoc_spell. cbn. now rewrite Hc.
Qed.

(* ================================================================== boolean recognizer of solc_shaped *)

Lemma json_eqb_sound : forall a b, json_eqb a b = true -> a = b.
Proof.
  fix IH 1. intros a b. destruct a as [|x|x|x|l|m], b as [|y|y|y|l'|m']; cbn; intros H;
    try discriminate; try reflexivity.
  - f_equal. now apply Bool.eqb_prop.
  - f_equal. now apply Z.eqb_eq.
  - f_equal. now apply String.eqb_eq.
  - f_equal. revert l' H. induction l as [|x xs IHl]; intros [|y ys] H; try discriminate; try reflexivity.
    apply andb_true_iff in H as [H1 H2]. f_equal; [apply IH; exact H1 | apply IHl; exact H2].
  - f_equal. revert m' H. induction m as [|[k x] xs IHl]; intros [|[k' y] ys] H; try discriminate; try reflexivity.
    apply andb_true_iff in H as [H1 H2]. apply andb_true_iff in H1 as [H0 H1].
    apply String.eqb_eq in H0. subst k'. f_equal; [f_equal; apply IH; exact H1 | apply IHl; exact H2].
Qed.

Definition view_item (j : json) : option sitem :=
  match j with
  | JObj m =>
      match jlookup "begin" m, jlookup "end" m, jlookup "name" m, jlookup "source" m with
      | Some (JInt b), Some (JInt e), Some (JStr nm), Some (JInt s) =>
          Some (mkSItem b e
                  (match jlookup "jumpType" m with Some (JStr x) => Some x | _ => None end)
                  (match jlookup "modifierDepth" m with Some (JInt x) => Some x | _ => None end)
                  nm s
                  (match jlookup "value" m with Some (JStr x) => Some x | _ => None end))
      | _, _, _, _ => None
      end
  | _ => None
  end.

Definition view_code (j : json) : option (list sitem) :=
  match j with JArr l => sequence (map view_item l) | _ => None end.

Definition view_sub (m : jobj) : option ssub :=
  match jlookup ".code" m with
  | Some c =>
      match view_code c with
      | Some code =>
          Some (mkSSub (match jlookup ".auxdata" m with Some (JStr x) => Some x | _ => None end)
                       code (jlookup ".data" m))
      | None => None
      end
  | None => None
  end.

Definition view_member (kv : string * json) : option (string * smember) :=
  match snd kv with
  | JStr s => Some (fst kv, SM_str s)
  | JObj m => option_map (fun s => (fst kv, SM_sub s)) (view_sub m)
  | _ => None
  end.

Definition view_asm (m : jobj) : option sasm :=
  match jlookup ".code" m, jlookup ".data" m with
  | Some c, Some (JObj dm) =>
      match view_code c, sequence (map view_member dm) with
      | Some code, Some data => Some (mkSAsm code data (jlookup "sourceList" m))
      | _, _ => None
      end
  | _, _ => None
  end.

Definition view_contract (kv : string * json) : option (string * scontract) :=
  match snd kv with
  | JObj [] => Some (fst kv, SC_empty)
  | JObj [(_, JNull)] => Some (fst kv, SC_null)
  | JObj [(_, JObj m)] => option_map (fun a => (fst kv, SC_asm a)) (view_asm m)
  | _ => None
  end.

Definition view_doc (D : json) : option sdoc :=
  match D with
  | JObj top =>
      match jlookup "contracts" top, jlookup "version" top with
      | Some (JObj cs), Some v => option_map (fun l => mkSDoc l v) (sequence (map view_contract cs))
      | _, _ => None
      end
  | _ => None
  end.

(* the boolean predicate: D reads as a typed document, that document is well formed, and
   rendering it gives back exactly D (so no field is dropped and members are in jsoncpp order) *)
Definition solc_shaped_b (kn : bool) (D : json) : bool :=
  match view_doc D with
  | Some d => sdoc_ok kn d && json_eqb (sdoc_json d) D
  | None => false
  end.

Lemma solc_shaped_b_sound : forall kn D, solc_shaped_b kn D = true -> solc_shaped kn D.
Proof.
  intros kn D H. unfold solc_shaped_b in H. destruct (view_doc D) as [d|]; [|discriminate].
  apply andb_true_iff in H as [Hok He]. exists d. split; [exact Hok|].
  symmetry. now apply json_eqb_sound.
Qed.

Theorem json_roundtrip_b : forall p0 kn D, solc_shaped_b kn D = true ->
  exists out d,
    D = sdoc_json d /\ roundtrip_doc p0 kn D = Some out /\ jperm out (sdoc_json (sdoc_spell p0 d)).
Proof. intros. now apply json_roundtrip_shaped, solc_shaped_b_sound. Qed.

Corollary json_roundtrip_no_push0 : forall kn D, solc_shaped_b kn D = true ->
  exists out, roundtrip_doc false kn D = Some out /\ jperm out D.
Proof.
  intros kn D H. destruct (json_roundtrip_b false kn D H) as [out [d [E [R J]]]].
  exists out. split; [exact R|]. now rewrite sdoc_spell_false, <- E in J.
Qed.

(* ================================================================== refutations (witnesses) *)

Lemma jperm_obj_inv : forall xs zs, jperm (JObj xs) (JObj zs) ->
  exists ys, Forall2 mrel xs ys /\ Permutation ys zs.
Proof.
  intros xs zs H. inversion H; subst.
  - exists zs. split; [apply mrel_refl_list | apply Permutation_refl].
  - eexists. split; eassumption.
Qed.

Lemma jperm_obj_length : forall xs zs, jperm (JObj xs) (JObj zs) -> List.length xs = List.length zs.
Proof.
  intros xs zs H. destruct (jperm_obj_inv _ _ H) as [ys [F P]].
  rewrite <- (Permutation_length P). clear P H. induction F as [|? ? ? ? _ _ IH]; [reflexivity | cbn [List.length]; now rewrite IH].
Qed.

Lemma jperm_obj_member : forall xs zs k v, jperm (JObj xs) (JObj zs) -> In (k, v) xs ->
  exists v', In (k, v') zs /\ jperm v v'.
Proof.
  intros xs zs k v H Hin. destruct (jperm_obj_inv _ _ H) as [ys [F P]].
  assert (E : exists y, In y ys /\ mrel (k, v) y).
  { clear - F Hin. induction F as [|x y xs ys Hxy _ IH]; [contradiction|].
    destruct Hin as [->|Hin]; [exists y; split; [now left | exact Hxy]|].
    destruct (IH Hin) as [y' [Hy' R]]. exists y'. split; [now right | exact R]. }
  destruct E as [[k' v'] [Hy [Hk Hj]]]. cbn in Hk, Hj. subst k'.
  exists v'. split; [eapply Permutation_in; eassumption | exact Hj].
Qed.

(* (1) an item without "source" (or begin/end) gets -1 written back: not a solc-shaped item *)
Definition wit_item_no_source : jobj := [("begin", JInt 1); ("end", JInt 2); ("name", JStr "ADD")].

Lemma item_roundtrip_refuted_missing_source :
  exists bc, build_asm_bytecode false wit_item_no_source [] = Some (bc, [])
             /\ bc_to_json bc = JObj [("begin", JInt 1); ("end", JInt 2); ("name", JStr "ADD"); ("source", JInt (-1))]
             /\ ~ jperm (bc_to_json bc) (JObj wit_item_no_source).
Proof.
  eexists. split; [reflexivity|]. split; [reflexivity|].
  intros H. apply jperm_obj_length in H. discriminate H.
Qed.

(* (2) the pinned tree (kn = false) writes {"asm": null} back as {} *)
Definition wit_doc_null_asm : json :=
  JObj [("contracts", JObj [("I.sol:I", JObj [("asm", JNull)])]); ("version", JStr "0.8.17")].

Lemma json_roundtrip_refuted_null_asm :
  solc_shaped_b true wit_doc_null_asm = true
  /\ exists out, roundtrip_doc false false wit_doc_null_asm = Some out
                 /\ out = JObj [("version", JStr "0.8.17"); ("contracts", JObj [("I.sol:I", JObj [])])]
                 /\ ~ jperm out wit_doc_null_asm.
Proof.
  split; [vm_compute; reflexivity|]. eexists. split; [vm_compute; reflexivity|]. split; [reflexivity|].
  intros H.
  destruct (jperm_obj_member _ _ "contracts" _ H (or_intror (or_introl eq_refl))) as [v' [Hin J]].
  destruct Hin as [E|[E|[]]]; inversion E; subst v'.
  destruct (jperm_obj_member _ _ "I.sol:I" _ J (or_introl eq_refl)) as [v'' [Hin' J']].
  destruct Hin' as [E'|[]]; inversion E'; subst v''.
  apply jperm_obj_length in J'. discriminate J'.
Qed.

(* with the proposed patch (kn = true) the same document round-trips *)
Lemma null_asm_roundtrip_with_patch :
  exists out, roundtrip_doc false true wit_doc_null_asm = Some out /\ jperm out wit_doc_null_asm.
Proof. apply json_roundtrip_no_push0. vm_compute. reflexivity. Qed.

(* (3) plain text: tags are not printed; constants are normalised (leading zeros, upper case) *)
Definition plain_rt_fails (p0 : bool) (text : string) : Prop :=
  exists bcs t',
    parse_plain_instrs p0 text = Some [bcs]
    /\ block_to_plain p0 (mkBlock 0 "" m1 bcs None) = Some t'
    /\ parse_plain_instrs p0 t' <> Some [bcs].

Lemma plain_roundtrip_refuted_tag : plain_rt_fails false "tag 1 JUMPDEST".
Proof.
  eexists _, _. split; [vm_compute; reflexivity|]. split; [vm_compute; reflexivity|].
  vm_compute. discriminate.
Qed.

Lemma plain_roundtrip_refuted_leading_zero : plain_rt_fails false "PUSH1 0x00".
Proof.
  eexists _, _. split; [vm_compute; reflexivity|]. split; [vm_compute; reflexivity|].
  vm_compute. discriminate.
Qed.

Lemma plain_roundtrip_refuted_uppercase : plain_rt_fails false "PUSH1 0xFF".
Proof.
  eexists _, _. split; [vm_compute; reflexivity|]. split; [vm_compute; reflexivity|].
  vm_compute. discriminate.
Qed.

(* ... but the numeric value survives in both cases *)
Lemma plain_roundtrip_value_kept :
  value_of_tokens false (tokenize "PUSH1 0x00") = Some 0%N
  /\ value_of_tokens false (tokenize "PUSH 00") = Some 0%N
  /\ value_of_tokens false (tokenize "PUSH1 0xFF") = Some 255%N
  /\ value_of_tokens false (tokenize "PUSH FF") = Some 255%N.
Proof. repeat split; vm_compute; reflexivity. Qed.

(* (4) the same digits denote different constants after PUSH and after PUSHn; a bare
   hexadecimal operand after PUSHn is rejected (ValueError) *)
Lemma const_value_refuted_convention :
  value_of_tokens false ["PUSH"; "10"] = Some 16%N
  /\ value_of_tokens false ["PUSH1"; "10"] = Some 10%N
  /\ parse_tokens false ["PUSH1"; "ff"] = None
  /\ parse_tokens false ["PUSH1"; "0XFF"] = None.
Proof. repeat split; vm_compute; reflexivity. Qed.

(* ================================================================== non-vacuity *)

Definition ex_item (b e : Z) (nm : string) (v : option string) : json :=
  sitem_json (mkSItem b e None None nm 0 v).

(* a small document with the features of solc's output: nested .data two levels deep, a data
   string, all pseudo-push kinds, jumpType, modifierDepth, sourceList, a contract without asm *)
Definition ex_doc : json :=
  JObj [("contracts", JObj [
    ("a/b/C.sol:C", JObj [("asm", JObj [
       (".code", JArr [
          ex_item 0 10 "PUSH" (Some "80"); ex_item 0 10 "PUSH" (Some "0");
          ex_item 0 10 "MSTORE" None; ex_item 3 9 "PUSH [tag]" (Some "1");
          sitem_json (mkSItem 3 9 (Some "[in]") None "JUMP" 0 None);
          ex_item 3 9 "tag" (Some "1"); ex_item 3 9 "JUMPDEST" None;
          sitem_json (mkSItem 4 8 None (Some 1%Z) "PUSH #[$]" 0 (Some "0000000000000000000000000000000000000000000000000000000000000000"));
          ex_item 4 8 "PUSH [$]" (Some "0000000000000000000000000000000000000000000000000000000000000000");
          ex_item 4 8 "PUSHLIB" (Some "lib.sol:L"); ex_item 4 8 "PUSHDEPLOYADDRESS" None;
          ex_item 4 8 "PUSHIMMUTABLE" (Some "0a1b"); ex_item 4 8 "ASSIGNIMMUTABLE" (Some "0a1b");
          ex_item 4 8 "PUSH data" (Some "A6B3"); ex_item 4 8 "PUSHSIZE" None;
          ex_item 4 8 "CODECOPY" None; ex_item 4 8 "RETURN" None]);
       (".data", JObj [
          ("0", JObj [(".auxdata", JStr "a264697066735822");
                      (".code", JArr [ex_item 1 2 "PUSH" (Some "0"); ex_item 1 2 "DUP1" None;
                                      ex_item 1 2 "REVERT" None]);
                      (".data", JObj [("1", JObj [(".code", JArr [ex_item 1 2 "PUSH" (Some "0")]);
                                                 (".data", JObj [("A1", JStr "ff")])])])]);
          ("A6B3", JStr "deadbeef")]);
       ("sourceList", JArr [JStr "a/b/C.sol"; JStr "#utility.yul"])])]);
    ("a/b/C.sol:I", JObj [])]);
   ("version", JStr "0.8.17+commit.8df45f5f.Linux.g++")].

Lemma ex_doc_shaped : solc_shaped_b false ex_doc = true.
Proof. vm_compute. reflexivity. Qed.

Definition ex_block : list pitem :=
  [PI_op "JUMPDEST"; PI_push "PUSH" 255; PI_pushkw "PUSH" "[tag]" 18; PI_push "PUSHIMMUTABLE" 2587;
   PI_assign "00ab"; PI_pushkw "PUSH" "data" 42; PI_op "PUSHSIZE"; PI_op "DUP2"; PI_op "JUMPI"].

Lemma ex_block_ok : block_ok false ex_block = true /\ block_ok true (PI_push0 :: ex_block) = true.
Proof. split; vm_compute; reflexivity. Qed.

Lemma ex_spelling : spelling 255 ["PUSH"; "0x00FF"] /\ spelling 255 ["PUSH2"; "0255"].
Proof.
  split.
  - exact (sp_push_0x 255 2 true false).
  - refine (sp_pushn_dec "PUSH2" 255 1 _). cbn. tauto.
Qed.
