(* C07, model part 2 (definitions only, proofs are in Model/BoundsProofs.v).

   Model of smt_encoding/instructions/instruction_dependencies.py:generate_dependency_graph_minimum
   and of instruction_bounds_with_dependencies.py: generate_lower_bound_dict (number_instr_needed with
   its shared mutable dict `repeated_instructions`), generate_first_position_instr_cannot_appear
   (initialize_bound_positions_for_ub, update_with_tree_level) and the two accessors of
   InstructionBoundsWithDependencies, for the default encoding (no integer operands, i.e. no 'PUSH'
   pseudo node; initial_idx = 0).

   Dicts are association lists (lookup = first match, update = cons).  Python walks the graph in
   the order of `toposort_instr_dependencies`; every quantity computed here depends only on the
   values of the predecessors (lower bounds) resp. of the parents (upper bounds), so the model
   processes a node as soon as those are available ("rounds"); a node whose predecessors never
   become available (Python: KeyError) makes the result [None].
   ONE set-iteration site can be observed: `for prev_instr_id in set(dependent_instr_ids)
   .difference(analyzed_instr_ids)` in number_instr_needed (the shared dict makes the count depend
   on the order).  The order is the explicit parameter [mo : list (id * list id)]; without an entry
   (or with an entry that is not a permutation of the set) the order of first occurrence in the
   dependency list is used. *)
From Coq Require Import ZArith List Bool Arith String.
From GV Require Import Sym.Spec Val.Realizes Model.Soft.
Import ListNotations.
Local Open Scope list_scope.

Definition graph : Type := list (nat * list nat).

Definition glook (g : graph) (id : nat) : list nat :=
  match find (fun e => Nat.eqb (fst e) id) g with Some e => snd e | None => [] end.

Definition gmem (g : graph) (id : nat) : bool := existsb (fun e => Nat.eqb (fst e) id) g.

Definition mem_nat (x : nat) (l : list nat) : bool := existsb (Nat.eqb x) l.

Fixpoint dedup_nat (l : list nat) : list nat :=
  match l with
  | [] => []
  | a :: r => a :: filter (fun x => negb (Nat.eqb x a)) (dedup_nat r)
  end.

(* stack_elem_to_id (outputs are unique in well-formed specifications) *)
Definition definer_id (S : spec) (v : nat) : option nat := option_map ui_id (definer S v).

Definition no_const_inputs (S : spec) : bool :=
  forallb (fun u => forallb (fun o => match o with OVar _ => true | OConst _ => false end) (ui_in u)) (s_instrs S).

(* direct (data) predecessors, one entry per operand, duplicates kept *)
Definition data_preds (S : spec) (u : uinstr) : list nat :=
  flat_map (fun o => match o with
                     | OVar v => match definer_id S v with Some j => [j] | None => [] end
                     | OConst _ => []
                     end) (ui_in u).

Definition dg_data (S : spec) : graph := map (fun u => (ui_id u, data_preds S u)) (s_instrs S).

(* hap_bef_rel: {} for a node without predecessors, otherwise the node itself and the union over
   its predecessors (sic) *)
Fixpoint hb_of (g : graph) (fuel : nat) (id : nat) : list nat :=
  match fuel with
  | 0 => []
  | Datatypes.S f => match glook g id with
                     | [] => []
                     | l => id :: flat_map (hb_of g f) l
                     end
  end.

Definition gset (g : graph) (id : nat) (l : list nat) : graph :=
  map (fun e => if Nat.eqb (fst e) id then (id, l) else e) g.

(* mem_order = [*storage_dependences, *memory_dependences] *)
Definition order_tuples (S : spec) : list (nat * nat) := s_sto_deps S ++ s_mem_deps S.

Definition add_tuple (st : graph * graph) (p : nat * nat) : graph * graph :=
  let (g, hb) := st in
  if mem_nat (fst p) (glook hb (snd p)) then st
  else (gset g (snd p) (glook g (snd p) ++ [fst p]),
        gset hb (snd p) (glook hb (snd p) ++ glook hb (fst p))).

(* generate_dependency_graph_minimum *)
Definition dep_graph (S : spec) : graph :=
  let g := dg_data S in
  let hb := map (fun e => (fst e, hb_of g (List.length g) (fst e))) g in
  fst (fold_left add_tuple (order_tuples S) (g, hb)).

(* ------------------------------------------------------------------------------------------ *)
(* lower bounds                                                                                *)

Definition key : Type := (nat + nat)%type.      (* inl id = instruction, inr v = source variable *)
Definition key_eqb (a b : key) : bool :=
  match a, b with
  | inl x, inl y => Nat.eqb x y
  | inr x, inr y => Nat.eqb x y
  | _, _ => false
  end.
Definition rdict : Type := list (key * bool).
Definition rget (r : rdict) (k : key) : option bool :=
  match find (fun e => key_eqb (fst e) k) r with Some e => Some (snd e) | None => None end.
Definition rset (r : rdict) (k : key) (b : bool) : rdict := (k, b) :: r.
Definition rdisjoint (a b : rdict) : bool :=
  forallb (fun e => match rget b (fst e) with None => true | Some _ => false end) a.
(* dict.update: the entries of [b] override *)
Definition rupdate (a b : rdict) : rdict := b ++ a.

Definition ntab : Type := list (nat * (nat * rdict)).       (* id -> (n_instrs_execute, dependent dict) *)
Definition nlook (t : ntab) (id : nat) : option (nat * rdict) :=
  match find (fun e => Nat.eqb (fst e) id) t with Some e => Some (snd e) | None => None end.

Definition is_perm_nat (a b : list nat) : bool :=
  (List.length a =? List.length b) && forallb (fun x => mem_nat x b) a && forallb (fun x => mem_nat x a) b
  && nodupb_nat a.

Definition mem_only_preds (mo : graph) (g : graph) (id : nat) (analyzed : list nat) : list nat :=
  let canon := filter (fun x => negb (mem_nat x analyzed)) (dedup_nat (glook g id)) in
  if gmem mo id && is_perm_nat (glook mo id) canon then glook mo id else canon.

Section LB.
  Variable S : spec.
  Variable g : graph.
  Variable mo : graph.
  Variable tab : ntab.

  (* number_instr_needed; needed_instrs_from_id is inlined as [via] *)
  Fixpoint nin (fuel : nat) (id : nat) (is_direct : bool) (rep : rdict) : nat * rdict :=
    match fuel with
    | 0 => (0, rep)
    | Datatypes.S f =>
        let via (j : nat) (d : bool) (rep : rdict) : nat * rdict :=
          match nlook tab j with
          | Some (nj, pj) => if rdisjoint rep pj then (nj, rupdate rep pj) else nin f j d rep
          | None => nin f j d rep
          end in
        match rget rep (inl id) with
        | Some was => (if was && is_direct then 1 else 0, rset rep (inl id) (was || is_direct))
        | None =>
            let rep := rset rep (inl id) is_direct in
            let ins := match find_instr S id with Some u => ui_in u | None => [] end in
            let '(cnt, rep, analyzed) :=
              fold_left (fun (acc : nat * rdict * list nat) (o : operand) =>
                           let '(cnt, rep, an) := acc in
                           match o with
                           | OVar v =>
                               match definer_id S v with
                               | Some j => let (c, rep') := via j true rep in (cnt + c, rep', j :: an)
                               | None => ((if match rget rep (inr v) with Some _ => true | None => false end
                                           then cnt + 1 else cnt), rset rep (inr v) true, an)
                               end
                           | OConst _ => acc
                           end) ins (1, rep, []) in
            fold_left (fun (acc : nat * rdict) (j : nat) =>
                         let (cnt, rep) := acc in
                         let (c, rep') := via j false rep in (cnt + c, rep'))
                      (mem_only_preds mo g id analyzed) (cnt, rep)
        end
    end.
End LB.

(* one pass over the pending instructions: an instruction is computed once all its predecessors are *)
Definition lb_pass (S : spec) (g mo : graph) (fuel : nat) (st : ntab * list nat) : ntab * list nat :=
  fold_left (fun (st : ntab * list nat) (id : nat) =>
               let (tab, pend) := st in
               if forallb (fun j => match nlook tab j with Some _ => true | None => false end) (glook g id)
               then ((id, nin S g mo tab fuel id true []) :: tab, pend)
               else (tab, pend ++ [id]))
            (snd st) (fst st, []).

Fixpoint lb_rounds (S : spec) (g mo : graph) (fuel rounds : nat) (st : ntab * list nat) : ntab * list nat :=
  match rounds with
  | 0 => st
  | Datatypes.S r => match snd st with
                     | [] => st
                     | _ => lb_rounds S g mo fuel r (lb_pass S g mo fuel st)
                     end
  end.

(* generate_lower_bound_dict: id -> first position; None when some instruction was never reached *)
Definition lower_bounds (S : spec) (mo : graph) : option (list (nat * nat)) :=
  let g := dep_graph S in
  let n := List.length (s_instrs S) in
  let st := lb_rounds S g mo (2 * n + 2) (n + 1) ([], map fst g) in
  match snd st with
  | [] => Some (map (fun u => (ui_id u, match nlook (fst st) (ui_id u) with
                                        | Some (k, _) => k - 1
                                        | None => 0
                                        end)) (s_instrs S))
  | _ => None
  end.

(* ------------------------------------------------------------------------------------------ *)
(* upper bounds                                                                                *)

Definition btab : Type := list (nat * (Z * Z)).
Definition blook (t : btab) (id : nat) : option (Z * Z) :=
  match find (fun e => Nat.eqb (fst e) id) t with Some e => Some (snd e) | None => None end.

(* update_current_index *)
Definition bupd (t : btab) (id : nat) (idx : Z) : btab :=
  match blook t id with
  | None => (id, (idx, idx)) :: t
  | Some (mn, mx) => (id, (Z.min idx mn, Z.max idx mx)) :: t
  end.

(* InstructionSubset of create_instruction_json_format: store, pop, comm, non_comm *)
Definition subset_comm (u : uinstr) : bool :=
  negb (ui_storage u) && negb (prefixb ("POP")%string (ui_op u)) && ui_comm u.

(* initialize_bound_positions_for_ub *)
Definition ub_init (S : spec) (b0 : Z) : btab :=
  let fin := map (fun o => match o with OVar v => definer_id S v | OConst _ => None end) (s_tgt S) in
  let t1 := snd (fold_left (fun (acc : Z * btab) (f : option nat) =>
                              let (aux, t) := acc in
                              ((b0 - 1)%Z, match f with Some id => bupd t id aux | None => t end))
                           fin (b0, [])) in
  let dependent := map fst (order_tuples S) in
  let maximal := filter (fun id => negb (mem_nat id dependent))
                        (map ui_id (filter ui_storage (s_instrs S))) in
  fold_left (fun t id => bupd t id b0) maximal t1.

(* the body of update_with_tree_level for one instruction whose own entry is (mn, mx) *)
Definition ub_step (S : spec) (g : graph) (t : btab) (u : uinstr) (mn mx : Z) : btab :=
  let '(t1, _, analyzed) :=
    fold_left (fun (acc : btab * Z * list nat) (o : operand) =>
                 let '(t, off, an) := acc in
                 let off' := if subset_comm u then off else 2%Z in
                 match o with
                 | OVar v => match definer_id S v with
                             | Some j => (bupd (bupd t j (mn - off)) j (mx - off), off', j :: an)
                             | None => (t, off', an)
                             end
                 | OConst _ => (t, off', an)
                 end) (ui_in u) (t, 1%Z, []) in
  fold_left (fun t j => bupd (bupd t j (mn - 1)) j (mx - 1))
            (filter (fun x => negb (mem_nat x analyzed)) (dedup_nat (glook g (ui_id u)))) t1.

Definition parents (g : graph) (id : nat) : list nat :=
  map fst (filter (fun e => mem_nat id (snd e)) g).

(* one pass: an instruction is processed once all its parents are; an instruction without entry
   at that moment is a KeyError in Python: recorded in the error flag *)
Definition ub_pass (S : spec) (g : graph) (st : btab * list nat * list nat * bool)
  : btab * list nat * list nat * bool :=
  let '(t0, done0, pend0, err0) := st in
  fold_left (fun (st : btab * list nat * list nat * bool) (id : nat) =>
               let '(t, done, pend, err) := st in
               if forallb (fun p => mem_nat p done) (parents g id)
               then match blook t id, find_instr S id with
                    | Some (mn, mx), Some u => (ub_step S g t u mn mx, id :: done, pend, err)
                    | _, _ => (t, id :: done, pend, true)
                    end
               else (t, done, pend ++ [id], err))
            pend0 (t0, done0, [], err0).

Fixpoint ub_rounds (S : spec) (g : graph) (rounds : nat) (st : btab * list nat * list nat * bool)
  : btab * list nat * list nat * bool :=
  match rounds with
  | 0 => st
  | Datatypes.S r => match st with
                     | (_, _, [], _) => st
                     | _ => ub_rounds S g r (ub_pass S g st)
                     end
  end.

(* generate_first_position_instr_cannot_appear: id -> first position where it cannot appear *)
Definition first_not (S : spec) : option (list (nat * Z)) :=
  let g := dep_graph S in
  let b0 := Z.of_nat (s_init_len S) in
  let '(t, _, pend, err) := ub_rounds S g (List.length g + 1) (ub_init S b0, [], map fst g, false) in
  match pend, err with
  | [], false =>
      Some (flat_map (fun u => match blook t (ui_id u) with
                               | Some (mn, mx) => [(ui_id u, match ui_in u with [] => mx | _ => mn end)]
                               | None => []
                               end) (s_instrs S))
  | _, _ => None
  end.

(* InstructionBoundsWithDependencies.{lower,upper}_bound_theta_value for every user instruction:
   id -> (lower bound, upper bound) *)
Definition bounds_dict (S : spec) (mo : graph) : option (list (nat * (Z * Z))) :=
  match lower_bounds S mo, first_not S with
  | Some lb, Some fn =>
      Some (map (fun u =>
                   (ui_id u,
                    (match find (fun e => Nat.eqb (fst e) (ui_id u)) lb with
                     | Some e => Z.of_nat (snd e) | None => 0%Z end,
                     (match find (fun e => Nat.eqb (fst e) (ui_id u)) fn with
                      | Some e => snd e | None => Z.of_nat (s_init_len S) end - 1)%Z)))
                (s_instrs S))
  | _, _ => None
  end.

(* the same as windows [lb, ub + 1) for Model/Soft.v's table_bounds *)
Definition bounds_table (S : spec) (mo : graph) : option (list (nat * (nat * nat))) :=
  option_map (map (fun e => (fst e, (Z.to_nat (fst (snd e)), Z.to_nat (snd (snd e) + 1)))))
             (bounds_dict S mo).

(* lower bound of one instruction (0 when the computation fails), for the soundness statement *)
Definition lb (S : spec) (mo : graph) (id : nat) : nat :=
  match lower_bounds S mo with
  | Some l => match find (fun e => Nat.eqb (fst e) id) l with Some e => snd e | None => 0 end
  | None => 0
  end.

(* ------------------------------------------------------------------------------------------ *)
(* per-instance certificates (finite-domain checks; Model/BoundsProofs.v lifts them to statements
   about EVERY realizing sequence within the bounds through the completeness of Soft.enum)       *)

Definition lb_respected (lbs : list (nat * nat)) (q : list step) : bool :=
  forallb (fun pj => match snd pj with
                     | SIns i => match find (fun e => Nat.eqb (fst e) i) lbs with
                                 | Some e => snd e <=? fst pj
                                 | None => true
                                 end
                     | _ => true
                     end) (combine (seq 0 (List.length q)) q).

(* every enumerated realizing sequence respects the lower bounds *)
Definition lb_checked (S : spec) (mo : graph) (L sk : nat) : bool :=
  match lower_bounds S mo with
  | Some l => forallb (lb_respected l) (enum S L sk)
  | None => false
  end.

(* the pruning constraints that are always switched on (synthesis_additional_constraints.py) on a
   NOP-free program that is then padded: every user instruction at least once; a POP is preceded
   only by POP, SWAPk or a store *)
Fixpoint no_output_before_pop (S : spec) (q : list step) : bool :=
  match q with
  | a :: r => match r with
              | SPop :: _ => (match a with SPop | SSwap _ => true | _ => is_store S a end)
                             && no_output_before_pop S r
              | _ => no_output_before_pop S r
              end
  | [] => true
  end.

Definition prune_ok (S : spec) (q : list step) : bool :=
  forallb (fun st => mem_step st q) (user_steps S) && no_output_before_pop S q.

(* some optimal program lies inside the windows [bnd] and satisfies the pruning constraints *)
Definition keeps_optimum_checked (c : criterion) (S : spec) (bnd : bounds_t) (L sk : nat) : bool :=
  match opt c S L sk with
  | Some (m, _) => existsb (fun q => (cost c S q =? m)%Z && in_domain S bnd (pad (s_init_len S) q) && prune_ok S q)
                           (enum S L sk)
  | None => true
  end.

(* the windows of the model as Soft.bounds_t (whole sequence when the computation fails) *)
Definition model_bounds (S : spec) (mo : graph) : bounds_t :=
  match bounds_table S mo with
  | Some t => table_bounds S t
  | None => dumb_bounds S
  end.

Fixpoint dedupZ_all (l : list Z) : list Z :=
  match l with
  | [] => []
  | a :: r => a :: filter (fun x => negb (Z.eqb x a)) (dedupZ_all r)
  end.

(* the distinct values of penalty - reference cost over all enumerated programs inside the
   windows (soft_prices per instance: at most one value) *)
Definition price_offsets (c : criterion) (direct : bool) (S : spec) (bnd : bounds_t) (L sk : nat) : list Z :=
  let softs := soft c direct S bnd in
  dedupZ_all (map (fun q => (penalty softs q - cost c S q)%Z)
                  (filter (in_domain S bnd) (map (pad (s_init_len S)) (enum S L sk)))).

(* everything the harness asks per instance, with the windows of the model ([true]) or without
   position bounds ([false]) *)
Definition instance_certs (S : spec) (mo : graph) (L sk : nat) :=
  let bm := model_bounds S mo in
  let bd := dumb_bounds S in
  let crit := [CGas; CSize; CLength] in
  (lb_checked S mo L sk,
   map (fun c => (keeps_optimum_checked c S bm L sk, keeps_optimum_checked c S bd L sk)) crit,
   map (fun c => (direct_side c S, grouped_side c S bm, grouped_side c S bd)) crit,
   map (fun c => (price_offsets c false S bm L sk, price_offsets c true S bm L sk,
                  price_offsets c false S bd L sk, price_offsets c true S bd L sk)) crit).
