(* C07: proofs about Model/Bounds.v.

   The general statements
     lb_sound         : realizes S q = true -> nth_error q p = Some (SIns i) -> lb S mo i <= p
     ub_keeps_optimum : some optimal program lies inside the windows
   are NOT proved for the model of number_instr_needed / update_with_tree_level.  What is proved
   here is their per-instance form: a boolean certificate, evaluated by the Coq kernel on every
   instance of the check, implies the statement for EVERY realizing sequence within the
   specification's length and stack bounds (through the completeness of Soft.enum). *)
From Coq Require Import ZArith List Bool Arith Lia.
From GV Require Import Sym.Spec Val.Realizes Val.RealizesProofs Model.Soft Model.SoftProofs Model.Bounds.
Import ListNotations.

Lemma lb_respected_nth : forall lbs q p i n,
  lb_respected lbs q = true -> nth_error q p = Some (SIns i) ->
  find (fun e => Nat.eqb (fst e) i) lbs = Some (i, n) -> n <= p.
Proof.
  intros lbs q p i n H Hn Hf. unfold lb_respected in H. rewrite forallb_forall in H.
  pose proof (in_combine_seq q 0 p (SIns i) Hn) as I. apply H in I. cbn [fst snd] in I.
  rewrite Hf in I. cbn [fst snd] in I. now apply Nat.leb_le in I.
Qed.

Lemma strip_position : forall q p st, nth_error q p = Some st -> is_nop st = false ->
  exists p', p' <= p /\ nth_error (strip_nops q) p' = Some st.
Proof.
  induction q as [|x r IH]; intros p st H Hn; [destruct p; discriminate|].
  rewrite strip_cons. destruct p as [|p]; simpl in H.
  - inversion H; subst. rewrite Hn. exists 0. split; [lia|reflexivity].
  - destruct (IH p st H Hn) as (p' & Hp & Hs). destruct (is_nop x).
    + exists p'. split; [lia|exact Hs].
    + exists (S p'). split; [lia|exact Hs].
Qed.

(* lb_sound, per-instance form *)
Theorem lb_sound_partial : forall S mo L sk,
  lb_checked S mo L sk = true ->
  forall q p i, realizes_bounded S q L sk = true -> no_pushc q = true ->
                nth_error q p = Some (SIns i) -> lb S mo i <= p.
Proof.
  intros S mo L sk H q p i Hr Hn Hp. unfold lb_checked in H. unfold lb.
  destruct (lower_bounds S mo) as [l|] eqn:E; [|discriminate].
  destruct (find (fun e => Nat.eqb (fst e) i) l) as [[i' n]|] eqn:F; [|lia].
  cbn [snd]. pose proof (find_some _ _ F) as [_ Fe]. cbn [fst] in Fe. apply Nat.eqb_eq in Fe. subst i'.
  destruct (strip_position q p (SIns i) Hp eq_refl) as (p' & Hle & Hs).
  rewrite forallb_forall in H. specialize (H _ (enum_complete _ _ _ _ Hr Hn)).
  pose proof (lb_respected_nth _ _ _ _ _ H Hs F). lia.
Qed.

(* ub_keeps_optimum (and the always-on pruning constraints), per-instance form: a program of
   minimum cost among ALL realizing sequences within the bounds lies inside the windows and
   satisfies the pruning constraints *)
Theorem keeps_optimum_partial : forall c S bnd L sk m w0,
  keeps_optimum_checked c S bnd L sk = true -> opt c S L sk = Some (m, w0) ->
  exists w, realizes_bounded S w L sk = true /\
            in_domain S bnd (pad (s_init_len S) w) = true /\ prune_ok S w = true /\
            cost c S w = m /\
            forall q, realizes_bounded S q L sk = true -> no_pushc q = true -> (m <= cost c S q)%Z.
Proof.
  intros c S bnd L sk m w0 H Ho. unfold keeps_optimum_checked in H. rewrite Ho in H.
  apply existsb_exists in H. destruct H as (w & Hin & Hw).
  apply andb_true_iff in Hw. destruct Hw as [Hw Hp]. apply andb_true_iff in Hw. destruct Hw as [Hc Hd].
  apply Z.eqb_eq in Hc. exists w. split; [now apply enum_sound in Hin|].
  split; [exact Hd|]. split; [exact Hp|]. split; [exact Hc|].
  destruct (opt_is_minimum _ _ _ _ _ _ Ho) as (_ & _ & Hmin). exact Hmin.
Qed.
