(* Exception containment of the per-contract driver (model of gasol_asm.py:
   optimize_asm_contract / optimize_asm_block_asm_format / compare_asm_block_asm_format).
   The analysis (specification generation) and the comparison may raise; the model mirrors where
   the code has try/except: around the analysis in optimize_asm_block_asm_format (the block is
   returned unchanged), around the search/rebuild of the candidate (since the fixes recorded in
   known/C10.json: the block is returned unchanged) and inside compare_asm_block_asm_format (a
   raise means "not equal", so the original block is kept). *)
From Coq Require Import List Bool.
Import ListNotations.

Inductive res (A : Type) := Ok (a : A) | Raise.
Arguments Ok {A} a.
Arguments Raise {A}.

Section Contain.
  Variable block spec : Type.
  Variable analysis : block -> res spec.               (* may raise *)
  Variable backend : block -> spec -> res block.       (* search + rebuild: candidate block; may raise *)
  Variable verify : spec -> spec -> bool.              (* GASOL's own checker on two specifications *)

  (* optimize_asm_block_asm_format: try: analysis except: return block *)
  Definition candidate (b : block) : block :=
    match analysis b with
    | Raise => b
    | Ok s => match backend b s with Raise => b | Ok c => c end
    end.

  (* compare_asm_block_asm_format with the try/except of the fix: a raise is "not equal" *)
  Definition compare (old new : block) : bool :=
    match analysis new with
    | Raise => false
    | Ok sn => match analysis old with Raise => false | Ok so => verify so sn end
    end.

  (* keep or revert *)
  Definition process (b : block) : block :=
    let c := candidate b in if compare b c then c else b.

  Definition optimize_contract (bs : list block) : list block := map process bs.
End Contain.
