(* HAND-WRITTEN executable models (no proofs here) for C08/C17:
     - opcodes.get_opcode (stack arities; the dict part is the generated table opcodes_arity),
     - utils.compute_stack_size, asm_block.execute_asm, AsmBlock.gas_spent (warm/cold bookkeeping),
     - the abstract rebuild (prefix ++ segment ++ suffix) and the contract filter of
       optimize_asm_in_asm_format.
   Tied to the code by the correspondence stage of harness/c08.py (real AsmBlock.gas_spent vs
   this model under vm_compute on every block of the run) and harness/c17.py (contract filter).
   The translator pins the AST of execute_asm / AsmBlock.gas_spent / compute_stack_size / get_opcode:
   generation fails closed when they change, except for the one anticipated repair recorded in the
   generated flag `execute_asm_push0_as_zero` (proposals/C17). *)
From Coq Require Import ZArith List Bool String Ascii.
From GV Require Import Model.CostPrelude Gen.Push0 Gen.CostTables.
Import ListNotations.
Open Scope string_scope.
Open Scope Z_scope.

Fixpoint dict_find {A} (d : list (string * A)) (k : string) : option A :=
  match d with
  | [] => None
  | (k', v) :: d' => if String.eqb k k' then Some v else dict_find d' k
  end.

(* later duplicates of a key override earlier ones in a Python dict literal; the generated table
   is already de-duplicated that way *)
Definition idx16 : list Z := [1;2;3;4;5;6;7;8;9;10;11;12;13;14;15;16].
Definition named_idx (pre op : string) : option Z :=
  find (fun i => String.eqb op (String.append pre (py_str_Z i))) idx16.

(* opcodes.get_opcode: (consumed, produced); None = raise ValueError('Bad Opcode') *)
Definition get_opcode_arity (op : string) : option (Z * Z) :=
  match dict_find opcodes_arity op with
  | Some a => Some a
  | None =>
    if String.eqb op "SELFDESTRUCT" then Some (1, 0)
    else if String.eqb op "RETURNDATASIZE" then Some (0, 1)
    else if String.eqb op "RETURNDATACOPY" then Some (3, 0)
    else if String.eqb op "PUSH0" then Some (0, 1)
    else if py_startswith op "PUSH" then Some (0, 1)
    else if py_startswith op "tag" then Some (0, 0)
    else match named_idx "DUP" op with
         | Some i => Some (i, i + 1)
         | None => match named_idx "SWAP" op with
                   | Some i => Some (i + 1, i + 1)
                   | None => None
                   end
         end
  end.

(* utils.compute_stack_size *)
Fixpoint compute_stack_size_from (ops : list string) (cur init : Z) : option Z :=
  match ops with
  | [] => Some init
  | op :: ops' =>
    match get_opcode_arity op with
    | None => None
    | Some (c, p) =>
      if c >? cur then compute_stack_size_from ops' (cur + (c - cur) - c + p) (init + (c - cur))
      else compute_stack_size_from ops' (cur - c + p) init
    end
  end.
Definition compute_stack_size (ops : list string) : option Z := compute_stack_size_from ops 0 0.

Fixpoint join_comma (l : list string) : string :=
  match l with
  | [] => ""
  | [x] => x
  | x :: l' => String.append x (String.append "," (join_comma l'))
  end.

Fixpoint take_n {A} (n : nat) (l : list A) : option (list A * list A) :=
  match n with
  | O => Some ([], l)
  | S k => match l with
           | [] => None
           | x :: l' => match take_n k l' with Some (a, b) => Some (x :: a, b) | None => None end
           end
  end.

Fixpoint set_nth {A} (n : nat) (x : A) (l : list A) : list A :=
  match n, l with
  | _, [] => []
  | O, _ :: l' => x :: l'
  | S k, y :: l' => y :: set_nth k x l'
  end.

(* asm_block.execute_asm on the symbolic stack (a list of strings, top first);
   None = an IndexError / ValueError of the Python code *)
Definition execute_asm (p0 : bool) (st : list string) (i : Item) : option (list string) :=
  let name := i_disasm i in
  if String.eqb name "PUSH" then Some (py_str_Z (py_int_hex (unopt_string (i_value i))) :: st)
  else if execute_asm_push0_as_zero && String.eqb name "PUSH0" then Some ("0" :: st)
  else if py_startswith name "SWAP" then
    let idx := Z.to_nat (py_int_dec (py_slice_from 4 name)) in
    match st, nth_error st idx with
    | top :: _, Some x => Some (set_nth idx top (set_nth 0 x st))
    | _, _ => None
    end
  else if py_startswith name "DUP" then
    let idx := Z.to_nat (py_int_dec (py_slice_from 3 name)) in
    match idx with
    | O => match rev st with x :: _ => Some (x :: st) | [] => None end   (* stack[-1] *)
    | S k => match nth_error st k with Some x => Some (x :: st) | None => None end
    end
  else if String.eqb name "POP" then
    match st with _ :: st' => Some st' | [] => None end
  else
    match get_opcode_arity name with
    | None => None
    | Some (c, p) =>
      match take_n (Z.to_nat c) st with
      | None => None
      | Some (operands, st') =>
        if p =? 0 then Some st'
        else if String.eqb name "KECCAK256" then
          Some (String.append name (String.append "(" (String.append (join_comma operands) ")")) :: st')
        else match operands with
             | [] => Some (AsmBytecode_to_plain p0 i :: st')
             | _ => Some (String.append name (String.append "(" (String.append (join_comma operands) ")")) :: st')
             end
      end
    end.

Definition in_set (x : string) (s : list string) : bool := existsb (String.eqb x) s.
Definition is_account_access (name : string) : bool :=
  py_in_list name ["BALANCE"; "EXTCODESIZE"; "EXTCODEHASH"; "EXTCODECOPY"].

(* the loop of AsmBlock.gas_spent *)
Fixpoint gas_spent_loop (p0 : bool) (items : list Item) (st addrs slots slots_store : list string) (total : Z)
  : option Z :=
  match items with
  | [] => Some total
  | i :: items' =>
    let name := i_disasm i in
    let top := match st with x :: _ => Some x | [] => None end in
    let step (total' : Z) (addrs' slots' slots_store' : list string) :=
      match execute_asm p0 st i with
      | Some st' => gas_spent_loop p0 items' st' addrs' slots' slots_store' total'
      | None => None
      end in
    if String.eqb name "SLOAD" then
      match top with
      | None => None
      | Some k => step (total + AsmBytecode_gas_spent_accesses p0 i (in_set k slots) false) addrs (k :: slots) slots_store
      end
    else if String.eqb name "SSTORE" then
      match top with
      | None => None
      | Some k => step (total + AsmBytecode_gas_spent_accesses p0 i (in_set k slots) (in_set k slots_store))
                       addrs (k :: slots) (k :: slots_store)
      end
    else if is_account_access name then
      match top with
      | None => None
      | Some k => step (total + AsmBytecode_gas_spent_accesses p0 i (in_set k addrs) false) (k :: addrs) slots slots_store
      end
    else step (total + AsmBytecode_gas_spent p0 i) addrs slots slots_store
  end.

Fixpoint init_stack (n : nat) (k : Z) : list string :=
  match n with
  | O => []
  | S m => String.append "s(" (String.append (py_str_Z k) ")") :: init_stack m (k + 1)
  end.

(* AsmBlock.gas_spent *)
Definition AsmBlock_gas_spent (p0 : bool) (items : list Item) : option Z :=
  match compute_stack_size (map i_disasm items) with
  | None => None
  | Some n => gas_spent_loop p0 items (init_stack (Z.to_nat n) 0) [] [] [] 0
  end.

(* the "static schedule": every instruction priced as a first (cold) access *)
Definition static_gas (p0 : bool) (items : list Item) : Z :=
  fold_right Z.add 0 (map (AsmBytecode_gas_spent p0) items).

(* ---- abstract rebuild: a block is prefix ++ segment ++ suffix; optimization replaces the segment *)
Definition rebuild {A} (pre seg suf : list A) : list A := pre ++ seg ++ suf.

(* several sub-blocks: parts alternate kept items and sub-block segments *)
Definition rebuild_parts {A} (parts : list (list A)) : list A := List.concat parts.

(* ---- contract filter of optimize_asm_in_asm_format (generic in the contract type) *)
Section Filter.
  Context {C : Type}.
  Variable has_asm : C -> bool.
  Variable name : C -> string.
  Variable opt : C -> C.

  Definition skipped (sel : option string) (c : C) : bool :=
    negb (has_asm c) || match sel with Some s => negb (String.eqb (name c) s) | None => false end.

  (* the list `contracts` built by the loop *)
  Definition filter_contracts (sel : option string) (cs : list C) : list C :=
    map (fun c => if skipped sel c then c else opt c) cs.

  (* `new_contract` after the loop: the LAST contract that was optimized *)
  Definition last_optimized (sel : option string) (cs : list C) : option C :=
    fold_left (fun acc c => if skipped sel c then acc else Some (opt c)) cs None.

  (* what is written to the optimized file: None = ValueError("Specified contract cannot be found") *)
  Inductive emitted := WholeFile (cs : list C) | OneContract (c : C).
  Definition emit (sel : option string) (cs : list C) : option emitted :=
    match sel with
    | None => Some (WholeFile (filter_contracts sel cs))
    | Some s => match last_optimized sel cs with
                | Some c => if String.eqb (name c) s then Some (OneContract c) else None
                | None => None
                end
    end.
End Filter.
