(* Hand-written semantics of the Python builtins that occur in the functions translated by
   gen/gen_cost.py (C08/C17).  No proofs here.  Part of the trusted base together with the
   translator; every generated definition is additionally run against the Python original
   (harness/c08.py, harness/c17.py: differential cases evaluated with vm_compute). *)
From Coq Require Import ZArith List Bool String Ascii HexString DecimalString Decimal.
Import ListNotations.
Open Scope string_scope.
Open Scope Z_scope.

(* x in (tuple of strings) *)
Definition py_in_list (x : string) (l : list string) : bool := existsb (String.eqb x) l.

(* x in "some string": Python substring test *)
Fixpoint py_substr (needle hay : string) : bool :=
  if String.prefix needle hay then true
  else match hay with
       | EmptyString => false
       | String _ hay' => py_substr needle hay'
       end.

(* s.startswith(p) *)
Definition py_startswith (s p : string) : bool := String.prefix p s.

(* s[n:] *)
Fixpoint py_slice_from (n : nat) (s : string) : string :=
  match n, s with
  | O, _ => s
  | S k, EmptyString => EmptyString
  | S k, String _ s' => py_slice_from k s'
  end.

(* d["k"] on a dict literal of ints; the translator checks statically that the literal key is
   present, so the default is never taken *)
Fixpoint dict_get_Z (d : list (string * Z)) (k : string) : Z :=
  match d with
  | [] => 0
  | (k', v) :: d' => if String.eqb k k' then v else dict_get_Z d' k
  end.

Fixpoint dict_mem {A} (d : list (string * A)) (k : string) : bool :=
  match d with
  | [] => false
  | (k', _) :: d' => if String.eqb k k' then true else dict_mem d' k
  end.

Fixpoint dict_get {A} (d : list (string * A)) (k : string) (dflt : A) : A :=
  match d with
  | [] => dflt
  | (k', v) :: d' => if String.eqb k k' then v else dict_get d' k dflt
  end.

(* int(s, 16) for a string of hex digits (either case); int(s) for decimal digits.
   Strings with other characters are outside the model (Python raises ValueError, or accepts
   signs/underscores/whitespace): the differential cases only use digit strings. *)
Definition py_int_hex (s : string) : Z := Z.of_N (HexString.Raw.to_N s 0%N).
Definition py_int_dec (s : string) : Z :=
  match NilZero.int_of_string s with
  | Some i => Z.of_int i
  | None => 0
  end.

(* str(n), hex(n) *)
Definition py_str_Z (z : Z) : string := NilZero.string_of_int (Z.to_int z).
Definition py_hex (z : Z) : string := HexString.of_Z z.

(* sum(list), len(list) *)
Definition py_sum (l : list Z) : Z := fold_left Z.add l 0.
Definition py_len {A} (l : list A) : Z := Z.of_nat (List.length l).

(* optional values *)
Definition opt_eqb_string (o : option string) (s : string) : bool :=
  match o with Some x => String.eqb x s | None => false end.
Definition opt_is_none {A} (o : option A) : bool := match o with None => true | Some _ => false end.
Definition unopt_string (o : option string) : string := match o with Some x => x | None => "" end.
Definition unopt_list {A} (o : option (list A)) : list A := match o with Some x => x | None => [] end.
Definition unopt_Z (o : option Z) : Z := match o with Some x => x | None => 0 end.
Definition nth0_Z (l : list Z) : Z := match l with x :: _ => x | [] => 0 end.
