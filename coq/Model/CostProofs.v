(* Lemmas about the GENERATED cost tables (Gen/CostTables.v) against the reference (Ref/Cost.v),
   additivity / rebuild monotonicity, and the hand model of AsmBlock.gas_spent (Model/Cost.v). C08. *)
From Coq Require Import ZArith List Bool String Lia HexString.
From GV Require Import Model.CostPrelude Ref.Cost Gen.Push0 Gen.CostTables Model.Cost.
Import ListNotations.
Open Scope string_scope.
Open Scope Z_scope.

(* ------------------------------------------------------------------ finite table agreement *)

(* the names opcodes.get_opcode accepts: the keys of its dict, its special cases, PUSH, tag, DUP1-16, SWAP1-16 *)
Definition gasol_vocabulary : list string :=
  map fst opcodes_arity ++ ["SELFDESTRUCT"; "RETURNDATASIZE"; "RETURNDATACOPY"; "PUSH0"; "PUSH"; "tag"] ++ dups ++ swaps.

(* names of the vocabulary that are not EVM instructions or solc items (Oyente-era entries, legacy
   aliases) or have no static reference gas: outside the comparison *)
Definition no_reference : list string :=
  ["SLOADEXT"; "SSTOREEXT"; "SLOADBYTESEXT"; "SSTOREBYTESEXT"; "ASSERTFAIL"; "BREAKPOINT"; "RNGSEED";
   "SSIZEEXT"; "SLOADBYTES"; "SSTOREBYTES"; "SSIZE"; "STATEROOT"; "TXEXECGAS"; "CALLSTATIC"; "SUICIDE";
   "ASSIGNIMMUTABLE"; "---END---"].

Lemma no_reference_exact :
  filter (fun op => match ref_class op with None => true | Some _ => false end) gasol_vocabulary = no_reference.
Proof. vm_compute. reflexivity. Qed.

(* where GASOL's gas table differs from the reference *)
Definition gas_exceptions : list string := ["SHA3"; "MCOPY"].

Definition gas_agree_b (op : string) (warm : bool) : bool :=
  match ref_gas op warm with
  | Some r => mem op gas_exceptions || (get_ins_cost op None warm false =? r)
  | None => true
  end.

Lemma tables_agree_gas_b :
  forallb (fun op => gas_agree_b op true && gas_agree_b op false) gasol_vocabulary = true.
Proof. vm_compute. reflexivity. Qed.

(* GASOL's per-instruction gas = the reference gas, for every name of the vocabulary that has a
   reference entry, both access states, except the listed exceptions.  Finite domain:
   |gasol_vocabulary| = 162 names x {warm, cold}; closed by vm_compute + forallb_forall. *)
Lemma tables_agree_gas : forall op warm r,
  In op gasol_vocabulary -> ~ In op gas_exceptions -> ref_gas op warm = Some r ->
  get_ins_cost op None warm false = r.
Proof.
  intros op warm r Hin Hex Href.
  pose proof tables_agree_gas_b as H. rewrite forallb_forall in H. specialize (H op Hin).
  apply andb_true_iff in H. destruct H as [Ht Hf].
  assert (Hb : gas_agree_b op warm = true) by (destruct warm; assumption).
  unfold gas_agree_b in Hb. rewrite Href in Hb. apply orb_true_iff in Hb. destruct Hb as [Hb|Hb].
  - exfalso. apply Hex. unfold mem in Hb. apply existsb_exists in Hb. destruct Hb as [x [Hx Hxe]].
    apply String.eqb_eq in Hxe. now subst x.
  - now apply Z.eqb_eq in Hb.
Qed.

(* the `params` argument (the item's value) is never read by get_ins_cost *)
Lemma get_ins_cost_ignores_value : forall op v w a b, get_ins_cost op v a b = get_ins_cost op w a b.
Proof. reflexivity. Qed.

(* the exceptions are real disagreements (refutation of the unrestricted statement) *)
Lemma tables_agree_gas_refuted :
  (get_ins_cost "MCOPY" None false false = 0 /\ ref_gas "MCOPY" false = Some 3) /\
  (get_ins_cost "SHA3" None false false = 36 /\ ref_gas "SHA3" false = Some 30 /\
   get_ins_cost "KECCAK256" None false false = 30).
Proof. vm_compute. repeat split; reflexivity. Qed.

Definition size_agree_b (op : string) : bool :=
  String.eqb op "PUSH" ||
  match ref_size true op None, ref_size false op None with
  | Some r, Some r' => match get_ins_size op None 2 with Some g => (g =? r) && (g =? r') | None => false end
  | _, _ => true
  end.

Lemma tables_agree_size_b : forallb size_agree_b gasol_vocabulary = true.
Proof. vm_compute. reflexivity. Qed.

(* sizes of everything but numeric PUSH: same finite domain *)
Lemma tables_agree_size : forall op p0 r,
  In op gasol_vocabulary -> op <> "PUSH" -> ref_size p0 op None = Some r ->
  get_ins_size op None 2 = Some r.
Proof.
  intros op p0 r Hin Hne Href.
  pose proof tables_agree_size_b as H. rewrite forallb_forall in H. specialize (H op Hin).
  unfold size_agree_b in H. apply orb_true_iff in H. destruct H as [H|H].
  - apply String.eqb_eq in H. contradiction.
  - assert (Hsame : ref_size true op None = ref_size false op None).
    { unfold ref_size. apply String.eqb_neq in Hne. now rewrite Hne. }
    assert (Hr : ref_size true op None = Some r) by (destruct p0; congruence).
    rewrite <- Hsame, Hr in H. destruct (get_ins_size op None 2) as [g|]; [|discriminate].
    apply andb_true_iff in H. destruct H as [H _]. apply Z.eqb_eq in H. now subst g.
Qed.

(* ------------------------------------------------------------------ PUSH width, all values *)

Lemma byte_len_step : forall n, 0 < n -> byte_len n = 1 + byte_len (Z.shiftr n 8).
Proof.
  intros n Hn. unfold byte_len.
  assert (Hle : (n <=? 0) = false) by lia. rewrite Hle.
  rewrite Z.shiftr_div_pow2 by lia. change (2 ^ 8) with 256.
  destruct (Z_lt_ge_dec n 256) as [Hlt|Hge].
  - rewrite (Z.div_small n 256) by lia. cbn [Z.leb Z.compare].
    assert (Hl : Z.log2 n < 8) by (apply Z.log2_lt_pow2; [lia | change (2 ^ 8) with 256; lia]).
    pose proof (Z.log2_nonneg n). rewrite (Z.div_small (Z.log2 n) 8) by lia. reflexivity.
  - assert (Hq : 0 < n / 256) by (apply Z.div_str_pos; lia).
    assert (Hle2 : (n / 256 <=? 0) = false) by lia. rewrite Hle2.
    replace (n / 256) with (Z.shiftr n 8) by (rewrite Z.shiftr_div_pow2 by lia; reflexivity).
    rewrite Z.log2_shiftr by lia.
    assert (H8 : 8 <= Z.log2 n).
    { change 8 with (Z.log2 256). apply Z.log2_le_mono. lia. }
    rewrite Z.max_r by lia.
    replace (Z.log2 n - 8) with (Z.log2 n + (-1) * 8) by lia.
    rewrite Z.div_add by lia. lia.
Qed.

Lemma nes_loop : forall (fuel : nat) (n i : Z),
  0 <= n -> n < 2 ^ (8 * Z.of_nat fuel) ->
  number_encoding_size_while1 fuel n i = i + byte_len n.
Proof.
  induction fuel as [|k IH]; intros n i Hn Hb.
  - cbn in Hb. assert (n = 0) by lia. subst n. cbn. lia.
  - cbn [number_encoding_size_while1].
    destruct (Z.eqb n 0) eqn:E; cbn [negb].
    + apply Z.eqb_eq in E. subst n. cbn. lia.
    + apply Z.eqb_neq in E. rewrite IH.
      * rewrite (byte_len_step n) by lia. lia.
      * apply Z.shiftr_nonneg. lia.
      * rewrite Z.shiftr_div_pow2 by lia. apply Z.div_lt_upper_bound; [lia|].
        rewrite <- Z.pow_add_r by lia. replace (8 + 8 * Z.of_nat k) with (8 * Z.of_nat (S k)) by lia. exact Hb.
Qed.

(* the fuel hint of the translator is adequate, and the loop computes the byte length *)
Lemma number_encoding_size_spec : forall v, 0 <= v -> number_encoding_size v = byte_len v.
Proof.
  intros v Hv. unfold number_encoding_size.
  assert (Hlt : (v <? 0) = false) by lia. rewrite Hlt.
  rewrite nes_loop; [lia | lia |].
  destruct (Z.eq_dec v 0) as [->|Hne].
  - cbn. lia.
  - pose proof (Z.log2_spec v ltac:(lia)) as [_ Hs]. pose proof (Z.log2_nonneg v) as Hl.
    eapply Z.lt_le_trans; [exact Hs|]. apply Z.pow_le_mono_r; lia.
Qed.

(* for ALL values (no bound is even needed above 0): the PUSH size is 1 + its number of bytes,
   at least PUSH1 *)
Lemma push_size_all_values : forall v, 0 <= v ->
  get_ins_size "PUSH" (Some v) 2 = Some (1 + Z.max 1 (byte_len v)).
Proof.
  intros v Hv. unfold get_ins_size. cbn [String.eqb Ascii.eqb Bool.eqb andb]. cbn [unopt_Z].
  unfold get_num_bytes_int. now rewrite number_encoding_size_spec.
Qed.

Lemma push0_size : get_ins_size "PUSH0" None 2 = Some 1.
Proof. reflexivity. Qed.

(* hex spelling of a value as ids2asm writes it: hex(v)[2:] *)
Definition hex_of (v : Z) : string := py_slice_from 2 (py_hex v).

Lemma hex_roundtrip : forall v, 0 <= v -> py_int_hex (hex_of v) = v.
Proof.
  intros v Hv. unfold hex_of, py_hex, py_int_hex, HexString.of_Z.
  destruct v as [|p|p]; [reflexivity | | lia].
  unfold HexString.of_pos. cbn [py_slice_from].
  rewrite HexString.Raw.to_N_of_pos. reflexivity.
Qed.

Lemma hex_zero_iff : forall v, 0 <= v -> (String.eqb (hex_of v) "0" = true <-> v = 0).
Proof.
  intros v Hv. split.
  - intros H. apply String.eqb_eq in H. pose proof (hex_roundtrip v Hv) as R. rewrite H in R. cbn in R. lia.
  - intros ->. reflexivity.
Qed.

(* item level: GASOL's size of PUSH v = reference size, for all v and both settings of the switch *)
Lemma push_item_size_agrees : forall p0 v, 0 <= v ->
  AsmBytecode_bytes_required p0 (mkItem "PUSH" (Some (hex_of v))) = ref_size p0 "PUSH" (Some v).
Proof.
  intros p0 v Hv. unfold AsmBytecode_bytes_required, is_push0, ref_size. cbn [i_disasm i_value opt_eqb_string unopt_string].
  cbn [String.eqb Ascii.eqb Bool.eqb andb]. rewrite andb_true_r.
  rewrite hex_roundtrip by assumption.
  destruct (String.eqb (hex_of v) "0") eqn:E.
  - apply hex_zero_iff in E; [|assumption]. subst v. destruct p0; reflexivity.
  - assert (Hz : (v =? 0) = false).
    { apply Z.eqb_neq. intros ->. cbv in E. discriminate. }
    rewrite Hz, andb_false_r. cbn [andb]. now rewrite push_size_all_values.
Qed.

(* ------------------------------------------------------------------ additivity, rebuild *)

Lemma py_sum_opt_app : forall a b,
  py_sum_opt (a ++ b) = match py_sum_opt a, py_sum_opt b with Some x, Some y => Some (x + y) | _, _ => None end.
Proof.
  induction a as [|[x|] a IH]; intros b; cbn [py_sum_opt app].
  - destruct (py_sum_opt b); [f_equal; lia | reflexivity].
  - rewrite IH. destruct (py_sum_opt a), (py_sum_opt b); try reflexivity. f_equal. lia.
  - reflexivity.
Qed.

Definition block_size (p0 : bool) (l : list Item) : option Z := AsmBlock_bytes_required p0 (mkBlockI l).
Definition block_length (l : list Item) : Z := AsmBlock_length (mkBlockI l).

Lemma block_size_app : forall p0 a b,
  block_size p0 (a ++ b) = match block_size p0 a, block_size p0 b with Some x, Some y => Some (x + y) | _, _ => None end.
Proof. intros. unfold block_size, AsmBlock_bytes_required. cbn [bi_instructions]. rewrite map_app. apply py_sum_opt_app. Qed.

Lemma block_length_app : forall a b, block_length (a ++ b) = block_length a + block_length b.
Proof.
  intros. unfold block_length, AsmBlock_length, py_len. cbn [bi_instructions].
  rewrite filter_app, map_app, app_length. lia.
Qed.

Lemma static_gas_app : forall p0 a b, static_gas p0 (a ++ b) = static_gas p0 a + static_gas p0 b.
Proof.
  intros p0 a b. unfold static_gas. rewrite map_app. induction (map (AsmBytecode_gas_spent p0) a) as [|x l IH]; cbn; lia.
Qed.

(* replacing a segment by one that is no larger (resp. smaller) makes the block no larger (resp. smaller) *)
Lemma rebuild_monotone_size : forall p0 pre seg seg' suf s s' t,
  block_size p0 seg = Some s -> block_size p0 seg' = Some s' ->
  block_size p0 (rebuild pre seg suf) = Some t ->
  exists t', block_size p0 (rebuild pre seg' suf) = Some t' /\ t - t' = s - s'.
Proof.
  intros p0 pre seg seg' suf s s' t Hs Hs' Ht. unfold rebuild in *.
  rewrite !block_size_app in *. rewrite Hs in Ht. rewrite Hs'.
  destruct (block_size p0 pre) as [a|]; [|discriminate].
  destruct (block_size p0 suf) as [b|]; [|discriminate].
  injection Ht as <-. eexists. split; [reflexivity | lia].
Qed.

Lemma rebuild_monotone_length : forall pre seg seg' suf,
  block_length (rebuild pre seg suf) - block_length (rebuild pre seg' suf) = block_length seg - block_length seg'.
Proof. intros. unfold rebuild. rewrite !block_length_app. lia. Qed.

Lemma rebuild_monotone_static_gas : forall p0 pre seg seg' suf,
  static_gas p0 (rebuild pre seg suf) - static_gas p0 (rebuild pre seg' suf) = static_gas p0 seg - static_gas p0 seg'.
Proof. intros. unfold rebuild. rewrite !static_gas_app. lia. Qed.

(* any number of sub-blocks: parts replaced one by one, each no longer than before *)
Lemma rebuild_parts_length_monotone : forall (parts parts' : list (list Item)),
  Forall2 (fun a b => block_length b <= block_length a) parts parts' ->
  block_length (rebuild_parts parts') <= block_length (rebuild_parts parts).
Proof.
  intros parts parts' H. unfold rebuild_parts. induction H as [|a b l l' Hab _ IH]; cbn [List.concat].
  - lia.
  - rewrite !block_length_app. lia.
Qed.

Lemma rebuild_parts_static_gas_monotone : forall p0 (parts parts' : list (list Item)),
  Forall2 (fun a b => static_gas p0 b <= static_gas p0 a) parts parts' ->
  static_gas p0 (rebuild_parts parts') <= static_gas p0 (rebuild_parts parts).
Proof.
  intros p0 parts parts' H. unfold rebuild_parts. induction H as [|a b l l' Hab _ IH]; cbn [List.concat].
  - lia.
  - rewrite !static_gas_app. lia.
Qed.

Lemma rebuild_parts_size_monotone : forall p0 (parts parts' : list (list Item)) t,
  Forall2 (fun a b => match block_size p0 a, block_size p0 b with Some x, Some y => y <= x | _, _ => False end) parts parts' ->
  block_size p0 (rebuild_parts parts) = Some t ->
  exists t', block_size p0 (rebuild_parts parts') = Some t' /\ t' <= t.
Proof.
  intros p0 parts parts' t H. revert t. unfold rebuild_parts. induction H as [|a b l l' Hab _ IH]; intros t Ht; cbn [List.concat] in *.
  - exists t. split; [assumption | lia].
  - rewrite block_size_app in *. destruct (block_size p0 a) as [x|]; [|contradiction].
    destruct (block_size p0 b) as [y|]; [|contradiction].
    destruct (block_size p0 (List.concat l)) as [u|]; [|discriminate].
    destruct (IH u eq_refl) as [u' [Hu Hle]]. rewrite Hu. injection Ht as <-.
    eexists. split; [reflexivity | lia].
Qed.

(* ------------------------------------------------------------------ gas with warm/cold bookkeeping *)

Definition it (d : string) : Item := mkItem d None.

(* Whole-block monotonicity of GASOL's OWN gas accounting is false in the shipped code: a segment that is
   cheaper on its own can make the block's accounted gas larger, because the two spellings of a zero
   push produce different symbolic storage keys ("PUSH0" vs "0") in execute_asm.
   Statement kept conditional on the recorded shape of execute_asm, so that it stays checkable when
   the proposed repair (proposals/C17/1.patch) is applied. *)
Definition w_pre := [it "PUSH0"; it "SLOAD"; it "GAS"].
Definition w_seg := [it "PUSH0"; it "SLOAD"; it "PUSH0"; it "ADD"].
Definition w_seg' := [mkItem "PUSH" (Some "0"); it "SLOAD"].

Lemma gas_rebuild_monotone_refuted :
  execute_asm_push0_as_zero = false ->
  exists pre seg seg' suf g g' t t',
    AsmBlock_gas_spent true seg = Some g /\ AsmBlock_gas_spent true seg' = Some g' /\ g' < g /\
    AsmBlock_gas_spent true (rebuild pre seg suf) = Some t /\
    AsmBlock_gas_spent true (rebuild pre seg' suf) = Some t' /\ t < t'.
Proof.
  intros Hflag. first [ discriminate Hflag |
    exists w_pre, w_seg, w_seg', [], 2107, 2102, 2211, 4206; vm_compute; repeat split; reflexivity ].
Qed.

(* with the repair the witness is priced consistently *)
Lemma gas_witness_after_repair :
  execute_asm_push0_as_zero = true ->
  AsmBlock_gas_spent true (rebuild w_pre w_seg []) = Some 2211 /\
  AsmBlock_gas_spent true (rebuild w_pre w_seg' []) = Some 2206.
Proof.
  intros Hflag. first [ discriminate Hflag | vm_compute; split; reflexivity ].
Qed.

(* what does hold for every block: with the static schedule (each instruction priced on its own,
   AsmBytecode.gas_spent) the block cost is the sum over its instructions, hence
   rebuild_monotone_static_gas / rebuild_parts_static_gas_monotone above. *)
