(* Soundness of the constant-offset decision of are_dependent (regenerated: Gen/DepConst.v):
   whenever it answers "independent" for two accesses of which at least one writes, the byte ranges
   (memory) are disjoint / the keys (storage) differ -- for ALL offsets and lengths. *)
From Coq Require Import ZArith Bool String List Lia ZifyBool.
From GV Require Import Model.DepPrelude Gen.DepConst.
Import ListNotations.
Local Open Scope Z_scope.
Local Open Scope string_scope.

(* the instruction names GASOL's front end uses (loads and hashes carry an occurrence number) *)
Definition mem_kinds : list string := ["mstore"; "mstore8"; "mload0"; "keccak2560"].
Definition sto_kinds : list string := ["sload0"; "sstore"].

Definition size_of (k : string) (len : Z) : Z :=
  if contains k "mstore8" then 1 else if contains k "keccak" then len else 32.
Definition writes (k : string) : bool := contains k "store".

Ltac split_ifs :=
  repeat match goal with
         | H : context[if ?b then _ else _] |- _ => destruct b eqn:?
         end.

Theorem dep_const_sound_mem : forall k1 k2 a1 a2 s1 s2 l1 l2 L1 L2,
  In k1 mem_kinds -> In k2 mem_kinds -> writes k1 || writes k2 = true ->
  0 <= L1 -> 0 <= L2 -> (s1 = false -> L1 = l1) -> (s2 = false -> L2 = l2) ->
  are_dependent_const k1 k2 a1 a2 s1 s2 l1 l2 = false ->
  forall x, ~ (a1 <= x < a1 + size_of k1 L1 /\ a2 <= x < a2 + size_of k2 L2).
Proof.
  intros k1 k2 a1 a2 s1 s2 l1 l2 L1 L2 H1 H2 W P1 P2 E1 E2 D x.
  unfold mem_kinds in H1, H2. cbn [In] in H1, H2.
  destruct H1 as [<-|[<-|[<-|[<-|[]]]]]; destruct H2 as [<-|[<-|[<-|[<-|[]]]]];
    cbv -[Z.add Z.sub Z.ltb Z.geb Z.eqb Z.abs Z.leb Z.gtb Z.le Z.lt not] in D, W |- *;
    try discriminate W;
    destruct s1, s2; split_ifs; try discriminate D;
    try (specialize (E1 eq_refl)); try (specialize (E2 eq_refl)); lia.
Qed.

Theorem dep_const_sound_sto : forall k1 k2 a1 a2 s1 s2 l1 l2,
  In k1 sto_kinds -> In k2 sto_kinds ->
  are_dependent_const k1 k2 a1 a2 s1 s2 l1 l2 = false -> a1 <> a2.
Proof.
  intros k1 k2 a1 a2 s1 s2 l1 l2 H1 H2 D.
  unfold sto_kinds in H1, H2. cbn [In] in H1, H2.
  destruct H1 as [<-|[<-|[]]]; destruct H2 as [<-|[<-|[]]];
    cbv -[Z.add Z.sub Z.ltb Z.geb Z.eqb Z.abs Z.leb Z.gtb] in D; split_ifs; try discriminate D; lia.
Qed.

(* precision on the most common pair: two word stores are dependent exactly when they overlap *)
Theorem dep_const_exact_mstore : forall a1 a2,
  are_dependent_const "mstore" "mstore" a1 a2 false false 0 0 = true <->
  exists x, a1 <= x < a1 + 32 /\ a2 <= x < a2 + 32.
Proof.
  intros a1 a2. cbv -[Z.add Z.sub Z.ltb Z.geb Z.eqb Z.abs Z.leb Z.gtb Z.le Z.lt iff].
  destruct (Z.eqb a1 a2) eqn:E.
  - split; [intros _; exists a1; lia|reflexivity].
  - split.
    + intros H. exists (Z.max a1 a2). lia.
    + intros [x Hx]. lia.
Qed.

(* non-vacuity: the decision does answer "independent", and "dependent" at the last byte of a word *)
Example dep_const_examples :
  are_dependent_const "mstore8" "mstore" 32 0 false false 0 0 = false /\
  are_dependent_const "mstore8" "mstore" 31 0 false false 0 0 = true /\
  are_dependent_const "mstore" "keccak2560" 1 32 false false 0 32 = true /\
  are_dependent_const "mstore" "keccak2560" 0 32 false false 0 32 = false /\
  are_dependent_const "mstore" "keccak2560" 64 32 false false 0 32 = false /\
  are_dependent_const "mstore" "keccak2560" 64 32 false true 0 0 = true.
Proof. vm_compute. repeat split. Qed.
