(* Substring test used by the regenerated model of are_dependent (Python's  s.find(p) != -1). *)
From Coq Require Import String Ascii Bool.

Fixpoint str_prefix (p s : string) : bool :=
  match p, s with
  | EmptyString, _ => true
  | String a p', String b s' => Ascii.eqb a b && str_prefix p' s'
  | String _ _, EmptyString => false
  end.

(* [contains s p]: p occurs in s *)
Fixpoint contains (s p : string) : bool :=
  str_prefix p s || match s with EmptyString => false | String _ s' => contains s' p end.
