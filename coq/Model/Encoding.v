(* Executable model of GASOL's Max-SMT hard-constraint generators (property C06).
   No proofs in this file (Model/EncodingProofs.v).

   Code modelled (all under /repo/smt_encoding):
     complete_encoding/synthesis_full_encoding.py   FullEncoding.__init__ (instruction table, theta
                                                    numbering), generate_hard_constraints,
                                                    _select_additional_constraints_from_flags
     complete_encoding/synthesis_stack_constraints.py   every *_encoding and *_encoding_empty
     complete_encoding/synthesis_predicates.py      move, move_only_x_j_i
     complete_encoding/synthesis_initialize_variables.py  stack_encoding_for_position(_empty),
                                                    restrict_t_domain, expressions_are_distinct,
                                                    initialize_stack_variables
     complete_encoding/synthesis_pre_order.py       direct_conflict_constraints (dependent_pre_order,
                                                    happens_before_direct, sto_ld/ld_sto_dependency),
                                                    l_conflicting_constraints
     complete_encoding/synthesis_additional_constraints.py  fromnop_encoding,
                                                    each_instruction_is_used_at_least_once,
                                                    no_output_before_pop, each_function_is_used_at_most_once
     complete_encoding/synthesis_opcode_term_creation.py    the four term representations
     complete_encoding/synthesis_utils.py           select_instructions_position
     constraints/connector_factory.py               add_and/or/not/implies/eq/lt/leq/distinct with their
                                                    simplifications (type-aware literal equality, the
                                                    code after fix 7b8c7648)
     block_optimizer.py                             _rebuild_block_from_solver  (decode)

   INPUTS that are NOT modelled but supplied by the harness from the same Python objects and
   therefore quantified over in the theorems:
     - the position bounds of every theta value (InstructionBounds: lower/upper bound; the
       computation in instruction_bounds_with_dependencies.py belongs to C07),
     - the dependency graph used by the l_vars encoding (instruction_dependencies.py),
     - the names of the uninterpreted functors (regular-expression renaming of ids) and the id
       strings (only `id.startswith("POP")`, `'STORE' in id` are read from them).
   is_revert (the -terminal encoding, marked UNSUPPORTED) is not modelled: terminal = false.

   Variant parameter [o_hb_fix]: false = the code as it stands (happens_before_direct returns no
   constraint when there is no earlier position, loops start at max(1, ..)); true = the behaviour
   after proposals/C06/1.patch.  The harness probes the checkout and uses the matching variant. *)
From Coq Require Import ZArith List Bool String Arith.
From GV Require Import Sym.Spec.
From GV Require Model.Formula.
Import ListNotations.
Local Open Scope string_scope.
Local Open Scope list_scope.

(* ------------------------------------------------------------------ *)
(* terms and formulas                                                    *)

Inductive tm :=
| TmT (j : nat)                 (* t_j *)
| TmTheta (k : nat)             (* theta_k (term encoding uninterpreted_uf only) *)
| TmX (i j : nat)               (* x_i_j *)
| TmA (j : nat)                 (* a_j *)
| TmL (k : nat)                 (* l_k *)
| TmInt (z : Z)
| TmFun (name : string) (args : list tm).   (* s_k, functor applications, "empty" *)

Inductive fm :=
| FmB (b : bool)
| FmErr                         (* a constructor raised (AssertionError of create_connector) *)
| FmU (i j : nat)               (* u_i_j *)
| FmEq (a b : tm)
| FmIff (a b : fm)              (* add_eq on two Bool-sorted things *)
| FmLt (a b : tm)
| FmLe (a b : tm)
| FmDistinct (l : list tm)
| FmNot (f : fm)
| FmAnd (l : list fm)
| FmOr (l : list fm)
| FmImp (a b : fm).

Fixpoint tm_eqb (a b : tm) {struct a} : bool :=
  match a, b with
  | TmT i, TmT j => Nat.eqb i j
  | TmTheta i, TmTheta j => Nat.eqb i j
  | TmX i j, TmX i' j' => Nat.eqb i i' && Nat.eqb j j'
  | TmA i, TmA j => Nat.eqb i j
  | TmL i, TmL j => Nat.eqb i j
  | TmInt x, TmInt y => Z.eqb x y
  | TmFun n l, TmFun n' l' =>
      String.eqb n n' &&
      (fix go (l l' : list tm) : bool :=
         match l, l' with
         | [], [] => true
         | x :: r, y :: r' => tm_eqb x y && go r r'
         | _, _ => false
         end) l l'
  | _, _ => false
  end.

(* structural equality of formulas (Connector.__eq__ also accepts permutations of the arguments
   of commutative connectors; the generators never compare two formulas that differ by a
   permutation, the correspondence check would show it) *)
Fixpoint fm_eqb (a b : fm) {struct a} : bool :=
  match a, b with
  | FmB x, FmB y => Bool.eqb x y
  | FmU i j, FmU i' j' => Nat.eqb i i' && Nat.eqb j j'
  | FmEq x y, FmEq x' y' => tm_eqb x x' && tm_eqb y y'
  | FmLt x y, FmLt x' y' => tm_eqb x x' && tm_eqb y y'
  | FmLe x y, FmLe x' y' => tm_eqb x x' && tm_eqb y y'
  | FmNot x, FmNot y => fm_eqb x y
  | FmImp x y, FmImp x' y' => fm_eqb x x' && fm_eqb y y'
  | FmIff x y, FmIff x' y' => fm_eqb x x' && fm_eqb y y'
  | _, _ => false
  end.

(* --- the simplifying constructors (connector_factory.py) ------------- *)

Definition is_false (f : fm) : bool := match f with FmB false => true | _ => false end.
Definition is_true (f : fm) : bool := match f with FmB true => true | _ => false end.

Definition and_piece (a : fm) : list fm :=
  match a with FmB _ => [] | FmAnd l => l | _ => [a] end.
Definition or_piece (a : fm) : list fm :=
  match a with FmB _ => [] | FmOr l => l | _ => [a] end.

Definition mk_and (args : list fm) : fm :=
  match args with
  | [] => FmErr
  | _ =>
      if existsb is_false args then FmB false
      else match flat_map and_piece args with
           | [x] => x
           | [] => FmErr
           | l => FmAnd l
           end
  end.

Definition mk_or (args : list fm) : fm :=
  match args with
  | [] => FmErr
  | _ =>
      if existsb is_true args then FmB true
      else match flat_map or_piece args with
           | [x] => x
           | [] => FmErr
           | l => FmOr l
           end
  end.

Definition mk_not (a : fm) : fm :=
  match a with
  | FmNot x => x
  | FmB b => FmB (negb b)
  | _ => FmNot a
  end.

Definition mk_imp (a b : fm) : fm :=
  match a with
  | FmB false => FmB true
  | FmB true => b
  | _ =>
      match b with
      | FmB true => FmB true
      | FmB false => mk_not a
      | _ => FmImp a b
      end
  end.

Definition mk_eq (a b : tm) : fm :=
  match a, b with
  | TmInt x, TmInt y => FmB (Z.eqb x y)
  | _, _ => if tm_eqb a b then FmB true else FmEq a b
  end.

Definition mk_iff (a b : fm) : fm :=
  match a, b with
  | FmB x, FmB y => FmB (Bool.eqb x y)
  | _, _ => if fm_eqb a b then FmB true else FmIff a b
  end.

Definition mk_distinct (l : list tm) : fm :=
  match l with [] => FmErr | _ => FmDistinct l end.

(* add_distinct(a, b) as used on two terms *)
Definition mk_neq (a b : tm) : fm := FmDistinct [a; b].

(* ------------------------------------------------------------------ *)
(* options, bounds, instruction table                                    *)

Inductive term_enc := EncInt | EncStackVars | EncUF | EncUFInt.

Record options := mkOpt {
  o_term : term_enc;
  o_empty : bool;
  o_push_basic : bool;
  o_pop_unint : bool;
  o_lvars : bool;              (* memory_encoding = l_vars *)
  o_order_conflicts : bool;    (* flags.order_conflicts (True unless -order-conflicts is given) *)
  o_hb_fix : bool              (* variant, see the header *)
}.

Definition default_options : options := mkOpt EncUF false false false false true false.

(* what the harness supplies next to the specification *)
Record extra := mkExtra {
  x_ids : list string;               (* id of every user instruction, in order *)
  x_functors : list string;          (* functor name of every user instruction (UF encodings) *)
  x_bounds : list (Z * Z);           (* (lower, upper) bound per theta value *)
  x_depgraph : list (nat * list nat) (* l_vars: theta -> thetas that must happen before, dict order *)
}.

Definition int_limit : Z := 2 ^ 256.
Definition max_k : nat := 16.

Inductive ekind :=
| KNop | KPop | KPush | KDup (k : nat) | KSwap (k : nat)
| KStore (o0 o1 : operand)
| KComm (o0 o1 : operand) (r : option nat)
| KNonComm (o : list operand) (r : option nat)
| KPopU (o0 : operand).

Definition is_basic (k : ekind) : bool :=
  match k with KNop | KPop | KPush | KDup _ | KSwap _ => true | _ => false end.

Definition head_operand (l : list operand) (n : nat) : operand := nth n l (OConst (-1)).
Definition out_var (u : uinstr) : option nat := match ui_out u with v :: _ => Some v | [] => None end.

(* InstructionFactory.create_instruction_json_format *)
Definition kind_of (u : uinstr) (id : string) : ekind :=
  if ui_storage u then KStore (head_operand (ui_in u) 0) (head_operand (ui_in u) 1)
  else if prefixb "POP" id then KPopU (head_operand (ui_in u) 0)
  else if ui_comm u then KComm (head_operand (ui_in u) 0) (head_operand (ui_in u) 1) (out_var u)
  else KNonComm (ui_in u) (out_var u).

Fixpoint zip_kinds (us : list uinstr) (ids : list string) : list ekind :=
  match us, ids with
  | u :: us', i :: ids' => kind_of u i :: zip_kinds us' ids'
  | u :: us', [] => kind_of u "" :: zip_kinds us' []
  | [], _ => []
  end.

Fixpoint number {A} (start : nat) (l : list A) : list (nat * A) :=
  match l with [] => [] | a :: r => (start, a) :: number (S start) r end.

Definition unint_table (S : spec) (X : extra) : list (nat * ekind) :=
  number 0 (zip_kinds (s_instrs S) (x_ids X)).

(* range(1, min(bs, 17)) *)
Definition k_range (bs : nat) : list nat := seq 1 (Nat.min bs (max_k + 1) - 1).

Definition basic_kinds (O : options) (bs : nat) : list ekind :=
  [KNop] ++ (if o_pop_unint O then [] else [KPop]) ++ (if o_push_basic O then [KPush] else [])
  ++ map KDup (k_range bs) ++ map KSwap (k_range bs).

Definition basic_table (O : options) (S : spec) : list (nat * ekind) :=
  number (List.length (s_instrs S)) (basic_kinds O (s_max_sk S)).

(* self._instructions = [*basic, *uninterpreted] *)
Definition all_table (O : options) (S : spec) (X : extra) : list (nat * ekind) :=
  basic_table O S ++ unint_table S X.

(* bounds *)
Definition lbz (X : extra) (th : nat) : Z := fst (nth th (x_bounds X) (0, -1))%Z.
Definition ubz (X : extra) (th : nat) : Z := snd (nth th (x_bounds X) (0, -1))%Z.

(* Python range(a, b) restricted to the non-negative positions (a negative position never
   selects an instruction: every lower bound is >= 0) *)
Definition zrange (a b : Z) : list nat :=
  map (fun k => Z.to_nat (Z.max 0 a + Z.of_nat k)%Z) (seq 0 (Z.to_nat (b - Z.max 0 a))).

Definition in_bounds (X : extra) (j : nat) (th : nat) : bool :=
  (lbz X th <=? Z.of_nat j)%Z && (Z.of_nat j <=? ubz X th)%Z.

(* select_instructions_position *)
Definition select_pos (X : extra) (j : nat) (ths : list nat) : list nat :=
  filter (in_bounds X j) ths.

(* ------------------------------------------------------------------ *)
(* stack variables -> terms (synthesis_opcode_term_creation.py)          *)

Definition nat_str (n : nat) : string := Formula.string_of_N (N.of_nat n).
Definition s_name (k : nat) : string := String.append "s_" (nat_str k).

Definition table := list (nat * tm).     (* stack variable -> term, in dict insertion order *)

Fixpoint tlookup (t : table) (v : nat) : option tm :=
  match t with
  | [] => None
  | (w, x) :: r => if Nat.eqb v w then Some x else tlookup r v
  end.

Definition src_var_list (S : spec) : list nat :=
  flat_map (fun o => match o with OVar v => [v] | OConst _ => [] end) (s_src S).

(* outputs of the instructions that have one, in order *)
Definition out_instrs (S : spec) : list (nat * uinstr) :=
  flat_map (fun u => match ui_out u with v :: _ => [(v, u)] | [] => [] end) (s_instrs S).

(* opcode_rep_with_int(initial) *)
Definition table_int (S : spec) (initial : Z) : table :=
  let g := src_var_list S in
  map (fun p => (snd p, TmInt (initial + Z.of_nat (fst p)))) (number 0 g)
  ++ map (fun p => (fst (snd p), TmInt (initial + Z.of_nat (List.length g + fst p)))) (number 0 (out_instrs S)).

(* opcode_rep_with_stack_vars *)
Definition table_sv (S : spec) : table :=
  let g := src_var_list S in
  map (fun p => (snd p, TmFun (s_name (fst p)) [])) (number 0 g)
  ++ map (fun p => (fst (snd p), TmFun (s_name (List.length g + fst p)) [])) (number 0 (out_instrs S)).

(* opcode_rep_with_uf: post-order construction, fuel = number of instructions + 1 *)
Definition functor_of (S : spec) (X : extra) (u : uinstr) : string :=
  nth (ui_id u) (x_functors X) "?".

Fixpoint uf_visit (fuel : nat) (S : spec) (X : extra) (acc : table) (u : uinstr) : table * tm :=
  match fuel with
  | O => (acc, TmFun "!fuel" [])
  | Datatypes.S fuel' =>
      match out_var u with
      | None => (acc, TmFun "!noout" [])
      | Some r =>
          match tlookup acc r with
          | Some t => (acc, t)
          | None =>
              let step := fun (st : table * list tm) (o : operand) =>
                let '(acc1, args) := st in
                match o with
                | OConst z => (acc1, args ++ [TmInt z])
                | OVar v =>
                    match tlookup acc1 v with
                    | Some t => (acc1, args ++ [t])
                    | None =>
                        match definer S v with
                        | Some d => let '(acc2, t) := uf_visit fuel' S X acc1 d in (acc2, args ++ [t])
                        | None => (acc1, args ++ [TmFun "!unbound" []])
                        end
                    end
                end in
              let '(acc', args) := fold_left step (ui_in u) (acc, []) in
              let t := TmFun (functor_of S X u) args in
              (acc' ++ [(r, t)], t)
          end
      end
  end.

Definition is_store_or_pop (u : uinstr) (id : string) : bool :=
  ui_storage u || prefixb "POP" id.

Fixpoint zip_ids (us : list uinstr) (ids : list string) : list (uinstr * string) :=
  match us, ids with
  | u :: us', i :: ids' => (u, i) :: zip_ids us' ids'
  | u :: us', [] => (u, "") :: zip_ids us' []
  | [], _ => []
  end.

Definition table_uf (S : spec) (X : extra) : table :=
  let g := map (fun p => (snd p, TmFun (s_name (fst p)) [])) (number 0 (src_var_list S)) in
  fold_left (fun acc (p : uinstr * string) =>
               if is_store_or_pop (fst p) (snd p) then acc
               else fst (uf_visit (Datatypes.S (List.length (s_instrs S))) S X acc (fst p)))
            (zip_ids (s_instrs S) (x_ids X)) g.

Definition is_uf (O : options) : bool :=
  match o_term O with EncUF | EncUFInt => true | _ => false end.

Definition var_table (O : options) (S : spec) (X : extra) : table :=
  match o_term O with
  | EncUF | EncUFInt => table_uf S X
  | EncStackVars => table_sv S
  | EncInt => table_int S (if o_push_basic O then int_limit else 0%Z)
  end.

(* the term tied to "empty" *)
Definition empty_tm (O : options) (S : spec) (X : extra) : tm :=
  match o_term O with
  | EncInt => TmInt ((if o_push_basic O then int_limit else 0%Z)
                     + Z.of_nat (List.length (src_var_list S) + List.length (out_instrs S)))
  | _ => TmFun "empty" []
  end.

(* created_stack_vars(): the ExpressionReference values of the dict, "empty" included, in order *)
Definition created_stack_vars (O : options) (S : spec) (X : extra) : list tm :=
  match o_term O with
  | EncInt => []
  | _ => map snd (var_table O S X) ++ (if o_empty O then [empty_tm O S X] else [])
  end.

(* sf.stack_var *)
Definition stack_tm (T : table) (o : operand) : tm :=
  match o with
  | OConst z => TmInt z
  | OVar v => match tlookup T v with Some t => t | None => TmFun "!unbound" [] end
  end.

Definition stack_tm_opt (T : table) (r : option nat) : tm :=
  match r with Some v => stack_tm T (OVar v) | None => TmFun "!none" [] end.

(* sf.theta_value *)
Definition theta (O : options) (k : nat) : tm :=
  match o_term O with EncUF => TmTheta k | _ => TmInt (Z.of_nat k) end.

Definition t_is (O : options) (j th : nat) : fm := mk_eq (TmT j) (theta O th).

(* ------------------------------------------------------------------ *)
(* move, stack transitions (indices may go below zero in Python's ranges: alpha > beta gives True) *)

(* positions alpha..beta as naturals; empty when alpha > beta *)
Definition irange (alpha beta : Z) : list Z :=
  map (fun k => (alpha + Z.of_nat k)%Z) (seq 0 (Z.to_nat (beta - alpha + 1))).

Definition zn (z : Z) : nat := Z.to_nat z.

Definition move (j : nat) (alpha beta delta : Z) : fm :=
  if (beta <? alpha)%Z then FmB true
  else mk_and (flat_map (fun i => [mk_iff (FmU (zn (i + delta)) (S j)) (FmU (zn i) j);
                                   mk_eq (TmX (zn (i + delta)) (S j)) (TmX (zn i) j)])
                        (irange alpha beta)).

Definition move_x (j : nat) (alpha beta delta : Z) : fm :=
  if (beta <? alpha)%Z then FmB true
  else mk_and (map (fun i => mk_eq (TmX (zn (i + delta)) (S j)) (TmX (zn i) j)) (irange alpha beta)).

Section Transitions.
  Variable O : options.
  Variable T : table.
  Variable E : tm.            (* the "empty" term *)
  Variable bs : nat.

  Let bz := Z.of_nat bs.
  Let sv := stack_tm T.

  Definition enc_instr (j th : nat) (k : ekind) : fm :=
    let left := t_is O j th in
    let right :=
      match k, o_empty O with
      | KPush, false =>
          mk_and [FmLe (TmInt 0) (TmA j); FmLt (TmA j) (TmInt int_limit); mk_not (FmU (bs - 1) j);
                  FmU 0 (S j); mk_eq (TmX 0 (S j)) (TmA j); move j 0 (bz - 2) 1]
      | KPush, true =>
          mk_and [FmLe (TmInt 0) (TmA j); FmLt (TmA j) (TmInt int_limit); mk_eq (TmX (bs - 1) j) E;
                  mk_eq (TmX 0 (S j)) (TmA j); move_x j 0 (bz - 2) 1]
      | KDup d, false =>
          mk_and [mk_not (FmU (bs - 1) j); FmU (d - 1) j; FmU 0 (S j);
                  mk_eq (TmX 0 (S j)) (TmX (d - 1) j); move j 0 (bz - 2) 1]
      | KDup d, true =>
          mk_and [mk_eq (TmX (bs - 1) j) E; mk_neq (TmX (d - 1) j) E;
                  mk_eq (TmX 0 (S j)) (TmX (d - 1) j); move_x j 0 (bz - 2) 1]
      | KSwap d, false =>
          mk_and [FmU d j; FmU 0 (S j); mk_eq (TmX 0 (S j)) (TmX d j); FmU d (S j);
                  mk_eq (TmX d (S j)) (TmX 0 j); move j 1 (Z.of_nat d - 1) 0; move j (Z.of_nat d + 1) (bz - 1) 0]
      | KSwap d, true =>
          mk_and [mk_neq (TmX d j) E; mk_eq (TmX 0 (S j)) (TmX d j); mk_neq (TmX 0 j) E;
                  mk_eq (TmX d (S j)) (TmX 0 j); move_x j 1 (Z.of_nat d - 1) 0;
                  move_x j (Z.of_nat d + 1) (bz - 1) 0]
      | KPop, false => mk_and [FmU 0 j; mk_not (FmU (bs - 1) (S j)); move j 1 (bz - 1) (-1)]
      | KPop, true =>
          mk_and [mk_neq (TmX 0 j) E; mk_eq (TmX (bs - 1) (S j)) E; move_x j 1 (bz - 1) (-1)]
      | KPopU o0, false =>
          mk_and [FmU 0 j; mk_eq (TmX 0 j) (sv o0); mk_not (FmU (bs - 1) (S j)); move j 1 (bz - 1) (-1)]
      | KPopU o0, true =>
          mk_and [mk_neq (TmX 0 j) E; mk_eq (TmX 0 j) (sv o0); mk_eq (TmX (bs - 1) (S j)) E;
                  move_x j 1 (bz - 1) (-1)]
      | KNop, false => move j 0 (bz - 1) 0
      | KNop, true => move_x j 0 (bz - 1) 0
      | KNonComm o r, e =>
          let n := List.length o in
          let nz := Z.of_nat n in
          let first := map (fun p => if e then mk_eq (TmX (fst p) j) (sv (snd p))
                                     else mk_and [FmU (fst p) j; mk_eq (TmX (fst p) j) (sv (snd p))])
                           (number 0 o) in
          let second := map (fun i => if e then mk_eq (TmX i (S j)) E else mk_not (FmU i (S j)))
                            (zrange (bz - nz + 1) bz) in
          let third := map (fun i => if e then mk_eq (TmX i j) E else mk_not (FmU i j))
                           (zrange (bz + nz - 1) bz) in
          let combined := match first ++ second ++ third with
                          | [] => FmB true
                          | l => mk_and l
                          end in
          if e then
            mk_and [combined; mk_eq (TmX 0 (S j)) (stack_tm_opt T r);
                    move_x j nz (Z.min (bz - 2 + nz) (bz - 1)) (1 - nz)]
          else
            mk_and [combined; FmU 0 (S j); mk_eq (TmX 0 (S j)) (stack_tm_opt T r);
                    move j nz (Z.min (bz - 2 + nz) (bz - 1)) (1 - nz)]
      | KComm o0 o1 r, false =>
          mk_and [FmU 0 j; FmU 1 j;
                  mk_or [mk_and [mk_eq (TmX 0 j) (sv o0); mk_eq (TmX 1 j) (sv o1)];
                         mk_and [mk_eq (TmX 0 j) (sv o1); mk_eq (TmX 1 j) (sv o0)]];
                  FmU 0 (S j); mk_eq (TmX 0 (S j)) (stack_tm_opt T r); move j 2 (bz - 1) (-1);
                  mk_not (FmU (bs - 1) (S j))]
      | KComm o0 o1 r, true =>
          mk_and [mk_or [mk_and [mk_eq (TmX 0 j) (sv o0); mk_eq (TmX 1 j) (sv o1)];
                         mk_and [mk_eq (TmX 0 j) (sv o1); mk_eq (TmX 1 j) (sv o0)]];
                  mk_eq (TmX 0 (S j)) (stack_tm_opt T r); move_x j 2 (bz - 1) (-1);
                  mk_eq (TmX (bs - 1) (S j)) E]
      | KStore o0 o1, false =>
          mk_and [FmU 0 j; FmU 1 j; mk_and [mk_eq (TmX 0 j) (sv o0); mk_eq (TmX 1 j) (sv o1)];
                  move j 2 (bz - 1) (-2); mk_not (FmU (bs - 1) (S j)); mk_not (FmU (bs - 2) (S j))]
      | KStore o0 o1, true =>
          mk_and [mk_eq (TmX 0 j) (sv o0); mk_eq (TmX 1 j) (sv o1); move_x j 2 (bz - 1) (-2);
                  mk_eq (TmX (bs - 1) (S j)) E; mk_eq (TmX (bs - 2) (S j)) E]
      end in
    mk_imp left right.

  (* stack_encoding_for_position(_empty) *)
  Definition stack_at (j : nat) (stk : list operand) : list fm :=
    if o_empty O then
      map (fun p => mk_eq (TmX (fst p) j) (sv (snd p))) (number 0 stk)
      ++ map (fun b => mk_eq (TmX b j) E) (zrange (Z.of_nat (List.length stk)) bz)
    else
      map (fun p => mk_and [FmU (fst p) j; mk_eq (TmX (fst p) j) (sv (snd p))]) (number 0 stk)
      ++ map (fun b => mk_not (FmU b j)) (zrange (Z.of_nat (List.length stk)) bz).
End Transitions.

(* ------------------------------------------------------------------ *)
(* the whole hard part                                                   *)

Section Hard.
  Variable O : options.
  Variable S : spec.
  Variable X : extra.

  Let T := var_table O S X.
  Let E := empty_tm O S X.
  Let bs := s_max_sk S.
  Let b0 := s_init_len S.
  Let lb := lbz X.
  Let ub := ubz X.

  Definition positions : list nat := zrange 0 (Z.of_nat b0).     (* first..last position *)

  (* restrict_t_domain *)
  Definition restrict_t : list fm :=
    map (fun j => mk_or (map (t_is O j) (select_pos X j (map fst (all_table O S X))))) positions.

  (* stack_constraints_with_bounds for every instruction *)
  Definition transitions : list fm :=
    flat_map (fun p => map (fun j => enc_instr O T E bs j (fst p) (snd p))
                           (zrange (lb (fst p)) (ub (fst p) + 1)))
             (all_table O S X).

  (* --- direct_conflict_constraints ------------------------------------ *)
  Definition happens_before_direct (j : nat) (th1 th2 : nat) : list fm :=
    let restricted := map (fun i => t_is O i th1) (zrange (lb th1) (Z.of_nat j)) in
    match restricted with
    | [] => if o_hb_fix O then [mk_not (t_is O j th2)] else []
    | _ => [mk_imp (t_is O j th2) (mk_or restricted)]
    end.

  Definition sto_ld_dependency (j : nat) (th_sto th_ld : nat) : list fm :=
    match map (fun i => mk_neq (TmT i) (theta O th_ld)) (zrange (lb th_ld) (Z.of_nat j)) with
    | [] => []
    | r => [mk_imp (t_is O j th_sto) (mk_and r)]
    end.

  Definition ld_sto_dependency (j : nat) (th_ld th_sto : nat) : list fm :=
    match map (fun i => mk_neq (TmT i) (theta O th_ld)) (zrange (Z.of_nat j + 1) (ub th_ld + 1)) with
    | [] => []
    | r => [mk_imp (t_is O j th_sto) (mk_and r)]
    end.

  Definition hb_start (th_aft th_bef : nat) : Z :=
    if o_hb_fix O then lb th_aft else Z.max 1 (Z.max (lb th_aft) (lb th_bef)).

  (* stack_elem_to_id: output variable -> theta of its (last) producer *)
  Definition producer (v : nat) : option nat :=
    option_map (fun p => ui_id (snd p))
      (find (fun p => Nat.eqb (fst p) v) (rev (out_instrs S))).

  Definition id_of (th : nat) : string := nth th (x_ids X) "".

  Definition instr_dep_constraints : list fm :=
    flat_map (fun u =>
      flat_map (fun o =>
        match o with
        | OConst _ => []
        | OVar v =>
            match producer v with
            | None => []
            | Some p =>
                flat_map (fun j => happens_before_direct j p (ui_id u))
                         (zrange (hb_start (ui_id u) p) (ub (ui_id u) + 1))
            end
        end) (ui_in u)) (s_instrs S).

  (* mem_order = storage_dependences ++ memory_dependences *)
  Definition mem_order : list (nat * nat) := s_sto_deps S ++ s_mem_deps S.

  Definition tuple_constraints : list fm :=
    flat_map (fun p =>
      let '(bef, aft) := p in
      if substrb "STORE" (id_of bef) && substrb "STORE" (id_of aft) then
        flat_map (fun j => happens_before_direct j bef aft) (zrange (hb_start aft bef) (ub aft + 1))
      else if substrb "STORE" (id_of bef) then
        flat_map (fun j => sto_ld_dependency j bef aft)
                 (zrange (Z.max 1 (Z.max (lb aft + 1) (lb bef))) (ub bef + 1))
      else
        flat_map (fun j => ld_sto_dependency j bef aft)
                 (zrange (lb aft) (Z.min (Z.of_nat b0 - 1) (Z.min (ub bef) (ub aft + 1)))))
      mem_order.

  Definition direct_conflicts : list fm :=
    (if o_order_conflicts O then instr_dep_constraints else []) ++ tuple_constraints.

  (* --- l_conflicting_constraints --------------------------------------- *)
  Definition unique_ui (k : ekind) : bool :=
    match k with
    | KStore _ _ | KComm _ _ _ | KPopU _ => true
    | KNonComm o _ => negb (Nat.eqb (List.length o) 0)
    | _ => false
    end.

  Definition l_thetas : list nat :=
    map fst (filter (fun p => unique_ui (snd p)) (all_table O S X)).

  Definition dep_of (th : nat) : list nat :=
    match find (fun p => Nat.eqb (fst p) th) (x_depgraph X) with Some p => snd p | None => [] end.

  Definition l_constraints : list fm :=
    flat_map (fun th =>
      [mk_or (map (fun j => mk_eq (TmL th) (TmInt (Z.of_nat j))) (zrange (lb th) (ub th + 1)))]
      ++ map (fun j => mk_iff (t_is O j th) (mk_eq (TmL th) (TmInt (Z.of_nat j)))) (zrange (lb th) (ub th + 1))
      ++ map (fun c => FmLt (TmL c) (TmL th))
             (filter (fun c => existsb (Nat.eqb c) l_thetas) (dep_of th)))
      l_thetas.

  (* --- additional constraints ------------------------------------------ *)
  Definition theta_of_kind (p : ekind -> bool) : list nat :=
    map fst (filter (fun q => p (snd q)) (all_table O S X)).

  Definition theta_nop : nat := List.length (s_instrs S).

  Definition fromnop : list fm :=
    map (fun j => mk_imp (t_is O j theta_nop) (t_is O (Datatypes.S j) theta_nop))
        (zrange (lb theta_nop) (ub theta_nop)).

  Definition unint_thetas : list nat := map fst (unint_table S X).

  Definition at_least_once : list fm :=
    map (fun th => mk_or (map (fun j => t_is O j th) (zrange (lb th) (ub th + 1)))) unint_thetas.

  (* theta_pops: opcode_name startswith "POP" over all instructions ([*basic, *uninterpreted]) *)
  Definition is_pop_name (th : nat) (k : ekind) : bool :=
    match k with
    | KPop => true
    | KNop | KPush | KDup _ | KSwap _ => false
    | _ => match nth_error (s_instrs S) th with Some u => prefixb "POP" (ui_op u) | None => false end
    end.

  Definition theta_pops : list nat :=
    map fst (filter (fun q => is_pop_name (fst q) (snd q)) (all_table O S X)).
  Definition theta_swaps : list nat :=
    map fst (filter (fun q => match snd q with KSwap _ => true | _ => false end) (basic_table O S)).
  Definition theta_mem : list nat :=
    map fst (filter (fun q => match snd q with KStore _ _ => true | _ => false end) (unint_table S X)).

  (* Python: range(lb(pop) - 1, ub(pop)); a negative j selects nothing *)
  Definition no_output_before_pop : list fm :=
    let no_out := theta_swaps ++ theta_mem ++ theta_pops in
    flat_map (fun tp =>
      flat_map (fun j =>
        match select_pos X j no_out with
        | [] => []
        | sel => [mk_imp (t_is O (Datatypes.S j) tp) (mk_or (map (t_is O j) sel))]
        end) (zrange (lb tp - 1) (ub tp))) theta_pops.

  Definition at_most_once (th : nat) : list fm :=
    if (lb th <? ub th)%Z then
      let ps := zrange (lb th) (ub th + 1) in
      map (fun j => mk_imp (t_is O j th)
                      (mk_and (map (fun k => mk_neq (TmT k) (theta O th))
                                   (filter (fun k => negb (Nat.eqb k j)) ps)))) ps
    else [].

  Definition additional : list fm :=
    fromnop ++ at_least_once ++ no_output_before_pop
    ++ (if o_lvars O then [] else flat_map at_most_once theta_mem).

  (* --- distinctness / initialisation of stack variables ------------------ *)
  Definition distinct_if_many (l : list tm) : list fm :=
    match l with _ :: _ :: _ => [mk_distinct l] | _ => [] end.

  Definition theta_terms : list tm :=
    match o_term O with
    | EncUF => map TmTheta (seq 0 (List.length (all_table O S X)))
    | _ => []
    end.

  Definition term_constraints : list fm :=
    match o_term O with
    | EncUF | EncUFInt =>
        distinct_if_many (created_stack_vars O S X) ++ distinct_if_many theta_terms
    | EncStackVars =>
        map (fun p => mk_eq (snd p) (TmInt ((if o_push_basic O then int_limit else 0%Z) + Z.of_nat (fst p))))
            (number 0 (created_stack_vars O S X))
    | EncInt => []
    end.

  Definition hard : list fm :=
    restrict_t ++ transitions
    ++ (if o_lvars O then l_constraints else direct_conflicts)
    ++ stack_at O T E bs 0 (s_src S)
    ++ stack_at O T E bs b0 (s_tgt S)
    ++ term_constraints
    ++ additional.
End Hard.

(* ------------------------------------------------------------------ *)
(* semantics                                                             *)

Record asg := mkAsg {
  a_t : nat -> Z;
  a_theta : nat -> Z;
  a_x : nat -> nat -> Z;
  a_u : nat -> nat -> bool;
  a_a : nat -> Z;
  a_l : nat -> Z;
  a_fun : string -> list Z -> Z
}.

Fixpoint tmval (M : asg) (t : tm) : Z :=
  match t with
  | TmT j => a_t M j
  | TmTheta k => a_theta M k
  | TmX i j => a_x M i j
  | TmA j => a_a M j
  | TmL k => a_l M k
  | TmInt z => z
  | TmFun n args => a_fun M n (map (tmval M) args)
  end.

Fixpoint distinctZ (l : list Z) : bool :=
  match l with
  | [] => true
  | x :: r => negb (existsb (Z.eqb x) r) && distinctZ r
  end.

Fixpoint holds (M : asg) (f : fm) : bool :=
  match f with
  | FmB b => b
  | FmErr => false
  | FmU i j => a_u M i j
  | FmEq a b => Z.eqb (tmval M a) (tmval M b)
  | FmIff a b => Bool.eqb (holds M a) (holds M b)
  | FmLt a b => Z.ltb (tmval M a) (tmval M b)
  | FmLe a b => Z.leb (tmval M a) (tmval M b)
  | FmDistinct l => distinctZ (map (tmval M) l)
  | FmNot a => negb (holds M a)
  | FmAnd l => forallb (holds M) l
  | FmOr l => existsb (holds M) l
  | FmImp a b => implb (holds M a) (holds M b)
  end.

Definition sat (M : asg) (l : list fm) : bool := forallb (holds M) l.

(* ------------------------------------------------------------------ *)
(* decode: BlockOptimizer._rebuild_block_from_solver                      *)

Definition step_of (M : asg) (j th : nat) (k : ekind) : step :=
  match k with
  | KNop => SNop
  | KPop => SPop
  | KPush => SPushC (a_a M j)     (* the tool returns the bare id "PUSH": known finding C06-F4 *)
  | KDup d => SDup d
  | KSwap d => SSwap d
  | _ => SIns th
  end.

(* the dict theta-value-representation -> instruction is filled in theta order, a later theta with
   the same value overwrites an earlier one *)
Definition decode_pos (O : options) (S : spec) (X : extra) (M : asg) (j : nat) : option step :=
  let by_theta := unint_table S X ++ basic_table O S in
  match find (fun p => Z.eqb (tmval M (theta O (fst p))) (a_t M j)) (rev by_theta) with
  | Some p => Some (step_of M j (fst p) (snd p))
  | None => None                   (* KeyError *)
  end.

Fixpoint sequence_opt {A} (l : list (option A)) : option (list A) :=
  match l with
  | [] => Some []
  | Some a :: r => match sequence_opt r with Some r' => Some (a :: r') | None => None end
  | None :: _ => None
  end.

Definition decode (O : options) (S : spec) (X : extra) (M : asg) : option (list step) :=
  sequence_opt (map (decode_pos O S X M) (seq 0 (s_init_len S))).

(* ------------------------------------------------------------------ *)
(* canonical text (compared with harness/c06.py: ser_formula)            *)

Local Open Scope string_scope.
Definition join_sp := Formula.join_sp.

Fixpoint show_tm (t : tm) : string :=
  match t with
  | TmT j => "t_" ++ nat_str j
  | TmTheta k => "theta_" ++ nat_str k
  | TmX i j => "x_" ++ nat_str i ++ "_" ++ nat_str j
  | TmA j => "a_" ++ nat_str j
  | TmL k => "l_" ++ nat_str k
  | TmInt z => "i" ++ Formula.string_of_Z z
  | TmFun n [] => n
  | TmFun n args => "(" ++ n ++ " " ++ join_sp (map show_tm args) ++ ")"
  end.

Fixpoint show (f : fm) : string :=
  match f with
  | FmB true => "T"
  | FmB false => "F"
  | FmErr => "!ERR"
  | FmU i j => "u_" ++ nat_str i ++ "_" ++ nat_str j
  | FmEq a b => "[= " ++ show_tm a ++ " " ++ show_tm b ++ "]"
  | FmIff a b => "[= " ++ show a ++ " " ++ show b ++ "]"
  | FmLt a b => "[< " ++ show_tm a ++ " " ++ show_tm b ++ "]"
  | FmLe a b => "[<= " ++ show_tm a ++ " " ++ show_tm b ++ "]"
  | FmDistinct l => "[distinct " ++ join_sp (map show_tm l) ++ "]"
  | FmNot a => "[not " ++ show a ++ "]"
  | FmAnd l => "[and " ++ join_sp (map show l) ++ "]"
  | FmOr l => "[or " ++ join_sp (map show l) ++ "]"
  | FmImp a b => "[=> " ++ show a ++ " " ++ show b ++ "]"
  end.

Fixpoint fm_has_err (f : fm) : bool :=
  match f with
  | FmErr => true
  | FmNot a => fm_has_err a
  | FmAnd l | FmOr l => existsb fm_has_err l
  | FmImp a b | FmIff a b => fm_has_err a || fm_has_err b
  | _ => false
  end.

(* some constructor raised: Python aborts the generation with an exception *)
Definition has_err (l : list fm) : bool := existsb fm_has_err l.
