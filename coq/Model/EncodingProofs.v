(* Stage lemmas of [hard_sound] for the model of the hard constraints (Model/Encoding.v).

   Target (NOT closed, see the end of the file for the list of missing pieces):
     hard_sound : sat M (hard O S X) = true ->
                  exists q, decode O S X M = Some q /\
                            realizes_bounded S q (s_init_len S) (s_max_sk S) = true
   by the simulation invariant [Inv]: "the cells u_._j / x_._j describe the symbolic stack after j
   steps of the decoded sequence".

   Closed here, for every assignment M, every option set with o_empty = false, every term
   encoding, every bounds:
     - the simplifying constructors only ever weaken towards the meaning of the connective
       (holds_mk_and / or / not / imp / eq, holds_mk_iff_U), move / move semantics (holds_move);
     - stage 0: the initial-stack constraints establish the invariant at position 0 (init_inv);
     - transitions: the constraint of NOP, POP, DUPk at a position j where t_j selects it makes
       the validator's [exec_step] succeed and re-establishes the invariant at j+1
       (nop_preserves, pop_preserves, dup_preserves). *)
From Coq Require Import ZArith List Bool String Arith Lia.
From GV Require Import Sym.Spec Val.Realizes Model.Encoding.
Import ListNotations.

(* ------------------------------------------------------------------ *)
(* syntactic equality of terms                                           *)

Lemma tm_ind' (P : tm -> Prop) :
  (forall j, P (TmT j)) -> (forall k, P (TmTheta k)) -> (forall i j, P (TmX i j)) ->
  (forall j, P (TmA j)) -> (forall k, P (TmL k)) -> (forall z, P (TmInt z)) ->
  (forall n args, Forall P args -> P (TmFun n args)) ->
  forall t, P t.
Proof.
  intros H1 H2 H3 H4 H5 H6 H7. fix IH 1. intros [j | k | i j | j | k | z | n args];
    [apply H1 | apply H2 | apply H3 | apply H4 | apply H5 | apply H6 |].
  apply H7. induction args as [| a r IHr]; constructor; [apply IH | exact IHr].
Qed.

Lemma tm_eqb_sound : forall a b, tm_eqb a b = true -> a = b.
Proof.
  induction a as [j | k | i j | j | k | z | n args IH] using tm_ind'; intros b H;
    destruct b; simpl in H; try discriminate.
  - apply Nat.eqb_eq in H. subst. reflexivity.
  - apply Nat.eqb_eq in H. subst. reflexivity.
  - apply andb_true_iff in H. destruct H as [Ha Hb].
    apply Nat.eqb_eq in Ha. apply Nat.eqb_eq in Hb. subst. reflexivity.
  - apply Nat.eqb_eq in H. subst. reflexivity.
  - apply Nat.eqb_eq in H. subst. reflexivity.
  - apply Z.eqb_eq in H. subst. reflexivity.
  - apply andb_true_iff in H. destruct H as [Hn Hl]. apply String.eqb_eq in Hn. subst.
    f_equal. revert args0 Hl.
    induction IH as [| x r Hx _ IHr]; intros [| y r'] Hl; try discriminate; [reflexivity |].
    apply andb_true_iff in Hl. destruct Hl as [Hxy Hr].
    f_equal; [apply Hx; exact Hxy | apply IHr; exact Hr].
Qed.

(* ------------------------------------------------------------------ *)
(* the simplifying constructors                                          *)

Section Constructors.
  Variable M : asg.

  Lemma holds_mk_eq a b : holds M (mk_eq a b) = true -> tmval M a = tmval M b.
  Proof.
    assert (G : forall x y, holds M (if tm_eqb x y then FmB true else FmEq x y) = true ->
                            tmval M x = tmval M y).
    { intros x y. destruct (tm_eqb x y) eqn:E; simpl; intros H.
      - apply tm_eqb_sound in E. subst. reflexivity.
      - apply Z.eqb_eq. exact H. }
    destruct a; destruct b; try (apply G).
    simpl. intros H. apply Z.eqb_eq. exact H.
  Qed.

  Lemma holds_mk_not a : holds M (mk_not a) = negb (holds M a).
  Proof. destruct a; simpl; try reflexivity. rewrite negb_involutive. reflexivity. Qed.

  Lemma holds_mk_iff_U i j i' j' :
    holds M (mk_iff (FmU i j) (FmU i' j')) = true -> a_u M i j = a_u M i' j'.
  Proof.
    unfold mk_iff. simpl. destruct (Nat.eqb i i' && Nat.eqb j j') eqn:E; simpl; intros H.
    - apply andb_true_iff in E. destruct E as [E1 E2].
      apply Nat.eqb_eq in E1. apply Nat.eqb_eq in E2. subst. reflexivity.
    - apply eqb_prop. exact H.
  Qed.

  Lemma and_pieces_holds l :
    existsb is_false l = false -> forallb (holds M) (flat_map and_piece l) = true ->
    forallb (holds M) l = true.
  Proof.
    induction l as [| a l IH]; simpl; intros Hf H; [reflexivity |].
    apply orb_false_iff in Hf. destruct Hf as [Ha Hl].
    rewrite forallb_app in H. apply andb_true_iff in H. destruct H as [H1 H2].
    rewrite (IH Hl H2), andb_true_r.
    destruct a; simpl in *; try (rewrite andb_true_r in H1; exact H1); try exact H1.
    destruct b; [reflexivity | discriminate].
  Qed.

  Lemma holds_mk_and l : holds M (mk_and l) = true -> forallb (holds M) l = true.
  Proof.
    unfold mk_and. destruct l as [| a0 l0]; [simpl; discriminate |].
    destruct (existsb is_false (a0 :: l0)) eqn:Hf; [simpl; discriminate |].
    intros H. apply and_pieces_holds; [exact Hf |].
    destruct (flat_map and_piece (a0 :: l0)) as [| x [| y r]]; simpl in *.
    - discriminate.
    - rewrite H. reflexivity.
    - exact H.
  Qed.

  Lemma holds_mk_and_in l f : holds M (mk_and l) = true -> In f l -> holds M f = true.
  Proof. intros H Hin. apply holds_mk_and in H. rewrite forallb_forall in H. apply H. exact Hin. Qed.

  Lemma or_pieces_holds l :
    existsb (holds M) (flat_map or_piece l) = true -> existsb (holds M) l = true.
  Proof.
    induction l as [| a l IH]; simpl; intros H; [discriminate |].
    rewrite existsb_app in H. apply orb_true_iff in H. destruct H as [H | H].
    - apply orb_true_iff. left.
      destruct a; simpl in *; try discriminate; try (rewrite orb_false_r in H; exact H); exact H.
    - apply orb_true_iff. right. apply IH. exact H.
  Qed.

  Lemma holds_mk_or l : holds M (mk_or l) = true -> existsb (holds M) l = true.
  Proof.
    unfold mk_or. destruct l as [| a0 l0]; [simpl; discriminate |].
    destruct (existsb is_true (a0 :: l0)) eqn:Ht.
    - intros _. apply existsb_exists in Ht. destruct Ht as [f [Hin Hf]].
      apply existsb_exists. exists f. split; [exact Hin |].
      destruct f as [[|] | | | | | | | | | | |]; simpl in Hf; try discriminate. reflexivity.
    - intros H. apply or_pieces_holds.
      destruct (flat_map or_piece (a0 :: l0)) as [| x [| y r]]; simpl in *.
      + discriminate.
      + rewrite H. reflexivity.
      + exact H.
  Qed.

  Lemma holds_mk_imp a b : holds M (mk_imp a b) = true -> holds M a = true -> holds M b = true.
  Proof.
    assert (G : forall a b, holds M (match b with
                                      | FmB true => FmB true
                                      | FmB false => mk_not a
                                      | _ => FmImp a b
                                      end) = true -> holds M a = true -> holds M b = true).
    { intros x y H Hx. destruct y as [[|] | | | | | | | | | | |]; simpl in *;
        try (rewrite Hx in H; simpl in H; exact H); try reflexivity.
      rewrite holds_mk_not, Hx in H. discriminate. }
    intros H Ha. unfold mk_imp in H.
    destruct a as [[|] | | | | | | | | | | |]; try (apply (G _ _ H Ha)).
    - exact H.
    - simpl in Ha. discriminate.
  Qed.
End Constructors.

Lemma constructors_sound (M : asg) :
  (forall l, holds M (mk_and l) = true -> forallb (holds M) l = true) /\
  (forall l, holds M (mk_or l) = true -> existsb (holds M) l = true) /\
  (forall a, holds M (mk_not a) = negb (holds M a)) /\
  (forall a b, holds M (mk_imp a b) = true -> holds M a = true -> holds M b = true) /\
  (forall a b, holds M (mk_eq a b) = true -> tmval M a = tmval M b).
Proof.
  repeat split.
  - apply holds_mk_and.
  - apply holds_mk_or.
  - apply holds_mk_not.
  - apply holds_mk_imp.
  - apply holds_mk_eq.
Qed.

(* ------------------------------------------------------------------ *)
(* move                                                                  *)

Lemma in_irange a b i : (a <= i <= b)%Z -> In i (irange a b).
Proof.
  intros H. unfold irange. apply in_map_iff. exists (Z.to_nat (i - a)). split; [lia |].
  apply in_seq. lia.
Qed.

Lemma holds_move M j a b d :
  holds M (move j a b d) = true ->
  forall i, (a <= i <= b)%Z ->
            a_u M (zn (i + d)) (S j) = a_u M (zn i) j /\ a_x M (zn (i + d)) (S j) = a_x M (zn i) j.
Proof.
  unfold move. intros H i Hi. destruct (b <? a)%Z eqn:Hba; [apply Z.ltb_lt in Hba; lia |].
  apply holds_mk_and in H. rewrite forallb_forall in H. split.
  - apply holds_mk_iff_U. apply H. apply in_flat_map. exists i. split; [apply in_irange; exact Hi |].
    left. reflexivity.
  - assert (Hx : holds M (mk_eq (TmX (zn (i + d)) (S j)) (TmX (zn i) j)) = true).
    { apply H. apply in_flat_map. exists i. split; [apply in_irange; exact Hi |]. right. left. reflexivity. }
    apply holds_mk_eq in Hx. exact Hx.
Qed.

(* ------------------------------------------------------------------ *)
(* the simulation invariant                                              *)

Definition val (M : asg) (T : table) (o : operand) : Z := tmval M (stack_tm T o).

Definition dflt : operand := OConst 0.

(* cells 0..bs-1 at position j describe the stack stk (top first) *)
Definition Inv (M : asg) (T : table) (bs j : nat) (stk : list operand) : Prop :=
  List.length stk <= bs /\
  forall i, i < bs ->
            a_u M i j = (i <? List.length stk) /\
            (i < List.length stk -> a_x M i j = val M T (nth i stk dflt)).

Lemma in_zrange a b i : (Z.max 0 a <= Z.of_nat i < b)%Z -> In i (zrange a b).
Proof.
  intros H. unfold zrange. apply in_map_iff. exists (Z.to_nat (Z.of_nat i - Z.max 0 a)).
  split; [lia |]. apply in_seq. lia.
Qed.

Lemma in_number {A} (l : list A) : forall start i a,
  nth_error l i = Some a -> In (start + i, a) (number start l).
Proof.
  induction l as [| x r IH]; intros start i a H; [destruct i; discriminate |].
  destruct i as [| i']; simpl in *.
  - inversion H. subst. left. f_equal. lia.
  - right. replace (start + S i') with (S start + i') by lia. apply IH. exact H.
Qed.

(* stage 0: the initial (or any asserted) stack *)
Lemma stack_at_inv O T E bs M j stk :
  o_empty O = false ->
  List.length stk <= bs ->
  forallb (holds M) (stack_at O T E bs j stk) = true ->
  Inv M T bs j stk.
Proof.
  intros He Hlen H. unfold stack_at in H. rewrite He in H.
  rewrite forallb_app in H. apply andb_true_iff in H. destruct H as [H1 H2].
  rewrite forallb_forall in H1. rewrite forallb_forall in H2.
  split; [exact Hlen |]. intros i Hi.
  destruct (Nat.ltb_spec i (List.length stk)) as [Hlt | Hge].
  - destruct (nth_error stk i) as [o |] eqn:Hn; [| apply nth_error_None in Hn; lia].
    assert (Hin : In (mk_and [FmU i j; mk_eq (TmX i j) (stack_tm T o)])
                     (map (fun p => mk_and [FmU (fst p) j; mk_eq (TmX (fst p) j) (stack_tm T (snd p))])
                          (number 0 stk))).
    { apply in_map_iff. exists (i, o). split; [reflexivity |].
      change i with (0 + i). apply in_number. exact Hn. }
    apply H1 in Hin. apply holds_mk_and in Hin. cbn [forallb] in Hin.
    apply andb_true_iff in Hin. destruct Hin as [Hu Hx]. rewrite andb_true_r in Hx.
    apply holds_mk_eq in Hx. cbn [tmval] in Hx. cbn [holds] in Hu. split; [exact Hu |].
    intros _. unfold val. rewrite (nth_error_nth _ _ dflt Hn). exact Hx.
  - assert (Hin : In (mk_not (FmU i j))
                     (map (fun b => mk_not (FmU b j)) (zrange (Z.of_nat (List.length stk)) (Z.of_nat bs)))).
    { apply in_map_iff. exists i. split; [reflexivity |]. apply in_zrange. lia. }
    apply H2 in Hin. rewrite holds_mk_not in Hin. simpl in Hin. apply negb_true_iff in Hin.
    split; [exact Hin | intros Hc; lia].
Qed.

Lemma init_inv O S X M :
  o_empty O = false ->
  List.length (s_src S) <= s_max_sk S ->
  sat M (hard O S X) = true ->
  Inv M (var_table O S X) (s_max_sk S) 0 (s_src S).
Proof.
  intros He Hlen H. unfold sat, hard in H.
  repeat (rewrite forallb_app in H).
  repeat (apply andb_true_iff in H; destruct H as [? H]).
  eapply stack_at_inv; eassumption.
Qed.

(* ------------------------------------------------------------------ *)
(* transitions                                                           *)

Section Steps.
  Variable O : options.
  Variable T : table.
  Variable E : tm.
  Variable bs : nat.
  Variable M : asg.
  Variable Sp : spec.
  Hypothesis Hempty : o_empty O = false.

  Lemma nop_preserves j th stk :
    holds M (enc_instr O T E bs j th KNop) = true ->
    holds M (t_is O j th) = true ->
    Inv M T bs j stk ->
    exists stk', exec_step Sp stk SNop = inr stk' /\ Inv M T bs (S j) stk'.
  Proof.
    intros H Ht [Hlen Hc]. unfold enc_instr in H. rewrite Hempty in H.
    apply (holds_mk_imp _ _ _ H) in Ht. clear H.
    exists stk. split; [reflexivity |]. split; [exact Hlen |]. intros i Hi.
    destruct (holds_move _ _ _ _ _ Ht (Z.of_nat i)) as [Hu Hx]; [lia |].
    replace (zn (Z.of_nat i + 0)) with i in * by (unfold zn; lia).
    replace (zn (Z.of_nat i)) with i in * by (unfold zn; lia).
    rewrite Hu, Hx. apply Hc. exact Hi.
  Qed.

  Lemma pop_preserves j th stk :
    0 < bs ->
    holds M (enc_instr O T E bs j th KPop) = true ->
    holds M (t_is O j th) = true ->
    Inv M T bs j stk ->
    exists stk', exec_step Sp stk SPop = inr stk' /\ Inv M T bs (S j) stk'.
  Proof.
    intros Hbs H Ht [Hlen Hc]. unfold enc_instr in H. rewrite Hempty in H.
    apply (holds_mk_imp _ _ _ H) in Ht. clear H.
    apply holds_mk_and in Ht. cbn [forallb] in Ht.
    apply andb_true_iff in Ht. destruct Ht as [Hu0 Ht].
    apply andb_true_iff in Ht. destruct Ht as [Hlast Ht]. rewrite andb_true_r in Ht.
    cbn [holds] in Hu0.
    rewrite holds_mk_not in Hlast. simpl in Hlast. apply negb_true_iff in Hlast.
    destruct (Hc 0) as [Hu Hx]; [lia |]. rewrite Hu0 in Hu. symmetry in Hu. apply Nat.ltb_lt in Hu.
    destruct stk as [| a r]; [simpl in Hu; lia |].
    exists r. split; [reflexivity |]. simpl in Hlen. split; [lia |]. intros i Hi.
    destruct (Nat.eq_dec i (bs - 1)) as [Hib | Hib].
    - subst i. rewrite Hlast. split.
      + symmetry. apply Nat.ltb_ge. lia.
      + intros Hc'. lia.
    - destruct (holds_move _ _ _ _ _ Ht (Z.of_nat (i + 1))) as [Hu' Hx']; [lia |].
      replace (zn (Z.of_nat (i + 1) + -1)) with i in * by (unfold zn; lia).
      replace (zn (Z.of_nat (i + 1))) with (i + 1) in * by (unfold zn; lia).
      destruct (Hc (i + 1)) as [Hcu Hcx]; [lia |].
      rewrite Hu', Hx', Hcu. split.
      + simpl. replace (i + 1) with (S i) by lia. reflexivity.
      + intros Hl. simpl in Hcx. replace (i + 1) with (S i) in Hcx by lia. simpl in Hcx.
        replace (i + 1) with (S i) by lia. apply Hcx. lia.
  Qed.

  Lemma dup_preserves j th d stk :
    depth_ok d = true -> d < bs ->
    holds M (enc_instr O T E bs j th (KDup d)) = true ->
    holds M (t_is O j th) = true ->
    Inv M T bs j stk ->
    exists stk', exec_step Sp stk (SDup d) = inr stk' /\ Inv M T bs (S j) stk'.
  Proof.
    intros Hd Hdb H Ht [Hlen Hc]. unfold enc_instr in H. rewrite Hempty in H.
    apply (holds_mk_imp _ _ _ H) in Ht. clear H.
    apply holds_mk_and in Ht. cbn [forallb] in Ht.
    apply andb_true_iff in Ht. destruct Ht as [Hfull Ht].
    apply andb_true_iff in Ht. destruct Ht as [Hud Ht].
    apply andb_true_iff in Ht. destruct Ht as [Hu0 Ht].
    apply andb_true_iff in Ht. destruct Ht as [Hx0 Ht]. rewrite andb_true_r in Ht.
    cbn [holds] in Hud, Hu0.
    rewrite holds_mk_not in Hfull. simpl in Hfull. apply negb_true_iff in Hfull.
    apply holds_mk_eq in Hx0. simpl in Hx0.
    assert (Hd1 : 1 <= d).
    { unfold depth_ok in Hd. apply andb_true_iff in Hd. destruct Hd as [Hd _]. apply Nat.leb_le in Hd. exact Hd. }
    destruct (Hc (bs - 1)) as [Hub _]; [lia |]. rewrite Hfull in Hub. symmetry in Hub. apply Nat.ltb_ge in Hub.
    destruct (Hc (d - 1)) as [Hudc Hxdc]; [lia |]. rewrite Hud in Hudc. symmetry in Hudc. apply Nat.ltb_lt in Hudc.
    destruct (nth_error stk (d - 1)) as [v |] eqn:Hn; [| apply nth_error_None in Hn; lia].
    exists (v :: stk). split.
    { simpl. rewrite Hd, Hn. reflexivity. }
    split; [simpl; lia |]. intros i Hi. destruct i as [| i'].
    - rewrite Hu0. split; [reflexivity |]. intros _. simpl. rewrite Hx0.
      rewrite (Hxdc Hudc). rewrite (nth_error_nth _ _ dflt Hn). reflexivity.
    - destruct (holds_move _ _ _ _ _ Ht (Z.of_nat i')) as [Hu' Hx']; [lia |].
      replace (zn (Z.of_nat i' + 1)) with (S i') in * by (unfold zn; lia).
      replace (zn (Z.of_nat i')) with i' in * by (unfold zn; lia).
      destruct (Hc i') as [Hcu Hcx]; [lia |].
      rewrite Hu', Hx', Hcu. split; [reflexivity |]. intros Hl. simpl in Hl. simpl. apply Hcx. lia.
  Qed.
End Steps.

(* ------------------------------------------------------------------ *)
(* non-vacuity: an assignment that satisfies a POP transition            *)

Definition demo_asg : asg :=
  mkAsg (fun _ => 7%Z) (fun k => Z.of_nat k) (fun i j => if Nat.eqb j 0 then Z.of_nat (10 + i) else Z.of_nat (11 + i))
        (fun i j => if Nat.eqb j 0 then Nat.ltb i 2 else Nat.ltb i 1)
        (fun _ => 0%Z) (fun _ => 0%Z) (fun _ _ => 0%Z).

Definition demo_opts : options := mkOpt EncInt false false false false true false.
Definition demo_table : table := [(0, TmInt 10); (1, TmInt 11)].

Example demo_pop_constraint :
  holds demo_asg (enc_instr demo_opts demo_table (TmInt 99) 3 0 7 KPop) = true /\
  holds demo_asg (t_is demo_opts 0 7) = true.
Proof. vm_compute. split; reflexivity. Qed.

Example demo_inv : Inv demo_asg demo_table 3 0 [OVar 0; OVar 1].
Proof.
  split; [simpl; lia |]. intros i Hi.
  destruct i as [| [| [| i]]]; try lia; simpl; split; try reflexivity; intros; try lia; reflexivity.
Qed.

(* ------------------------------------------------------------------ *)
(* What is missing for hard_sound (each a stage of the same simulation):
     1. swap_preserves (SWAPk) and the uninterpreted transitions (KNonComm / KComm / KStore /
        KPopU): as above, plus: the equalities x_i_j = stack_var(o_i) give SYNTACTIC equality of the
        operands only through the injectivity of [val] on the variables of the specification,
        which comes from the (distinct ...) constraint (EncUF/EncUFInt), initialize_stack_variables
        (EncStackVars) or the integer numbering (EncInt);
     2. the final stack: Inv at b0 + stack_at b0 tgt + injectivity => stack = s_tgt;
     3. restrict_t_domain + distinct thetas => decode is defined and the selected theta is in
        bounds, so its transition constraint exists at that position;
     4. each_instruction_is_used_at_least_once + each_function_is_used_at_most_once (direct) or
        the l variables (l_vars) => every store occurs exactly once;
     5. order constraints => dep_ok for every pair; FALSE for the code as it stands when a lower
        bound of the second instruction is 0 or not above the first one's (finding C06-F1),
        true with o_hb_fix = true;
     6. induction over the positions assembling 0-5 into check_bounded = None (length: NOPs are
        not counted; peak <= bs from the invariant).
   The o_empty = true variants need the additional invariant "x = empty beyond the stack". *)
