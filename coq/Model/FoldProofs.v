(* Lemmas about the Python-int operations of Ref/PyInt.v, the reference meaning of GASOL's
   internal operator strings, and the tactics that discharge the per-operator obligations the
   translator emits into Gen/FoldObligations.v.  Nothing here mentions a generated definition
   by name (hint db [gen_fold] is filled by Gen/Fold.v), so the file survives regeneration. *)
From Coq Require Import ZArith Bool Lia String List.
Import ListNotations.
From GV Require Import Ref.Word Ref.WordLemmas Ref.PyInt.
Local Open Scope Z_scope.

(* ---- reference: which EVM operation an internal operator string stands for ----------
   (ir_block.translateOpcodes*, get_involved_vars: ADD "+", SUB "-", MUL "*", DIV "/", EXP "^",
   MOD "%", AND/OR/XOR/EQ/GT/LT/SHL/SHR/SAR by lower-case name; first Python argument = top of
   the stack = first argument of the reference operation.  SMOD is also mapped to "%" by
   ir_block.py: that is defect "opmap SMOD", reported separately.) *)
Definition ref_fold2 (op : string) (a b : Z) : option Z :=
  if String.eqb op "+" then Some (wadd a b)
  else if String.eqb op "-" then Some (wsub a b)
  else if String.eqb op "*" then Some (wmul a b)
  else if String.eqb op "/" then Some (wdiv a b)
  else if String.eqb op "^" then Some (wexp a b)
  else if String.eqb op "%" then Some (wmod a b)
  else if String.eqb op "and" then Some (wand a b)
  else if String.eqb op "or" then Some (wor a b)
  else if String.eqb op "xor" then Some (wxor a b)
  else if String.eqb op "eq" then Some (weq a b)
  else if String.eqb op "gt" then Some (wgt a b)
  else if String.eqb op "lt" then Some (wlt a b)
  else if String.eqb op "sgt" then Some (wsgt a b)
  else if String.eqb op "slt" then Some (wslt a b)
  else if String.eqb op "sdiv" then Some (wsdiv a b)
  else if String.eqb op "byte" then Some (wbyte a b)
  else if String.eqb op "signextend" then Some (wsignextend a b)
  else if String.eqb op "shl" then Some (wshl a b)
  else if String.eqb op "shr" then Some (wshr a b)
  else if String.eqb op "sar" then Some (wsar a b)
  else None.

Definition ref_fold3 (op : string) (a b c : Z) : option Z :=
  if String.eqb op "addmod" then Some (waddmod a b c)
  else if String.eqb op "mulmod" then Some (wmulmod a b c)
  else None.

(* ---- Python int operations ------------------------------------------------------------ *)

Lemma pow_pos_fast_spec a p : pow_pos_fast a p = a ^ Zpos p.
Proof.
  induction p as [q IH|q IH|]; cbn [pow_pos_fast].
  - rewrite IH, Pos2Z.inj_xI. replace (2 * Z.pos q + 1) with (Z.pos q + Z.pos q + 1) by lia.
    rewrite !Z.pow_add_r by lia. rewrite Z.pow_1_r. reflexivity.
  - rewrite IH, Pos2Z.inj_xO. replace (2 * Z.pos q) with (Z.pos q + Z.pos q) by lia.
    rewrite Z.pow_add_r by lia. reflexivity.
  - rewrite Z.pow_1_r. reflexivity.
Qed.

Lemma zpow_fast_spec a b : zpow_fast a b = a ^ b.
Proof. destruct b as [|p|p]; cbn [zpow_fast]; [reflexivity|apply pow_pos_fast_spec|reflexivity]. Qed.

Lemma py_pow_ok lim a b r : py_pow lim a b = PyOk r -> 0 <= b /\ r = a ^ b.
Proof.
  unfold py_pow. destruct (b <? 0) eqn:Eb.
  - destruct (a =? 0); discriminate.
  - apply Z.ltb_ge in Eb. destruct (Z.abs a <=? 1) eqn:Ea.
    + apply Z.leb_le in Ea. intros H. injection H as <-. split; [assumption|].
      destruct (b =? 0) eqn:E0; [apply Z.eqb_eq in E0; subst; reflexivity|]. apply Z.eqb_neq in E0.
      destruct (a =? 0) eqn:A0; [apply Z.eqb_eq in A0; subst; rewrite Z.pow_0_l by lia; reflexivity|].
      apply Z.eqb_neq in A0.
      destruct (a =? 1) eqn:A1; [apply Z.eqb_eq in A1; subst; rewrite Z.pow_1_l by lia; reflexivity|].
      apply Z.eqb_neq in A1. assert (a = -1) by lia. subst a.
      destruct (Z.even b) eqn:Ev.
      * apply Z.even_spec in Ev. change (-1) with (- (1)). rewrite Z.pow_opp_even by assumption.
        rewrite Z.pow_1_l by lia. reflexivity.
      * assert (Od : Z.odd b = true) by (rewrite <- Z.negb_even, Ev; reflexivity).
        apply Z.odd_spec in Od. change (-1) with (- (1)) at 2. rewrite Z.pow_opp_odd by assumption.
        rewrite Z.pow_1_l by lia. reflexivity.
    + destruct (lim <? b * Z.log2 (Z.abs a)); [discriminate|].
      intros H. injection H as <-. split; [assumption|apply zpow_fast_spec].
Qed.

Lemma py_pow_huge lim a b :
  py_pow lim a b = PyHuge <-> 0 <= b /\ 1 < Z.abs a /\ lim < b * Z.log2 (Z.abs a).
Proof.
  unfold py_pow. destruct (b <? 0) eqn:Eb.
  - apply Z.ltb_lt in Eb. split; [destruct (a =? 0); discriminate|lia].
  - apply Z.ltb_ge in Eb. destruct (Z.abs a <=? 1) eqn:Ea.
    + apply Z.leb_le in Ea. split; [discriminate|lia].
    + apply Z.leb_gt in Ea. destruct (lim <? b * Z.log2 (Z.abs a)) eqn:El.
      * apply Z.ltb_lt in El. split; [lia|reflexivity].
      * apply Z.ltb_ge in El. split; [discriminate|lia].
Qed.

(* a power of two with a word-sized exponent is computed whenever the bound allows 2^256 bits...
   and is reported huge otherwise: the shift folds hang exactly for shift amounts above lim *)
Lemma py_pow2_word lim s : 0 <= s -> py_pow lim 2 s = if lim <? s then PyHuge else PyOk (2 ^ s).
Proof.
  intros Hs. unfold py_pow. replace (s <? 0) with false by (symmetry; apply Z.ltb_ge; lia).
  change (Z.abs 2 <=? 1) with false. change (Z.log2 (Z.abs 2)) with 1. rewrite Z.mul_1_r.
  destruct (lim <? s); [reflexivity|]. rewrite zpow_fast_spec. reflexivity.
Qed.

Lemma py_mod_ok a b r : py_mod a b = PyOk r -> b <> 0 /\ r = a mod b.
Proof.
  unfold py_mod. destruct (b =? 0) eqn:E; [discriminate|]. apply Z.eqb_neq in E.
  intros H; injection H as <-. auto.
Qed.

Lemma py_floordiv_ok a b r : py_floordiv a b = PyOk r -> b <> 0 /\ r = a / b.
Proof.
  unfold py_floordiv. destruct (b =? 0) eqn:E; [discriminate|]. apply Z.eqb_neq in E.
  intros H; injection H as <-. auto.
Qed.

Lemma powmod_pos_fast_spec m a p : m <> 0 -> powmod_pos_fast m a p = (a ^ Zpos p) mod m.
Proof.
  intros Hm. induction p as [q IH|q IH|]; cbn [powmod_pos_fast].
  - rewrite IH, Pos2Z.inj_xI. replace (2 * Z.pos q + 1) with (Z.pos q + Z.pos q + 1) by lia.
    rewrite !Z.pow_add_r by lia. rewrite Z.pow_1_r.
    rewrite <- Z.mul_mod by lia. rewrite Z.mul_mod_idemp_l by lia. reflexivity.
  - rewrite IH, Pos2Z.inj_xO. replace (2 * Z.pos q) with (Z.pos q + Z.pos q) by lia.
    rewrite Z.pow_add_r by lia. rewrite <- Z.mul_mod by lia. reflexivity.
  - rewrite Z.pow_1_r. reflexivity.
Qed.

Lemma py_powmod_ok a b m r : py_powmod a b m = PyOk r -> 0 <= b /\ m <> 0 /\ r = (a ^ b) mod m.
Proof.
  unfold py_powmod. destruct (m =? 0) eqn:E; [discriminate|]. apply Z.eqb_neq in E.
  destruct b as [|p|p]; intros H; try discriminate; injection H as <-.
  - repeat split; [lia|assumption].
  - repeat split; [lia|assumption|apply powmod_pos_fast_spec; assumption].
Qed.

Lemma py_powmod_total a b m : 0 <= b -> m <> 0 -> exists r, py_powmod a b m = PyOk r.
Proof.
  intros Hb Hm. unfold py_powmod. apply Z.eqb_neq in Hm. rewrite Hm.
  destruct b as [|p|p]; [eexists; reflexivity|eexists; reflexivity|lia].
Qed.

Lemma py_rshift_ok a b r : py_rshift a b = PyOk r -> 0 <= b /\ r = a / 2 ^ b.
Proof.
  unfold py_rshift. destruct (b <? 0) eqn:Eb; [discriminate|]. apply Z.ltb_ge in Eb.
  destruct (Z.log2 (Z.abs a) + 1 <? b) eqn:El.
  - apply Z.ltb_lt in El. intros H; injection H as <-. split; [assumption|].
    assert (Hp : Z.abs a < 2 ^ b).
    { destruct (Z.eq_dec a 0) as [->|Hne]; [apply Z.pow_pos_nonneg; lia|].
      pose proof (Z.log2_spec (Z.abs a) ltac:(lia)) as [_ Hu].
      apply Z.lt_le_trans with (2 ^ Z.succ (Z.log2 (Z.abs a))); [assumption|].
      apply Z.pow_le_mono_r; lia. }
    destruct (a <? 0) eqn:Ea.
    + apply Z.ltb_lt in Ea. apply Z.div_unique_pos with (a + 2 ^ b); lia.
    + apply Z.ltb_ge in Ea. symmetry. apply Z.div_small. lia.
  - intros H; injection H as <-. split; [assumption|apply Z.shiftr_div_pow2; assumption].
Qed.

Lemma py_rshift_total a b : 0 <= b -> exists r, py_rshift a b = PyOk r.
Proof.
  intros Hb. unfold py_rshift. replace (b <? 0) with false by (symmetry; apply Z.ltb_ge; lia).
  destruct (Z.log2 (Z.abs a) + 1 <? b); eexists; reflexivity.
Qed.

Lemma py_lshift_ok lim a b r : py_lshift lim a b = PyOk r -> 0 <= b /\ r = a * 2 ^ b.
Proof.
  unfold py_lshift. destruct (b <? 0) eqn:Eb; [discriminate|]. apply Z.ltb_ge in Eb.
  destruct (a =? 0) eqn:Ea.
  - apply Z.eqb_eq in Ea. subst. intros H; injection H as <-. split; [assumption|lia].
  - destruct (lim <? b); [discriminate|]. intros H; injection H as <-.
    rewrite zpow_fast_spec. auto.
Qed.

Lemma py_lshift_total lim a b : 0 <= b <= lim -> exists r, py_lshift lim a b = PyOk r.
Proof.
  intros Hb. unfold py_lshift. replace (b <? 0) with false by (symmetry; apply Z.ltb_ge; lia).
  destruct (a =? 0); [eexists; reflexivity|].
  replace (lim <? b) with false by (symmetry; apply Z.ltb_ge; lia). eexists; reflexivity.
Qed.

Lemma py_truediv_floor_zerodiv a b : py_truediv_floor a b = PyZeroDiv <-> b = 0.
Proof.
  unfold py_truediv_floor. destruct (b =? 0) eqn:E.
  - apply Z.eqb_eq in E. tauto.
  - apply Z.eqb_neq in E. split; [|tauto]. destruct (a =? 0); [discriminate|].
    destruct (float_of_ratio (Z.abs a) (Z.abs b)) as [m e].
    destruct (0 <=? e); [destruct (_ <=? _)|]; discriminate.
Qed.

(* ---- word identities used to close the obligations ------------------------------------ *)

Lemma W_lit : 2 ^ 256 = W. Proof. reflexivity. Qed.
Lemma HALF_lit : 2 ^ 255 = HALF. Proof. reflexivity. Qed.

Lemma shl_mod_eq s x : 0 <= s -> (x * 2 ^ s) mod W = wshl s x.
Proof.
  intros Hs. unfold wshl, wrap. destruct (s <? 256) eqn:E; [reflexivity|]. apply Z.ltb_ge in E.
  replace s with (256 + (s - 256)) by lia. rewrite Z.pow_add_r by lia. fold W.
  replace (x * (W * 2 ^ (s - 256))) with (x * 2 ^ (s - 256) * W) by ring.
  apply Z.mod_mul. pose proof W_pos. lia.
Qed.

Lemma wexp_mod a b : (a ^ b) mod W = wexp a b.
Proof. reflexivity. Qed.

Lemma pow2_ge_W s : 256 <= s -> W <= 2 ^ s.
Proof. intros. unfold W. apply Z.pow_le_mono_r; lia. Qed.

Lemma shr_large s x : inw x -> 256 <= s -> x / 2 ^ s = 0.
Proof. intros [H0 H1] Hs. apply Z.div_small. pose proof (pow2_ge_W s Hs). lia. Qed.

Lemma shr_eq s x : inw x -> 0 <= s -> x / 2 ^ s = wshr s x.
Proof.
  intros Hx Hs. unfold wshr. destruct (s <? 256) eqn:E; [reflexivity|]. apply Z.ltb_ge in E.
  apply shr_large; assumption.
Qed.

Lemma sar_eq s x : inw x -> 0 <= s -> (sgn x / 2 ^ s) mod W = wsar s x.
Proof.
  intros Hx Hs. unfold wsar, wrap. destruct (s <? 256) eqn:E; [reflexivity|]. apply Z.ltb_ge in E.
  pose proof (sgn_range x Hx) as Hr. pose proof (pow2_ge_W s E) as Hp. pose proof W_eq. pose proof HALF_pos.
  destruct (sgn x <? 0) eqn:Es.
  - apply Z.ltb_lt in Es. replace (sgn x / 2 ^ s) with (-1).
    + change (-1) with (- (1)). rewrite Z.mod_opp_l_nz; rewrite ?Z.mod_1_l; lia.
    + apply Z.div_unique_pos with (sgn x + 2 ^ s); lia.
  - apply Z.ltb_ge in Es. rewrite Z.div_small by lia. apply Z.mod_0_l. lia.
Qed.

Lemma sgn_alt x : (if 2 ^ 255 <=? x then x - 2 ^ 256 else x) = sgn x.
Proof.
  unfold sgn. rewrite HALF_lit, W_lit. destruct (HALF <=? x) eqn:E1, (x <? HALF) eqn:E2; try reflexivity.
  - apply Z.leb_le in E1. apply Z.ltb_lt in E2. lia.
  - apply Z.leb_gt in E1. apply Z.ltb_ge in E2. lia.
Qed.

(* ---- tactics -------------------------------------------------------------------------- *)

(* evaluate closed string tests (never unfolds anything else) *)
Ltac eval_strings :=
  repeat match goal with
    | |- context [String.eqb ?s ?t] =>
        let b := eval vm_compute in (String.eqb s t) in
        match b with true => idtac | false => idtac end;
        change (String.eqb s t) with b
    | H : context [String.eqb ?s ?t] |- _ =>
        let b := eval vm_compute in (String.eqb s t) in
        match b with true => idtac | false => idtac end;
        change (String.eqb s t) with b in H
    | |- context [str_in ?s ?l] =>
        let b := eval vm_compute in (str_in s l) in
        match b with true => idtac | false => idtac end;
        change (str_in s l) with b
    | H : context [str_in ?s ?l] |- _ =>
        let b := eval vm_compute in (str_in s l) in
        match b with true => idtac | false => idtac end;
        change (str_in s l) with b in H
    end;
  cbv beta iota delta [orb andb negb] in *.

(* invert `... = PyOk r` through pybind and the raising primitives *)
Ltac py_inv :=
  repeat match goal with
    | H : PyOk _ = PyOk _ |- _ => injection H as H; try subst
    | H : PyNone = PyOk _ |- _ => discriminate H
    | H : PyZeroDiv = PyOk _ |- _ => discriminate H
    | H : PyHuge = PyOk _ |- _ => discriminate H
    | H : PyOther = PyOk _ |- _ => discriminate H
    | H : PyOverflow = PyOk _ |- _ => discriminate H
    | H : pybind ?e _ = PyOk _ |- _ =>
        let E := fresh "E" in destruct e eqn:E; cbn [pybind] in H; try discriminate H
    | H : py_pow _ _ _ = PyOk _ |- _ => apply py_pow_ok in H; destruct H as [? H]; try subst
    | H : py_mod _ _ = PyOk _ |- _ => apply py_mod_ok in H; destruct H as [? H]; try subst
    | H : py_floordiv _ _ = PyOk _ |- _ => apply py_floordiv_ok in H; destruct H as [? H]; try subst
    | H : py_rshift _ _ = PyOk _ |- _ => apply py_rshift_ok in H; destruct H as [? H]; try subst
    | H : py_lshift _ _ _ = PyOk _ |- _ => apply py_lshift_ok in H; destruct H as [? H]; try subst
    | H : py_powmod _ _ _ = PyOk _ |- _ => apply py_powmod_ok in H; destruct H as [? [? H]]; try subst
    | H : (if ?c then _ else _) = PyOk _ |- _ => let E := fresh "C" in destruct c eqn:E
    | H : (let _ := _ in _) = PyOk _ |- _ => cbv zeta in H
    end.

Ltac bool_hyps :=
  repeat match goal with
    | H : (_ =? _) = true |- _ => apply Z.eqb_eq in H
    | H : (_ =? _) = false |- _ => apply Z.eqb_neq in H
    | H : (_ <? _) = true |- _ => apply Z.ltb_lt in H
    | H : (_ <? _) = false |- _ => apply Z.ltb_ge in H
    | H : (_ <=? _) = true |- _ => apply Z.leb_le in H
    | H : (_ <=? _) = false |- _ => apply Z.leb_gt in H
    end.

Ltac word_close :=
  rewrite ?W_lit, ?HALF_lit, ?sgn_alt in *;
  first
    [ reflexivity
    | apply shl_mod_eq; assumption
    | apply shr_eq; assumption
    | apply sar_eq; assumption
    | match goal with |- ?x = wdiv _ ?b => unfold wdiv; destruct (b =? 0) eqn:?; bool_hyps; (reflexivity || lia) end
    | match goal with |- ?x = wmod _ ?b => unfold wmod; destruct (b =? 0) eqn:?; bool_hyps; (reflexivity || lia) end
    | match goal with |- ?x = waddmod _ _ ?b => unfold waddmod; destruct (b =? 0) eqn:?; bool_hyps; (reflexivity || lia) end
    | match goal with |- ?x = wmulmod _ _ ?b => unfold wmulmod; destruct (b =? 0) eqn:?; bool_hyps; (reflexivity || lia) end
    | match goal with |- ?x = wshl ?s _ => unfold wshl, wrap; destruct (s <? 256) eqn:?; bool_hyps;
                                            rewrite <- ?Z.shiftl_mul_pow2 by lia; (reflexivity || lia) end
    | match goal with |- ?x = wshr ?s _ => first [ rewrite <- shr_eq by (assumption || lia); reflexivity
                                                 | unfold wshr; destruct (s <? 256) eqn:?; bool_hyps; (reflexivity || lia) ] end
    | match goal with |- ?x = wsar ?s _ => first [ rewrite <- sar_eq by (assumption || lia); reflexivity
                                                 | unfold wsar, wrap; destruct (s <? 256) eqn:?; bool_hyps;
                                                   repeat match goal with |- context [if ?c then _ else _] => destruct c eqn:? end;
                                                   bool_hyps; (reflexivity || lia) ] end
    | unfold wadd, wsub, wmul, wexp, wand, wor, wxor, weq, wgt, wlt, wrap, b2z;
      repeat match goal with |- context [if ?c then _ else _] => destruct c eqn:? end;
      bool_hyps; (reflexivity || lia) ].

(* `fold2 lim "<op>" a b = PyOk r -> Some r = ref_fold2 "<op>" a b` *)
Ltac solve_fold :=
  intros;
  match goal with H : _ = PyOk _ |- _ => autounfold with gen_fold in H end;
  unfold ref_fold2, ref_fold3;
  eval_strings; py_inv; bool_hyps;
  (* bound hypotheses for the operands *)
  repeat match goal with H : inw ?x |- _ =>
    lazymatch goal with _ : 0 <= x < W |- _ => fail | _ => assert (0 <= x < W) by exact H end end;
  f_equal; word_close.

Lemma py_pow2_total lim s : 0 <= s <= lim -> py_pow lim 2 s = PyOk (2 ^ s).
Proof.
  intros Hs. rewrite py_pow2_word by lia. replace (lim <? s) with false; [reflexivity|].
  symmetry. apply Z.ltb_ge. lia.
Qed.

(* `forall lim a b, 512 <= lim -> inw a -> inw b -> exists r, fold2 lim "<op>" a b = PyOk r` *)
Ltac total_step :=
  match goal with
  | |- exists r, PyOk _ = PyOk r => eexists; reflexivity
  | |- exists r, (if ?c then _ else _) = PyOk r => let E := fresh "C" in destruct c eqn:E; bool_hyps
  | |- context [py_mod ?a ?b] =>
      unfold py_mod; replace (b =? 0) with false by (symmetry; apply Z.eqb_neq; lia)
  | |- context [py_floordiv ?a ?b] =>
      unfold py_floordiv; replace (b =? 0) with false by (symmetry; apply Z.eqb_neq; lia)
  | |- context [py_pow ?l 2 ?s] => rewrite (py_pow2_total l s) by lia; cbn [pybind]
  | |- context [py_rshift ?a ?b] =>
      let r := fresh "r" in let E := fresh "E" in
      destruct (py_rshift_total a b ltac:(lia)) as [r E]; rewrite E; cbn [pybind]
  | |- context [py_lshift ?l ?a ?b] =>
      let r := fresh "r" in let E := fresh "E" in
      destruct (py_lshift_total l a b ltac:(lia)) as [r E]; rewrite E; cbn [pybind]
  | |- context [py_powmod ?a ?b ?m] =>
      let r := fresh "r" in let E := fresh "E" in
      destruct (py_powmod_total a b m ltac:(lia) ltac:(rewrite ?W_lit; pose proof W_pos; lia)) as [r E]; rewrite E; cbn [pybind]
  end.

Ltac solve_total :=
  intros; autounfold with gen_fold; eval_strings; cbv zeta;
  repeat match goal with H : inw _ |- _ => unfold inw in H end;
  repeat total_step.
