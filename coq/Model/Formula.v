(* Executable model of GASOL's formula layer (property C18).  No proofs in this file.

   Code modelled (all in /repo/smt_encoding):
     constraints/function.py           Sort, Function.__call__ (sort checks), ExpressionReference.__eq__
     constraints/connector.py          Connector.__eq__ (permutation search for commutative connectors)
     constraints/connector_factory.py  Connectors registry (arity, commutativity), create_connector,
                                       _simplify_{implies,and,or,not,equal}, add_* entry points
     solver/solver_from_executable.py  translate_formula

   Two places of the code have two model variants, selected by parameters.  The harness
   (harness/c18.py) detects which variant the checkout implements and runs the whole
   correspondence with it:
     lit_mode  Loose  : bool/int literals are compared with Python's `==` (True == 1, False == 0);
                        this is the code as it stands.
               Strict : literal comparison is type aware (type(a) == type(b) and a == b), the
                        behaviour after proposals/C18/0001.
     neg_mode  NegRaw : a negative integer literal is printed by str(): "-5" (code as it stands)
               NegSmt : printed as the SMT-LIB term "(- 5)" (behaviour after proposals/C18/0002). *)
From Coq Require Import ZArith List Bool String Ascii DecimalString DecimalN Decimal.
Import ListNotations.
Local Open Scope string_scope.

(* ------------------------------------------------------------------ *)
(* Syntax                                                               *)

Inductive sort := SBool | SInt | SU | ST.     (* Sort.boolean, integer, uninterpreted, uninterpreted_theta *)

(* registry of connector_factory.py, in registration order *)
Inductive conn := CImp | CAnd | COr | CNot | CEq | CLt | CLe | CDistinct.

(* Formula_T = Union[Connector, ExpressionReference, bool, int].
   FApp name sig args : ExpressionReference(Function(name, sig...), args...); sig is the whole type
   tuple, its last element is the range. *)
Inductive form :=
| FBool (b : bool)
| FInt (z : Z)
| FApp (name : string) (sig : list sort) (args : list form)
| FConn (c : conn) (args : list form).

Inductive lit_mode := Loose | Strict.
Inductive neg_mode := NegRaw | NegSmt.

Inductive err := AssertionError | ValueError | AttributeError | IndexError.
Inductive result (A : Type) := Ok (a : A) | Err (e : err).
Arguments Ok {A} a.
Arguments Err {A} e.

Definition bind {A B} (r : result A) (k : A -> result B) : result B :=
  match r with Ok a => k a | Err e => Err e end.

(* left to right, the first exception propagates (Python argument evaluation order) *)
Fixpoint sequence_r {A} (l : list (result A)) : result (list A) :=
  match l with
  | [] => Ok []
  | r :: rs => bind r (fun a => bind (sequence_r rs) (fun l' => Ok (a :: l')))
  end.

Definition sort_eqb (a b : sort) : bool :=
  match a, b with SBool, SBool | SInt, SInt | SU, SU | ST, ST => true | _, _ => false end.

Fixpoint sig_eqb (a b : list sort) : bool :=
  match a, b with
  | [], [] => true
  | x :: xs, y :: ys => sort_eqb x y && sig_eqb xs ys
  | _, _ => false
  end.

Definition conn_eqb (a b : conn) : bool :=
  match a, b with
  | CImp, CImp | CAnd, CAnd | COr, COr | CNot, CNot | CEq, CEq | CLt, CLt | CLe, CLe
  | CDistinct, CDistinct => true
  | _, _ => false
  end.

(* register_connector(name, arity, is_commutative, simplify) *)
Definition conn_name (c : conn) : string :=
  match c with
  | CImp => "=>" | CAnd => "and" | COr => "or" | CNot => "not" | CEq => "="
  | CLt => "<" | CLe => "<=" | CDistinct => "distinct"
  end.

(* None stands for the registry's -1 (any positive number of arguments) *)
Definition conn_arity (c : conn) : option nat :=
  match c with
  | CAnd | COr | CDistinct => None
  | CNot => Some 1%nat
  | CImp | CEq | CLt | CLe => Some 2%nat
  end.

Definition conn_comm (c : conn) : bool :=
  match c with
  | CAnd | COr | CNot | CEq | CDistinct => true
  | CImp | CLt | CLe => false
  end.

(* ------------------------------------------------------------------ *)
(* Python `==` on formulas                                              *)

Definition bool_as_int (b : bool) : Z := if b then 1%Z else 0%Z.

(* a bool literal against an int literal *)
Definition lit_eqb_bi (m : lit_mode) (b : bool) (z : Z) : bool :=
  match m with Loose => Z.eqb (bool_as_int b) z | Strict => false end.

(* all ways of taking one element out of a list *)
Fixpoint selects {A} (l : list A) : list (A * list A) :=
  match l with
  | [] => []
  | x :: xs => (x, xs) :: map (fun p => (fst p, x :: snd p)) (selects xs)
  end.

(* all(x == y for x, y in zip(l1, l2)) preceded by the len(l1) == len(l2) test *)
Section ListCompare.
  Context {A B : Type} (f : A -> B -> bool).

  Fixpoint zip_allb (l1 : list A) (l2 : list B) {struct l1} : bool :=
    match l1, l2 with
    | [], [] => true
    | x :: xs, y :: ys => f x y && zip_allb xs ys
    | _, _ => false
    end.

  (* len(l1) == len(l2) and some permutation of l1 matches l2 pointwise
     (for permutation in itertools.permutations(l1): all(x == y for x, y in zip(permutation, l2)));
     the comparison is pure, so only the existence of a matching permutation matters *)
  Fixpoint perm_matchb (l1 : list A) (l2 : list B) {struct l1} : bool :=
    match l1 with
    | [] => match l2 with [] => true | _ => false end
    | x :: xs => existsb (fun p => f x (fst p) && perm_matchb xs (snd p)) (selects l2)
    end.
End ListCompare.

(* form_eqb m f1 f2 : the comparison `f1 == f2` as it is made on arguments inside
   Connector.__eq__ / ExpressionReference.__eq__ and in _simplify_equal.
   - literal against literal: Python's int/bool equality (Loose) or the type aware one (Strict);
   - literal against object: int.__eq__ gives NotImplemented, the reflected __eq__ of the
     object gives False (type(self) != type(other));
   - ExpressionReference: same Function (name and type tuple), same number of arguments, pointwise;
   - Connector: same commutativity flag; commutative: same length, SOME permutation of
     self.arguments matches other.arguments pointwise, and same name; otherwise name, length,
     pointwise. *)
Fixpoint form_eqb (m : lit_mode) (f1 f2 : form) {struct f1} : bool :=
  match f1 with
  | FBool b1 =>
      match f2 with
      | FBool b2 => Bool.eqb b1 b2
      | FInt z2 => lit_eqb_bi m b1 z2
      | _ => false
      end
  | FInt z1 =>
      match f2 with
      | FBool b2 => lit_eqb_bi m b2 z1
      | FInt z2 => Z.eqb z1 z2
      | _ => false
      end
  | FApp n1 s1 a1 =>
      match f2 with
      | FApp n2 s2 a2 => String.eqb n1 n2 && sig_eqb s1 s2 && zip_allb (form_eqb m) a1 a2
      | _ => false
      end
  | FConn c1 a1 =>
      match f2 with
      | FConn c2 a2 =>
          if negb (Bool.eqb (conn_comm c1) (conn_comm c2)) then false
          else if conn_comm c1 then perm_matchb (form_eqb m) a1 a2 && conn_eqb c1 c2
          else conn_eqb c1 c2 && zip_allb (form_eqb m) a1 a2
      | _ => false
      end
  end.

Definition is_lit (f : form) : bool :=
  match f with FBool _ | FInt _ => true | _ => false end.

(* Top-level Python `f1 == f2`.  Between two bare literals this is Python's builtin comparison
   whatever the checkout does; otherwise it dispatches to the __eq__ methods above. *)
Definition py_eq (m : lit_mode) (f1 f2 : form) : bool :=
  if is_lit f1 && is_lit f2 then form_eqb Loose f1 f2 else form_eqb m f1 f2.

(* ------------------------------------------------------------------ *)
(* Functions: Function.__init__, Function.__call__                      *)

Definition sig_range (sig : list sort) : sort := last sig SBool.
Definition sig_domain (sig : list sort) : list sort := removelast sig.

(* the per-argument check of Function.__call__ *)
Definition check_arg (arg : form) (t : sort) : result unit :=
  match arg with
  | FInt _ => if sort_eqb t SInt then Ok tt else Err ValueError
  | FBool _ => if sort_eqb t SBool then Ok tt else Err ValueError
  | FApp _ s _ => if sort_eqb (sig_range s) t then Ok tt else Err ValueError
  | FConn _ _ => Err AttributeError        (* 'Connector' object has no attribute 'type' *)
  end.

Fixpoint check_args (args : list form) (dom : list sort) : result unit :=
  match args, dom with
  | a :: args', t :: dom' => bind (check_arg a t) (fun _ => check_args args' dom')
  | _, _ => Ok tt
  end.

(* Function(name, sig...)(args...) *)
Definition call_fn (name : string) (sig : list sort) (args : list form) : result form :=
  match sig with
  | [] => Err ValueError                                   (* "needs at least one argument" *)
  | _ =>
      if negb (Nat.eqb (List.length args) (List.length (sig_domain sig))) then Err ValueError
      else bind (check_args args (sig_domain sig)) (fun _ => Ok (FApp name sig args))
  end.

(* ------------------------------------------------------------------ *)
(* Connectors registry: create_connector and the simplifiers            *)

Definition create_connector (c : conn) (args : list form) : result form :=
  match conn_arity c with
  | Some n => if Nat.eqb n (List.length args) then Ok (FConn c args) else Err AssertionError
  | None => match args with [] => Err AssertionError | _ => Ok (FConn c args) end
  end.

Definition is_false (f : form) : bool := match f with FBool false => true | _ => false end.
Definition is_true (f : form) : bool := match f with FBool true => true | _ => false end.

(* the loop body of _simplify_and / _simplify_or: bool literals are skipped, a nested connector
   of the same name is spliced in, anything else is kept *)
Definition and_piece (a : form) : list form :=
  match a with
  | FBool _ => []
  | FConn CAnd l => l
  | _ => [a]
  end.

Definition or_piece (a : form) : list form :=
  match a with
  | FBool _ => []
  | FConn COr l => l
  | _ => [a]
  end.

Definition simplify_and (args : list form) : result form :=
  if existsb is_false args then Ok (FBool false)
  else match flat_map and_piece args with
       | [x] => Ok x
       | new => create_connector CAnd new
       end.

Definition simplify_or (args : list form) : result form :=
  if existsb is_true args then Ok (FBool true)
  else match flat_map or_piece args with
       | [x] => Ok x
       | new => create_connector COr new
       end.

Definition simplify_not (args : list form) : result form :=
  match args with
  | a :: _ =>
      match a with
      | FConn CNot (x :: _) => Ok x
      | FConn CNot [] => Err IndexError
      | FBool b => Ok (FBool (negb b))
      | _ => Ok (FConn CNot args)
      end
  | [] => Err IndexError
  end.

Definition simplify_implies (args : list form) : result form :=
  match args with
  | [lhs; rhs] =>
      match lhs with
      | FBool false => Ok (FBool true)
      | FBool true => Ok rhs
      | _ =>
          match rhs with
          | FBool true => Ok (FBool true)
          | FBool false => bind (create_connector CNot [lhs]) (fun _ => simplify_not [lhs])
          | _ => Ok (FConn CImp args)
          end
      end
  | _ => Err ValueError                                   (* tuple unpacking *)
  end.

Definition simplify_equal (m : lit_mode) (args : list form) : result form :=
  match args with
  | [lhs; rhs] =>
      if is_lit lhs && is_lit rhs then Ok (FBool (form_eqb m lhs rhs))
      else if form_eqb m lhs rhs then Ok (FBool true)
      else Ok (FConn CEq args)
  | _ => Err ValueError
  end.

Definition simplify (m : lit_mode) (c : conn) (args : list form) : result form :=
  match c with
  | CImp => simplify_implies args
  | CAnd => simplify_and args
  | COr => simplify_or args
  | CNot => simplify_not args
  | CEq => simplify_equal m args
  | CLt | CLe | CDistinct => Ok (FConn c args)
  end.

(* create_connector_and_simplify = the entry points add_implies, add_and, add_or, add_not,
   add_eq, add_lt, add_leq, add_distinct *)
Definition add (m : lit_mode) (c : conn) (args : list form) : result form :=
  bind (create_connector c args) (fun _ => simplify m c args).

(* A construction tree is a raw formula; build runs the interface bottom-up on it. *)
Fixpoint build (m : lit_mode) (t : form) : result form :=
  match t with
  | FBool b => Ok (FBool b)
  | FInt z => Ok (FInt z)
  | FApp n s args => bind (sequence_r (map (build m) args)) (call_fn n s)
  | FConn c args => bind (sequence_r (map (build m) args)) (add m c)
  end.

(* ------------------------------------------------------------------ *)
(* Semantics                                                            *)

Inductive value := VB (b : bool) | VI (z : Z) | VU (z : Z).

Definition value_eqb (a b : value) : bool :=
  match a, b with
  | VB x, VB y => Bool.eqb x y
  | VI x, VI y => Z.eqb x y
  | VU x, VU y => Z.eqb x y
  | _, _ => false
  end.

Definition valuation := string -> list sort -> list value -> value.

Fixpoint sequence_o {A} (l : list (option A)) : option (list A) :=
  match l with
  | [] => Some []
  | Some a :: rs => match sequence_o rs with Some l' => Some (a :: l') | None => None end
  | None :: _ => None
  end.

Definition as_bool (v : value) : option bool := match v with VB b => Some b | _ => None end.
Definition as_int (v : value) : option Z := match v with VI z => Some z | _ => None end.

Fixpoint distinct_vals (l : list value) : bool :=
  match l with
  | [] => true
  | x :: xs => negb (existsb (value_eqb x) xs) && distinct_vals xs
  end.

(* and/or/not/=> need boolean arguments, < and <= integer arguments; = and distinct are total
   heterogeneous (in)equality of values: VB true <> VI 1 (the suite expects add_eq(True,3) == False) *)
Definition conn_sem (c : conn) (vs : list value) : option value :=
  match c with
  | CAnd => option_map (fun bs => VB (forallb (fun b => b) bs)) (sequence_o (map as_bool vs))
  | COr => option_map (fun bs => VB (existsb (fun b => b) bs)) (sequence_o (map as_bool vs))
  | CNot => match vs with [VB b] => Some (VB (negb b)) | _ => None end
  | CImp => match vs with [VB a; VB b] => Some (VB (implb a b)) | _ => None end
  | CEq => match vs with [a; b] => Some (VB (value_eqb a b)) | _ => None end
  | CLt => match vs with [VI a; VI b] => Some (VB (Z.ltb a b)) | _ => None end
  | CLe => match vs with [VI a; VI b] => Some (VB (Z.leb a b)) | _ => None end
  | CDistinct => Some (VB (distinct_vals vs))
  end.

Fixpoint eval (v : valuation) (f : form) : option value :=
  match f with
  | FBool b => Some (VB b)
  | FInt z => Some (VI z)
  | FApp n s args =>
      match sequence_o (map (eval v) args) with
      | Some vs => Some (v n s vs)
      | None => None
      end
  | FConn c args =>
      match sequence_o (map (eval v) args) with
      | Some vs => conn_sem c vs
      | None => None
      end
  end.

(* ------------------------------------------------------------------ *)
(* translate_formula                                                    *)

Definition string_of_N (n : N) : string := NilEmpty.string_of_uint (N.to_uint n).

(* Python str(int) *)
Definition string_of_Z (z : Z) : string :=
  match z with
  | Z0 => "0"
  | Zpos p => string_of_N (Npos p)
  | Zneg p => "-" ++ string_of_N (Npos p)
  end.

Definition render_int (nm : neg_mode) (z : Z) : string :=
  match nm, z with
  | NegSmt, Zneg p => "(- " ++ string_of_N (Npos p) ++ ")"
  | _, _ => string_of_Z z
  end.

(* ' '.join(l) *)
Fixpoint join_sp (l : list string) : string :=
  match l with
  | [] => ""
  | [x] => x
  | x :: xs => x ++ " " ++ join_sp xs
  end.

(* byte for byte: "(f a b)" with ONE space after a function name, "(and  a b)" with TWO spaces
   after a connector name, a constant prints its name only *)
Fixpoint render (nm : neg_mode) (f : form) : string :=
  match f with
  | FInt z => render_int nm z
  | FBool true => "true"
  | FBool false => "false"
  | FApp n _ [] => n
  | FApp n _ args => "(" ++ n ++ " " ++ join_sp (map (render nm) args) ++ ")"
  | FConn c args => "(" ++ conn_name c ++ "  " ++ join_sp (map (render nm) args) ++ ")"
  end.

(* --- the same text as an s-expression and as a token list ----------- *)

Inductive sexp := SAtom (s : string) | SList (l : list sexp).
Inductive token := TLP | TRP | TAtom (s : string).

Definition sexp_of_int (nm : neg_mode) (z : Z) : sexp :=
  match nm, z with
  | NegSmt, Zneg p => SList [SAtom "-"; SAtom (string_of_N (Npos p))]
  | _, _ => SAtom (string_of_Z z)
  end.

Fixpoint to_sexp (nm : neg_mode) (f : form) : sexp :=
  match f with
  | FInt z => sexp_of_int nm z
  | FBool true => SAtom "true"
  | FBool false => SAtom "false"
  | FApp n _ [] => SAtom n
  | FApp n _ args => SList (SAtom n :: map (to_sexp nm) args)
  | FConn c args => SList (SAtom (conn_name c) :: map (to_sexp nm) args)
  end.

Fixpoint flatten (s : sexp) : list token :=
  match s with
  | SAtom a => [TAtom a]
  | SList l => TLP :: flat_map flatten l ++ [TRP]
  end.

Definition tokens (nm : neg_mode) (f : form) : list token := flatten (to_sexp nm f).

(* ------------------------------------------------------------------ *)
(* An SMT-LIB reader: lexer, s-expression parser, elaboration            *)

(* lexer: parentheses are tokens, blanks separate, everything else accumulates into an atom *)
Definition is_blank (c : ascii) : bool :=
  match c with
  | " "%char => true
  | "009"%char => true
  | "010"%char => true
  | "013"%char => true
  | _ => false
  end.

Definition flush (acc : string) : list token :=
  match acc with "" => [] | _ => [TAtom acc] end.

(* acc holds the characters of the current atom *)
Fixpoint lex_go (acc : string) (s : string) : list token :=
  match s with
  | "" => flush acc
  | String c s' =>
      if Ascii.eqb c "("%char then flush acc ++ TLP :: lex_go "" s'
      else if Ascii.eqb c ")"%char then flush acc ++ TRP :: lex_go "" s'
      else if is_blank c then flush acc ++ lex_go "" s'
      else lex_go (acc ++ String c "") s'
  end.

Definition lex (s : string) : list token := lex_go "" s.

(* s-expression parser with an explicit stack of open lists (no fuel needed):
   stack = list of reversed partial lists, innermost first *)
Fixpoint parse_go (stack : list (list sexp)) (toks : list token) : option sexp :=
  match toks with
  | [] => None
  | TAtom a :: rest =>
      match stack with
      | [] => match rest with [] => Some (SAtom a) | _ => None end
      | top :: stk => parse_go ((SAtom a :: top) :: stk) rest
      end
  | TLP :: rest => parse_go ([] :: stack) rest
  | TRP :: rest =>
      match stack with
      | [] => None
      | top :: [] => match rest with [] => Some (SList (List.rev top)) | _ => None end
      | top :: next :: stk => parse_go ((SList (List.rev top) :: next) :: stk) rest
      end
  end.

Definition parse_sexp (toks : list token) : option sexp := parse_go [] toks.

Definition conn_of_name (s : string) : option conn :=
  if String.eqb s "=>" then Some CImp
  else if String.eqb s "and" then Some CAnd
  else if String.eqb s "or" then Some COr
  else if String.eqb s "not" then Some CNot
  else if String.eqb s "=" then Some CEq
  else if String.eqb s "<" then Some CLt
  else if String.eqb s "<=" then Some CLe
  else if String.eqb s "distinct" then Some CDistinct
  else None.

(* declared functions: declare_function stores them in a dict keyed by name *)
Definition decls := list (string * list sort).

Fixpoint lookup (d : decls) (n : string) : option (list sort) :=
  match d with
  | [] => None
  | (k, s) :: d' => if String.eqb k n then Some s else lookup d' n
  end.

(* SMT-LIB <numeral>: a non-empty digit sequence *)
Definition numeral_of (s : string) : option N :=
  match s with
  | "" => None
  | _ => option_map N.of_uint (NilEmpty.uint_of_string s)
  end.

Definition elab_atom (d : decls) (a : string) : option form :=
  if String.eqb a "true" then Some (FBool true)
  else if String.eqb a "false" then Some (FBool false)
  else match numeral_of a with
       | Some n => Some (FInt (Z.of_N n))
       | None => match lookup d a with
                 | Some sig => Some (FApp a sig [])
                 | None => None
                 end
       end.

Fixpoint elab (d : decls) (s : sexp) : option form :=
  match s with
  | SAtom a => elab_atom d a
  | SList [] => None
  | SList (SList _ :: _) => None
  | SList (SAtom h :: args) =>
      let eargs := sequence_o (map (elab d) args) in
      match conn_of_name h with
      | Some c => option_map (FConn c) eargs
      | None =>
          if String.eqb h "-" then
            match args with
            | [SAtom a] => match numeral_of a with
                           | Some n => Some (FInt (- Z.of_N n))
                           | None => None
                           end
            | _ => None
            end
          else match lookup d h, args with
               | Some sig, _ :: _ => option_map (FApp h sig) eargs
               | _, _ => None
               end
      end
  end.

Definition parse (d : decls) (toks : list token) : option form :=
  match parse_sexp toks with
  | Some s => elab d s
  | None => None
  end.

Definition read (d : decls) (s : string) : option form := parse d (lex s).

(* --- well-formedness for printing ----------------------------------- *)

(* characters of an SMT-LIB simple symbol *)
Definition is_digit (c : ascii) : bool :=
  let n := nat_of_ascii c in Nat.leb 48 n && Nat.leb n 57.

Definition is_letter (c : ascii) : bool :=
  let n := nat_of_ascii c in
  (Nat.leb 65 n && Nat.leb n 90) || (Nat.leb 97 n && Nat.leb n 122).

Definition is_sym_special (c : ascii) : bool :=
  existsb (Ascii.eqb c)
    ["+"; "-"; "/"; "*"; "="; "%"; "?"; "!"; "."; "$"; "_"; "~"; "&"; "^"; "<"; ">"; "@"]%char.

Definition is_sym_char (c : ascii) : bool := is_digit c || is_letter c || is_sym_special c.

Fixpoint all_chars (p : ascii -> bool) (s : string) : bool :=
  match s with "" => true | String c s' => p c && all_chars p s' end.

(* a simple symbol that is not reserved by the reader *)
Definition name_ok (n : string) : bool :=
  match n with
  | "" => false
  | String c _ =>
      negb (is_digit c) && all_chars is_sym_char n &&
      negb (String.eqb n "true") && negb (String.eqb n "false") && negb (String.eqb n "-") &&
      match conn_of_name n with Some _ => false | None => true end
  end.

Definition int_ok (nm : neg_mode) (z : Z) : bool :=
  match nm with NegSmt => true | NegRaw => Z.leb 0 z end.

(* every application uses a declared simple symbol with the declared type tuple; integer literals
   are printable in the given mode *)
Fixpoint printable (nm : neg_mode) (d : decls) (f : form) : bool :=
  match f with
  | FBool _ => true
  | FInt z => int_ok nm z
  | FApp n s args =>
      name_ok n &&
      match lookup d n with Some s' => sig_eqb s s' | None => false end &&
      forallb (printable nm d) args
  | FConn c args => forallb (printable nm d) args
  end.

(* ------------------------------------------------------------------ *)
(* canonical text of results, used by the correspondence harness        *)

Definition sort_name (s : sort) : string :=
  match s with SBool => "Bool" | SInt => "Int" | SU => "S" | ST => "T" end.

Fixpoint show (f : form) : string :=
  match f with
  | FBool true => "T"
  | FBool false => "F"
  | FInt z => "i" ++ string_of_Z z
  | FApp n s args => "A[" ++ n ++ ":" ++ join_sp (map sort_name s) ++ "](" ++ join_sp (map show args) ++ ")"
  | FConn c args => "C[" ++ conn_name c ++ "](" ++ join_sp (map show args) ++ ")"
  end.

Definition show_err (e : err) : string :=
  match e with
  | AssertionError => "AssertionError" | ValueError => "ValueError"
  | AttributeError => "AttributeError" | IndexError => "IndexError"
  end.

Definition show_result (r : result form) : string :=
  match r with Ok f => show f | Err e => "!" ++ show_err e end.
