(* Lemmas about the model of GASOL's formula layer (Model/Formula.v), property C18. *)
From Coq Require Import ZArith List Bool String Ascii Lia Permutation DecimalString DecimalN Decimal.
From GV Require Import Model.Formula.
Import ListNotations.
Local Open Scope string_scope.
Local Open Scope list_scope.

(* ------------------------------------------------------------------ *)
(* Induction principles for the nested inductives                       *)

Lemma form_ind' (P : form -> Prop) :
  (forall b, P (FBool b)) ->
  (forall z, P (FInt z)) ->
  (forall n s args, Forall P args -> P (FApp n s args)) ->
  (forall c args, Forall P args -> P (FConn c args)) ->
  forall f, P f.
Proof.
  intros HB HI HA HC.
  fix IH 1.
  intros [b | z | n s args | c args].
  - apply HB.
  - apply HI.
  - apply HA. induction args as [| a args IHargs]; constructor; [apply IH | exact IHargs].
  - apply HC. induction args as [| a args IHargs]; constructor; [apply IH | exact IHargs].
Qed.

Lemma sexp_ind' (P : sexp -> Prop) :
  (forall a, P (SAtom a)) ->
  (forall l, Forall P l -> P (SList l)) ->
  forall s, P s.
Proof.
  intros HA HL.
  fix IH 1.
  intros [a | l].
  - apply HA.
  - apply HL. induction l as [| x l IHl]; constructor; [apply IH | exact IHl].
Qed.

(* ------------------------------------------------------------------ *)
(* Small facts                                                          *)

Lemma sort_eqb_eq a b : sort_eqb a b = true -> a = b.
Proof. destruct a, b; simpl; congruence. Qed.

Lemma sort_eqb_refl a : sort_eqb a a = true.
Proof. destruct a; reflexivity. Qed.

Lemma sig_eqb_eq a : forall b, sig_eqb a b = true -> a = b.
Proof.
  induction a as [| x xs IH]; intros [| y ys] H; simpl in H; try congruence.
  apply andb_true_iff in H as [H1 H2]. f_equal; [apply sort_eqb_eq, H1 | apply IH, H2].
Qed.

Lemma sig_eqb_refl a : sig_eqb a a = true.
Proof. induction a as [| x xs IH]; simpl; [reflexivity | rewrite sort_eqb_refl, IH; reflexivity]. Qed.

Lemma conn_eqb_eq a b : conn_eqb a b = true -> a = b.
Proof. destruct a, b; simpl; congruence. Qed.

Lemma value_eqb_eq a b : value_eqb a b = true <-> a = b.
Proof.
  destruct a as [x | x | x], b as [y | y | y]; simpl; split; intros H; try congruence.
  - f_equal. apply eqb_prop, H.
  - inversion H. apply eqb_reflx.
  - f_equal. apply Z.eqb_eq, H.
  - inversion H. apply Z.eqb_refl.
  - f_equal. apply Z.eqb_eq, H.
  - inversion H. apply Z.eqb_refl.
Qed.

Lemma value_eqb_refl a : value_eqb a a = true.
Proof. apply value_eqb_eq. reflexivity. Qed.

Lemma value_eqb_sym a b : value_eqb a b = value_eqb b a.
Proof.
  destruct (value_eqb a b) eqn:E1, (value_eqb b a) eqn:E2; try reflexivity.
  - apply value_eqb_eq in E1. subst. rewrite value_eqb_refl in E2. congruence.
  - apply value_eqb_eq in E2. subst. rewrite value_eqb_refl in E1. congruence.
Qed.

(* ------------------------------------------------------------------ *)
(* sequence_o                                                           *)

Lemma sequence_o_some {A} (l : list (option A)) vs :
  sequence_o l = Some vs <-> l = map Some vs.
Proof.
  revert vs. induction l as [| o l IH]; intros vs; simpl.
  - split; intros H.
    + inversion H. reflexivity.
    + destruct vs; simpl in H; [reflexivity | discriminate].
  - destruct o as [a |].
    + destruct (sequence_o l) as [l' |] eqn:E.
      * split; intros H.
        -- inversion H. subst. simpl. f_equal. apply IH. reflexivity.
        -- destruct vs as [| v vs]; simpl in H; [discriminate |].
           inversion H. subst. f_equal. f_equal.
           assert (Some l' = Some vs) as HH by (apply IH; reflexivity).
           inversion HH. reflexivity.
      * split; intros H; [discriminate |].
        destruct vs as [| v vs]; simpl in H; [discriminate |].
        inversion H. subst.
        assert (None = Some vs) as HH by (apply IH; reflexivity). discriminate.
    + split; intros H; [discriminate |].
      destruct vs; simpl in H; discriminate.
Qed.

Lemma sequence_o_map_some {A} (vs : list A) : sequence_o (map Some vs) = Some vs.
Proof. apply sequence_o_some. reflexivity. Qed.

Lemma sequence_o_none {A} (l : list (option A)) :
  sequence_o l = None <-> In None l.
Proof.
  induction l as [| o l IH]; simpl.
  - split; [discriminate | intros []].
  - destruct o as [a |].
    + destruct (sequence_o l) eqn:E.
      * split; [discriminate |]. intros [H | H]; [discriminate |].
        apply IH in H. discriminate.
      * split; [| reflexivity]. intros _. right. apply IH. reflexivity.
    + split; [intros _; left; reflexivity | reflexivity].
Qed.

Lemma sequence_o_perm {A} (l l' : list (option A)) :
  Permutation l l' ->
  match sequence_o l with
  | Some vs => exists vs', sequence_o l' = Some vs' /\ Permutation vs vs'
  | None => sequence_o l' = None
  end.
Proof.
  intros HP. destruct (sequence_o l) as [vs |] eqn:E.
  - apply sequence_o_some in E. subst l.
    apply Permutation_sym, Permutation_map_inv in HP as [vs' [-> HP']].
    exists vs'. split; [apply sequence_o_map_some | exact HP'].
  - apply sequence_o_none. apply sequence_o_none in E.
    eapply Permutation_in; eassumption.
Qed.

Lemma sequence_o_app {A} (l1 l2 : list (option A)) :
  sequence_o (l1 ++ l2) =
  match sequence_o l1, sequence_o l2 with
  | Some a, Some b => Some (a ++ b)
  | _, _ => None
  end.
Proof.
  induction l1 as [| o l1 IH]; simpl.
  - destruct (sequence_o l2); reflexivity.
  - destruct o as [a |]; [| reflexivity].
    rewrite IH. destruct (sequence_o l1), (sequence_o l2); reflexivity.
Qed.

(* ------------------------------------------------------------------ *)
(* eval, unfolded                                                       *)

Definition eval_list (v : valuation) (l : list form) : option (list value) :=
  sequence_o (map (eval v) l).

Lemma eval_conn v c args :
  eval v (FConn c args) =
  match eval_list v args with Some vs => conn_sem c vs | None => None end.
Proof. reflexivity. Qed.

Lemma eval_app v n s args :
  eval v (FApp n s args) =
  match eval_list v args with Some vs => Some (v n s vs) | None => None end.
Proof. reflexivity. Qed.

Lemma eval_list_ext v l1 l2 :
  Forall2 (fun x y => eval v x = eval v y) l1 l2 -> eval_list v l1 = eval_list v l2.
Proof.
  unfold eval_list. induction 1 as [| x y l1 l2 H _ IH]; simpl; [reflexivity |].
  rewrite H, IH. reflexivity.
Qed.

(* ------------------------------------------------------------------ *)
(* conn_sem is invariant under permutation for commutative connectors   *)

Lemma forallb_perm {A} (f : A -> bool) l l' : Permutation l l' -> forallb f l = forallb f l'.
Proof.
  induction 1 as [| x l l' _ IH | x y l | l l' l'' _ IH1 _ IH2]; simpl.
  - reflexivity.
  - rewrite IH. reflexivity.
  - destruct (f x), (f y); reflexivity.
  - congruence.
Qed.

Lemma existsb_perm {A} (f : A -> bool) l l' : Permutation l l' -> existsb f l = existsb f l'.
Proof.
  induction 1 as [| x l l' _ IH | x y l | l l' l'' _ IH1 _ IH2]; simpl.
  - reflexivity.
  - rewrite IH. reflexivity.
  - destruct (f x), (f y); reflexivity.
  - congruence.
Qed.

Lemma distinct_vals_nodup l : distinct_vals l = true <-> NoDup l.
Proof.
  induction l as [| x l IH]; simpl.
  - split; [constructor | reflexivity].
  - rewrite andb_true_iff, negb_true_iff, IH. split.
    + intros [H1 H2]. constructor; [| exact H2].
      intros HIn. assert (existsb (value_eqb x) l = true) as HE.
      { apply existsb_exists. exists x. split; [exact HIn | apply value_eqb_refl]. }
      congruence.
    + intros HN. inversion HN as [| ? ? H1 H2]. subst. split; [| exact H2].
      destruct (existsb (value_eqb x) l) eqn:E; [| reflexivity].
      apply existsb_exists in E as [y [HIn Hy]]. apply value_eqb_eq in Hy. subst. contradiction.
Qed.

Lemma distinct_vals_perm l l' : Permutation l l' -> distinct_vals l = distinct_vals l'.
Proof.
  intros HP.
  destruct (distinct_vals l) eqn:E1, (distinct_vals l') eqn:E2; try reflexivity.
  - apply distinct_vals_nodup in E1. eapply Permutation_NoDup in E1; [| exact HP].
    apply distinct_vals_nodup in E1. congruence.
  - apply distinct_vals_nodup in E2. eapply Permutation_NoDup in E2; [| apply Permutation_sym, HP].
    apply distinct_vals_nodup in E2. congruence.
Qed.

Lemma conn_sem_perm c vs vs' :
  conn_comm c = true -> Permutation vs vs' -> conn_sem c vs = conn_sem c vs'.
Proof.
  intros Hc HP. destruct c; simpl in Hc; try discriminate; simpl.
  - (* and *)
    pose proof (sequence_o_perm _ _ (Permutation_map as_bool HP)) as H.
    destruct (sequence_o (map as_bool vs)) as [bs |].
    + destruct H as [bs' [-> HP']]. simpl. rewrite (forallb_perm _ _ _ HP'). reflexivity.
    + rewrite H. reflexivity.
  - (* or *)
    pose proof (sequence_o_perm _ _ (Permutation_map as_bool HP)) as H.
    destruct (sequence_o (map as_bool vs)) as [bs |].
    + destruct H as [bs' [-> HP']]. simpl. rewrite (existsb_perm _ _ _ HP'). reflexivity.
    + rewrite H. reflexivity.
  - (* not *)
    destruct vs as [| a [| b vs]].
    + apply Permutation_nil in HP. subst. reflexivity.
    + apply Permutation_length_1_inv in HP. subst. reflexivity.
    + pose proof (Permutation_length HP) as HL.
      destruct vs' as [| a' [| b' vs']]; simpl in HL; try discriminate.
      destruct a, a'; reflexivity.
  - (* = *)
    destruct vs as [| a [| b [| c vs]]].
    + apply Permutation_nil in HP. subst. reflexivity.
    + apply Permutation_length_1_inv in HP. subst. reflexivity.
    + apply Permutation_length_2_inv in HP as [-> | ->]; [reflexivity |].
      rewrite value_eqb_sym. reflexivity.
    + pose proof (Permutation_length HP) as HL.
      destruct vs' as [| a' [| b' [| c' vs']]]; simpl in HL; try discriminate. reflexivity.
  - (* distinct *)
    rewrite (distinct_vals_perm _ _ HP). reflexivity.
Qed.

Lemma eval_conn_perm v c l l' :
  conn_comm c = true -> Permutation l l' -> eval v (FConn c l) = eval v (FConn c l').
Proof.
  intros Hc HP. rewrite !eval_conn. unfold eval_list.
  pose proof (sequence_o_perm _ _ (Permutation_map (eval v) HP)) as H.
  destruct (sequence_o (map (eval v) l)) as [vs |].
  - destruct H as [vs' [-> HP']]. apply conn_sem_perm; assumption.
  - rewrite H. reflexivity.
Qed.

(* ------------------------------------------------------------------ *)
(* the list comparisons                                                 *)

Lemma zip_allb_forall2 {A B} (f : A -> B -> bool) l1 :
  forall l2, zip_allb f l1 l2 = true -> Forall2 (fun x y => f x y = true) l1 l2.
Proof.
  induction l1 as [| x xs IH]; intros [| y ys] H; simpl in H; try discriminate.
  - constructor.
  - apply andb_true_iff in H as [H1 H2]. constructor; [exact H1 | apply IH, H2].
Qed.

Lemma selects_spec {A} (l : list A) y rest :
  In (y, rest) (selects l) -> Permutation l (y :: rest).
Proof.
  revert y rest. induction l as [| x xs IH]; intros y rest H; simpl in H.
  - contradiction.
  - destruct H as [H | H].
    + inversion H. subst. apply Permutation_refl.
    + apply in_map_iff in H as [[y' rest'] [Heq HIn]]. simpl in Heq. inversion Heq. subst.
      apply IH in HIn.
      eapply Permutation_trans; [apply perm_skip, HIn | apply perm_swap].
Qed.

(* a matching permutation, stated on the second list *)
Lemma perm_matchb_spec {A B} (f : A -> B -> bool) l1 :
  forall l2, perm_matchb f l1 l2 = true ->
  exists l2', Permutation l2 l2' /\ Forall2 (fun x y => f x y = true) l1 l2'.
Proof.
  induction l1 as [| x xs IH]; intros l2 H; simpl in H.
  - destruct l2; [| discriminate]. exists []. split; constructor.
  - apply existsb_exists in H as [[y rest] [HIn Hp]]. simpl in Hp.
    apply andb_true_iff in Hp as [Hxy Hrest].
    apply IH in Hrest as [rest' [HP HF]].
    exists (y :: rest'). split.
    + eapply Permutation_trans; [apply selects_spec, HIn | apply perm_skip, HP].
    + constructor; assumption.
Qed.

(* ------------------------------------------------------------------ *)
(* Structural equality is sound                                         *)

(* literals occurring in a formula *)
Fixpoint no_bool_lit (f : form) : bool :=
  match f with
  | FBool _ => false
  | FInt _ => true
  | FApp _ _ args => forallb no_bool_lit args
  | FConn _ args => forallb no_bool_lit args
  end.

Fixpoint no_int01_lit (f : form) : bool :=
  match f with
  | FBool _ => true
  | FInt z => negb (Z.eqb z 0 || Z.eqb z 1)
  | FApp _ _ args => forallb no_int01_lit args
  | FConn _ args => forallb no_int01_lit args
  end.

(* no boolean literal of one formula can meet an integer literal 0/1 of the other *)
Definition sepb (f1 f2 : form) : bool :=
  (no_bool_lit f1 || no_int01_lit f2) && (no_bool_lit f2 || no_int01_lit f1).

(* the comparison never equates a bool literal with an int literal: always in the Strict variant,
   and in the Loose variant when the two formulas are separated *)
Definition lits_ok (m : lit_mode) (f1 f2 : form) : Prop :=
  m = Strict \/ sepb f1 f2 = true.

Lemma sepb_args (F G : list form -> form) a1 a2 :
  (forall l, no_bool_lit (F l) = forallb no_bool_lit l) ->
  (forall l, no_int01_lit (F l) = forallb no_int01_lit l) ->
  (forall l, no_bool_lit (G l) = forallb no_bool_lit l) ->
  (forall l, no_int01_lit (G l) = forallb no_int01_lit l) ->
  sepb (F a1) (G a2) = true ->
  forall x y, In x a1 -> In y a2 -> sepb x y = true.
Proof.
  intros HF1 HF2 HG1 HG2 H x y Hx Hy. unfold sepb in *.
  rewrite HF1, HF2, HG1, HG2 in H.
  apply andb_true_iff in H as [H1 H2].
  apply andb_true_iff. split.
  - apply orb_true_iff in H1 as [H1 | H1]; apply orb_true_iff.
    + left. rewrite forallb_forall in H1. apply H1, Hx.
    + right. rewrite forallb_forall in H1. apply H1, Hy.
  - apply orb_true_iff in H2 as [H2 | H2]; apply orb_true_iff.
    + left. rewrite forallb_forall in H2. apply H2, Hy.
    + right. rewrite forallb_forall in H2. apply H2, Hx.
Qed.

Lemma lits_ok_args m (F G : list form -> form) a1 a2 :
  (forall l, no_bool_lit (F l) = forallb no_bool_lit l) ->
  (forall l, no_int01_lit (F l) = forallb no_int01_lit l) ->
  (forall l, no_bool_lit (G l) = forallb no_bool_lit l) ->
  (forall l, no_int01_lit (G l) = forallb no_int01_lit l) ->
  lits_ok m (F a1) (G a2) ->
  forall x y, In x a1 -> In y a2 -> lits_ok m x y.
Proof.
  intros HF1 HF2 HG1 HG2 [H | H] x y Hx Hy; [left; exact H | right].
  eapply (sepb_args F G); eassumption.
Qed.

Lemma lit_eqb_bi_false m b z :
  lits_ok m (FBool b) (FInt z) \/ lits_ok m (FInt z) (FBool b) -> lit_eqb_bi m b z = false.
Proof.
  intros H. destruct m; [| reflexivity]. simpl.
  assert (negb (Z.eqb z 0 || Z.eqb z 1) = true) as Hz.
  { destruct H as [[H | H] | [H | H]]; try discriminate; unfold sepb in H; simpl in H.
    - rewrite andb_true_r in H. exact H.
    - exact H. }
  apply negb_true_iff, orb_false_iff in Hz as [H0 H1].
  apply Z.eqb_neq in H0, H1. apply Z.eqb_neq. destruct b; simpl; congruence.
Qed.

Lemma Forall2_in_l {A B} (R : A -> B -> Prop) l1 l2 :
  Forall2 R l1 l2 -> forall y, In y l2 -> exists x, In x l1 /\ R x y.
Proof.
  induction 1 as [| x y l1 l2 HR _ IH]; intros y' HIn; simpl in HIn; [contradiction |].
  destruct HIn as [-> | HIn].
  - exists x. split; [left; reflexivity | exact HR].
  - destruct (IH _ HIn) as [x' [Hx' HR']]. exists x'. split; [right; exact Hx' | exact HR'].
Qed.

Lemma form_eqb_sound_gen m f1 :
  forall f2, lits_ok m f1 f2 -> form_eqb m f1 f2 = true -> forall v, eval v f1 = eval v f2.
Proof.
  induction f1 as [b1 | z1 | n1 s1 a1 IH | c1 a1 IH] using form_ind'; intros f2 Hok H v.
  - destruct f2 as [b2 | z2 | |]; simpl in H; try discriminate.
    + apply eqb_prop in H. subst. reflexivity.
    + rewrite lit_eqb_bi_false in H; [discriminate | left; exact Hok].
  - destruct f2 as [b2 | z2 | |]; simpl in H; try discriminate.
    + rewrite lit_eqb_bi_false in H; [discriminate | right; exact Hok].
    + apply Z.eqb_eq in H. subst. reflexivity.
  - destruct f2 as [| | n2 s2 a2 |]; simpl in H; try discriminate.
    apply andb_true_iff in H as [H Hz]. apply andb_true_iff in H as [Hn Hs].
    apply String.eqb_eq in Hn. apply sig_eqb_eq in Hs. subst n2 s2.
    rewrite !eval_app.
    assert (eval_list v a1 = eval_list v a2) as ->; [| reflexivity].
    apply eval_list_ext. apply zip_allb_forall2 in Hz.
    assert (forall x y, In x a1 -> In y a2 -> lits_ok m x y) as Hsub.
    { apply (lits_ok_args m (FApp n1 s1) (FApp n1 s1)); try reflexivity. exact Hok. }
    clear Hok. rewrite Forall_forall in IH.
    induction Hz as [| x y l1 l2 Hxy Hz IHz]; constructor.
    + apply (IH x); [left; reflexivity | apply Hsub; left; reflexivity | exact Hxy].
    + apply IHz.
      * intros x' Hx'. apply IH. right. exact Hx'.
      * intros x' y' Hx' Hy'. apply Hsub; right; assumption.
  - destruct f2 as [| | | c2 a2]; simpl in H; try discriminate.
    assert (forall x y, In x a1 -> In y a2 -> lits_ok m x y) as Hsub.
    { apply (lits_ok_args m (FConn c1) (FConn c2)); try reflexivity. exact Hok. }
    clear Hok. rewrite Forall_forall in IH.
    destruct (Bool.eqb (conn_comm c1) (conn_comm c2)) eqn:Hcc; simpl in H; [| discriminate].
    destruct (conn_comm c1) eqn:Hc1.
    + apply andb_true_iff in H as [Hp Hc]. apply conn_eqb_eq in Hc. subst c2.
      apply perm_matchb_spec in Hp as [a2' [HP HF]].
      rewrite (eval_conn_perm v c1 a2 a2' Hc1 HP).
      rewrite !eval_conn.
      assert (eval_list v a1 = eval_list v a2') as ->; [| reflexivity].
      apply eval_list_ext.
      assert (forall x y, In x a1 -> In y a2' -> lits_ok m x y) as Hsub'.
      { intros x y Hx Hy. apply Hsub; [exact Hx |].
        eapply Permutation_in; [apply Permutation_sym, HP | exact Hy]. }
      clear Hsub HP.
      induction HF as [| x y l1 l2 Hxy HF IHF]; constructor.
      * apply (IH x); [left; reflexivity | apply Hsub'; left; reflexivity | exact Hxy].
      * apply IHF.
        -- intros x' Hx'. apply IH. right. exact Hx'.
        -- intros x' y' Hx' Hy'. apply Hsub'; right; assumption.
    + apply andb_true_iff in H as [Hc Hz]. apply conn_eqb_eq in Hc. subst c2.
      rewrite !eval_conn.
      assert (eval_list v a1 = eval_list v a2) as ->; [| reflexivity].
      apply eval_list_ext. apply zip_allb_forall2 in Hz.
      induction Hz as [| x y l1 l2 Hxy Hz IHz]; constructor.
      * apply (IH x); [left; reflexivity | apply Hsub; left; reflexivity | exact Hxy].
      * apply IHz.
        -- intros x' Hx'. apply IH. right. exact Hx'.
        -- intros x' y' Hx' Hy'. apply Hsub; right; assumption.
Qed.

Lemma form_eqb_sound_strict f1 f2 :
  form_eqb Strict f1 f2 = true -> forall v, eval v f1 = eval v f2.
Proof. apply form_eqb_sound_gen. left. reflexivity. Qed.

Lemma form_eqb_sound_loose f1 f2 :
  sepb f1 f2 = true -> form_eqb Loose f1 f2 = true -> forall v, eval v f1 = eval v f2.
Proof. intros H. apply form_eqb_sound_gen. right. exact H. Qed.

(* ------------------------------------------------------------------ *)
(* The simplifiers preserve the value                                   *)

(* characterisation of the value of a conjunction / disjunction *)
Lemma eval_list_cons v a l :
  eval_list v (a :: l) =
  match eval v a, eval_list v l with Some x, Some xs => Some (x :: xs) | _, _ => None end.
Proof. unfold eval_list. simpl. destruct (eval v a); reflexivity. Qed.

Lemma eval_list_app v l1 l2 :
  eval_list v (l1 ++ l2) =
  match eval_list v l1, eval_list v l2 with Some a, Some b => Some (a ++ b) | _, _ => None end.
Proof. unfold eval_list. rewrite map_app. apply sequence_o_app. Qed.

Definition bools_of (vs : list value) : option (list bool) := sequence_o (map as_bool vs).

Lemma bools_of_cons x vs :
  bools_of (x :: vs) =
  match as_bool x, bools_of vs with Some b, Some bs => Some (b :: bs) | _, _ => None end.
Proof. unfold bools_of. simpl. destruct (as_bool x); reflexivity. Qed.

Lemma bools_of_app l1 l2 :
  bools_of (l1 ++ l2) =
  match bools_of l1, bools_of l2 with Some a, Some b => Some (a ++ b) | _, _ => None end.
Proof. unfold bools_of. rewrite map_app. apply sequence_o_app. Qed.

(* the boolean arguments of a connector application *)
Definition eval_bools (v : valuation) (l : list form) : option (list bool) :=
  match eval_list v l with Some vs => bools_of vs | None => None end.

Lemma eval_bools_cons v a l :
  eval_bools v (a :: l) =
  match eval v a, eval_bools v l with
  | Some (VB b), Some bs => Some (b :: bs)
  | _, _ => None
  end.
Proof.
  unfold eval_bools. rewrite eval_list_cons.
  destruct (eval v a) as [x |]; [| reflexivity].
  destruct (eval_list v l) as [vs |].
  - rewrite bools_of_cons. destruct x; simpl; try reflexivity.
  - destruct x; reflexivity.
Qed.

Lemma eval_bools_app v l1 l2 :
  eval_bools v (l1 ++ l2) =
  match eval_bools v l1, eval_bools v l2 with Some a, Some b => Some (a ++ b) | _, _ => None end.
Proof.
  unfold eval_bools. rewrite eval_list_app.
  destruct (eval_list v l1) as [a |]; [| reflexivity].
  destruct (eval_list v l2) as [b |].
  - apply bools_of_app.
  - destruct (bools_of a); reflexivity.
Qed.

Lemma eval_and v l :
  eval v (FConn CAnd l) = option_map (fun bs => VB (forallb (fun b => b) bs)) (eval_bools v l).
Proof. rewrite eval_conn. unfold eval_bools. destruct (eval_list v l); reflexivity. Qed.

Lemma eval_or v l :
  eval v (FConn COr l) = option_map (fun bs => VB (existsb (fun b => b) bs)) (eval_bools v l).
Proof. rewrite eval_conn. unfold eval_bools. destruct (eval_list v l); reflexivity. Qed.

(* splicing: the pieces of the arguments have the same conjunction *)
Lemma and_pieces_sound v l :
  existsb is_false l = false ->
  forall bs, eval_bools v l = Some bs ->
  exists bs', eval_bools v (flat_map and_piece l) = Some bs' /\
              forallb (fun b => b) bs' = forallb (fun b => b) bs.
Proof.
  induction l as [| a l IH]; intros Hf bs H.
  - simpl. exists []. split; [reflexivity |]. inversion H. reflexivity.
  - simpl in Hf. apply orb_false_iff in Hf as [Ha Hf].
    rewrite eval_bools_cons in H.
    destruct (eval v a) as [[b | |] |] eqn:Ea; try discriminate.
    destruct (eval_bools v l) as [bs0 |] eqn:El; [| discriminate].
    inversion H. subst bs. clear H.
    destruct (IH Hf bs0 eq_refl) as [bs' [H1 H2]].
    simpl flat_map. rewrite eval_bools_app, H1.
    assert (exists pa, eval_bools v (and_piece a) = Some pa /\ forallb (fun b => b) pa = b) as [pa [Hpa Hb]].
    { destruct a as [ba | z | n s args | c args].
      - simpl in Ea. inversion Ea. subst. destruct b; [| discriminate]. exists []. split; reflexivity.
      - simpl in Ea. discriminate.
      - exists [b]. split.
        + simpl and_piece. rewrite eval_bools_cons, Ea. reflexivity.
        + simpl. apply andb_true_r.
      - destruct c; try (exists [b]; split;
          [simpl and_piece; rewrite eval_bools_cons, Ea; reflexivity | simpl; apply andb_true_r]).
        simpl and_piece. rewrite eval_and in Ea.
        destruct (eval_bools v args) as [pa |]; [| discriminate].
        simpl in Ea. inversion Ea. exists pa. split; reflexivity. }
    rewrite Hpa. exists (pa ++ bs'). split; [reflexivity |].
    rewrite forallb_app. simpl. rewrite Hb, H2. reflexivity.
Qed.

Lemma or_pieces_sound v l :
  existsb is_true l = false ->
  forall bs, eval_bools v l = Some bs ->
  exists bs', eval_bools v (flat_map or_piece l) = Some bs' /\
              existsb (fun b => b) bs' = existsb (fun b => b) bs.
Proof.
  induction l as [| a l IH]; intros Hf bs H.
  - simpl. exists []. split; [reflexivity |]. inversion H. reflexivity.
  - simpl in Hf. apply orb_false_iff in Hf as [Ha Hf].
    rewrite eval_bools_cons in H.
    destruct (eval v a) as [[b | |] |] eqn:Ea; try discriminate.
    destruct (eval_bools v l) as [bs0 |] eqn:El; [| discriminate].
    inversion H. subst bs. clear H.
    destruct (IH Hf bs0 eq_refl) as [bs' [H1 H2]].
    simpl flat_map. rewrite eval_bools_app, H1.
    assert (exists pa, eval_bools v (or_piece a) = Some pa /\ existsb (fun b => b) pa = b) as [pa [Hpa Hb]].
    { destruct a as [ba | z | n s args | c args].
      - simpl in Ea. inversion Ea. subst. destruct b; [discriminate |]. exists []. split; reflexivity.
      - simpl in Ea. discriminate.
      - exists [b]. split.
        + simpl or_piece. rewrite eval_bools_cons, Ea. reflexivity.
        + simpl. apply orb_false_r.
      - destruct c; try (exists [b]; split;
          [simpl or_piece; rewrite eval_bools_cons, Ea; reflexivity | simpl; apply orb_false_r]).
        simpl or_piece. rewrite eval_or in Ea.
        destruct (eval_bools v args) as [pa |]; [| discriminate].
        simpl in Ea. inversion Ea. exists pa. split; reflexivity. }
    rewrite Hpa. exists (pa ++ bs'). split; [reflexivity |].
    rewrite existsb_app. simpl. rewrite Hb, H2. reflexivity.
Qed.

Lemma eval_bools_false v l bs :
  existsb is_false l = true -> eval_bools v l = Some bs -> forallb (fun b => b) bs = false.
Proof.
  revert bs. induction l as [| a l IH]; intros bs Hf H; simpl in Hf; [discriminate |].
  rewrite eval_bools_cons in H.
  destruct (eval v a) as [[b | |] |] eqn:Ea; try discriminate.
  destruct (eval_bools v l) as [bs0 |]; [| discriminate].
  inversion H. subst bs. simpl.
  apply orb_true_iff in Hf as [Hf | Hf].
  - destruct a as [[|] | | |]; simpl in Hf; try discriminate.
    simpl in Ea. inversion Ea. reflexivity.
  - rewrite (IH bs0 Hf eq_refl). apply andb_false_r.
Qed.

Lemma eval_bools_true v l bs :
  existsb is_true l = true -> eval_bools v l = Some bs -> existsb (fun b => b) bs = true.
Proof.
  revert bs. induction l as [| a l IH]; intros bs Hf H; simpl in Hf; [discriminate |].
  rewrite eval_bools_cons in H.
  destruct (eval v a) as [[b | |] |] eqn:Ea; try discriminate.
  destruct (eval_bools v l) as [bs0 |]; [| discriminate].
  inversion H. subst bs. simpl.
  apply orb_true_iff in Hf as [Hf | Hf].
  - destruct a as [[|] | | |]; simpl in Hf; try discriminate.
    simpl in Ea. inversion Ea. reflexivity.
  - rewrite (IH bs0 Hf eq_refl). apply orb_true_r.
Qed.

Lemma create_connector_ok c args f : create_connector c args = Ok f -> f = FConn c args.
Proof.
  unfold create_connector. destruct (conn_arity c) as [n |].
  - destruct (Nat.eqb n (List.length args)); congruence.
  - destruct args; congruence.
Qed.

Lemma simplify_and_sound v args psi x :
  simplify_and args = Ok psi -> eval v (FConn CAnd args) = Some x -> eval v psi = Some x.
Proof.
  unfold simplify_and. intros H E. rewrite eval_and in E.
  destruct (eval_bools v args) as [bs |] eqn:Eb; [| discriminate].
  simpl in E. inversion E. subst x. clear E.
  destruct (existsb is_false args) eqn:Hf.
  - inversion H. subst. simpl. rewrite (eval_bools_false v args bs Hf Eb). reflexivity.
  - destruct (and_pieces_sound v args Hf bs Eb) as [bs' [H1 H2]]. rewrite <- H2.
    assert (eval v (FConn CAnd (flat_map and_piece args)) = Some (VB (forallb (fun b => b) bs'))) as Hnew.
    { rewrite eval_and, H1. reflexivity. }
    destruct (flat_map and_piece args) as [| y [| y' l']] eqn:Enew.
    + apply create_connector_ok in H. subst. exact Hnew.
    + inversion H. subst y. rewrite eval_bools_cons in H1.
      destruct (eval v psi) as [[b | |] |]; try discriminate.
      simpl in H1. inversion H1. simpl. rewrite andb_true_r. reflexivity.
    + apply create_connector_ok in H. subst. exact Hnew.
Qed.

Lemma simplify_or_sound v args psi x :
  simplify_or args = Ok psi -> eval v (FConn COr args) = Some x -> eval v psi = Some x.
Proof.
  unfold simplify_or. intros H E. rewrite eval_or in E.
  destruct (eval_bools v args) as [bs |] eqn:Eb; [| discriminate].
  simpl in E. inversion E. subst x. clear E.
  destruct (existsb is_true args) eqn:Hf.
  - inversion H. subst. simpl. rewrite (eval_bools_true v args bs Hf Eb). reflexivity.
  - destruct (or_pieces_sound v args Hf bs Eb) as [bs' [H1 H2]]. rewrite <- H2.
    assert (eval v (FConn COr (flat_map or_piece args)) = Some (VB (existsb (fun b => b) bs'))) as Hnew.
    { rewrite eval_or, H1. reflexivity. }
    destruct (flat_map or_piece args) as [| y [| y' l']] eqn:Enew.
    + apply create_connector_ok in H. subst. exact Hnew.
    + inversion H. subst y. rewrite eval_bools_cons in H1.
      destruct (eval v psi) as [[b | |] |]; try discriminate.
      simpl in H1. inversion H1. simpl. rewrite orb_false_r. reflexivity.
    + apply create_connector_ok in H. subst. exact Hnew.
Qed.

Lemma eval_not v a :
  eval v (FConn CNot [a]) = match eval v a with Some (VB b) => Some (VB (negb b)) | _ => None end.
Proof.
  rewrite eval_conn, eval_list_cons. destruct (eval v a) as [[b | |] |]; reflexivity.
Qed.

Lemma simplify_not_sound v a psi x :
  simplify_not [a] = Ok psi -> eval v (FConn CNot [a]) = Some x -> eval v psi = Some x.
Proof.
  intros H E. rewrite eval_not in E.
  destruct (eval v a) as [[b | |] |] eqn:Ea; try discriminate.
  inversion E. subst x. clear E.
  assert (eval v (FConn CNot [a]) = Some (VB (negb b))) as Hsame.
  { rewrite eval_not, Ea. reflexivity. }
  destruct a as [ba | z | n s args | c args]; simpl in H.
  - inversion H. subst. simpl in Ea. inversion Ea. reflexivity.
  - inversion H. subst. exact Hsame.
  - inversion H. subst. exact Hsame.
  - destruct c; try (inversion H; subst; exact Hsame).
    destruct args as [| y rest]; [discriminate |]. inversion H. subst y. clear H.
    rewrite eval_conn, eval_list_cons in Ea.
    destruct (eval v psi) as [vy |]; [| discriminate].
    destruct (eval_list v rest) as [vr |] eqn:Er; [| discriminate].
    simpl in Ea. destruct vy as [by_ | |]; try discriminate.
    destruct vr; [| discriminate]. inversion Ea. rewrite negb_involutive. reflexivity.
Qed.

Lemma eval_imp v a b :
  eval v (FConn CImp [a; b]) =
  match eval v a, eval v b with
  | Some (VB x), Some (VB y) => Some (VB (implb x y))
  | _, _ => None
  end.
Proof.
  rewrite eval_conn, !eval_list_cons. unfold eval_list. simpl.
  destruct (eval v a) as [[x | |] |], (eval v b) as [[y | |] |]; reflexivity.
Qed.

Lemma simplify_implies_sound v a b psi x :
  simplify_implies [a; b] = Ok psi -> eval v (FConn CImp [a; b]) = Some x -> eval v psi = Some x.
Proof.
  intros H E.
  assert (Hsame : psi = FConn CImp [a; b] -> eval v psi = Some x) by (intros ->; exact E).
  rewrite eval_imp in E.
  destruct (eval v a) as [[xa | |] |] eqn:Ea; try discriminate.
  destruct (eval v b) as [[xb | |] |] eqn:Eb; try discriminate.
  inversion E. subst x. clear E.
  assert (Hrhs : forall bb, b = FBool bb ->
            (if bb then Ok (FBool true) else bind (create_connector CNot [a]) (fun _ => simplify_not [a])) = Ok psi ->
            eval v psi = Some (VB (implb xa xb))).
  { intros bb -> Hr. simpl in Eb. inversion Eb. subst xb. destruct bb.
    - inversion Hr. subst. simpl. rewrite implb_true_r. reflexivity.
    - simpl in Hr. apply (simplify_not_sound v a psi (VB (negb xa)) Hr).
      rewrite eval_not, Ea. reflexivity. }
  destruct a as [[|] | z | n s args | c args]; simpl in H.
  - inversion H. subst. simpl in Ea. inversion Ea. subst. rewrite Eb. reflexivity.
  - inversion H. subst. simpl in Ea. inversion Ea. reflexivity.
  - simpl in Ea. discriminate.
  - destruct b as [bb | | |]; try (apply Hsame; congruence). apply (Hrhs bb eq_refl). destruct bb; exact H.
  - destruct b as [bb | | |]; try (apply Hsame; congruence). apply (Hrhs bb eq_refl). destruct bb; exact H.
Qed.

(* literal comparison against the semantics *)
Lemma form_eqb_lits m a b v :
  is_lit a = true -> is_lit b = true -> lits_ok m a b ->
  exists x y, eval v a = Some x /\ eval v b = Some y /\ form_eqb m a b = value_eqb x y.
Proof.
  intros Ha Hb Hok.
  destruct a as [ba | za | |]; try discriminate; destruct b as [bb | zb | |]; try discriminate; simpl.
  - exists (VB ba), (VB bb). auto.
  - exists (VB ba), (VI zb). split; [reflexivity | split; [reflexivity |]].
    apply lit_eqb_bi_false. left. exact Hok.
  - exists (VI za), (VB bb). split; [reflexivity | split; [reflexivity |]].
    apply lit_eqb_bi_false. right. exact Hok.
  - exists (VI za), (VI zb). auto.
Qed.

Lemma eval_eq v a b :
  eval v (FConn CEq [a; b]) =
  match eval v a, eval v b with
  | Some x, Some y => Some (VB (value_eqb x y))
  | _, _ => None
  end.
Proof.
  rewrite eval_conn, !eval_list_cons. unfold eval_list. simpl.
  destruct (eval v a), (eval v b); reflexivity.
Qed.

Lemma simplify_equal_sound m v a b psi x :
  lits_ok m a b ->
  simplify_equal m [a; b] = Ok psi -> eval v (FConn CEq [a; b]) = Some x -> eval v psi = Some x.
Proof.
  intros Hok H E. unfold simplify_equal in H.
  destruct (is_lit a && is_lit b) eqn:Hl.
  - apply andb_true_iff in Hl as [Hla Hlb].
    destruct (form_eqb_lits m a b v Hla Hlb Hok) as [xa [xb [Ea [Eb Heq]]]].
    rewrite eval_eq, Ea, Eb in E. inversion H. subst psi. simpl. rewrite Heq. exact E.
  - destruct (form_eqb m a b) eqn:Heq.
    + inversion H. subst psi. simpl.
      rewrite eval_eq in E. rewrite (form_eqb_sound_gen m a b Hok Heq v) in E.
      destruct (eval v b) as [y |]; [| discriminate].
      rewrite value_eqb_refl in E. exact E.
    + inversion H. subst psi. exact E.
Qed.

(* the side condition of an entry point: only add_eq compares formulas *)
Definition add_ok (m : lit_mode) (c : conn) (args : list form) : Prop :=
  match c, args with
  | CEq, [a; b] => lits_ok m a b
  | _, _ => True
  end.

Lemma add_sound_gen m c args psi :
  add_ok m c args -> add m c args = Ok psi ->
  forall v x, eval v (FConn c args) = Some x -> eval v psi = Some x.
Proof.
  intros Hok H v x E. unfold add in H.
  destruct (create_connector c args) as [f |] eqn:Hc; [| discriminate].
  simpl in H. unfold create_connector in Hc.
  destruct c; simpl in H, Hc.
  - destruct args as [| a [| b [| ? ?]]]; try discriminate.
    eapply simplify_implies_sound; eassumption.
  - eapply simplify_and_sound; eassumption.
  - eapply simplify_or_sound; eassumption.
  - destruct args as [| a [| ? ?]]; try discriminate.
    eapply simplify_not_sound; eassumption.
  - destruct args as [| a [| b [| ? ?]]]; try discriminate.
    eapply simplify_equal_sound; eassumption.
  - inversion H. subst. exact E.
  - inversion H. subst. exact E.
  - inversion H. subst. exact E.
Qed.

Lemma add_ok_strict c args : add_ok Strict c args.
Proof.
  unfold add_ok. destruct c; try exact I.
  destruct args as [| a [| b [| ? ?]]]; try exact I. left. reflexivity.
Qed.

(* ------------------------------------------------------------------ *)
(* Whole construction trees                                             *)

Lemma sequence_r_ok {A} (l : list (result A)) l' :
  sequence_r l = Ok l' -> Forall2 (fun r a => r = Ok a) l l'.
Proof.
  revert l'. induction l as [| r l IH]; intros l' H; simpl in H.
  - inversion H. constructor.
  - destruct r as [a | e]; [| discriminate]. simpl in H.
    destruct (sequence_r l) as [l0 | e]; [| discriminate]. simpl in H.
    inversion H. subst. constructor; [reflexivity | apply IH; reflexivity].
Qed.

Lemma call_fn_ok n s args f : call_fn n s args = Ok f -> f = FApp n s args.
Proof.
  unfold call_fn. destruct s; [discriminate |].
  destruct (negb (Nat.eqb (List.length args) (List.length (sig_domain (s :: s0))))); [discriminate |].
  destruct (check_args args (sig_domain (s :: s0))); simpl; congruence.
Qed.

(* every add_eq call made while building t satisfies the side condition *)
Fixpoint calls_ok (m : lit_mode) (t : form) : Prop :=
  match t with
  | FBool _ | FInt _ => True
  | FApp _ _ args => (fix all (l : list form) : Prop :=
                        match l with [] => True | a :: l' => calls_ok m a /\ all l' end) args
  | FConn c args =>
      (fix all (l : list form) : Prop :=
         match l with [] => True | a :: l' => calls_ok m a /\ all l' end) args /\
      match sequence_r (map (build m) args) with
      | Ok args' => add_ok m c args'
      | Err _ => True
      end
  end.

Fixpoint all_calls_ok (m : lit_mode) (l : list form) : Prop :=
  match l with [] => True | a :: l' => calls_ok m a /\ all_calls_ok m l' end.

Lemma calls_ok_app m n s args : calls_ok m (FApp n s args) = all_calls_ok m args.
Proof. simpl. induction args as [| a l IH]; simpl; [reflexivity | rewrite IH; reflexivity]. Qed.

Lemma calls_ok_conn m c args :
  calls_ok m (FConn c args) =
  (all_calls_ok m args /\
   match sequence_r (map (build m) args) with Ok args' => add_ok m c args' | Err _ => True end).
Proof.
  simpl. f_equal. induction args as [| a l IH]; simpl; [reflexivity | rewrite IH; reflexivity].
Qed.

Lemma calls_ok_strict t : calls_ok Strict t.
Proof.
  induction t as [b | z | n s args IH | c args IH] using form_ind'; try exact I.
  - rewrite calls_ok_app. induction IH; simpl; auto.
  - rewrite calls_ok_conn. split.
    + induction IH; simpl; auto.
    + destruct (sequence_r (map (build Strict) args)); [apply add_ok_strict | exact I].
Qed.

Lemma build_args_sound m v args args' :
  Forall (fun t => forall psi, calls_ok m t -> build m t = Ok psi ->
                   forall x, eval v t = Some x -> eval v psi = Some x) args ->
  all_calls_ok m args ->
  sequence_r (map (build m) args) = Ok args' ->
  forall vs, eval_list v args = Some vs -> eval_list v args' = Some vs.
Proof.
  intros IH Hok Hs. apply sequence_r_ok in Hs.
  revert args' Hs Hok. induction IH as [| t l Ht _ IHl]; intros args' Hs Hok vs E.
  - inversion Hs. subst. exact E.
  - inversion Hs as [| ? a ? l' Ha Hl]. subst. simpl in Hok. destruct Hok as [Hok1 Hok2].
    rewrite eval_list_cons in E. rewrite eval_list_cons.
    destruct (eval v t) as [x |] eqn:Et; [| discriminate].
    destruct (eval_list v l) as [xs |] eqn:El; [| discriminate].
    inversion E. subst vs.
    rewrite (Ht a Hok1 Ha x eq_refl).
    rewrite (IHl l' Hl Hok2 xs eq_refl). reflexivity.
Qed.

Lemma build_sound_gen m t :
  forall psi, calls_ok m t -> build m t = Ok psi ->
  forall v x, eval v t = Some x -> eval v psi = Some x.
Proof.
  induction t as [b | z | n s args IH | c args IH] using form_ind'; intros psi Hok H v x E.
  - inversion H. subst. exact E.
  - inversion H. subst. exact E.
  - rewrite calls_ok_app in Hok. simpl in H.
    destruct (sequence_r (map (build m) args)) as [args' |] eqn:Hs; [| discriminate].
    simpl in H. apply call_fn_ok in H. subst psi.
    rewrite eval_app in E. rewrite eval_app.
    destruct (eval_list v args) as [vs |] eqn:El; [| discriminate].
    assert (eval_list v args' = Some vs) as ->; [| exact E].
    eapply build_args_sound; try eassumption.
    eapply Forall_impl; [| exact IH]. intros t Ht psi' Hc Hb x'. apply Ht; assumption.
  - rewrite calls_ok_conn in Hok. destruct Hok as [Hok1 Hok2]. simpl in H.
    destruct (sequence_r (map (build m) args)) as [args' |] eqn:Hs; [| discriminate].
    simpl in H.
    eapply add_sound_gen; [exact Hok2 | exact H |].
    rewrite eval_conn in E. rewrite eval_conn.
    destruct (eval_list v args) as [vs |] eqn:El; [| discriminate].
    assert (eval_list v args' = Some vs) as ->; [| exact E].
    eapply build_args_sound; try eassumption.
    eapply Forall_impl; [| exact IH]. intros t Ht psi' Hc Hb x'. apply Ht; assumption.
Qed.

(* ------------------------------------------------------------------ *)
(* When do the entry points raise?                                      *)

Lemma add_and_error m args e :
  add m CAnd args = Err e <->
  e = AssertionError /\ existsb is_false args = false /\ flat_map and_piece args = [].
Proof.
  unfold add, create_connector. simpl conn_arity.
  destruct args as [| a args].
  - simpl. split; [intros H; inversion H; auto | intros [-> _]; reflexivity].
  - cbn [bind simplify]. unfold simplify_and.
    destruct (existsb is_false (a :: args)) eqn:Hf.
    + split; [discriminate | intros [_ [H _]]; discriminate].
    + destruct (flat_map and_piece (a :: args)) as [| y [| y' l]] eqn:En.
      * simpl. split; [intros H; inversion H; auto | intros [-> _]; reflexivity].
      * split; [discriminate | intros [_ [_ H]]; discriminate].
      * simpl. split; [discriminate | intros [_ [_ H]]; discriminate].
Qed.

Lemma add_or_error m args e :
  add m COr args = Err e <->
  e = AssertionError /\ existsb is_true args = false /\ flat_map or_piece args = [].
Proof.
  unfold add, create_connector. simpl conn_arity.
  destruct args as [| a args].
  - simpl. split; [intros H; inversion H; auto | intros [-> _]; reflexivity].
  - cbn [bind simplify]. unfold simplify_or.
    destruct (existsb is_true (a :: args)) eqn:Hf.
    + split; [discriminate | intros [_ [H _]]; discriminate].
    + destruct (flat_map or_piece (a :: args)) as [| y [| y' l]] eqn:En.
      * simpl. split; [intros H; inversion H; auto | intros [-> _]; reflexivity].
      * split; [discriminate | intros [_ [_ H]]; discriminate].
      * simpl. split; [discriminate | intros [_ [_ H]]; discriminate].
Qed.

(* for arguments that are literals (the typical way to reach it): all of them True / False *)
Lemma and_pieces_nil_lits args :
  forallb is_lit args = true ->
  (existsb is_false args = false /\ flat_map and_piece args = [] <-> forallb is_true args = true).
Proof.
  induction args as [| a l IH]; simpl; intros H.
  - tauto.
  - apply andb_true_iff in H as [Ha Hl]. specialize (IH Hl).
    destruct a as [[|] | z | |]; simpl in *; try discriminate.
    + exact IH.
    + split; [intros [H _]; discriminate | discriminate].
    + split; [intros [_ H]; discriminate | discriminate].
Qed.

Lemma add_distinct_error m args e :
  add m CDistinct args = Err e <-> e = AssertionError /\ args = [].
Proof.
  unfold add, create_connector. simpl. destruct args; simpl.
  - split; [intros H; inversion H; auto | intros [-> _]; reflexivity].
  - split; [discriminate | intros [_ H]; discriminate].
Qed.

(* registry arities are respected by every connector node *)
Fixpoint arity_ok (f : form) : bool :=
  match f with
  | FBool _ | FInt _ => true
  | FApp _ _ args => forallb arity_ok args
  | FConn c args =>
      match conn_arity c with
      | Some n => Nat.eqb n (List.length args)
      | None => negb (Nat.eqb (List.length args) 0)
      end && forallb arity_ok args
  end.

Lemma add_fixed_error m c n args e :
  conn_arity c = Some n -> forallb arity_ok args = true ->
  (add m c args = Err e <-> e = AssertionError /\ List.length args <> n).
Proof.
  intros Hc Hok. unfold add, create_connector. rewrite Hc.
  destruct (Nat.eqb n (List.length args)) eqn:Hn.
  - apply Nat.eqb_eq in Hn. cbn [bind].
    split; [| intros [_ H]; congruence].
    intros H. exfalso.
    destruct c; simpl in Hc; inversion Hc; subst n; simpl in H.
    + destruct args as [| a [| b [| ? ?]]]; try discriminate.
      simpl in Hok. apply andb_true_iff in Hok as [Ha _].
      destruct a as [[|] | | |]; simpl in H; try discriminate;
        destruct b as [[|] | | |]; simpl in H; try discriminate.
      destruct c; try discriminate.
      destruct args as [| ? ?]; [| discriminate]. simpl in Ha. discriminate.
    + destruct args as [| a [| ? ?]]; try discriminate.
      simpl in Hok. apply andb_true_iff in Hok as [Ha _].
      destruct a as [[|] | | | c args]; simpl in H; try discriminate.
      destruct c; try discriminate.
      destruct args as [| ? ?]; [| discriminate]. simpl in Ha. discriminate.
    + destruct args as [| a [| b [| ? ?]]]; try discriminate.
      unfold simplify_equal in H.
      destruct (is_lit a && is_lit b); [discriminate |].
      destruct (form_eqb m a b); discriminate.
    + discriminate.
    + discriminate.
  - apply Nat.eqb_neq in Hn. simpl.
    split; [intros H; inversion H; split; [reflexivity | congruence] | intros [-> _]; reflexivity].
Qed.

Lemma forallb_flat_map {A B} (p : B -> bool) (g : A -> list B) l :
  (forall a, In a l -> forallb p (g a) = true) -> forallb p (flat_map g l) = true.
Proof.
  induction l as [| a l IH]; intros H; simpl; [reflexivity |].
  rewrite forallb_app, H, IH; [reflexivity | | left; reflexivity].
  intros a' Ha'. apply H. right. exact Ha'.
Qed.

Lemma create_connector_arity c args f :
  create_connector c args = Ok f -> forallb arity_ok args = true -> arity_ok f = true.
Proof.
  unfold create_connector. intros H Hok.
  destruct (conn_arity c) as [n |] eqn:Hc.
  - destruct (Nat.eqb n (List.length args)) eqn:Hn; [| discriminate].
    inversion H. subst. simpl. rewrite Hc, Hn, Hok. reflexivity.
  - destruct args as [| a l]; [discriminate |]. inversion H. subst.
    cbn [arity_ok]. rewrite Hc, Hok. reflexivity.
Qed.

Lemma add_arity_ok m c args psi :
  add m c args = Ok psi -> forallb arity_ok args = true -> arity_ok psi = true.
Proof.
  unfold add. intros H Hok.
  destruct (create_connector c args) as [f |] eqn:Hcr; [| discriminate].
  pose proof (create_connector_arity _ _ _ Hcr Hok) as Hf.
  apply create_connector_ok in Hcr. subst f. cbn [bind] in H.
  destruct c; simpl in H.
  - destruct args as [| a [| b [| ? ?]]]; try discriminate.
    simpl in Hok. apply andb_true_iff in Hok as [Ha Hb]. apply andb_true_iff in Hb as [Hb _].
    assert (forall bb : bool, (if bb then Ok (FBool true) else bind (create_connector CNot [a]) (fun _ => simplify_not [a])) = Ok psi ->
                       arity_ok psi = true) as Hnot.
    { intros [|] Hr; [inversion Hr; reflexivity |]. simpl in Hr.
      destruct a as [[|] | | | c args]; simpl in Hr; try (inversion Hr; subst; simpl in *; rewrite ?Ha; reflexivity).
      destruct c; try (inversion Hr; subst; simpl in *; rewrite Ha; reflexivity).
      destruct args as [| y rest]; [discriminate |]. inversion Hr. subst y.
      simpl in Ha. apply andb_true_iff in Ha as [_ Ha]. apply andb_true_iff in Ha as [Ha _]. exact Ha. }
    destruct a as [[|] | | |]; simpl in H; try (inversion H; subst; assumption || reflexivity);
      destruct b as [bb | | |]; try (inversion H; subst; exact Hf); apply (Hnot bb); destruct bb; exact H.
  - unfold simplify_and in H.
    destruct (existsb is_false args); [inversion H; reflexivity |].
    assert (forallb arity_ok (flat_map and_piece args) = true) as Hp.
    { apply forallb_flat_map. intros a Ha. rewrite forallb_forall in Hok. specialize (Hok a Ha).
      destruct a as [bb | z | n s l | c l].
      - reflexivity.
      - cbn [and_piece forallb]. rewrite Hok. reflexivity.
      - cbn [and_piece forallb]. rewrite Hok. reflexivity.
      - destruct c; try (cbn [and_piece forallb]; rewrite Hok; reflexivity).
        cbn [and_piece]. simpl in Hok. apply andb_true_iff in Hok as [_ Hok]. exact Hok. }
    destruct (flat_map and_piece args) as [| y [| y' l]].
    + discriminate.
    + inversion H. subst. simpl in Hp. apply andb_true_iff in Hp as [Hp _]. exact Hp.
    + eapply create_connector_arity; eassumption.
  - unfold simplify_or in H.
    destruct (existsb is_true args); [inversion H; reflexivity |].
    assert (forallb arity_ok (flat_map or_piece args) = true) as Hp.
    { apply forallb_flat_map. intros a Ha. rewrite forallb_forall in Hok. specialize (Hok a Ha).
      destruct a as [bb | z | n s l | c l].
      - reflexivity.
      - cbn [or_piece forallb]. rewrite Hok. reflexivity.
      - cbn [or_piece forallb]. rewrite Hok. reflexivity.
      - destruct c; try (cbn [or_piece forallb]; rewrite Hok; reflexivity).
        cbn [or_piece]. simpl in Hok. apply andb_true_iff in Hok as [_ Hok]. exact Hok. }
    destruct (flat_map or_piece args) as [| y [| y' l]].
    + discriminate.
    + inversion H. subst. simpl in Hp. apply andb_true_iff in Hp as [Hp _]. exact Hp.
    + eapply create_connector_arity; eassumption.
  - destruct args as [| a [| ? ?]]; try discriminate.
    simpl in Hok. apply andb_true_iff in Hok as [Ha _].
    destruct a as [[|] | | | c args]; simpl in H; try (inversion H; subst; exact Hf || reflexivity).
    destruct c; try (inversion H; subst; exact Hf).
    destruct args as [| y rest]; [discriminate |]. inversion H. subst y.
    simpl in Ha. apply andb_true_iff in Ha as [_ Ha]. apply andb_true_iff in Ha as [Ha _]. exact Ha.
  - destruct args as [| a [| b [| ? ?]]]; try discriminate.
    unfold simplify_equal in H.
    destruct (is_lit a && is_lit b); [inversion H; reflexivity |].
    destruct (form_eqb m a b); inversion H; subst; [reflexivity | exact Hf].
  - inversion H. subst. exact Hf.
  - inversion H. subst. exact Hf.
  - inversion H. subst. exact Hf.
Qed.

Lemma build_args_arity m args args' :
  Forall (fun t => forall psi, build m t = Ok psi -> arity_ok psi = true) args ->
  sequence_r (map (build m) args) = Ok args' -> forallb arity_ok args' = true.
Proof.
  intros IH Hs. apply sequence_r_ok in Hs. revert args' Hs.
  induction IH as [| t l Ht _ IHl]; intros args' Hs; inversion Hs; subst; simpl; [reflexivity |].
  rewrite (Ht _ H1), (IHl _ H3). reflexivity.
Qed.

Lemma build_arity_ok m t psi : build m t = Ok psi -> arity_ok psi = true.
Proof.
  revert psi. induction t as [b | z | n s args IH | c args IH] using form_ind'; intros psi H.
  - inversion H. reflexivity.
  - inversion H. reflexivity.
  - simpl in H. destruct (sequence_r (map (build m) args)) as [args' |] eqn:Hs; [| discriminate].
    simpl in H. apply call_fn_ok in H. subst. simpl. eapply build_args_arity; eassumption.
  - simpl in H. destruct (sequence_r (map (build m) args)) as [args' |] eqn:Hs; [| discriminate].
    simpl in H. eapply add_arity_ok; [exact H |]. eapply build_args_arity; eassumption.
Qed.

(* ------------------------------------------------------------------ *)
(* Printing and reading back                                            *)

(* 1. tokens -> s-expression *)
Lemma parse_go_flatten s :
  forall stack rest,
    parse_go stack (flatten s ++ rest) =
    match stack with
    | [] => match rest with [] => Some s | _ => None end
    | top :: stk => parse_go ((s :: top) :: stk) rest
    end.
Proof.
  induction s as [a | l IH] using sexp_ind'; intros stack rest.
  - simpl. destruct stack; reflexivity.
  - cbn [flatten]. rewrite <- app_comm_cons. cbn [parse_go]. rewrite <- app_assoc.
    assert (forall acc, parse_go ((acc) :: stack) (flat_map flatten l ++ [TRP] ++ rest) =
                        parse_go ((List.rev l ++ acc) :: stack) ([TRP] ++ rest)) as Hl.
    { induction IH as [| x l' Hx _ IHl]; intros acc.
      - reflexivity.
      - cbn [flat_map]. rewrite <- app_assoc. rewrite Hx. rewrite IHl.
        cbn [List.rev]. rewrite <- app_assoc. reflexivity. }
    rewrite (Hl []). rewrite (app_nil_r (List.rev l)). cbn [app parse_go].
    destruct stack as [| top stk]; simpl; rewrite rev_involutive; reflexivity.
Qed.

Lemma parse_sexp_flatten s : parse_sexp (flatten s) = Some s.
Proof.
  unfold parse_sexp. rewrite <- (app_nil_r (flatten s)). rewrite parse_go_flatten. reflexivity.
Qed.

(* 2. s-expression -> formula *)
Lemma numeral_of_string_of_N n : numeral_of (string_of_N n) = Some n.
Proof.
  unfold numeral_of, string_of_N.
  destruct (NilEmpty.string_of_uint (N.to_uint n)) eqn:E.
  - exfalso. pose proof (NilEmpty.usu (N.to_uint n)) as H. rewrite E in H. simpl in H.
    inversion H as [H1]. pose proof (DecimalN.Unsigned.of_to n) as H2. rewrite <- H1 in H2.
    simpl in H2. subst n. discriminate.
  - rewrite <- E. rewrite NilEmpty.usu. simpl. rewrite DecimalN.Unsigned.of_to. reflexivity.
Qed.

Lemma numeral_not_reserved n :
  String.eqb (string_of_N n) "true" = false /\ String.eqb (string_of_N n) "false" = false.
Proof.
  pose proof (numeral_of_string_of_N n) as H.
  split; apply String.eqb_neq; intros E; rewrite E in H; discriminate.
Qed.

Lemma elab_nonneg d p' : elab_atom d (string_of_N p') = Some (FInt (Z.of_N p')).
Proof.
  unfold elab_atom. destruct (numeral_not_reserved p') as [-> ->].
  rewrite numeral_of_string_of_N. reflexivity.
Qed.

Lemma string_of_Z_nonneg z : (0 <= z)%Z -> string_of_Z z = string_of_N (Z.to_N z).
Proof. destruct z; simpl; intros H; try reflexivity. lia. Qed.

Lemma conn_of_name_name c : conn_of_name (conn_name c) = Some c.
Proof. destruct c; reflexivity. Qed.

Lemma conn_name_not_minus c : String.eqb (conn_name c) "-" = false.
Proof. destruct c; reflexivity. Qed.

(* first character not a digit: not a numeral *)
Lemma numeral_of_nondigit c s : is_digit c = false -> numeral_of (String c s) = None.
Proof.
  intros H. unfold numeral_of. cbn [NilEmpty.uint_of_string].
  destruct (NilEmpty.uint_of_string s) as [d |]; [| reflexivity].
  destruct c as [b0 b1 b2 b3 b4 b5 b6 b7].
  destruct b0, b1, b2, b3, b4, b5, b6, b7; try reflexivity; discriminate H.
Qed.

Lemma name_ok_facts n :
  name_ok n = true ->
  String.eqb n "true" = false /\ String.eqb n "false" = false /\ String.eqb n "-" = false /\
  conn_of_name n = None /\ numeral_of n = None.
Proof.
  unfold name_ok. destruct n as [| c s]; [discriminate |].
  intros H. repeat (apply andb_true_iff in H as [H ?]).
  repeat split; try (apply negb_true_iff; assumption).
  - destruct (conn_of_name (String c s)); [discriminate | reflexivity].
  - apply numeral_of_nondigit. apply negb_true_iff. assumption.
Qed.

Lemma elab_args d nm args :
  Forall (fun f => printable nm d f = true -> elab d (to_sexp nm f) = Some f) args ->
  forallb (printable nm d) args = true ->
  sequence_o (map (elab d) (map (to_sexp nm) args)) = Some args.
Proof.
  induction 1 as [| a l Ha _ IH]; intros Hp; simpl; [reflexivity |].
  simpl in Hp. apply andb_true_iff in Hp as [Hp1 Hp2].
  rewrite (Ha Hp1), (IH Hp2). reflexivity.
Qed.

Lemma elab_to_sexp d nm f : printable nm d f = true -> elab d (to_sexp nm f) = Some f.
Proof.
  induction f as [b | z | n s args IH | c args IH] using form_ind'; intros Hp.
  - destruct b; reflexivity.
  - simpl in Hp. unfold int_ok in Hp.
    destruct z as [| p | p].
    + destruct nm; reflexivity.
    + destruct nm; simpl; apply (elab_nonneg d (Npos p)).
    + destruct nm; [discriminate |]. simpl.
      rewrite numeral_of_string_of_N. reflexivity.
  - simpl in Hp. apply andb_true_iff in Hp as [Hp Hargs]. apply andb_true_iff in Hp as [Hn Hl].
    destruct (lookup d n) as [s' |] eqn:Hlk; [| discriminate].
    apply sig_eqb_eq in Hl. subst s'.
    destruct (name_ok_facts n Hn) as [Ht [Hf [Hm [Hc Hnum]]]].
    destruct args as [| a args].
    + simpl. unfold elab_atom. rewrite Ht, Hf, Hnum, Hlk. reflexivity.
    + cbn [to_sexp elab]. rewrite Hc, Hm, Hlk.
      rewrite (elab_args d nm (a :: args) IH Hargs). reflexivity.
  - simpl in Hp. cbn [to_sexp elab]. rewrite conn_of_name_name.
    rewrite (elab_args d nm args IH Hp). reflexivity.
Qed.

Lemma parse_tokens d nm f : printable nm d f = true -> parse d (tokens nm f) = Some f.
Proof.
  intros Hp. unfold parse, tokens. rewrite parse_sexp_flatten. apply elab_to_sexp, Hp.
Qed.

(* 3. text -> tokens *)
Local Open Scope string_scope.

Lemma sapp_assoc (a b c : string) : (a ++ b) ++ c = a ++ (b ++ c).
Proof. induction a as [| x a IH]; simpl; [reflexivity | rewrite IH; reflexivity]. Qed.

Lemma sapp_nil_r (a : string) : a ++ "" = a.
Proof. induction a as [| x a IH]; simpl; [reflexivity | rewrite IH; reflexivity]. Qed.

(* characters that neither end nor separate an atom *)
Definition nd (c : ascii) : bool :=
  negb (Ascii.eqb c "("%char) && negb (Ascii.eqb c ")"%char) && negb (is_blank c).

Lemma lex_go_char acc c s : nd c = true -> lex_go acc (String c s) = lex_go (acc ++ String c "") s.
Proof.
  unfold nd. intros H. apply andb_true_iff in H as [H H3]. apply andb_true_iff in H as [H1 H2].
  apply negb_true_iff in H1, H2, H3. cbn [lex_go]. rewrite H1, H2, H3. reflexivity.
Qed.

Lemma lex_go_atom a : forall acc s, all_chars nd a = true -> lex_go acc (a ++ s) = lex_go (acc ++ a) s.
Proof.
  induction a as [| c a IH]; intros acc s H.
  - simpl. rewrite sapp_nil_r. reflexivity.
  - simpl in H. apply andb_true_iff in H as [Hc Ha].
    change (String c a ++ s) with (String c (a ++ s)).
    rewrite (lex_go_char _ _ _ Hc). rewrite (IH _ _ Ha). rewrite sapp_assoc. reflexivity.
Qed.

(* what may follow an atom or a term inside the text *)
Definition delim (rest : string) : Prop :=
  rest = "" \/ exists s', rest = String ")" s' \/ rest = String " " s'.

Lemma lex_atom a rest :
  a <> "" -> all_chars nd a = true -> delim rest ->
  lex_go "" (a ++ rest) = (TAtom a :: lex_go "" rest)%list.
Proof.
  intros Hne Ha Hd. rewrite (lex_go_atom a "" rest Ha). simpl.
  assert (flush a = [TAtom a]) as Hf by (destruct a; [congruence | reflexivity]).
  destruct Hd as [-> | [s' [-> | ->]]]; simpl; rewrite Hf; reflexivity.
Qed.

Lemma sym_char_nd c : is_sym_char c = true -> nd c = true.
Proof.
  destruct c as [b0 b1 b2 b3 b4 b5 b6 b7].
  destruct b0, b1, b2, b3, b4, b5, b6, b7; vm_compute; congruence.
Qed.

Lemma all_chars_impl (p q : ascii -> bool) s :
  (forall c, p c = true -> q c = true) -> all_chars p s = true -> all_chars q s = true.
Proof.
  intros Hpq. induction s as [| c s IH]; simpl; [reflexivity |].
  intros H. apply andb_true_iff in H as [H1 H2]. rewrite (Hpq _ H1), (IH H2). reflexivity.
Qed.

Lemma name_ok_atom n : name_ok n = true -> n <> "" /\ all_chars nd n = true.
Proof.
  unfold name_ok. destruct n as [| c s]; [discriminate |]. intros H.
  repeat (apply andb_true_iff in H as [H ?]).
  split; [discriminate |]. eapply all_chars_impl; [apply sym_char_nd | eassumption].
Qed.

Lemma digits_nd d : all_chars nd (NilEmpty.string_of_uint d) = true.
Proof. induction d; simpl; rewrite ?IHd; reflexivity. Qed.

Lemma string_of_N_atom n : string_of_N n <> "" /\ all_chars nd (string_of_N n) = true.
Proof.
  split; [| apply digits_nd].
  intros E. pose proof (numeral_of_string_of_N n) as H. rewrite E in H. discriminate.
Qed.

Lemma flat_map_tokens nm args :
  flat_map flatten (map (to_sexp nm) args) = flat_map (tokens nm) args.
Proof. induction args as [| a l IH]; simpl; [reflexivity | rewrite IH; reflexivity]. Qed.

Lemma delim_rp s : delim (String ")" s).
Proof. right. exists s. left. reflexivity. Qed.

Lemma delim_sp s : delim (String " " s).
Proof. right. exists s. right. reflexivity. Qed.

Lemma lex_args nm d args :
  Forall (fun f => printable nm d f = true -> forall rest, delim rest ->
            lex_go "" (render nm f ++ rest) = (tokens nm f ++ lex_go "" rest)%list) args ->
  forallb (printable nm d) args = true ->
  forall rest,
    lex_go "" (join_sp (map (render nm) args) ++ String ")" rest) =
    (flat_map (tokens nm) args ++ TRP :: lex_go "" rest)%list.
Proof.
  induction 1 as [| x l Hx _ IH]; intros Hp rest.
  - reflexivity.
  - simpl in Hp. apply andb_true_iff in Hp as [Hp1 Hp2].
    destruct l as [| y l].
    + simpl. rewrite (Hx Hp1 _ (delim_rp rest)). rewrite app_nil_r. reflexivity.
    + change (join_sp (map (render nm) (x :: y :: l)))
        with (render nm x ++ " " ++ join_sp (map (render nm) (y :: l))).
      rewrite sapp_assoc.
      change ((" " ++ join_sp (map (render nm) (y :: l))) ++ String ")" rest)
        with (String " " (join_sp (map (render nm) (y :: l)) ++ String ")" rest)).
      rewrite (Hx Hp1 _ (delim_sp _)).
      change (lex_go "" (String " " (join_sp (map (render nm) (y :: l)) ++ String ")" rest)))
        with (lex_go "" (join_sp (map (render nm) (y :: l)) ++ String ")" rest)).
      rewrite (IH Hp2 rest). cbn [flat_map]. rewrite <- !app_assoc. reflexivity.
Qed.

Lemma lex_render_gen nm d f :
  printable nm d f = true -> forall rest, delim rest ->
  lex_go "" (render nm f ++ rest) = (tokens nm f ++ lex_go "" rest)%list.
Proof.
  induction f as [b | z | n s args IH | c args IH] using form_ind'; intros Hp rest Hd.
  - destruct b; apply lex_atom; try assumption; try discriminate; reflexivity.
  - simpl in Hp. unfold int_ok in Hp. unfold tokens.
    destruct z as [| p | p].
    + destruct nm; apply (lex_atom "0"); try assumption; try discriminate; reflexivity.
    + destruct (string_of_N_atom (Npos p)) as [H1 H2].
      destruct nm; apply lex_atom; assumption.
    + destruct nm; [discriminate |].
      destruct (string_of_N_atom (Npos p)) as [H1 H2].
      cbn [render render_int to_sexp sexp_of_int flatten flat_map].
      change (("(- " ++ string_of_N (N.pos p) ++ ")") ++ rest)
        with (String "(" (String "-" (String " " ((string_of_N (N.pos p) ++ ")") ++ rest)))).
      rewrite sapp_assoc.
      change (lex_go "" (String "(" (String "-" (String " " (string_of_N (N.pos p) ++ ")" ++ rest)))))
        with (TLP :: TAtom "-" :: lex_go "" (string_of_N (N.pos p) ++ String ")" rest))%list.
      rewrite (lex_atom _ _ H1 H2 (delim_rp rest)). reflexivity.
  - simpl in Hp. apply andb_true_iff in Hp as [Hp Hargs]. apply andb_true_iff in Hp as [Hn _].
    destruct (name_ok_atom n Hn) as [H1 H2].
    destruct args as [| a args].
    + apply lex_atom; assumption.
    + unfold tokens. cbn [render to_sexp flatten].
      change (("(" ++ n ++ " " ++ join_sp (map (render nm) (a :: args)) ++ ")") ++ rest)
        with (String "(" ((n ++ " " ++ join_sp (map (render nm) (a :: args)) ++ ")") ++ rest)).
      rewrite sapp_assoc.
      change ((" " ++ join_sp (map (render nm) (a :: args)) ++ ")") ++ rest)
        with (String " " ((join_sp (map (render nm) (a :: args)) ++ ")") ++ rest)).
      rewrite sapp_assoc.
      change (")" ++ rest) with (String ")" rest).
      change (lex_go "" (String "(" ?x)) with (TLP :: lex_go "" x)%list.
      cbn [lex_go]. cbn [Ascii.eqb Bool.eqb flush app].
      rewrite (lex_atom n _ H1 H2 (delim_sp _)).
      cbn [lex_go]. cbn [Ascii.eqb Bool.eqb is_blank flush app].
      rewrite (lex_args nm d (a :: args) IH Hargs rest).
      cbn [flat_map]. rewrite flat_map_tokens.
      simpl. rewrite <- !app_assoc. reflexivity.
  - simpl in Hp. unfold tokens. cbn [render to_sexp flatten].
    assert (conn_name c <> "" /\ all_chars nd (conn_name c) = true) as [H1 H2]
      by (destruct c; split; try discriminate; reflexivity).
    change (("(" ++ conn_name c ++ "  " ++ join_sp (map (render nm) args) ++ ")") ++ rest)
      with (String "(" ((conn_name c ++ "  " ++ join_sp (map (render nm) args) ++ ")") ++ rest)).
    rewrite sapp_assoc.
    change (("  " ++ join_sp (map (render nm) args) ++ ")") ++ rest)
      with (String " " (String " " ((join_sp (map (render nm) args) ++ ")") ++ rest))).
    rewrite sapp_assoc.
    change (")" ++ rest) with (String ")" rest).
    cbn [lex_go]. cbn [Ascii.eqb Bool.eqb flush app].
    rewrite (lex_atom (conn_name c) _ H1 H2 (delim_sp _)).
    cbn [lex_go]. cbn [Ascii.eqb Bool.eqb is_blank flush app].
    rewrite (lex_args nm d args IH Hp rest).
    cbn [flat_map]. rewrite flat_map_tokens.
    simpl. rewrite <- !app_assoc. reflexivity.
Qed.

Lemma lex_render nm d f : printable nm d f = true -> lex (render nm f) = tokens nm f.
Proof.
  intros Hp. unfold lex. rewrite <- (sapp_nil_r (render nm f)).
  rewrite (lex_render_gen nm d f Hp "" (or_introl eq_refl)). simpl. apply app_nil_r.
Qed.

Lemma read_render nm d f : printable nm d f = true -> read d (render nm f) = Some f.
Proof.
  intros Hp. unfold read. rewrite (lex_render nm d f Hp). apply parse_tokens, Hp.
Qed.

(* ------------------------------------------------------------------ *)
(* Top-level Python == and the combined statement                       *)

Lemma py_eq_sound_strict f1 f2 :
  is_lit f1 && is_lit f2 = false -> py_eq Strict f1 f2 = true -> forall v, eval v f1 = eval v f2.
Proof. unfold py_eq. intros ->. apply form_eqb_sound_strict. Qed.

Lemma py_eq_sound_loose f1 f2 :
  sepb f1 f2 = true -> py_eq Loose f1 f2 = true -> forall v, eval v f1 = eval v f2.
Proof.
  unfold py_eq. intros Hs H. apply form_eqb_sound_loose; [exact Hs |].
  destruct (is_lit f1 && is_lit f2); exact H.
Qed.

Lemma build_print_read_gen m nm d t psi :
  calls_ok m t -> build m t = Ok psi -> printable nm d psi = true ->
  forall v x, eval v t = Some x ->
    eval v psi = Some x /\
    exists f', read d (render nm psi) = Some f' /\ eval v f' = Some x.
Proof.
  intros Hc Hb Hp v x E.
  pose proof (build_sound_gen m t psi Hc Hb v x E) as H.
  split; [exact H |]. exists psi. split; [apply read_render, Hp | exact H].
Qed.

(* ------------------------------------------------------------------ *)
(* Witnesses against the full statements for the code as it stands      *)

Definition cP : form := FApp "p" [SBool] [].
Definition cA : form := FApp "a" [SInt] [].
Definition v_one : valuation := fun _ _ _ => VI 1.
Definition v_true : valuation := fun _ _ _ => VB true.

(* add_eq(True, 1) = True, the unsimplified (= true 1) is false *)
Lemma add_eq_loose_witness :
  add Loose CEq [FBool true; FInt 1] = Ok (FBool true) /\
  eval v_one (FConn CEq [FBool true; FInt 1]) = Some (VB false) /\
  eval v_one (FBool true) <> Some (VB false).
Proof. split; [reflexivity | split; [reflexivity | discriminate]]. Qed.

(* add_eq(add_eq(p, p), 1) = True: no boolean literal in the construction tree *)
Lemma build_loose_witness :
  build Loose (FConn CEq [FConn CEq [cP; cP]; FInt 1]) = Ok (FBool true) /\
  eval v_true (FConn CEq [FConn CEq [cP; cP]; FInt 1]) = Some (VB false) /\
  eval v_true (FBool true) <> Some (VB false).
Proof. split; [reflexivity | split; [reflexivity | discriminate]]. Qed.

(* add_eq(a, 1) == add_eq(a, True) although they differ when a = 1 *)
Lemma eq_loose_witness :
  build Loose (FConn CEq [cA; FInt 1]) = Ok (FConn CEq [cA; FInt 1]) /\
  build Loose (FConn CEq [cA; FBool true]) = Ok (FConn CEq [cA; FBool true]) /\
  form_eqb Loose (FConn CEq [cA; FInt 1]) (FConn CEq [cA; FBool true]) = true /\
  eval v_one (FConn CEq [cA; FInt 1]) = Some (VB true) /\
  eval v_one (FConn CEq [cA; FBool true]) = Some (VB false).
Proof. repeat split; reflexivity. Qed.

(* "-5" is the symbol -5 for an SMT-LIB reader *)
Lemma neg_raw_witness :
  render NegRaw (FInt (-5)) = "-5" /\ read [] "-5" = None /\
  read [] (render NegSmt (FInt (-5))) = Some (FInt (-5)).
Proof. repeat split; reflexivity. Qed.
