(* C12: footprint tables of GASOL's module-global state and the quantities computed from them.
   Definitions only (no proofs): Gen/FrameTables.v instantiates [tables]; Model/FrameProofs.v
   proves the frame theorem; Props/C12.v closes [exposed gasol_tables = []] by vm_compute. *)
From Coq Require Import List NArith Bool.
Import ListNotations.

Definition name := N.     (* a module-level variable *)
Definition fname := N.    (* a function *)

Definition mem (x : N) (l : list N) : bool := existsb (N.eqb x) l.

Record finfo := mkF {
  f_reads : list name;    (* genuine reads *)
  f_self  : list name;    (* reads that are part of a self-update: x += e, x.append(e), x[k] = v *)
  f_writes : list name;
  f_calls : list fname }.

Definition ftable := list (fname * finfo).

Fixpoint lookup (t : ftable) (f : fname) : option finfo :=
  match t with
  | [] => None
  | (g, i) :: r => if N.eqb f g then Some i else lookup r f
  end.

Definition callees (t : ftable) (f : fname) : list fname :=
  match lookup t f with Some i => f_calls i | None => [] end.

(* functions reachable in the call graph (worklist with fuel = number of functions + 1) *)
Fixpoint closure (fuel : nat) (t : ftable) (todo seen : list fname) : list fname :=
  match fuel with
  | O => seen ++ todo            (* out of fuel: still an over-approximation *)
  | S k =>
    match todo with
    | [] => seen
    | f :: r => if mem f seen then closure k t r seen
                else closure k t (callees t f ++ r) (f :: seen)
    end
  end.

Definition footprint (sel : finfo -> list name) (t : ftable) (fs : list fname) : list name :=
  flat_map (fun f => match lookup t f with Some i => sel i | None => [] end) fs.

Record tables := {
  t_funs : ftable;
  t_vars : list name;
  t_entries : list fname;    (* per-block entry points *)
  t_hist : list fname;       (* everything that can run between start-up and a block *)
  t_dunders : list fname;    (* implicit methods: reachable from everywhere *)
  t_R : list name;           (* re-assigned before any read in every per-block entry *)
  t_idem : list name;        (* idempotent guarded update in the entry prologue, read only after it *)
  t_keep : list name }.      (* every write stores the start-up value *)

(* the worklist can grow by a whole callee list per step: fuel = total size of the call graph + #functions + 1 *)
Definition fuel_of (T : tables) : nat :=
  S (length (t_funs T) + length (flat_map (fun p => f_calls (snd p)) (t_funs T))
     + length (t_entries T) + length (t_hist T) + length (t_dunders T)).

Definition reach_pb (T : tables) : list fname :=
  closure (fuel_of T) (t_funs T) (t_entries T ++ t_dunders T) [].
Definition reach_hist (T : tables) : list fname :=
  closure (fuel_of T) (t_funs T) (t_hist T ++ t_dunders T) [].

Definition genuine_reads_pb (T : tables) : list name := footprint f_reads (t_funs T) (reach_pb T).
Definition self_reads_pb (T : tables) : list name := footprint f_self (t_funs T) (reach_pb T).
Definition writes_hist (T : tables) : list name := footprint f_writes (t_funs T) (reach_hist T).

(* pure accumulators: written, read in the per-block cone only by their own updates *)
Definition accumulators (T : tables) : list name :=
  let wh := writes_hist T in let sr := self_reads_pb T in let gr := genuine_reads_pb T in
  filter (fun v => mem v wh && mem v sr && negb (mem v gr)) (t_vars T).

(* names through which a history could influence a block *)
Definition exposed (T : tables) : list name :=
  let gr := genuine_reads_pb T in let wh := writes_hist T in
  filter (fun v => mem v gr && mem v wh
                   && negb (mem v (t_R T)) && negb (mem v (t_idem T)) && negb (mem v (t_keep T)))
         (t_vars T).

(* well-formedness of the generated tables: every name mentioned is declared; the covered names are
   disjoint from R; closure did not run out of fuel (todo lists emptied: checked through idempotence) *)
Definition all_in (l vs : list N) : bool := forallb (fun x => mem x vs) l.
Definition disjoint (a b : list N) : bool := forallb (fun x => negb (mem x b)) a.
Definition closed_under_calls (t : ftable) (s : list fname) : bool :=
  forallb (fun f => all_in (callees t f) s) s.

Definition wf_tables (T : tables) : bool :=
  let rp := reach_pb T in let rh := reach_hist T in
  all_in (footprint f_reads (t_funs T) rp) (t_vars T) && all_in (footprint f_writes (t_funs T) rh) (t_vars T)
  && all_in (t_R T) (t_vars T) && all_in (t_idem T) (t_vars T) && all_in (t_keep T) (t_vars T)
  && disjoint (t_idem T) (t_R T) && disjoint (t_keep T) (t_R T) && disjoint (t_idem T) (t_keep T)
  && closed_under_calls (t_funs T) rp && closed_under_calls (t_funs T) rh
  && all_in (t_entries T ++ t_dunders T) rp && all_in (t_hist T ++ t_dunders T) rh.
