(* C12: the frame theorem.  The per-block computation is an ARBITRARY state transformer
   [body : block -> state -> state * res] constrained only by its footprint; a history is any
   finite sequence of per-block computations run from the start-up state G0. *)
From Coq Require Import List NArith Bool Lia.
From GV Require Import Model.Frame.
Import ListNotations.

Lemma mem_In : forall x l, mem x l = true <-> In x l.
Proof.
  unfold mem; intros x l; rewrite existsb_exists; split.
  - intros [y [Hy He]]. apply N.eqb_eq in He. subst; exact Hy.
  - intros H. exists x; split; [exact H | apply N.eqb_refl].
Qed.

Lemma mem_false_notIn : forall x l, mem x l = false -> ~ In x l.
Proof. intros x l H HI. apply mem_In in HI. congruence. Qed.

Lemma all_in_In : forall l vs x, all_in l vs = true -> In x l -> In x vs.
Proof.
  unfold all_in; intros l vs x H HI. rewrite forallb_forall in H. apply mem_In. exact (H x HI).
Qed.

Section Frame.
  Variables val res block : Type.
  Definition state := name -> val.

  Variable G0 : state.                       (* state after start-up (import, init(), option set-up) *)
  Variables RD WR RS IDEM KEEP : list name.  (* genuine per-block reads, history writes, reset, idempotent, kept *)
  Variable upd : name -> val -> val.         (* the guarded update of an IDEM name (options are fixed) *)
  Variable body : block -> state -> state * res.

  (* two states look the same to a block: reset names are irrelevant (re-assigned before any read),
     IDEM names are seen only through their update *)
  Definition same_view (G1 G2 : state) : Prop :=
    forall n, In n RD -> ~ In n RS ->
      if mem n IDEM then upd n (G1 n) = upd n (G2 n) else G1 n = G2 n.

  Hypothesis H_reads : forall b G1 G2, same_view G1 G2 -> snd (body b G1) = snd (body b G2).
  Hypothesis H_frame : forall b G n, ~ In n WR -> fst (body b G) n = G n.
  Hypothesis H_idem_step : forall b G n, In n IDEM ->
      fst (body b G) n = G n \/ fst (body b G) n = upd n (G n).
  Hypothesis H_idem : forall n x, In n IDEM -> upd n (upd n x) = upd n x.
  Hypothesis H_keep : forall b G n, In n KEEP -> G n = G0 n -> fst (body b G) n = G0 n.
  Hypothesis cover : forall n, In n RD -> In n WR -> In n RS \/ In n IDEM \/ In n KEEP.

  Definition Inv (G : state) : Prop :=
    (forall n, ~ In n WR -> G n = G0 n) /\
    (forall n, In n KEEP -> G n = G0 n) /\
    (forall n, In n IDEM -> G n = G0 n \/ G n = upd n (G0 n)).

  Lemma Inv_G0 : Inv G0.
  Proof. repeat split; auto. Qed.

  Lemma Inv_step : forall b G, Inv G -> Inv (fst (body b G)).
  Proof.
    intros b G [Hc [Hk Hi]]. repeat split.
    - intros n Hn. rewrite H_frame by exact Hn. apply Hc; exact Hn.
    - intros n Hn. apply H_keep; [exact Hn | apply Hk; exact Hn].
    - intros n Hn. destruct (H_idem_step b G n Hn) as [E | E]; rewrite E.
      + apply Hi; exact Hn.
      + right. destruct (Hi n Hn) as [E2 | E2]; rewrite E2.
        * reflexivity.
        * apply H_idem; exact Hn.
  Qed.

  Definition run (H : list block) (G : state) : state :=
    fold_left (fun G h => fst (body h G)) H G.

  Lemma Inv_run : forall H G, Inv G -> Inv (run H G).
  Proof.
    induction H as [| h H IH]; intros G HG; simpl.
    - exact HG.
    - apply IH. apply Inv_step. exact HG.
  Qed.

  (* the invariant of the kept names alone (used for compute_gast, split_block, default arguments) *)
  Lemma keep_invariant : forall H n, In n KEEP -> run H G0 n = G0 n.
  Proof. intros H n Hn. destruct (Inv_run H G0 Inv_G0) as [_ [Hk _]]. apply Hk; exact Hn. Qed.

  Lemma Inv_same_view : forall G1 G2, Inv G1 -> Inv G2 -> same_view G1 G2.
  Proof.
    intros G1 G2 [Hc1 [Hk1 Hi1]] [Hc2 [Hk2 Hi2]] n Hrd Hnrs.
    destruct (mem n IDEM) eqn:Em.
    - apply mem_In in Em.
      destruct (Hi1 n Em) as [E1 | E1]; destruct (Hi2 n Em) as [E2 | E2]; rewrite E1, E2;
        try reflexivity; try (rewrite H_idem by exact Em; reflexivity).
    - apply mem_false_notIn in Em.
      destruct (in_dec N.eq_dec n WR) as [Hw | Hw].
      + destruct (cover n Hrd Hw) as [C | [C | C]].
        * contradiction.
        * contradiction.
        * rewrite (Hk1 n C), (Hk2 n C). reflexivity.
      + rewrite (Hc1 n Hw), (Hc2 n Hw). reflexivity.
  Qed.

  Theorem frame_states : forall G1 G2 b, Inv G1 -> Inv G2 -> snd (body b G1) = snd (body b G2).
  Proof. intros G1 G2 b H1 H2. apply H_reads. apply Inv_same_view; assumption. Qed.

  (* result(B | H) = result(B | empty history) *)
  Theorem frame : forall (H : list block) (b : block), snd (body b (run H G0)) = snd (body b G0).
  Proof. intros H b. apply frame_states; [apply Inv_run; apply Inv_G0 | apply Inv_G0]. Qed.
End Frame.

(* [exposed T = []] on well-formed tables is exactly the [cover] premise *)
Lemma exposed_nil_cover : forall T, wf_tables T = true -> exposed T = [] ->
  forall n, In n (genuine_reads_pb T) -> In n (writes_hist T) ->
            In n (t_R T) \/ In n (t_idem T) \/ In n (t_keep T).
Proof.
  intros T Hwf Hex n Hr Hw.
  unfold wf_tables in Hwf. cbv zeta in Hwf. repeat rewrite andb_true_iff in Hwf.
  fold (genuine_reads_pb T) in Hwf.
  destruct Hwf as [[[[[[[[[[[Hrv _] _] _] _] _] _] _] _] _] _] _].
  assert (Hv : In n (t_vars T)) by (eapply all_in_In; eauto).
  destruct (mem n (t_R T)) eqn:ER; [left; apply mem_In; exact ER |].
  destruct (mem n (t_idem T)) eqn:EI; [right; left; apply mem_In; exact EI |].
  destruct (mem n (t_keep T)) eqn:EK; [right; right; apply mem_In; exact EK |].
  exfalso.
  assert (Hin : In n (exposed T)).
  { unfold exposed. cbv zeta. apply filter_In. split; [exact Hv |].
    apply mem_In in Hr. apply mem_In in Hw. rewrite Hr, Hw, ER, EI, EK. reflexivity. }
  rewrite Hex in Hin. exact Hin.
Qed.

(* the frame theorem stated on tables *)
Theorem frame_of_tables : forall T, wf_tables T = true -> exposed T = [] ->
  forall (val res block : Type) (G0 : name -> val) (upd : name -> val -> val)
         (body : block -> (name -> val) -> (name -> val) * res),
    (forall b G1 G2, same_view val (genuine_reads_pb T) (t_R T) (t_idem T) upd G1 G2 ->
                     snd (body b G1) = snd (body b G2)) ->
    (forall b G n, ~ In n (writes_hist T) -> fst (body b G) n = G n) ->
    (forall b G n, In n (t_idem T) -> fst (body b G) n = G n \/ fst (body b G) n = upd n (G n)) ->
    (forall n x, In n (t_idem T) -> upd n (upd n x) = upd n x) ->
    (forall b G n, In n (t_keep T) -> G n = G0 n -> fst (body b G) n = G0 n) ->
    forall (H : list block) (b : block),
      snd (body b (run val res block body H G0)) = snd (body b G0).
Proof.
  intros T Hwf Hex val res block G0 upd body Hr Hf His Hi Hk H b.
  eapply frame; eauto.
  intros n Hrd Hw. eapply exposed_nil_cover; eauto.
Qed.

(* ---- the small invariant lemmas behind the covered names ---- *)

(* split_sto: `if storage: split_sto = True` *)
Definition guarded_const {A : Type} (g : bool) (c x : A) : A := if g then c else x.
Lemma guarded_const_idem : forall (A : Type) g (c x : A),
  guarded_const g c (guarded_const g c x) = guarded_const g c x.
Proof. intros A [] c x; reflexivity. Qed.
(* with initial value false and c = true the value after the update is the option itself *)
Lemma guarded_const_is_option : forall g, guarded_const g true false = g.
Proof. intros []; reflexivity. Qed.

(* split_block: `if storage: split_block = split_block.union(store_instructions)` (sets as predicates) *)
Definition guarded_union (g : bool) (s x : N -> bool) : N -> bool :=
  fun k => if g then x k || s k else x k.
Lemma guarded_union_idem : forall g s x k,
  guarded_union g s (guarded_union g s x) k = guarded_union g s x k.
Proof. intros [] s x k; unfold guarded_union; [| reflexivity]. destruct (x k), (s k); reflexivity. Qed.
(* start-up (execute_gasol) already applied the update: afterwards every application keeps the value *)
Lemma guarded_union_keeps : forall g s x0 k,
  guarded_union g s (guarded_union g s x0) k = (guarded_union g s x0) k.
Proof. intros. apply guarded_union_idem. Qed.
