(* Size gating: theorems about the generated check_size / get_num_bytes_int / NOT branch
   (hand-written; they name the generated definitions check_size, get_num_bytes_int, at_NOT). *)
From Coq Require Import ZArith Bool Lia String List.
Import ListNotations.
From GV Require Import Ref.Word Ref.WordLemmas Ref.PyInt.
From GV Require Import Gen.CheckSize Gen.LocalRules.
From GV Require Import Model.FoldProofs Model.LocalRulesTactics.
Local Open Scope Z_scope.

(* bytes of a PUSH instruction as GASOL counts them: opcode byte + max(1, bytes of the value) *)
Definition push_size (v : Z) : Z := 1 + get_num_bytes_int v.

(* number_encoding_size is the byte length: 256^(n-1) <= v < 256^n *)
Lemma number_encoding_size_spec v :
  0 < v -> let n := number_encoding_size v in 0 < n /\ 256 ^ (n - 1) <= v < 256 ^ n.
Proof.
  intros Hv. unfold number_encoding_size.
  replace (v <? 0) with false by (symmetry; apply Z.ltb_ge; lia).
  replace (v <=? 0) with false by (symmetry; apply Z.leb_gt; lia).
  cbv zeta. pose proof (Z.log2_spec v Hv) as [Hlo Hhi]. pose proof (Z.log2_nonneg v) as Hn.
  set (l := Z.log2 v) in *.
  assert (Hq : 0 <= l / 8) by (apply Z.div_pos; lia).
  assert (Hd : 8 * (l / 8) <= l < 8 * (l / 8) + 8)
    by (pose proof (Z.mod_pos_bound l 8 ltac:(lia)); pose proof (Z.div_mod l 8 ltac:(lia)); lia).
  replace (l / 8 + 1 - 1) with (l / 8) by lia.
  change 256 with (2 ^ 8). rewrite <- !Z.pow_mul_r by lia.
  split; [lia|]. split.
  - apply Z.le_trans with (2 ^ l); [apply Z.pow_le_mono_r; lia|assumption].
  - apply Z.lt_le_trans with (2 ^ Z.succ l); [assumption|apply Z.pow_le_mono_r; lia].
Qed.

Lemma number_encoding_size_word v : inw v -> 0 <= number_encoding_size v <= 32.
Proof.
  intros [H0 H1]. destruct (Z.eq_dec v 0) as [->|Hne]; [vm_compute; split; discriminate|].
  pose proof (number_encoding_size_spec v ltac:(lia)) as [Hp [Hlo _]]. cbv zeta in *.
  split; [lia|]. destruct (Z_le_gt_dec (number_encoding_size v) 32) as [|Hgt]; [assumption|exfalso].
  assert (256 ^ 32 <= 256 ^ (number_encoding_size v - 1)) by (apply Z.pow_le_mono_r; lia).
  change (256 ^ 32) with W in *. lia.
Qed.

(* compute_binary in size mode: the folded constant is used only if check_size says True, and then
   PUSH e is not longer than PUSH v0; PUSH v1; OP (1 byte) *)
Theorem check_size_gate v0 v1 e x :
  check_size v0 v1 e = (true, x) ->
  x = CSNew e /\ get_num_bytes_int e <= get_num_bytes_int v0 + get_num_bytes_int v1 + 2.
Proof.
  unfold check_size. cbv beta iota zeta.
  destruct (get_num_bytes_int e <=? get_num_bytes_int v0 + get_num_bytes_int v1 + 2) eqn:E;
    intros H; inversion H; subst. apply Z.leb_le in E. auto.
Qed.

Theorem check_size_no_growth v0 v1 e x :
  check_size v0 v1 e = (true, x) -> push_size e <= push_size v0 + push_size v1 + 1.
Proof. intros H. apply check_size_gate in H. unfold push_size. lia. Qed.

(* size mode: NOT of a constant is folded only when PUSH e is not longer than PUSH v; NOT *)
Theorem not_rule_size_gate a o e :
  at_NOT true "NOT" [a] = Replace o e ->
  exists v, a = OInt v /\ push_size (value (fun _ => 0) o) <= push_size v + 1.
Proof.
  intros H. autounfold with gen_rules in H. cbv zeta in H.
  unfold all_integers, op_nth in H. cbn [forallb nth] in H.
  destruct a as [v|n]; cbn [is_int as_int andb] in H; [|discriminate H].
  match type of H with (if ?c then _ else _) = _ => destruct c eqn:E end; [|discriminate H].
  injection H as <- _. exists v. split; [reflexivity|]. apply Z.leb_le in E.
  unfold push_size. unfold value. change (Z.pow_pos 2 256) with (2 ^ 256) in *. lia.
Qed.
