(* Reference meaning of the opcodes apply_transform rewrites, the valuation of operands, and the
   tactic [solve_rule] that closes the per-branch obligations emitted by the translator into
   Gen/LocalRulesObligations.v.  Mentions no generated definition by name (hint db gen_rules). *)
From Coq Require Import ZArith Bool Lia String List.
Import ListNotations.
From GV Require Import Ref.Word Ref.WordLemmas Ref.WordAlgebra Ref.PyInt Model.FoldProofs.
Local Open Scope Z_scope.

(* EVM meaning of an opcode on its operands, first operand = top of the stack *)
Definition ref_opcode (opc : string) (args : list Z) : option Z :=
  match args with
  | [a] =>
      if String.eqb opc "NOT" then Some (wnot a)
      else if String.eqb opc "ISZERO" then Some (wiszero a)
      else None
  | [a; b] =>
      if String.eqb opc "ADD" then Some (wadd a b)
      else if String.eqb opc "SUB" then Some (wsub a b)
      else if String.eqb opc "MUL" then Some (wmul a b)
      else if String.eqb opc "DIV" then Some (wdiv a b)
      else if String.eqb opc "SDIV" then Some (wsdiv a b)
      else if String.eqb opc "MOD" then Some (wmod a b)
      else if String.eqb opc "SMOD" then Some (wsmod a b)
      else if String.eqb opc "EXP" then Some (wexp a b)
      else if String.eqb opc "SIGNEXTEND" then Some (wsignextend a b)
      else if String.eqb opc "LT" then Some (wlt a b)
      else if String.eqb opc "GT" then Some (wgt a b)
      else if String.eqb opc "SLT" then Some (wslt a b)
      else if String.eqb opc "SGT" then Some (wsgt a b)
      else if String.eqb opc "EQ" then Some (weq a b)
      else if String.eqb opc "AND" then Some (wand a b)
      else if String.eqb opc "OR" then Some (wor a b)
      else if String.eqb opc "XOR" then Some (wxor a b)
      else if String.eqb opc "BYTE" then Some (wbyte a b)
      else if String.eqb opc "SHL" then Some (wshl a b)
      else if String.eqb opc "SHR" then Some (wshr a b)
      else if String.eqb opc "SAR" then Some (wsar a b)
      else None
  | [a; b; c] =>
      if String.eqb opc "ADDMOD" then Some (waddmod a b c)
      else if String.eqb opc "MULMOD" then Some (wmulmod a b c)
      else None
  | _ => None
  end.

Definition opcode_arity (opc : string) : nat :=
  if String.eqb opc "NOT" || String.eqb opc "ISZERO" then 1%nat
  else if String.eqb opc "ADDMOD" || String.eqb opc "MULMOD" then 3%nat else 2%nat.

Definition is_replace (r : rule_res) : bool := match r with Replace _ _ => true | _ => false end.

(* value of an operand under an assignment of words to the variables *)
Definition value (rho : nat -> Z) (o : operand) : Z :=
  match o with OInt z => z | OVar n => rho n end.
Definition wf_rho (rho : nat -> Z) : Prop := forall n, inw (rho n).
Definition wf_op (o : operand) : Prop := match o with OInt z => inw z | OVar _ => True end.

Lemma value_inw rho o : wf_rho rho -> wf_op o -> inw (value rho o).
Proof. intros Hr Ho. destruct o; [exact Ho|apply Hr]. Qed.

Lemma inw_lnot z : inw z -> inw (Z.lnot z + 2 ^ 256).
Proof. unfold inw, Z.lnot. change (2 ^ 256) with W. lia. Qed.

Ltac inw_lit :=
  lazymatch goal with |- inw ?z => is_ground z end;
  unfold inw; split; [apply Z.leb_le|apply Z.ltb_lt]; vm_compute; reflexivity.

Lemma wf_rho_nth l : Forall inw l -> wf_rho (fun n => nth n l 0).
Proof.
  intros Hl n. revert n. induction Hl as [|x l Hx Hl IH]; intros [|n]; cbn [nth];
    try assumption; try apply IH; unfold inw; pose proof W_pos; lia.
Qed.

Ltac nat_hyps :=
  repeat match goal with
    | H : Nat.eqb _ _ = true |- _ => apply Nat.eqb_eq in H; try subst
    | H : Nat.eqb _ _ = false |- _ => clear H
    end.

(* split every boolean test that still stands in the way *)
Ltac split_ifs :=
  repeat match goal with
    | H : context [if ?c then _ else _] |- _ => let E := fresh "C" in destruct c eqn:E
    | |- context [if ?c then _ else _] => let E := fresh "C" in destruct c eqn:E
    end.

Ltac bool_split :=
  repeat match goal with
    | H : (_ || _)%bool = true |- _ => apply orb_true_iff in H; destruct H as [H|H]
    | H : (_ || _)%bool = false |- _ => apply orb_false_iff in H; destruct H as [? H]
    | H : (_ && _)%bool = true |- _ => apply andb_true_iff in H; destruct H as [? H]
    | H : (_ && _)%bool = false |- _ => apply andb_false_iff in H; destruct H as [H|H]
    | H : negb _ = true |- _ => apply negb_true_iff in H
    | H : negb _ = false |- _ => apply negb_false_iff in H
    | H : false = true |- _ => discriminate H
    | H : true = false |- _ => discriminate H
    end.

(* the all-ones literal as it appears after unfolding int_not0 *)
Ltac name_ones :=
  let m := eval vm_compute in (W - 1) in
  change m with (W - 1) in *.

Ltac rule_close :=
  cbn [value] in *;
  repeat match goal with
    | Hr : wf_rho ?rho |- context [?rho ?n] =>
        lazymatch goal with
        | _ : inw (rho n) |- _ => fail
        | _ => pose proof (Hr n)
        end
    end;
  split;
  [ f_equal; name_ones; autorewrite with wordalg; try reflexivity;
    try (symmetry; autorewrite with wordalg; reflexivity);
    try (unfold wnot, wiszero, Z.lnot, W, b2z in *; simpl; lia)
  | cbn [wf_op]; try exact I; try assumption; try (apply inw_lnot; assumption);
    try (match goal with |- inw ?z => is_ground z; inw_lit end);
    try (match goal with |- wf_op ?o => destruct o; cbn [wf_op]; (exact I || assumption) end) ].

(* `at_<G>_only_<k> sf "<OPC>" [a; b] = Replace o e -> Some (value rho o) = ref_opcode "<OPC>" [...] /\ wf_op o` *)
Ltac solve_rule :=
  intros;
  match goal with H : _ = Replace _ _ |- _ =>
    autounfold with gen_rules in H; cbv zeta in H;
    unfold op_in, op_nth, all_integers in H; cbn [existsb forallb nth is_int as_int] in H
  end;
  unfold ref_opcode; eval_strings;
  repeat match goal with o : operand |- _ =>
    lazymatch goal with _ : _ = Replace o _ |- _ => fail | _ => destruct o end end;
  cbn [op_eq is_int as_int orb andb wf_op] in *;
  split_ifs; try discriminate;
  match goal with H : Replace _ _ = Replace _ _ |- _ => injection H as ? ?; subst end;
  bool_split; bool_hyps; nat_hyps; subst;
  rule_close.

(* `at_<G> sf opc inp = Replace o e -> at_<G>_only_1 sf opc inp = Replace o e \/ ...` *)
Ltac solve_split :=
  intros; autounfold with gen_rules in *; cbv zeta in *; split_ifs; try discriminate; auto 12.

(* inp : list operand with `length inp = k` for a literal k: name its elements *)
Ltac shape_inp inp Hl Hw :=
  cbv beta iota delta [orb] in Hl;
  destruct inp as [|?a [|?b [|?c [|? ?]]]]; cbn [length] in Hl; try discriminate Hl;
  repeat match goal with H : Forall wf_op (_ :: _) |- _ => inversion H; subst; clear H end;
  cbn [map].

Ltac kill_unsound H Hf :=
  exfalso; cbv beta in Hf; rewrite H in Hf; cbn [is_replace orb] in Hf;
  repeat match type of Hf with context [if ?c then _ else _] => destruct c end; discriminate Hf.

(* ~ In "lit" <closed list of strings> *)
Ltac not_in_strs :=
  let H := fresh "H" in intros H; vm_compute in H;
  repeat (destruct H as [H|H]; [discriminate H|]); exact H.
