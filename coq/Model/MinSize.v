(* Executable model of the "minimum length" published in a specification:
     smt_encoding/count_sms_greedy.py   SMSgreedy.count_ops / count_ops_one, minsize_from_json
     smt_encoding/json_with_dependencies.py   min_length_instrs (= minsize_from_json)
   Hand-written; tied to the code by the correspondence check of harness/c16.py (the model is
   evaluated by vm_compute on every generated specification and compared with the Python
   function).  No proofs in this file.

   Python, for reference:
     occurrences = {o: 0 for o in src_ws}
     for each id whose disasm contains 'MSTORE', then each whose disasm contains 'SSTORE':
         count_ops_one(inpt_sk[0]); count_ops_one(inpt_sk[1])
     for o in tgt_ws: count_ops_one(o)
     count_ops_one(o): if o in occurrences: occurrences[o] += 1
                       else: occurrences[o] = 1
                             if o in var_instr_map: for oi in inpt_sk: count_ops_one(oi)
     minsize = #MSTORE-like + #SSTORE-like
               + sum over keys i:  |occ[i] - src_ws.count(i)| if i in src_ws else occ[i]
   var_instr_map maps the single output of an instruction to the instruction (the LAST such
   instruction in user_instrs wins, as a dict assignment does).
   The recursion is modelled with an explicit work list (same visiting order) and fuel; the
   result is None when the fuel runs out (never observed; the theorem is stated for Some). *)
From Coq Require Import ZArith List Bool Arith.
From Coq Require Import String.
From GV Require Import Sym.Spec.
Import ListNotations.
Notation length := List.length.

Definition s_MSTORE : string := "MSTORE"%string.
Definition s_SSTORE : string := "SSTORE"%string.

Definition is_mstore (u : uinstr) : bool := substrb s_MSTORE (ui_op u).
Definition is_sstore (u : uinstr) : bool := substrb s_SSTORE (ui_op u).
Definition is_store_named (u : uinstr) : bool := is_mstore u || is_sstore u.

(* the stores in the order the Python code visits them *)
Definition store_list (S : spec) : list uinstr :=
  filter is_mstore (s_instrs S) ++ filter is_sstore (s_instrs S).

(* var_instr_map: last instruction whose outpt_sk is exactly [v] *)
Definition defines (v : nat) (u : uinstr) : bool :=
  match ui_out u with
  | [w] => Nat.eqb w v
  | _ => false
  end.

Definition var_instr (S : spec) (o : operand) : option uinstr :=
  match o with
  | OVar v => find (defines v) (rev (s_instrs S))
  | OConst _ => None
  end.

Definition occmap := list (operand * nat).

Fixpoint occ_get (m : occmap) (o : operand) : option nat :=
  match m with
  | [] => None
  | (k, n) :: r => if operand_eqb k o then Some n else occ_get r o
  end.

Fixpoint occ_incr (m : occmap) (o : operand) : occmap :=
  match m with
  | [] => []
  | (k, n) :: r => if operand_eqb k o then (k, n + 1) :: r else (k, n) :: occ_incr r o
  end.

(* occurrences = {o: 0 for o in src_ws} *)
Fixpoint occ_init (src : list operand) (m : occmap) : occmap :=
  match src with
  | [] => m
  | o :: r => match occ_get m o with
              | Some _ => occ_init r m
              | None => occ_init r (m ++ [(o, 0)])
              end
  end.

Definition inputs_of (S : spec) (o : operand) : list operand :=
  match var_instr S o with
  | Some u => ui_in u
  | None => []
  end.

Fixpoint count_loop (fuel : nat) (S : spec) (m : occmap) (todo : list operand) : option occmap :=
  match todo with
  | [] => Some m
  | o :: rest =>
      match fuel with
      | 0 => None
      | Datatypes.S f =>
          match occ_get m o with
          | Some _ => count_loop f S (occ_incr m o) rest
          | None => count_loop f S (m ++ [(o, 1)]) (inputs_of S o ++ rest)
          end
      end
  end.

Definition roots (S : spec) : list operand :=
  flat_map (fun u => firstn 2 (ui_in u)) (store_list S) ++ s_tgt S.

Definition count_fuel (S : spec) : nat :=
  1 + length (roots S) + fold_right (fun u a => length (ui_in u) + a) 0 (s_instrs S).

Definition count_ops (S : spec) : option occmap :=
  count_loop (count_fuel S) S (occ_init (s_src S) []) (roots S).

Definition count_in (o : operand) (l : list operand) : nat :=
  length (filter (operand_eqb o) l).

Definition contribution (S : spec) (kn : operand * nat) : nat :=
  let (k, n) := kn in
  let c := count_in k (s_src S) in
  if 1 <=? c then (if n <=? c then c - n else n - c) else n.

Definition minsize_of (S : spec) (m : occmap) : nat :=
  length (store_list S) + fold_right (fun kn a => contribution S kn + a) 0 m.

(* minsize_from_json *)
Definition minsize (S : spec) : option nat :=
  match count_ops S with
  | Some m => Some (minsize_of S m)
  | None => None
  end.

(* ------------------------------------------------------------------------------------- *)
(* Certificate under which the lower-bound theorem is proved (Model/MinSizeProofs.v).  A boolean,
   evaluated by the harness on every specification.  It checks, by computation on the given
   occurrence map m (instead of by a proof about the traversal):
     - shape: keys of m distinct; instruction ids distinct; src_ws distinct variables; output
       variables distinct and not in src_ws; at most one output; storage => no output; the
       instructions counted as stores by name are exactly the ones flagged "storage";
     - identity: m[k] = #occurrences of k in tgt_ws + in the inputs of ALL instructions
       (true when the traversal reached every instruction, i.e. no dead instruction);
     - no dead instruction: every non-storage instruction has one output, which is a key of m;
     - reasons: every key, in insertion order, is a source variable, a target, an input of a
       storage instruction, or an input of the instruction defining an EARLIER key. *)

Definition memb (o : operand) (l : list operand) : bool := existsb (operand_eqb o) l.

Fixpoint nodupb_op (l : list operand) : bool :=
  match l with
  | [] => true
  | a :: r => negb (memb a r) && nodupb_op r
  end.

Fixpoint nodupb_n (l : list nat) : bool :=
  match l with
  | [] => true
  | a :: r => negb (existsb (Nat.eqb a) r) && nodupb_n r
  end.

Definition all_vars (l : list operand) : bool :=
  forallb (fun o => match o with OVar _ => true | OConst _ => false end) l.

Definition src_var_list (S : spec) : list nat :=
  flat_map (fun o => match o with OVar v => [v] | OConst _ => [] end) (s_src S).

Definition uses_total (S : spec) (k : operand) : nat :=
  count_in k (s_tgt S) + fold_right (fun u a => count_in k (ui_in u) + a) 0 (s_instrs S).

Definition cert_identity (S : spec) (m : occmap) : bool :=
  forallb (fun kn => snd kn =? uses_total S (fst kn)) m.

Definition cert_no_dead (S : spec) (m : occmap) : bool :=
  forallb (fun u => ui_storage u
                    || match ui_out u with
                       | [w] => memb (OVar w) (map fst m)
                       | _ => false
                       end) (s_instrs S).

Definition reason_ok (S : spec) (pre : list operand) (w : operand) : bool :=
  memb w (s_src S) || memb w (s_tgt S)
  || existsb (fun u => ui_storage u && memb w (ui_in u)) (s_instrs S)
  || existsb (fun u => memb w (ui_in u) && existsb (fun o => memb (OVar o) pre) (ui_out u)) (s_instrs S).

Fixpoint reasons_ok (S : spec) (pre ks : list operand) : bool :=
  match ks with
  | [] => true
  | w :: r => reason_ok S pre w && reasons_ok S (pre ++ [w]) r
  end.

Definition cert_shape (S : spec) : bool :=
  nodupb_n (map ui_id (s_instrs S))
  && all_vars (s_src S) && nodupb_op (s_src S)
  && nodupb_n (flat_map ui_out (s_instrs S) ++ src_var_list S)
  && forallb (fun u => length (ui_out u) <=? 1) (s_instrs S)
  && forallb (fun u => negb (ui_storage u) || match ui_out u with [] => true | _ => false end) (s_instrs S)
  && (length (store_list S) =? length (filter ui_storage (s_instrs S))).

Definition lb_cert (S : spec) (m : occmap) : bool :=
  cert_shape S && nodupb_op (map fst m) && cert_identity S m && cert_no_dead S m
  && reasons_ok S [] (map fst m).

Definition ms_wf_spec (S : spec) : bool :=
  match count_ops S with
  | Some m => lb_cert S m
  | None => false
  end.
