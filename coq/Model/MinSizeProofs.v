(* The occurrence-counting minimum length is a lower bound on the length of every realizing
   sequence: a potential-function argument over the symbolic machine of Val/Realizes.v.

   Potential of a machine state (E = ids executed so far, stk = symbolic stack), summed over
   the keys (k, n) of the occurrence map m:
       used key (n >= 1):   demand still open for k  -  copies of k on the stack   (truncated)
       unused key (n = 0):  copies of k on the stack                               (must be popped)
   plus the number of storage instructions not yet executed, where
       demand_E(k) = #k in tgt_ws + sum over instructions u not in E of #k in inpt_sk(u).
   Every step other than NOP lowers the potential by at most 1; it starts at minsize and ends
   at 0 (all instructions executed: the certificate's "reasons" chain). *)
From Coq Require Import ZArith List Bool Arith Lia.
From GV Require Import Sym.Spec Val.Realizes Val.RealizesProofs Model.MinSize.
Import ListNotations.

Definition executed (E : list nat) (id : nat) : bool := existsb (Nat.eqb id) E.
Arguments executed : simpl never.

Definition pend_in (l : list uinstr) (E : list nat) (k : operand) : nat :=
  fold_right (fun u a => (if executed E (ui_id u) then 0 else count_in k (ui_in u)) + a) 0 l.

Definition dem (S : spec) (E : list nat) (k : operand) : nat :=
  count_in k (s_tgt S) + pend_in (s_instrs S) E k.

Definition pend_st (l : list uinstr) (E : list nat) : nat :=
  length (filter (fun u => ui_storage u && negb (executed E (ui_id u))) l).

Definition phi (S : spec) (E : list nat) (stk : list operand) (kn : operand * nat) : nat :=
  if 1 <=? snd kn then dem S E (fst kn) - count_in (fst kn) stk else count_in (fst kn) stk.

Definition sumf {A : Type} (f : A -> nat) (l : list A) : nat := fold_right (fun x a => f x + a) 0 l.

Definition Phi (S : spec) (m : occmap) (E : list nat) (stk : list operand) : nat :=
  pend_st (s_instrs S) E + sumf (phi S E stk) m.

Definition upd (E : list nat) (st : step) : list nat :=
  match st with SIns id => id :: E | _ => E end.

Definition b1 (k x : operand) : nat := if operand_eqb k x then 1 else 0.

(* ------------------------------------------------------------------------------------- *)
(* counting *)

Lemma count_in_app : forall k a b, count_in k (a ++ b) = count_in k a + count_in k b.
Proof. intros. unfold count_in. now rewrite filter_app, app_length. Qed.

Lemma count_in_cons : forall k x l, count_in k (x :: l) = b1 k x + count_in k l.
Proof. intros. unfold count_in, b1. simpl. destruct (operand_eqb k x); reflexivity. Qed.

Lemma count_in_swap2 : forall k l, count_in k (swap2 l) = count_in k l.
Proof.
  intros k l. destruct l as [|a [|b [|c r]]]; simpl; try reflexivity.
  rewrite !count_in_cons. lia.
Qed.

Lemma count_in_firstn_skipn : forall k n l, count_in k l = count_in k (firstn n l) + count_in k (skipn n l).
Proof. intros. rewrite <- count_in_app. now rewrite firstn_skipn. Qed.

Lemma sumf_le : forall (A : Type) (f g : A -> nat) l,
  (forall x, In x l -> f x <= g x) -> sumf f l <= sumf g l.
Proof.
  intros A f g l. induction l as [|a r IH]; simpl; intro H; [lia|].
  pose proof (H a (or_introl eq_refl)). assert (sumf f r <= sumf g r) by (apply IH; intros; apply H; now right).
  unfold sumf in *. lia.
Qed.

Lemma memb_spec : forall a l, memb a l = true <-> exists b, In b l /\ operand_eqb a b = true.
Proof. intros. unfold memb. apply existsb_exists. Qed.

Lemma operand_eqb_refl : forall a, operand_eqb a a = true.
Proof. intro a. now apply operand_eqb_eq. Qed.

Lemma sumf_le_one : forall (m : occmap) (x : operand) (f g : operand * nat -> nat),
  nodupb_op (map fst m) = true ->
  (forall kn, In kn m -> operand_eqb (fst kn) x = false -> f kn <= g kn) ->
  (forall kn, In kn m -> operand_eqb (fst kn) x = true -> f kn <= g kn + 1) ->
  sumf f m <= sumf g m + 1.
Proof.
  intros m x f g. induction m as [|kn r IH]; intros N H0 H1; simpl; [lia|].
  simpl in N. apply andb_true_iff in N. destruct N as [N1 N2].
  destruct (operand_eqb (fst kn) x) eqn:Ex.
  - assert (sumf f r <= sumf g r).
    { apply sumf_le. intros kn' Hin. apply H0; [now right|].
      destruct (operand_eqb (fst kn') x) eqn:E2; [|reflexivity]. exfalso.
      apply operand_eqb_eq in Ex. apply operand_eqb_eq in E2.
      apply negb_true_iff in N1. assert (memb (fst kn) (map fst r) = true).
      { apply memb_spec. exists (fst kn'). split; [now apply in_map|]. apply operand_eqb_eq. congruence. }
      congruence. }
    pose proof (H1 kn (or_introl eq_refl) Ex). unfold sumf in *. lia.
  - pose proof (H0 kn (or_introl eq_refl) Ex).
    assert (sumf f r <= sumf g r + 1).
    { apply IH; auto; intros; [apply H0|apply H1]; auto; now right. }
    unfold sumf in *. lia.
Qed.

(* ------------------------------------------------------------------------------------- *)
(* pending demand when one more instruction is executed *)

Lemma nodupb_n_cons : forall a r, nodupb_n (a :: r) = true ->
  (forall x, In x r -> x <> a) /\ nodupb_n r = true.
Proof.
  intros a r H. simpl in H. apply andb_true_iff in H. destruct H as [H1 H2]. split; [|exact H2].
  intros x Hin E. subst x. apply negb_true_iff in H1.
  assert (existsb (Nat.eqb a) r = true) by (apply existsb_exists; exists a; split; [exact Hin|apply Nat.eqb_refl]).
  congruence.
Qed.

Lemma executed_cons : forall id E id', executed (id :: E) id' = Nat.eqb id' id || executed E id'.
Proof. reflexivity. Qed.

Lemma executed_cons_other : forall id E id', id' <> id -> executed (id :: E) id' = executed E id'.
Proof. intros. rewrite executed_cons. apply Nat.eqb_neq in H. now rewrite H. Qed.

Lemma pend_in_other : forall l id E k,
  (forall u, In u l -> ui_id u <> id) -> pend_in l (id :: E) k = pend_in l E k.
Proof.
  intros l id E k. induction l as [|a r IH]; intro H; simpl; [reflexivity|].
  rewrite executed_cons_other by (apply H; now left). rewrite IH; [reflexivity|].
  intros; apply H; now right.
Qed.

Lemma pend_in_step : forall l u E k,
  nodupb_n (map ui_id l) = true -> In u l ->
  pend_in l E k <= pend_in l (ui_id u :: E) k + count_in k (ui_in u).
Proof.
  intros l u E k. induction l as [|a r IH]; intros N Hin; [contradiction|].
  simpl map in N. apply nodupb_n_cons in N. destruct N as [N1 N2]. simpl.
  destruct Hin as [->|Hin].
  - rewrite pend_in_other.
    + destruct (executed E (ui_id u)); destruct (executed (ui_id u :: E) (ui_id u)); lia.
    + intros u' Hu'. apply N1. now apply in_map.
  - assert (ui_id a <> ui_id u).
    { intro E1. apply (N1 (ui_id u)); [now apply in_map|]. now symmetry. }
    rewrite executed_cons_other by exact H. specialize (IH N2 Hin). lia.
Qed.

Lemma pend_st_cons : forall a r E,
  pend_st (a :: r) E = (if ui_storage a && negb (executed E (ui_id a)) then 1 else 0) + pend_st r E.
Proof.
  intros. unfold pend_st. simpl. destruct (ui_storage a && negb (executed E (ui_id a))); reflexivity.
Qed.

Lemma pend_st_other : forall l id E,
  (forall u, In u l -> ui_id u <> id) -> pend_st l (id :: E) = pend_st l E.
Proof.
  intros l id E. induction l as [|a r IH]; intro H; [reflexivity|].
  rewrite !pend_st_cons. rewrite executed_cons_other by (apply H; now left).
  rewrite IH; [reflexivity|]. intros; apply H; now right.
Qed.

Lemma pend_st_step : forall l u E,
  nodupb_n (map ui_id l) = true -> In u l ->
  pend_st l E <= pend_st l (ui_id u :: E) + (if ui_storage u then 1 else 0).
Proof.
  intros l u E. induction l as [|a r IH]; intros N Hin; [contradiction|].
  simpl map in N. apply nodupb_n_cons in N. destruct N as [N1 N2].
  rewrite !pend_st_cons.
  destruct Hin as [->|Hin].
  - rewrite pend_st_other by (intros u' Hu'; apply N1; now apply in_map).
    destruct (ui_storage u); simpl.
    + destruct (negb (executed E (ui_id u))); destruct (negb (executed (ui_id u :: E) (ui_id u))); simpl; lia.
    + lia.
  - assert (ui_id a <> ui_id u).
    { intro E1. apply (N1 (ui_id u)); [now apply in_map|]. now symmetry. }
    rewrite executed_cons_other by exact H. specialize (IH N2 Hin). lia.
Qed.

Lemma uses_ge : forall l u k, In u l ->
  count_in k (ui_in u) <= fold_right (fun u a => count_in k (ui_in u) + a) 0 l.
Proof.
  intros l u k. induction l as [|a r IH]; intro H; [contradiction|]. simpl.
  destruct H as [->|H]; [lia|]. specialize (IH H). lia.
Qed.

(* ------------------------------------------------------------------------------------- *)
(* what the certificate says *)

Record cert_facts (S : spec) (m : occmap) : Prop := {
  cf_ids : nodupb_n (map ui_id (s_instrs S)) = true;
  cf_srcvars : all_vars (s_src S) = true;
  cf_srcnodup : nodupb_op (s_src S) = true;
  cf_outs : nodupb_n (flat_map ui_out (s_instrs S) ++ src_var_list S) = true;
  cf_out1 : forall u, In u (s_instrs S) -> length (ui_out u) <= 1;
  cf_stout : forall u, In u (s_instrs S) -> ui_storage u = true -> ui_out u = [];
  cf_nstores : length (store_list S) = length (filter ui_storage (s_instrs S));
  cf_keys : nodupb_op (map fst m) = true;
  cf_ident : forall kn, In kn m -> snd kn = uses_total S (fst kn);
  cf_nodead : forall u, In u (s_instrs S) -> ui_storage u = false ->
              exists w, ui_out u = [w] /\ memb (OVar w) (map fst m) = true;
  cf_reasons : reasons_ok S [] (map fst m) = true
}.

Lemma lb_cert_facts : forall S m, lb_cert S m = true -> cert_facts S m.
Proof.
  intros S m H. unfold lb_cert in H.
  apply andb_true_iff in H. destruct H as [H Hreasons].
  apply andb_true_iff in H. destruct H as [H Hnodead].
  apply andb_true_iff in H. destruct H as [H Hident].
  apply andb_true_iff in H. destruct H as [H Hkeys].
  unfold cert_shape in H.
  apply andb_true_iff in H. destruct H as [H Hnst].
  apply andb_true_iff in H. destruct H as [H Hstout].
  apply andb_true_iff in H. destruct H as [H Hout1].
  apply andb_true_iff in H. destruct H as [H Houts].
  apply andb_true_iff in H. destruct H as [H Hsrcnd].
  apply andb_true_iff in H. destruct H as [Hids Hsrcv].
  constructor; auto.
  - intros u Hu. rewrite forallb_forall in Hout1. apply Nat.leb_le. now apply Hout1.
  - intros u Hu Hs. rewrite forallb_forall in Hstout. specialize (Hstout u Hu). rewrite Hs in Hstout.
    simpl in Hstout. destruct (ui_out u); [reflexivity|discriminate].
  - now apply Nat.eqb_eq.
  - intros kn Hin. unfold cert_identity in Hident. rewrite forallb_forall in Hident.
    apply Nat.eqb_eq. now apply Hident.
  - intros u Hu Hs. unfold cert_no_dead in Hnodead. rewrite forallb_forall in Hnodead.
    specialize (Hnodead u Hu). rewrite Hs in Hnodead. simpl in Hnodead.
    destruct (ui_out u) as [|w [|w2 r]]; try discriminate. exists w. auto.
Qed.

(* ------------------------------------------------------------------------------------- *)
(* one step lowers the potential by at most one *)

Lemma Phi_same_E : forall S m E stk stk' x,
  nodupb_op (map fst m) = true ->
  (forall k, count_in k stk <= count_in k stk' + b1 k x) ->
  (forall k, count_in k stk' <= count_in k stk + b1 k x) ->
  Phi S m E stk <= Phi S m E stk' + 1.
Proof.
  intros S m E stk stk' x N H1 H2. unfold Phi.
  assert (sumf (phi S E stk) m <= sumf (phi S E stk') m + 1); [|lia].
  apply sumf_le_one with (x := x); auto; intros kn Hin Ex; unfold phi;
    specialize (H1 (fst kn)); specialize (H2 (fst kn)); unfold b1 in *; rewrite Ex in *;
    destruct (1 <=? snd kn); lia.
Qed.

Lemma swap_count : forall k n (a b : operand) r,
  nth_error r (n - 1) = Some b -> 1 <= n ->
  count_in k (b :: firstn (n - 1) r ++ a :: skipn n r) = count_in k (a :: r).
Proof.
  intros k n a b r H Hn. destruct (nth_error_split_exact _ _ _ _ H) as [E _].
  replace (Datatypes.S (n - 1)) with n in E by lia.
  rewrite E at 3. rewrite !count_in_cons, !count_in_app, !count_in_cons. lia.
Qed.

Lemma step_potential : forall S m E stk st stk',
  cert_facts S m ->
  exec_step S stk st = inr stk' ->
  Phi S m E stk <= Phi S m (upd E st) stk' + (if is_nop st then 0 else 1).
Proof.
  intros S m E stk st stk' C H. destruct st as [|n|n| |z|id]; simpl in H; simpl upd; simpl is_nop.
  - (* POP *)
    destruct stk as [|v r]; [discriminate|]. inversion H; subst.
    apply Phi_same_E with (x := v); [apply (cf_keys _ _ C)| |]; intro k; rewrite count_in_cons; lia.
  - (* DUP *)
    destruct (depth_ok n); [|discriminate]. destruct (nth_error stk (n - 1)) as [v|]; [|discriminate].
    inversion H; subst.
    apply Phi_same_E with (x := v); [apply (cf_keys _ _ C)| |]; intro k; rewrite count_in_cons; lia.
  - (* SWAP *)
    destruct (depth_ok n) eqn:D; [|discriminate]. apply depth_ok_spec in D.
    destruct stk as [|a r]; [discriminate|]. destruct (nth_error r (n - 1)) as [b|] eqn:N; [|discriminate].
    inversion H; subst.
    apply Phi_same_E with (x := a); [apply (cf_keys _ _ C)| |]; intro k;
      rewrite (swap_count k n a b r N) by lia; lia.
  - (* NOP *) inversion H; subst. lia.
  - (* PUSH literal *)
    inversion H; subst.
    apply Phi_same_E with (x := OConst z); [apply (cf_keys _ _ C)| |]; intro k; rewrite count_in_cons; lia.
  - (* user instruction *)
    destruct (find_instr S id) as [u|] eqn:F; [|discriminate].
    destruct (length stk <? length (ui_in u)) eqn:L; [discriminate|].
    destruct (operands_eqb (firstn (length (ui_in u)) stk) (ui_in u)
              || ui_comm u && operands_eqb (firstn (length (ui_in u)) stk) (swap2 (ui_in u))) eqn:O;
      [|discriminate].
    inversion H; subst stk'. clear H.
    apply find_instr_some in F. destruct F as [Fin Fid]. subst id.
    assert (Hargs : forall k, count_in k (firstn (length (ui_in u)) stk) = count_in k (ui_in u)).
    { intro k. apply orb_true_iff in O. destruct O as [O|O].
      - apply operands_eqb_eq in O. now rewrite O.
      - apply andb_true_iff in O. destruct O as [_ O]. apply operands_eqb_eq in O. rewrite O.
        apply count_in_swap2. }
    set (n := length (ui_in u)) in *.
    (* per key *)
    assert (Hkey : forall kn, In kn m ->
              phi S E stk kn <= phi S (ui_id u :: E) (map OVar (ui_out u) ++ skipn n stk) kn
                                + count_in (fst kn) (map OVar (ui_out u))).
    { intros kn Hin. unfold phi.
      rewrite (count_in_firstn_skipn (fst kn) n stk), Hargs, count_in_app.
      destruct (1 <=? snd kn) eqn:U.
      - unfold dem.
        pose proof (pend_in_step (s_instrs S) u E (fst kn) (cf_ids _ _ C) Fin). lia.
      - assert (count_in (fst kn) (ui_in u) = 0).
        { apply Nat.leb_gt in U. pose proof (cf_ident _ _ C kn Hin) as I. unfold uses_total in I.
          pose proof (uses_ge (s_instrs S) u (fst kn) Fin). lia. }
        lia. }
    pose proof (pend_st_step (s_instrs S) u E (cf_ids _ _ C) Fin) as Hst.
    unfold Phi.
    destruct (ui_out u) as [|o [|o2 r]] eqn:Eo.
    + (* no output *)
      assert (sumf (phi S E stk) m <= sumf (phi S (ui_id u :: E) (map OVar [] ++ skipn n stk)) m).
      { apply sumf_le. intros kn Hin. specialize (Hkey kn Hin).
        change (count_in (fst kn) (map OVar [])) with 0 in Hkey. lia. }
      destruct (ui_storage u); simpl in *; lia.
    + (* one output: not a storage instruction *)
      assert (ui_storage u = false).
      { destruct (ui_storage u) eqn:Su; [|reflexivity]. pose proof (cf_stout _ _ C u Fin Su). congruence. }
      rewrite H in Hst.
      assert (sumf (phi S E stk) m <= sumf (phi S (ui_id u :: E) (map OVar [o] ++ skipn n stk)) m + 1); [|lia].
      apply sumf_le_one with (x := OVar o); [apply (cf_keys _ _ C)| |]; intros kn Hin Ex;
        specialize (Hkey kn Hin);
        change (count_in (fst kn) (map OVar [o])) with (count_in (fst kn) [OVar o]) in Hkey;
        rewrite (count_in_cons (fst kn) (OVar o) []) in Hkey; unfold b1 in Hkey;
        rewrite Ex in Hkey; change (count_in (fst kn) []) with 0 in Hkey; lia.
    + (* two outputs: excluded *)
      pose proof (cf_out1 _ _ C u Fin) as L1. rewrite Eo in L1. simpl in L1. lia.
Qed.

Fixpoint updl (E : list nat) (q : list step) : list nat :=
  match q with
  | [] => E
  | st :: r => updl (upd E st) r
  end.

Lemma run_potential : forall S m q E stk peak pos stk' peak',
  cert_facts S m ->
  run S stk peak pos q = inr (stk', peak') ->
  Phi S m E stk <= Phi S m (updl E q) stk' + seq_len q.
Proof.
  intros S m q. induction q as [|st r IH]; intros E stk peak pos stk' peak' C H; simpl in H.
  - inversion H; subst. simpl. unfold seq_len. simpl. lia.
  - destruct (exec_step S stk st) as [e|stk1] eqn:X; [discriminate|].
    pose proof (step_potential S m E stk st stk1 C X) as P1.
    pose proof (IH (upd E st) stk1 _ _ _ _ C H) as P2. simpl updl.
    unfold seq_len in *. simpl. destruct (is_nop st); simpl in *; lia.
Qed.

(* ------------------------------------------------------------------------------------- *)
(* the potential starts at minsize *)

Lemma memb_false_count : forall k l, memb k l = false -> count_in k l = 0.
Proof.
  intros k l. induction l as [|a r IH]; intro H; [reflexivity|].
  unfold memb in H. simpl in H. apply orb_false_iff in H. destruct H as [H1 H2].
  rewrite count_in_cons. unfold b1. rewrite H1. simpl. now apply IH.
Qed.

Lemma nodup_count_le1 : forall k l, nodupb_op l = true -> count_in k l <= 1.
Proof.
  intros k l. induction l as [|a r IH]; intro H; [unfold count_in; simpl; lia|].
  simpl in H. apply andb_true_iff in H. destruct H as [H1 H2]. rewrite count_in_cons. unfold b1.
  destruct (operand_eqb k a) eqn:E.
  - apply operand_eqb_eq in E. subst a. apply negb_true_iff in H1. rewrite (memb_false_count _ _ H1). lia.
  - specialize (IH H2). lia.
Qed.

Lemma pend_in_nil : forall l k, pend_in l [] k = fold_right (fun u a => count_in k (ui_in u) + a) 0 l.
Proof. intros l k. induction l as [|a r IH]; simpl; [reflexivity|]. now rewrite IH. Qed.

Lemma pend_st_nil : forall l, pend_st l [] = length (filter ui_storage l).
Proof.
  intro l. induction l as [|a r IH]; [reflexivity|]. rewrite pend_st_cons, IH. simpl.
  unfold executed. simpl. rewrite andb_true_r. destruct (ui_storage a); reflexivity.
Qed.

Lemma Phi_init : forall S m, cert_facts S m -> Phi S m [] (s_src S) = minsize_of S m.
Proof.
  intros S m C. unfold Phi, minsize_of. rewrite pend_st_nil, <- (cf_nstores _ _ C). f_equal.
  assert (G : forall l : occmap, (forall kn, In kn l -> In kn m) ->
              sumf (phi S [] (s_src S)) l = fold_right (fun kn a => contribution S kn + a) 0 l).
  { induction l as [|kn r IH]; intro Hsub; [reflexivity|]. cbn [sumf fold_right]. fold (sumf (phi S [] (s_src S)) r).
    rewrite IH by (intros; apply Hsub; now right).
    f_equal. unfold phi, contribution. destruct kn as [k n]. cbn [fst snd].
    pose proof (cf_ident _ _ C (k, n) (Hsub _ (or_introl eq_refl))) as I. cbn [fst snd] in I.
    unfold dem. rewrite pend_in_nil. unfold uses_total in I. rewrite <- I.
    pose proof (nodup_count_le1 k (s_src S) (cf_srcnodup _ _ C)) as L1.
    set (c := count_in k (s_src S)) in *.
    destruct (Nat.leb_spec 1 n); destruct (Nat.leb_spec 1 c); try destruct (Nat.leb_spec n c); lia. }
  apply G. auto.
Qed.

(* ------------------------------------------------------------------------------------- *)
(* and ends at 0 once every instruction has been executed *)

Lemma pend_in_all : forall l E k, (forall u, In u l -> executed E (ui_id u) = true) -> pend_in l E k = 0.
Proof.
  intros l E k. induction l as [|a r IH]; intro H; [reflexivity|]. simpl.
  rewrite (H a (or_introl eq_refl)). rewrite IH; [reflexivity|]. intros; apply H; now right.
Qed.

Lemma pend_st_all : forall l E, (forall u, In u l -> executed E (ui_id u) = true) -> pend_st l E = 0.
Proof.
  intros l E. induction l as [|a r IH]; intro H; [reflexivity|]. rewrite pend_st_cons.
  rewrite (H a (or_introl eq_refl)). rewrite andb_false_r. rewrite IH; [reflexivity|]. intros; apply H; now right.
Qed.

Lemma Phi_final : forall S m E, cert_facts S m ->
  (forall u, In u (s_instrs S) -> executed E (ui_id u) = true) -> Phi S m E (s_tgt S) = 0.
Proof.
  intros S m E C H. unfold Phi. rewrite pend_st_all by exact H. simpl.
  assert (G : forall l : occmap, (forall kn, In kn l -> In kn m) -> sumf (phi S E (s_tgt S)) l = 0).
  { induction l as [|kn r IH]; intro Hsub; [reflexivity|]. simpl. rewrite IH by (intros; apply Hsub; now right).
    unfold phi, dem. rewrite pend_in_all by exact H.
    pose proof (cf_ident _ _ C kn (Hsub _ (or_introl eq_refl))) as I. unfold uses_total in I.
    destruct (1 <=? snd kn) eqn:U; [lia|]. apply Nat.leb_gt in U. lia. }
  apply G. auto.
Qed.

(* ------------------------------------------------------------------------------------- *)
(* every instruction gets executed: values on the stack come from somewhere *)

Definition avail (S : spec) (E : list nat) (v : operand) : Prop :=
  In v (s_src S) \/ (exists z, v = OConst z) \/
  exists u, In u (s_instrs S) /\ executed E (ui_id u) = true /\ In v (map OVar (ui_out u)).

Definition J (S : spec) (E : list nat) (stk : list operand) : Prop :=
  (forall v, In v stk -> avail S E v) /\
  (forall u, In u (s_instrs S) -> executed E (ui_id u) = true -> forall v, In v (ui_in u) -> avail S E v).

Lemma executed_mono : forall id E id', executed E id' = true -> executed (id :: E) id' = true.
Proof. intros. rewrite executed_cons. rewrite H. apply orb_true_r. Qed.

Lemma avail_mono : forall S E id v, avail S E v -> avail S (id :: E) v.
Proof.
  intros S E id v [H|[H|(u & H1 & H2 & H3)]]; [now left|right; now left|].
  right; right. exists u. repeat split; auto. now apply executed_mono.
Qed.

Lemma ids_unique : forall l u u', nodupb_n (map ui_id l) = true ->
  In u l -> In u' l -> ui_id u = ui_id u' -> u = u'.
Proof.
  intros l u u'. induction l as [|a r IH]; intros N H1 H2 E; [contradiction|].
  simpl map in N. apply nodupb_n_cons in N. destruct N as [N1 N2].
  destruct H1 as [->|H1]; destruct H2 as [->|H2]; auto.
  - exfalso. apply (N1 (ui_id u')); [now apply in_map|]. now symmetry.
  - exfalso. apply (N1 (ui_id u)); [now apply in_map|]. exact E.
Qed.

Lemma swap2_in : forall (v : operand) l, In v (swap2 l) -> In v l.
Proof.
  intros v l. destruct l as [|a [|b [|c r]]]; simpl; auto. intros [H|[H|H]]; auto.
Qed.

Lemma in_firstn : forall (A : Type) (x : A) n l, In x (firstn n l) -> In x l.
Proof.
  intros A x n. induction n as [|n IH]; intros l H; [contradiction|].
  destruct l as [|a r]; [contradiction|]. simpl in H. destruct H as [H|H]; [now left|right; now apply IH].
Qed.

Lemma in_skipn : forall (A : Type) (x : A) n l, In x (skipn n l) -> In x l.
Proof.
  intros A x n. induction n as [|n IH]; intros l H; [exact H|].
  destruct l as [|a r]; [contradiction|]. simpl in H. right. now apply IH.
Qed.

Lemma step_J : forall S m E stk st stk',
  cert_facts S m -> exec_step S stk st = inr stk' -> J S E stk -> J S (upd E st) stk'.
Proof.
  intros S m E stk st stk' C H [J1 J2]. destruct st as [|n|n| |z|id]; simpl in H; simpl upd.
  - destruct stk as [|v r]; [discriminate|]. inversion H; subst. split; [|exact J2].
    intros v' Hv. apply J1. now right.
  - destruct (depth_ok n); [|discriminate]. destruct (nth_error stk (n - 1)) as [v|] eqn:N; [|discriminate].
    inversion H; subst. split; [|exact J2]. intros v' [<-|Hv]; [|now apply J1].
    apply J1. eapply nth_error_In; exact N.
  - destruct (depth_ok n); [|discriminate]. destruct stk as [|a r]; [discriminate|].
    destruct (nth_error r (n - 1)) as [b|] eqn:N; [|discriminate]. inversion H; subst.
    split; [|exact J2]. intros v' [<-|Hv].
    + apply J1. right. eapply nth_error_In; exact N.
    + apply in_app_or in Hv. destruct Hv as [Hv|[<-|Hv]].
      * apply J1. right. eapply in_firstn; exact Hv.
      * apply J1. now left.
      * apply J1. right. eapply in_skipn; exact Hv.
  - inversion H; subst. now split.
  - inversion H; subst. split; [|exact J2]. intros v' [<-|Hv]; [right; left; now exists z|now apply J1].
  - destruct (find_instr S id) as [u|] eqn:F; [|discriminate].
    destruct (length stk <? length (ui_in u)) eqn:L; [discriminate|].
    destruct (operands_eqb (firstn (length (ui_in u)) stk) (ui_in u)
              || ui_comm u && operands_eqb (firstn (length (ui_in u)) stk) (swap2 (ui_in u))) eqn:O;
      [|discriminate].
    inversion H; subst stk'. clear H. apply find_instr_some in F. destruct F as [Fin Fid]. subst id.
    assert (Hin : forall v, In v (ui_in u) -> In v stk).
    { intros v Hv. apply orb_true_iff in O. destruct O as [O|O].
      - apply operands_eqb_eq in O. rewrite <- O in Hv. eapply in_firstn; exact Hv.
      - apply andb_true_iff in O. destruct O as [_ O]. apply operands_eqb_eq in O.
        apply (in_firstn _ v (length (ui_in u))). rewrite O.
        destruct (ui_in u) as [|a [|b [|c r]]]; simpl in *; tauto. }
    assert (Eu : executed (ui_id u :: E) (ui_id u) = true).
    { rewrite executed_cons. now rewrite Nat.eqb_refl. }
    split.
    + intros v Hv. apply in_app_or in Hv. destruct Hv as [Hv|Hv].
      * right; right. exists u. auto.
      * apply avail_mono. apply J1. eapply in_skipn; exact Hv.
    + intros u' Hu' Ex v Hv. rewrite executed_cons in Ex. apply orb_true_iff in Ex. destruct Ex as [Ex|Ex].
      * apply Nat.eqb_eq in Ex. assert (u' = u) by (eapply ids_unique; eauto; apply (cf_ids _ _ C)). subst u'.
        apply avail_mono. apply J1. now apply Hin.
      * apply avail_mono. eapply J2; eauto.
Qed.

Lemma run_J : forall S m q E stk peak pos stk' peak',
  cert_facts S m -> run S stk peak pos q = inr (stk', peak') -> J S E stk -> J S (updl E q) stk'.
Proof.
  intros S m q. induction q as [|st r IH]; intros E stk peak pos stk' peak' C H HJ; simpl in H.
  - inversion H; subst. exact HJ.
  - destruct (exec_step S stk st) as [e|stk1] eqn:X; [discriminate|]. simpl updl.
    eapply IH; eauto. eapply step_J; eauto.
Qed.

Lemma updl_mono : forall q E id, executed E id = true -> executed (updl E q) id = true.
Proof.
  induction q as [|st r IH]; intros E id H; [exact H|]. simpl. apply IH.
  destruct st; simpl; auto. now apply executed_mono.
Qed.

Lemma updl_in : forall q E id, In (SIns id) q -> executed (updl E q) id = true.
Proof.
  induction q as [|st r IH]; intros E id H; [contradiction|]. simpl. destruct H as [->|H].
  - apply updl_mono. simpl. rewrite executed_cons. now rewrite Nat.eqb_refl.
  - now apply IH.
Qed.

Lemma count_ins_in : forall id q, count_ins id q = 1 -> In (SIns id) q.
Proof.
  intros id q H. unfold count_ins in H.
  destruct (filter (is_ins id) q) as [|st r] eqn:F; [discriminate|].
  assert (Hin : In st (filter (is_ins id) q)) by (rewrite F; now left).
  apply filter_In in Hin. destruct Hin as [Hin Hi]. destruct st; simpl in Hi; try discriminate.
  apply Nat.eqb_eq in Hi. now subst.
Qed.

Lemma nodupb_app_r : forall l1 l2, nodupb_n (l1 ++ l2) = true -> nodupb_n l2 = true.
Proof.
  induction l1 as [|a r IH]; intros l2 H; [exact H|]. simpl app in H. apply nodupb_n_cons in H. now apply IH.
Qed.

Lemma nodupb_app_disj : forall l1 l2 o, nodupb_n (l1 ++ l2) = true -> In o l1 -> In o l2 -> False.
Proof.
  induction l1 as [|a r IH]; intros l2 o H H1 H2; [contradiction|].
  simpl app in H. apply nodupb_n_cons in H. destruct H as [N1 N2]. destruct H1 as [->|H1].
  - apply (N1 o); [apply in_or_app; now right|reflexivity].
  - eapply IH; eauto.
Qed.

Lemma outs_unique : forall l X u u' o, nodupb_n (flat_map ui_out l ++ X) = true ->
  In u l -> In u' l -> In o (ui_out u) -> In o (ui_out u') -> u = u'.
Proof.
  induction l as [|a r IH]; intros X u u' o N H1 H2 O1 O2; [contradiction|].
  simpl flat_map in N. rewrite <- app_assoc in N.
  destruct H1 as [->|H1]; destruct H2 as [->|H2]; auto.
  - exfalso. eapply nodupb_app_disj; [exact N|exact O1|]. apply in_or_app. left. apply in_flat_map. eauto.
  - exfalso. eapply nodupb_app_disj; [exact N|exact O2|]. apply in_or_app. left. apply in_flat_map. eauto.
  - eapply IH; eauto. eapply nodupb_app_r; exact N.
Qed.

Lemma memb_in : forall a l, memb a l = true -> In a l.
Proof.
  intros a l H. apply memb_spec in H. destruct H as (b & Hb & E). apply operand_eqb_eq in E. now subst.
Qed.

Section AllExecuted.
  Context (S : spec) (m : occmap) (Ef : list nat).
  Hypothesis C : cert_facts S m.
  Hypothesis HJ : J S Ef (s_tgt S).
  Hypothesis Hst : forall u, In u (s_instrs S) -> ui_storage u = true -> executed Ef (ui_id u) = true.

  Lemma produced_executed : forall u o, In u (s_instrs S) -> In o (ui_out u) ->
    avail S Ef (OVar o) -> executed Ef (ui_id u) = true.
  Proof.
    intros u o Hu Ho [H|[(z & H)|(u' & H1 & H2 & H3)]].
    - exfalso. eapply nodupb_app_disj; [apply (cf_outs _ _ C)| |].
      + apply in_flat_map. exists u. split; eauto.
      + unfold src_var_list. apply in_flat_map. exists (OVar o). split; [exact H|now left].
    - discriminate.
    - apply in_map_iff in H3. destruct H3 as (o' & E & Ho'). inversion E; subst o'.
      assert (u = u') by (eapply outs_unique; eauto; apply (cf_outs _ _ C)). now subst.
  Qed.

  Lemma reasons_avail : forall ks pre, reasons_ok S pre ks = true ->
    (forall w, In w pre -> avail S Ef w) -> forall w, In w ks -> avail S Ef w.
  Proof.
    induction ks as [|k r IH]; intros pre H Hpre w Hw; [contradiction|].
    simpl in H. apply andb_true_iff in H. destruct H as [R H].
    assert (Ak : avail S Ef k).
    { unfold reason_ok in R. apply orb_true_iff in R. destruct R as [R|R].
      - apply orb_true_iff in R. destruct R as [R|R].
        + apply orb_true_iff in R. destruct R as [R|R].
          * left. now apply memb_in.
          * apply (proj1 HJ). now apply memb_in.
        + apply existsb_exists in R. destruct R as (u & Hu & R). apply andb_true_iff in R. destruct R as [R1 R2].
          apply (proj2 HJ u Hu (Hst u Hu R1)). now apply memb_in.
      - apply existsb_exists in R. destruct R as (u & Hu & R). apply andb_true_iff in R. destruct R as [R1 R2].
        apply existsb_exists in R2. destruct R2 as (o & Ho & R2). apply memb_in in R2.
        apply (proj2 HJ u Hu); [|now apply memb_in].
        eapply produced_executed; eauto. }
    destruct Hw as [<-|Hw]; [exact Ak|].
    eapply IH; [exact H| |exact Hw]. intros w' Hw'. apply in_app_or in Hw'. destruct Hw' as [Hw'|[<-|[]]]; auto.
  Qed.

  Lemma all_executed : forall u, In u (s_instrs S) -> executed Ef (ui_id u) = true.
  Proof.
    intros u Hu. destruct (ui_storage u) eqn:Su; [now apply Hst|].
    destruct (cf_nodead _ _ C u Hu Su) as (w & Ew & Mw). apply memb_in in Mw.
    apply (produced_executed u w Hu); [rewrite Ew; now left|].
    eapply reasons_avail; [apply (cf_reasons _ _ C)| |exact Mw]. intros ? [].
  Qed.
End AllExecuted.

(* ------------------------------------------------------------------------------------- *)
(* The lower bound *)

Theorem minsize_lower_bound_cert : forall S m q,
  lb_cert S m = true -> realizes S q = true -> minsize_of S m <= seq_len q.
Proof.
  intros S m q Hc Hr. pose proof (lb_cert_facts _ _ Hc) as C.
  destruct (realizes_inv S q Hr) as (peak & R & Est & _).
  pose proof (run_potential S m q [] _ _ _ _ _ C R) as P.
  rewrite (Phi_init S m C) in P.
  assert (HJ0 : J S [] (s_src S)).
  { split; [intros v Hv; now left|]. intros u _ Ex. discriminate. }
  pose proof (run_J S m q [] _ _ _ _ _ C R HJ0) as HJ.
  assert (Hst : forall u, In u (s_instrs S) -> ui_storage u = true -> executed (updl [] q) (ui_id u) = true).
  { intros u Hu Su. apply updl_in. apply count_ins_in.
    unfold store_errors in Est. pose proof (flat_map_nil _ _ _ _ Est u Hu) as F. simpl in F. rewrite Su in F.
    destruct (count_ins (ui_id u) q =? 1) eqn:E1; [now apply Nat.eqb_eq|discriminate]. }
  rewrite (Phi_final S m (updl [] q) C (all_executed S m _ C HJ Hst)) in P. lia.
Qed.

(* in terms of the model of minsize_from_json *)
Theorem minsize_lower_bound_partial : forall S q n,
  ms_wf_spec S = true -> minsize S = Some n -> realizes S q = true -> n <= seq_len q.
Proof.
  intros S q n Hw Hm Hr. unfold ms_wf_spec in Hw. unfold minsize in Hm.
  destruct (count_ops S) as [m|]; [|discriminate]. inversion Hm; subst.
  now apply minsize_lower_bound_cert.
Qed.

Theorem minsize_excludes_short : forall S q n len sk,
  ms_wf_spec S = true -> minsize S = Some n -> len < n -> realizes_bounded S q len sk = false.
Proof.
  intros S q n len sk Hw Hm Hl. destruct (realizes_bounded S q len sk) eqn:R; [|reflexivity].
  exfalso. apply realizes_bounded_sound in R. destruct R as (Hr & L & _).
  pose proof (minsize_lower_bound_partial S q n Hw Hm Hr). lia.
Qed.

(* ------------------------------------------------------------------------------------- *)
(* The unrestricted statement is false: a dead three-operand instruction. *)
From Coq Require Import String.
Local Open Scope string_scope.

Definition dead_spec : spec :=
  mkSpec [OVar 0; OVar 1; OVar 2] []
    [mkUI 0 "ADDMOD" [OVar 0; OVar 1; OVar 2] [3] false false false None 8 1]
    [] [] [] 4 4 3 3.

Theorem minsize_full_refuted :
  exists S q n, wf_spec S = true /\ minsize S = Some n /\ realizes S q = true /\ seq_len q < n.
Proof.
  exists dead_spec, [SIns 0; SPop], 3. vm_compute. repeat split; auto.
Qed.

Example ex_minsize : ms_wf_spec ex_spec = true /\ minsize ex_spec = Some 9.
Proof. vm_compute. split; reflexivity. Qed.

(* block `PUSH0 AND`, rule AND(X,0): the specification the front end publishes *)
Definition push0_and_spec : spec :=
  mkSpec [OVar 0] [OVar 2]
    [mkUI 0 "PUSH0" [] [2] false false true (Some 0%Z) 2 2]
    [] [] [] 1 2 2 2.

Example push0_and_infeasible : forall q sk, realizes_bounded push0_and_spec q 1 sk = false.
Proof.
  intros q sk. apply (minsize_excludes_short push0_and_spec q 2 1 sk); [vm_compute; reflexivity|vm_compute; reflexivity|lia].
Qed.
