(* C13: the table of set-iteration sites and the order-parametric models of the order-exposed ones.
   Definitions only; proofs are in Model/OrderIndepProofs.v. *)
From Coq Require Import List NArith Bool String.
Import ListNotations.

Inductive site_status :=
| Discharged (lemma : string)     (* order cannot be observed: justified by the generic lemma named *)
| Unreachable                     (* the function is not reachable from the per-block entries (call graph of C12) *)
| Modelled (theorem : string)     (* order-parametric model proved order independent *)
| DynamicOnly (why : string)      (* NOT proved: validated by forced-order replay only *)
| Undischarged (why : string).    (* a new site: breaks the obligation *)

Record site := mkSite {
  s_module : string; s_function : string; s_line : N; s_what : string; s_status : site_status }.

Definition known_lemmas : list string :=
  ["set_build_perm"; "length_perm"; "existsb_perm"; "forallb_perm"; "sum_perm"; "sort_perm"; "min_perm";
   "max_perm"; "mem_perm"; "pointwise_update_perm"; "delete_keys_perm"]%string.

Definition accounted (s : site) : bool :=
  match s_status s with
  | Undischarged _ => false
  | Discharged l | Modelled l => existsb (String.eqb l) known_lemmas
  | _ => true
  end.
Definition all_accounted (l : list site) : bool := forallb accounted l.

Definition dynamic_only (l : list site) : list (string * string) :=
  flat_map (fun s => match s_status s with DynamicOnly _ => [(s_module s, s_function s)] | _ => [] end) l.
Definition proved_or_unobservable (l : list site) : list site :=
  filter (fun s => match s_status s with DynamicOnly _ | Undischarged _ => false | _ => true end) l.

(* ---- models with the iteration order [pi] explicit ---- *)

(* a set built from a sequence, as its membership predicate *)
Definition set_build (l : list N) : N -> bool := fun x => existsb (N.eqb x) l.

(* greedy/block_generation.py SMSgreedy.target: `for w in needed_set: m[w] += g(w)` *)
Definition upd {V : Type} (m : N -> V) (k : N) (v : V) : N -> V := fun x => if N.eqb x k then v else m x.
Definition pointwise_update {V : Type} (f : N -> V -> V) (pi : list N) (m : N -> V) : N -> V :=
  fold_left (fun m k => upd m k (f k (m k))) pi m.

(* greedy/block_generation.py SMSgreedy.target: `for o in to_remove: uses.pop(o, None)`;
   a dict is an insertion-ordered association list *)
Definition delete_key {V : Type} (d : list (N * V)) (k : N) : list (N * V) :=
  filter (fun p => negb (N.eqb (fst p) k)) d.
Definition delete_keys {V : Type} (pi : list N) (d : list (N * V)) : list (N * V) := fold_left delete_key pi d.

(* sorted(...) without key on totally ordered distinct elements: insertion sort *)
Fixpoint insert (x : N) (l : list N) : list N :=
  match l with
  | [] => [x]
  | y :: r => if N.leb x y then x :: l else y :: insert x r
  end.
Definition isort (l : list N) : list N := fold_right insert [] l.
