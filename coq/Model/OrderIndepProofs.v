From Coq Require Import List NArith Bool Permutation Lia.
From GV Require Import Model.OrderIndep.
Import ListNotations.

(* ---- generic: folds of commuting steps are permutation invariant ---- *)
Lemma fold_left_comm_perm : forall (A B : Type) (f : A -> B -> A),
  (forall a x y, f (f a x) y = f (f a y) x) ->
  forall l l', Permutation l l' -> forall a, fold_left f l a = fold_left f l' a.
Proof.
  intros A B f Hc l l' HP. induction HP; intros a; simpl.
  - reflexivity.
  - apply IHHP.
  - rewrite Hc. reflexivity.
  - rewrite IHHP1. apply IHHP2.
Qed.

Section FoldR.
  Variables (A B : Type) (R : A -> A -> Prop) (f : A -> B -> A).
  Hypothesis Rrefl : forall a, R a a.
  Hypothesis Rtrans : forall a b c, R a b -> R b c -> R a c.
  Hypothesis Hcompat : forall a a' x, R a a' -> R (f a x) (f a' x).
  Hypothesis Hcomm : forall a x y, R (f (f a x) y) (f (f a y) x).

  Lemma fold_left_R : forall l a a', R a a' -> R (fold_left f l a) (fold_left f l a').
  Proof. induction l as [| x l IH]; intros a a' H; simpl; [exact H | apply IH; apply Hcompat; exact H]. Qed.

  Lemma fold_left_perm_R : forall l l', Permutation l l' ->
    forall a a', R a a' -> R (fold_left f l a) (fold_left f l' a').
  Proof.
    intros l l' HP. induction HP; intros a a' H; simpl.
    - exact H.
    - apply IHHP. apply Hcompat. exact H.
    - apply fold_left_R. eapply Rtrans; [apply Hcomm |]. apply Hcompat. apply Hcompat. exact H.
    - eapply Rtrans; [apply IHHP1; exact H | apply IHHP2; apply Rrefl].
  Qed.
End FoldR.

(* ---- discharged classes ---- *)
Theorem length_perm : forall (l l' : list N), Permutation l l' -> List.length l = List.length l'.
Proof. intros; apply Permutation_length; assumption. Qed.

Theorem mem_perm : forall (l l' : list N) x, Permutation l l' -> existsb (N.eqb x) l = existsb (N.eqb x) l'.
Proof.
  intros l l' x HP. induction HP; simpl.
  - reflexivity.
  - rewrite IHHP. reflexivity.
  - destruct (N.eqb x y), (N.eqb x x0); reflexivity.
  - congruence.
Qed.

Theorem set_build_perm : forall l l', Permutation l l' -> forall x, set_build l x = set_build l' x.
Proof. intros l l' HP x. unfold set_build. apply mem_perm. exact HP. Qed.

Theorem existsb_perm : forall (p : N -> bool) l l', Permutation l l' -> existsb p l = existsb p l'.
Proof.
  intros p l l' HP. induction HP; simpl.
  - reflexivity.
  - rewrite IHHP; reflexivity.
  - destruct (p y), (p x); reflexivity.
  - congruence.
Qed.

Theorem forallb_perm : forall (p : N -> bool) l l', Permutation l l' -> forallb p l = forallb p l'.
Proof.
  intros p l l' HP. induction HP; simpl.
  - reflexivity.
  - rewrite IHHP; reflexivity.
  - destruct (p y), (p x); reflexivity.
  - congruence.
Qed.

Theorem sum_perm : forall l l' a, Permutation l l' -> fold_left N.add l a = fold_left N.add l' a.
Proof. intros l l' a HP. apply fold_left_comm_perm; [intros; lia | exact HP]. Qed.

Theorem min_perm : forall l l' a, Permutation l l' -> fold_left N.min l a = fold_left N.min l' a.
Proof. intros l l' a HP. apply fold_left_comm_perm; [intros; lia | exact HP]. Qed.

Theorem max_perm : forall l l' a, Permutation l l' -> fold_left N.max l a = fold_left N.max l' a.
Proof. intros l l' a HP. apply fold_left_comm_perm; [intros; lia | exact HP]. Qed.

(* sorted(): insertion commutes, hence sorting a permutation gives the same list *)
Lemma insert_comm : forall x y l, insert x (insert y l) = insert y (insert x l).
Proof.
  intros x y l. induction l as [| z l IH]; simpl.
  - destruct (N.leb x y) eqn:E1, (N.leb y x) eqn:E2; try reflexivity.
    + apply N.leb_le in E1, E2. assert (x = y) by lia. subst. reflexivity.
    + apply N.leb_gt in E1, E2. lia.
  - destruct (N.leb y z) eqn:Eyz, (N.leb x z) eqn:Exz; simpl.
    + destruct (N.leb x y) eqn:E1, (N.leb y x) eqn:E2; rewrite ?Eyz, ?Exz; try reflexivity.
      * apply N.leb_le in E1, E2. assert (x = y) by lia. subst. reflexivity.
      * apply N.leb_gt in E1, E2. lia.
    + rewrite Eyz. destruct (N.leb x y) eqn:E1.
      * apply N.leb_le in E1, Eyz. apply N.leb_gt in Exz. lia.
      * rewrite Exz. reflexivity.
    + rewrite Exz. destruct (N.leb y x) eqn:E2.
      * apply N.leb_le in E2, Exz. apply N.leb_gt in Eyz. lia.
      * rewrite Eyz. reflexivity.
    + rewrite Eyz, Exz. rewrite IH. reflexivity.
Qed.

Theorem sort_perm : forall l l', Permutation l l' -> isort l = isort l'.
Proof.
  intros l l' HP. unfold isort. induction HP; simpl.
  - reflexivity.
  - rewrite IHHP. reflexivity.
  - apply insert_comm.
  - congruence.
Qed.

(* ---- modelled order-exposed sites ---- *)
Theorem pointwise_update_perm : forall (V : Type) (f : N -> V -> V) pi pi' m,
  Permutation pi pi' -> forall x, pointwise_update f pi m x = pointwise_update f pi' m x.
Proof.
  intros V f pi pi' m HP.
  unfold pointwise_update.
  apply (fold_left_perm_R (N -> V) N (fun a b => forall x, a x = b x)
           (fun m k => upd m k (f k (m k)))); try exact HP.
  - intros a x; reflexivity.
  - intros a b c H1 H2 x; rewrite H1; apply H2.
  - intros a a' k H x. unfold upd. destruct (N.eqb x k); [rewrite H; reflexivity | apply H].
  - intros a k1 k2 x. unfold upd.
    destruct (N.eqb_spec x k2) as [E2 | E2]; destruct (N.eqb_spec x k1) as [E1 | E1]; subst.
    + rewrite !N.eqb_refl. reflexivity.
    + destruct (N.eqb_spec k2 k1); [subst; contradiction | reflexivity].
    + destruct (N.eqb_spec k1 k2); [subst; contradiction | reflexivity].
    + reflexivity.
  - intros x; reflexivity.
Qed.

Lemma filter_comm : forall (A : Type) (p q : A -> bool) l, filter p (filter q l) = filter q (filter p l).
Proof.
  intros A p q l. induction l as [| a l IH]; simpl; [reflexivity |].
  destruct (q a) eqn:Eq, (p a) eqn:Ep; simpl; rewrite ?Eq, ?Ep, IH; reflexivity.
Qed.

Theorem delete_keys_perm : forall (V : Type) pi pi' (d : list (N * V)),
  Permutation pi pi' -> delete_keys pi d = delete_keys pi' d.
Proof.
  intros V pi pi' d HP. unfold delete_keys. apply fold_left_comm_perm; [| exact HP].
  intros a x y. unfold delete_key. apply filter_comm.
Qed.
