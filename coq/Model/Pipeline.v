(* The optimizer as a pipeline parametric in its untrusted parts.
   [search] stands for everything GASOL does to produce a candidate block
   (specification generation, rules, greedy / Max-SMT search, rebuild, its own
   checker): an arbitrary function.  The validated pipeline keeps the candidate
   only if the proved validator accepts it.  The correspondence check run on
   every input is: the block GASOL emits equals [optimize_block search b] when
   [search] is instantiated with GASOL's candidate, i.e. the emitted block is the
   input block or is accepted by [equiv_block]. *)
From Coq Require Import ZArith List Bool.
From GV Require Import Ref.EVM Val.Equiv.
Import ListNotations.

Section Pipeline.
  Variable search : list instr -> list instr.

  Definition optimize_block (b : list instr) : list instr :=
    let c := search b in if equiv_block b c then c else b.

  Definition optimize_contract (bs : list (list instr)) : list (list instr) := map optimize_block bs.
End Pipeline.
