(* Lemmas about the GENERATED PUSH0 functions (Gen/Push0.v, Gen/CostTables.v) and the contract
   filter model (Model/Cost.v). C17. *)
From Coq Require Import ZArith List Bool String Ascii Lia.
From GV Require Import Model.CostPrelude Ref.Cost Gen.Push0 Gen.CostTables Model.Cost Model.CostProofs.
Import ListNotations.
Open Scope string_scope.
Open Scope Z_scope.

(* ------------------------------------------------------------------ PUSH0 disabled *)

(* the SFS instruction built for a pushed constant is never named PUSH0 when the switch is off *)
Lemma push0_off_no_push0_sfs : forall idx v out,
  o_disasm (generate_push_instruction false idx v out) = "PUSH" /\
  o_id (generate_push_instruction false idx v out) = String.append "PUSH_" (py_str_Z idx).
Proof.
  intros idx v out. unfold generate_push_instruction. cbn [o_disasm o_id negb].
  rewrite !orb_true_r. split; reflexivity.
Qed.

(* parsing does not introduce PUSH0 when the switch is off *)
Lemma push0_off_parse_identity : forall name value,
  build_asm_bytecode_item false name value = mkItem name value.
Proof. reflexivity. Qed.

(* the emitter never produces the NAME "PUSH0" from an SFS instruction, whatever the switch:
   an emitted item is named PUSH0 only if the id is not an SFS instruction and is itself "PUSH0" *)
Lemma emit_named_push0_only_verbatim : forall uf id,
  i_disasm (id_to_asm_bytecode uf id) = "PUSH0" -> dict_mem uf id = false /\ id = "PUSH0".
Proof.
  intros uf id. unfold id_to_asm_bytecode.
  destruct (dict_mem uf id) eqn:Hm.
  - cbn zeta.
    destruct (String.eqb (u_disasm (dict_get uf id (mkUInstr "" None))) "PUSH0") eqn:E0.
    + cbn. discriminate.
    + destruct (_ || _ || _); cbn [i_disasm]; intros H; apply String.eqb_neq in E0; contradiction.
  - cbn [i_disasm]. intros ->. split; reflexivity.
Qed.

(* printing: with the switch off, an item prints as "PUSH0" only if it is itself named PUSH0 *)
Lemma append_space_not_push0 : forall d v, String.append d (String.append " " v) <> "PUSH0".
Proof.
  intros d v H.
  assert (Hin : forall s, s = "PUSH0" -> forall a, String.index 0 " " s = Some a -> False)
    by (intros s -> a Ha; cbv in Ha; discriminate).
  destruct d as [|a0 [|a1 [|a2 [|a3 [|a4 [|a5 d]]]]]]; cbn in H; try discriminate;
    repeat match goal with
           | H : String _ _ = String _ _ |- _ => injection H as ? H
           end; subst; try discriminate.
Qed.

Lemma push0_off_to_plain : forall i,
  AsmBytecode_to_plain false i = "PUSH0" -> i_disasm i = "PUSH0".
Proof.
  intros i. unfold AsmBytecode_to_plain, is_push0. cbn [andb].
  destruct (negb (opt_is_none (i_value i)) && negb (py_substr "JUMP" (i_disasm i))).
  - intros H. exfalso. apply (append_space_not_push0 (i_disasm i) (String.append (unopt_string (i_value i)) "")). exact H.
  - trivial.
Qed.

(* the property's first clause on the generated functions: switch off => the emitted NAME is not PUSH0
   for every id that denotes an SFS instruction *)
Lemma push0_off_no_push0 : forall uf id,
  dict_mem uf id = true -> i_disasm (id_to_asm_bytecode uf id) <> "PUSH0".
Proof.
  intros uf id Hm H. apply emit_named_push0_only_verbatim in H. destruct H as [H _]. congruence.
Qed.

(* ------------------------------------------------------------------ consistent pricing *)

(* the two internal spellings of a zero push *)
Definition zero_parsed (p0 : bool) : Item := build_asm_bytecode_item p0 "PUSH" (Some "0").
Definition zero_emitted (p0 : bool) : Item :=
  id_to_asm_bytecode [("PUSH_z", mkUInstr (o_disasm (generate_push_instruction p0 0 0 "s(0)")) (Some [0]))] "PUSH_z".

Lemma zero_spellings :
  zero_parsed true = mkItem "PUSH0" None /\ zero_emitted true = mkItem "PUSH" (Some "0") /\
  zero_parsed false = mkItem "PUSH" (Some "0") /\ zero_emitted false = mkItem "PUSH" (Some "0").
Proof. vm_compute. repeat split; reflexivity. Qed.

(* ... are priced identically under the same flag, in gas and in bytes, and as the reference says:
   PUSH0 (2 gas, 1 byte) when enabled, PUSH1 0 (3 gas, 2 bytes) when disabled *)
Lemma push0_priced_consistently : forall p0,
  AsmBytecode_gas_spent p0 (zero_parsed p0) = AsmBytecode_gas_spent p0 (zero_emitted p0) /\
  AsmBytecode_bytes_required p0 (zero_parsed p0) = AsmBytecode_bytes_required p0 (zero_emitted p0) /\
  AsmBytecode_gas_spent p0 (zero_emitted p0) = ref_push_gas p0 0 /\
  AsmBytecode_bytes_required p0 (zero_emitted p0) = ref_size p0 "PUSH" (Some 0) /\
  AsmBytecode_to_plain p0 (zero_parsed p0) = AsmBytecode_to_plain p0 (zero_emitted p0).
Proof. intros [|]; vm_compute; repeat split; reflexivity. Qed.

(* also with the warm/cold entry point *)
Lemma push0_priced_consistently_accesses : forall p0 w s,
  AsmBytecode_gas_spent_accesses p0 (zero_parsed p0) w s = AsmBytecode_gas_spent_accesses p0 (zero_emitted p0) w s.
Proof. intros [|] [|] [|]; vm_compute; reflexivity. Qed.

(* but the SFS prices a zero push as 2 bytes even when PUSH0 is enabled (obj["size"] =
   get_ins_size("PUSH", value) ignores the switch), while the item is then 1 byte *)
Lemma sfs_push_size_refuted :
  exists p0 v, generate_push_instruction_size 0 v "s(0)" <> AsmBytecode_bytes_required p0 (mkItem "PUSH" (Some (hex_of v))).
Proof. exists true, 0. vm_compute. discriminate. Qed.

Lemma sfs_push_size_partial : forall p0 idx v out, 0 <= v -> (p0 = false \/ v <> 0) ->
  generate_push_instruction_size idx v out = AsmBytecode_bytes_required p0 (mkItem "PUSH" (Some (hex_of v))).
Proof.
  intros p0 idx v out Hv Hc. rewrite push_item_size_agrees by assumption.
  unfold generate_push_instruction_size. rewrite push_size_all_values by assumption.
  unfold ref_size. cbn [String.eqb Ascii.eqb Bool.eqb andb].
  destruct Hc as [-> | Hne].
  - now rewrite andb_false_r.
  - assert (Hz : (v =? 0) = false) by lia. now rewrite Hz.
Qed.

(* the SFS gas of the push instruction follows the switch *)
Lemma sfs_push_gas : forall p0 idx v out, generate_push_instruction_gas p0 idx v out = ref_push_gas p0 v.
Proof.
  intros p0 idx v out. unfold generate_push_instruction_gas, ref_push_gas.
  destruct (v =? 0), p0; reflexivity.
Qed.

(* the two spellings do NOT give the same symbolic key to the warm/cold bookkeeping of
   AsmBlock.gas_spent in the shipped code (see CostProofs.gas_rebuild_monotone_refuted) *)
Lemma zero_spellings_keys :
  execute_asm_push0_as_zero = false ->
  execute_asm true [] (zero_parsed true) = Some ["PUSH0"] /\ execute_asm true [] (zero_emitted true) = Some ["0"].
Proof. intros H. first [discriminate H | vm_compute; split; reflexivity]. Qed.

Lemma zero_spellings_keys_repaired :
  execute_asm_push0_as_zero = true ->
  execute_asm true [] (zero_parsed true) = execute_asm true [] (zero_emitted true).
Proof. intros H. first [discriminate H | vm_compute; reflexivity]. Qed.

(* ------------------------------------------------------------------ contract filter *)

Section FilterProofs.
  Context {C : Type}.
  Variable has_asm : C -> bool.
  Variable name : C -> string.
  Variable opt : C -> C.

  (* every contract other than the selected one is, in the list the tool builds, the input contract *)
  Lemma contract_filter_others_unchanged : forall s cs n c,
    nth_error cs n = Some c -> name c <> s ->
    nth_error (filter_contracts has_asm name opt (Some s) cs) n = Some c.
  Proof.
    intros s cs n c Hn Hne. unfold filter_contracts. rewrite nth_error_map, Hn. cbn.
    unfold skipped. apply String.eqb_neq in Hne. rewrite Hne. cbn. now rewrite orb_true_r.
  Qed.

  Lemma contract_filter_same_length : forall sel cs,
    List.length (filter_contracts has_asm name opt sel cs) = List.length cs.
  Proof. intros. unfold filter_contracts. apply map_length. Qed.

  Lemma last_optimized_gen : forall s cs acc r,
    fold_left (fun acc c => if skipped has_asm name (Some s) c then acc else Some (opt c)) cs acc = Some r ->
    acc = Some r \/ exists c, In c cs /\ name c = s /\ has_asm c = true /\ r = opt c.
  Proof.
    intros s cs. induction cs as [|c cs IH]; intros acc r H; cbn [fold_left] in H.
    - now left.
    - apply IH in H. destruct H as [H|[c' [Hin H]]].
      + destruct (skipped has_asm name (Some s) c) eqn:E; [now left|].
        right. exists c. injection H as <-. unfold skipped in E. apply orb_false_iff in E. destruct E as [Ea En].
        apply negb_false_iff in Ea, En. apply String.eqb_eq in En. repeat split; [now left | assumption | assumption].
      + right. exists c'. split; [now right | assumption].
  Qed.

  (* with -c s the emitted artefact is ONE contract: the optimized version of an input contract named s
     (no other contract is part of the output at all); or an error *)
  Lemma contract_filter_emits_selected_only : forall s cs e,
    emit has_asm name opt (Some s) cs = Some e ->
    exists c, e = OneContract (opt c) /\ In c cs /\ name c = s /\ has_asm c = true.
  Proof.
    intros s cs e H. unfold emit in H.
    destruct (last_optimized has_asm name opt (Some s) cs) as [r|] eqn:E; [|discriminate].
    destruct (String.eqb (name r) s); [|discriminate]. injection H as <-.
    unfold last_optimized in E. apply last_optimized_gen in E. destruct E as [E|[c [Hin [Hn [Ha ->]]]]]; [discriminate|].
    exists c. repeat split; assumption.
  Qed.

  (* without -c every contract with an asm field is optimized, the others are kept *)
  Lemma contract_filter_none : forall cs,
    emit has_asm name opt None cs = Some (WholeFile (map (fun c => if has_asm c then opt c else c) cs)).
  Proof.
    intros cs. unfold emit, filter_contracts, skipped. f_equal. f_equal. apply map_ext.
    intros c. rewrite orb_false_r. now destruct (has_asm c).
  Qed.
End FilterProofs.
