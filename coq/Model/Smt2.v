(* SMT-LIB scripts as GASOL emits them (smt_encoding/solver/solver_from_executable.py: to_smt2,
   z3_executable.py / oms_executable.py: write_soft, load_model, cost_function) and a boolean
   well-formedness checker.  Executable model only; the proofs are in Model/Smt2Proofs.v.

   The harness (harness/smt2.py) reads the REAL emitted .smt2 text into the generic
   s-expression type [sexp] below (atoms and lists, nothing else is done in Python); commands,
   terms and numerals are recognised here, fail closed: an s-expression that is not one of the
   command shapes below makes [script_wf] false.

   What [script_wf] decides (the second sentence of property C06):
     - set-logic comes first, once, with a logic this file knows (QF_UF, QF_IDL, QF_UFIDL, QF_LIA,
       QF_UFLIA);
     - every sort used is builtin of the logic (Bool; Int when the logic has integers) or was
       declared by exactly one earlier (declare-sort s 0); sorts and non-constant functions can
       only be declared in a logic with uninterpreted symbols;
     - every declare-fun introduces a simple symbol that is not reserved and was not declared
       before (so no symbol is declared twice);
     - every term of an assert / assert-soft / minimize / get-value is well sorted: each symbol is
       a builtin of the logic applied at an admissible arity and sorts, or a declared function
       applied to exactly the declared number of arguments of the declared sorts; assert and
       assert-soft take Bool, minimize takes Int.
   Not decided: the restriction of QF_IDL/QF_UFIDL atoms to difference constraints. *)
From Coq Require Import List String Ascii Bool NArith Arith.
Import ListNotations.
Local Open Scope string_scope.

(* ------------------------------------------------------------------ *)
(* generic s-expressions (what the Python reader produces)              *)

Inductive sexp := SA (a : string) | SL (l : list sexp).

(* ------------------------------------------------------------------ *)
(* terms, commands                                                      *)

Definition sort := string.

Inductive term := TNum (n : N) | TApp (f : string) (args : list term).

Inductive cmd :=
| CSetLogic (l : string)
| CSetOption (k v : string)
| CDeclareSort (s : string)                  (* arity 0 only *)
| CDeclareFun (f : string) (dom : list sort) (rng : sort)
| CAssert (t : term)
| CAssertSoft (t : term) (weight : N) (id : option string)
| CMinimize (t : term)
| CCheckSat
| CGetModel
| CGetObjectives
| CGetValue (ts : list term).

(* ------------------------------------------------------------------ *)
(* lexical classes                                                      *)

Definition is_digit (c : ascii) : bool :=
  let n := nat_of_ascii c in Nat.leb 48 n && Nat.leb n 57.

Definition is_letter (c : ascii) : bool :=
  let n := nat_of_ascii c in
  (Nat.leb 65 n && Nat.leb n 90) || (Nat.leb 97 n && Nat.leb n 122).

Definition is_sym_special (c : ascii) : bool :=
  existsb (Ascii.eqb c)
    ["+"; "-"; "/"; "*"; "="; "%"; "?"; "!"; "."; "$"; "_"; "~"; "&"; "^"; "<"; ">"; "@"]%char.

Definition is_sym_char (c : ascii) : bool := is_digit c || is_letter c || is_sym_special c.

Fixpoint all_chars (p : ascii -> bool) (s : string) : bool :=
  match s with "" => true | String c s' => p c && all_chars p s' end.

(* SMT-LIB <simple_symbol>: non-empty, symbol characters, does not start with a digit *)
Definition simple_symbol (s : string) : bool :=
  match s with
  | "" => false
  | String c _ => negb (is_digit c) && all_chars is_sym_char s
  end.

(* SMT-LIB <numeral> as a number (0 | non-empty digit sequence; leading zeros are tolerated) *)
Fixpoint num_go (acc : N) (s : string) : N :=
  match s with
  | "" => acc
  | String c s' => num_go (acc * 10 + N.of_nat (nat_of_ascii c - 48)) s'
  end.

Definition numeral (s : string) : option N :=
  match s with
  | "" => None
  | _ => if all_chars is_digit s then Some (num_go 0 s) else None
  end.

(* ------------------------------------------------------------------ *)
(* s-expression -> term / command                                        *)

Fixpoint sequence {A} (l : list (option A)) : option (list A) :=
  match l with
  | [] => Some []
  | Some a :: r => match sequence r with Some r' => Some (a :: r') | None => None end
  | None :: _ => None
  end.

Fixpoint term_of (s : sexp) : option term :=
  match s with
  | SA a =>
      match numeral a with
      | Some n => Some (TNum n)
      | None => if simple_symbol a then Some (TApp a []) else None
      end
  | SL (SA f :: (_ :: _) as args) =>
      if simple_symbol f then
        match sequence (map term_of args) with
        | Some ts => Some (TApp f ts)
        | None => None
        end
      else None
  | SL _ => None
  end.

Definition atom_of (s : sexp) : option string :=
  match s with SA a => Some a | SL _ => None end.

Definition cmd_of (s : sexp) : option cmd :=
  match s with
  | SL [SA "set-logic"; SA l] => Some (CSetLogic l)
  | SL [SA "set-option"; SA k; SA v] => Some (CSetOption k v)
  | SL [SA "declare-sort"; SA s; SA "0"] => Some (CDeclareSort s)
  | SL [SA "declare-fun"; SA f; SL dom; SA rng] =>
      match sequence (map atom_of dom) with
      | Some d => Some (CDeclareFun f d rng)
      | None => None
      end
  | SL [SA "declare-const"; SA f; SA rng] => Some (CDeclareFun f [] rng)
  | SL [SA "assert"; t] => option_map CAssert (term_of t)
  | SL [SA "assert-soft"; t; SA ":weight"; SA w] =>
      match term_of t, numeral w with
      | Some t', Some n => Some (CAssertSoft t' n None)
      | _, _ => None
      end
  | SL [SA "assert-soft"; t; SA ":weight"; SA w; SA ":id"; SA g] =>
      match term_of t, numeral w with
      | Some t', Some n => Some (CAssertSoft t' n (Some g))
      | _, _ => None
      end
  | SL [SA "minimize"; t] => option_map CMinimize (term_of t)
  | SL [SA "check-sat"] => Some CCheckSat
  | SL [SA "get-model"] => Some CGetModel
  | SL [SA "get-objectives"] => Some CGetObjectives
  | SL [SA "get-value"; SL ts] => option_map CGetValue (sequence (map term_of ts))
  | _ => None
  end.

Definition script_of (l : list sexp) : option (list cmd) := sequence (map cmd_of l).

(* ------------------------------------------------------------------ *)
(* logics, environments                                                  *)

Record logic := mkLogic { lg_int : bool; lg_uf : bool }.

Definition logic_of (n : string) : option logic :=
  if String.eqb n "QF_UF" then Some (mkLogic false true)
  else if String.eqb n "QF_IDL" then Some (mkLogic true false)
  else if String.eqb n "QF_LIA" then Some (mkLogic true false)
  else if String.eqb n "QF_UFIDL" then Some (mkLogic true true)
  else if String.eqb n "QF_UFLIA" then Some (mkLogic true true)
  else None.

Record env := mkEnv {
  e_logic : option logic;
  e_sorts : list string;                          (* declared sorts *)
  e_funs : list (string * (list sort * sort))     (* declared functions, latest first *)
}.

Definition empty_env : env := mkEnv None [] [].

Definition has_int (E : env) : bool :=
  match e_logic E with Some lg => lg_int lg | None => false end.
Definition has_uf (E : env) : bool :=
  match e_logic E with Some lg => lg_uf lg | None => false end.
Definition logic_set (E : env) : bool :=
  match e_logic E with Some _ => true | None => false end.

Definition mem (s : string) (l : list string) : bool := existsb (String.eqb s) l.

Definition builtin_sort (E : env) (s : sort) : bool :=
  String.eqb s "Bool" || (has_int E && String.eqb s "Int").

(* names no declaration may use as a sort *)
Definition reserved_sort (s : sort) : bool :=
  mem s ["Bool"; "Int"; "Real"; "Array"; "BitVec"; "String"].

Definition known_sort (E : env) (s : sort) : bool := builtin_sort E s || mem s (e_sorts E).

(* reserved words and theory symbols: never declarable *)
Definition reserved_fun (f : string) : bool :=
  mem f ["true"; "false"; "not"; "and"; "or"; "=>"; "xor"; "="; "distinct"; "ite";
         "<"; "<="; ">"; ">="; "+"; "-"; "*"; "div"; "mod"; "abs"; "/";
         "let"; "forall"; "exists"; "as"; "par"; "_"; "!"; "match"].

Fixpoint lookup (f : string) (l : list (string * (list sort * sort))) : option (list sort * sort) :=
  match l with
  | [] => None
  | (g, ty) :: r => if String.eqb f g then Some ty else lookup f r
  end.

Fixpoint sorts_eqb (a b : list sort) : bool :=
  match a, b with
  | [], [] => true
  | x :: a', y :: b' => String.eqb x y && sorts_eqb a' b'
  | _, _ => false
  end.

Definition all_sort (s : sort) (l : list sort) : bool := forallb (String.eqb s) l.

(* Sort of a theory symbol applied to arguments of sorts ss (None: not admissible).
   and/or/xor/=>: at least two Bool; =/distinct: at least two arguments of one sort;
   < <= > >=: at least two Int (chainable); + *: at least two Int; -: one or more Int. *)
Definition builtin_type (E : env) (f : string) (ss : list sort) : option sort :=
  if String.eqb f "true" || String.eqb f "false" then
    match ss with [] => Some "Bool" | _ => None end
  else if String.eqb f "not" then
    match ss with [s] => if String.eqb s "Bool" then Some "Bool" else None | _ => None end
  else if String.eqb f "and" || String.eqb f "or" || String.eqb f "xor" || String.eqb f "=>" then
    if Nat.leb 2 (List.length ss) && all_sort "Bool" ss then Some "Bool" else None
  else if String.eqb f "=" || String.eqb f "distinct" then
    match ss with
    | s :: (_ :: _) as r => if all_sort s r then Some "Bool" else None
    | _ => None
    end
  else if String.eqb f "<" || String.eqb f "<=" || String.eqb f ">" || String.eqb f ">=" then
    if has_int E && Nat.leb 2 (List.length ss) && all_sort "Int" ss then Some "Bool" else None
  else if String.eqb f "+" || String.eqb f "*" then
    if has_int E && Nat.leb 2 (List.length ss) && all_sort "Int" ss then Some "Int" else None
  else if String.eqb f "-" then
    if has_int E && Nat.leb 1 (List.length ss) && all_sort "Int" ss then Some "Int" else None
  else None.

(* ------------------------------------------------------------------ *)
(* the sort of a term                                                    *)

Fixpoint sort_of (E : env) (t : term) : option sort :=
  match t with
  | TNum _ => if has_int E then Some "Int" else None
  | TApp f args =>
      match sequence (map (sort_of E) args) with
      | None => None
      | Some ss =>
          if reserved_fun f then builtin_type E f ss
          else match lookup f (e_funs E) with
               | Some (dom, rng) => if sorts_eqb dom ss then Some rng else None
               | None => None
               end
      end
  end.

Definition has_sort_b (E : env) (t : term) (s : sort) : bool :=
  match sort_of E t with Some s' => String.eqb s' s | None => false end.

Definition any_sort_b (E : env) (t : term) : bool :=
  match sort_of E t with Some _ => true | None => false end.

(* ------------------------------------------------------------------ *)
(* commands                                                              *)

(* the condition under which a command is accepted in environment E *)
Definition cmd_ok (E : env) (c : cmd) : bool :=
  match c with
  | CSetLogic n =>
      negb (logic_set E) && match logic_of n with Some _ => true | None => false end
      && match e_sorts E, e_funs E with [], [] => true | _, _ => false end
  | CSetOption _ _ => true
  | CDeclareSort s =>
      logic_set E && has_uf E && simple_symbol s && negb (reserved_sort s) && negb (mem s (e_sorts E))
  | CDeclareFun f dom rng =>
      logic_set E && simple_symbol f && negb (reserved_fun f)
      && match lookup f (e_funs E) with None => true | Some _ => false end
      && forallb (known_sort E) dom && known_sort E rng
      && (match dom with [] => true | _ => has_uf E end)
  | CAssert t => logic_set E && has_sort_b E t "Bool"
  | CAssertSoft t _ g =>
      logic_set E && has_sort_b E t "Bool"
      && match g with Some i => simple_symbol i | None => true end
  | CMinimize t => logic_set E && has_sort_b E t "Int"
  | CCheckSat | CGetModel | CGetObjectives => logic_set E
  | CGetValue ts => logic_set E && forallb (any_sort_b E) ts
  end.

(* the environment after a command *)
Definition cmd_step (E : env) (c : cmd) : env :=
  match c with
  | CSetLogic n => mkEnv (logic_of n) (e_sorts E) (e_funs E)
  | CDeclareSort s => mkEnv (e_logic E) (s :: e_sorts E) (e_funs E)
  | CDeclareFun f dom rng => mkEnv (e_logic E) (e_sorts E) ((f, (dom, rng)) :: e_funs E)
  | _ => E
  end.

Fixpoint wf_from (E : env) (sc : list cmd) : bool :=
  match sc with
  | [] => true
  | c :: r => cmd_ok E c && wf_from (cmd_step E c) r
  end.

Definition script_wf (sc : list cmd) : bool := wf_from empty_env sc.

(* first command that is not accepted (position, for replays) *)
Fixpoint first_bad (E : env) (pos : nat) (sc : list cmd) : option nat :=
  match sc with
  | [] => None
  | c :: r => if cmd_ok E c then first_bad (cmd_step E c) (S pos) r else Some pos
  end.

(* entry point of the harness: None = not even a list of known commands (position of the first
   unreadable command), Some (wf, first bad position) *)
Fixpoint first_unreadable (pos : nat) (l : list sexp) : option nat :=
  match l with
  | [] => None
  | s :: r => match cmd_of s with Some _ => first_unreadable (S pos) r | None => Some pos end
  end.

Inductive verdict := VOk | VUnreadable (pos : nat) | VIllFormed (pos : nat).

Definition check_text (l : list sexp) : verdict :=
  match script_of l with
  | None => match first_unreadable 0 l with Some p => VUnreadable p | None => VUnreadable 0 end
  | Some sc =>
      if script_wf sc then VOk
      else match first_bad empty_env 0 sc with Some p => VIllFormed p | None => VIllFormed 0 end
  end.

(* statistics for the evidence: number of declarations, assertions *)
Definition count_decls (sc : list cmd) : nat :=
  List.length (filter (fun c => match c with CDeclareFun _ _ _ => true | _ => false end) sc).
Definition count_asserts (sc : list cmd) : nat :=
  List.length (filter (fun c => match c with CAssert _ | CAssertSoft _ _ _ => true | _ => false end) sc).
