(* Soundness (and completeness) of the SMT-LIB well-formedness checker of Model/Smt2.v with
   respect to an inductive well-sortedness judgement.  Unbounded in script length and term
   depth. *)
From Coq Require Import List String Ascii Bool NArith Arith Lia.
From GV Require Import Model.Smt2.
Import ListNotations.
Local Open Scope string_scope.

(* ------------------------------------------------------------------ *)
(* induction on terms (nested lists)                                     *)

Lemma term_ind' (P : term -> Prop) :
  (forall n, P (TNum n)) ->
  (forall f args, Forall P args -> P (TApp f args)) ->
  forall t, P t.
Proof.
  intros Hn Ha. fix IH 1. intros [n | f args].
  - apply Hn.
  - apply Ha. induction args as [| a r IHr]; constructor; [apply IH | exact IHr].
Qed.

(* ------------------------------------------------------------------ *)
(* the judgement                                                         *)

(* E |- t : s *)
Inductive has_sort (E : env) : term -> sort -> Prop :=
| HS_num n : has_int E = true -> has_sort E (TNum n) "Int"
| HS_builtin f args ss s :
    reserved_fun f = true ->
    Forall2 (has_sort E) args ss ->
    builtin_type E f ss = Some s ->
    has_sort E (TApp f args) s
| HS_fun f args dom rng :
    reserved_fun f = false ->
    In (f, (dom, rng)) (e_funs E) ->
    Forall2 (has_sort E) args dom ->
    has_sort E (TApp f args) rng.

Definition declared (E : env) : list string := map fst (e_funs E).

(* E |- script ok: commands are accepted one after the other, the environment grows *)
Inductive wf_script_from : env -> list cmd -> Prop :=
| W_nil E : wf_script_from E []
| W_logic E n lg r :
    e_logic E = None -> e_sorts E = [] -> e_funs E = [] -> logic_of n = Some lg ->
    wf_script_from (mkEnv (Some lg) [] []) r ->
    wf_script_from E (CSetLogic n :: r)
| W_option E k v r : wf_script_from E r -> wf_script_from E (CSetOption k v :: r)
| W_sort E s r :
    logic_set E = true -> has_uf E = true ->
    simple_symbol s = true -> reserved_sort s = false -> ~ In s (e_sorts E) ->
    wf_script_from (mkEnv (e_logic E) (s :: e_sorts E) (e_funs E)) r ->
    wf_script_from E (CDeclareSort s :: r)
| W_fun E f dom rng r :
    logic_set E = true ->
    simple_symbol f = true -> reserved_fun f = false ->
    ~ In f (declared E) ->                                    (* not declared before *)
    Forall (fun s => known_sort E s = true) dom -> known_sort E rng = true ->
    (dom <> [] -> has_uf E = true) ->
    wf_script_from (mkEnv (e_logic E) (e_sorts E) ((f, (dom, rng)) :: e_funs E)) r ->
    wf_script_from E (CDeclareFun f dom rng :: r)
| W_assert E t r :
    logic_set E = true -> has_sort E t "Bool" -> wf_script_from E r ->
    wf_script_from E (CAssert t :: r)
| W_soft E t w g r :
    logic_set E = true -> has_sort E t "Bool" ->
    (forall i, g = Some i -> simple_symbol i = true) ->
    wf_script_from E r ->
    wf_script_from E (CAssertSoft t w g :: r)
| W_minimize E t r :
    logic_set E = true -> has_sort E t "Int" -> wf_script_from E r ->
    wf_script_from E (CMinimize t :: r)
| W_check E r : logic_set E = true -> wf_script_from E r -> wf_script_from E (CCheckSat :: r)
| W_model E r : logic_set E = true -> wf_script_from E r -> wf_script_from E (CGetModel :: r)
| W_objectives E r :
    logic_set E = true -> wf_script_from E r -> wf_script_from E (CGetObjectives :: r)
| W_value E ts r :
    logic_set E = true -> Forall (fun t => exists s, has_sort E t s) ts ->
    wf_script_from E r -> wf_script_from E (CGetValue ts :: r).

Definition wf_script (sc : list cmd) : Prop := wf_script_from empty_env sc.

(* ------------------------------------------------------------------ *)
(* small facts                                                           *)

Lemma sequence_some {A} (l : list (option A)) l' :
  sequence l = Some l' -> Forall2 (fun o a => o = Some a) l l'.
Proof.
  revert l'. induction l as [| o l IH]; intros l' H; simpl in H.
  - inversion H. constructor.
  - destruct o as [a |]; [| discriminate].
    destruct (sequence l) as [r |]; [| discriminate].
    inversion H. subst. constructor; [reflexivity | apply IH; reflexivity].
Qed.

Lemma sequence_of_forall2 {A} (l : list (option A)) l' :
  Forall2 (fun o a => o = Some a) l l' -> sequence l = Some l'.
Proof.
  induction 1 as [| o a l l' H _ IH]; simpl; [reflexivity |].
  subst o. rewrite IH. reflexivity.
Qed.

Lemma lookup_in f l ty : lookup f l = Some ty -> In (f, ty) l.
Proof.
  induction l as [| [g ty'] l IH]; simpl; [discriminate |].
  destruct (String.eqb f g) eqn:Efg.
  - apply String.eqb_eq in Efg. subst g. intros H. inversion H. subst. left. reflexivity.
  - intros H. right. apply IH. exact H.
Qed.

Lemma lookup_none f l : lookup f l = None -> ~ In f (map fst l).
Proof.
  induction l as [| [g ty'] l IH]; simpl; [intros _ [] |].
  destruct (String.eqb f g) eqn:Efg; [discriminate |].
  intros H [Hg | Hin].
  - subst g. rewrite String.eqb_refl in Efg. discriminate.
  - exact (IH H Hin).
Qed.

Lemma lookup_notin f l : ~ In f (map fst l) -> lookup f l = None.
Proof.
  induction l as [| [g ty'] l IH]; simpl; [reflexivity |].
  intros H. destruct (String.eqb f g) eqn:Efg.
  - apply String.eqb_eq in Efg. subst g. exfalso. apply H. left. reflexivity.
  - apply IH. intros Hin. apply H. right. exact Hin.
Qed.

Lemma in_lookup f ty l : NoDup (map fst l) -> In (f, ty) l -> lookup f l = Some ty.
Proof.
  induction l as [| [g ty'] l IH]; simpl; [intros _ [] |].
  intros Hnd [Heq | Hin].
  - inversion Heq. subst. rewrite String.eqb_refl. reflexivity.
  - inversion Hnd as [| ? ? Hnotin Hnd']. subst.
    destruct (String.eqb f g) eqn:Efg.
    + apply String.eqb_eq in Efg. subst g. exfalso. apply Hnotin.
      change f with (fst (f, ty)). apply in_map. exact Hin.
    + apply IH; assumption.
Qed.

Lemma sorts_eqb_eq a : forall b, sorts_eqb a b = true -> a = b.
Proof.
  induction a as [| x a IH]; intros [| y b] H; simpl in H; try discriminate; [reflexivity |].
  apply andb_true_iff in H. destruct H as [H1 H2]. apply String.eqb_eq in H1.
  subst. f_equal. apply IH. exact H2.
Qed.

Lemma sorts_eqb_refl a : sorts_eqb a a = true.
Proof. induction a as [| x a IH]; simpl; [reflexivity |]. rewrite String.eqb_refl. exact IH. Qed.

Lemma mem_in s l : mem s l = true <-> In s l.
Proof.
  unfold mem. rewrite existsb_exists. split.
  - intros [x [Hin Hx]]. apply String.eqb_eq in Hx. subst. exact Hin.
  - intros Hin. exists s. split; [exact Hin | apply String.eqb_refl].
Qed.

Lemma mem_false s l : mem s l = false <-> ~ In s l.
Proof.
  split.
  - intros H Hin. apply mem_in in Hin. congruence.
  - intros H. destruct (mem s l) eqn:E; [| reflexivity]. apply mem_in in E. contradiction.
Qed.

(* ------------------------------------------------------------------ *)
(* terms: checker <-> judgement                                          *)

Lemma sort_of_sound E t : forall s, sort_of E t = Some s -> has_sort E t s.
Proof.
  induction t as [n | f args IH] using term_ind'; intros s H; simpl in H.
  - destruct (has_int E) eqn:Hi; [| discriminate]. inversion H. subst. constructor. exact Hi.
  - destruct (sequence (map (sort_of E) args)) as [ss |] eqn:Hseq; [| discriminate].
    assert (Hargs : Forall2 (has_sort E) args ss).
    { apply sequence_some in Hseq. clear H. revert ss Hseq.
      induction args as [| a r IHr]; intros ss Hseq; simpl in Hseq.
      - inversion Hseq. constructor.
      - inversion Hseq as [| ? ? ? ? Ha Hr]. subst.
        inversion IH as [| ? ? IHa IHr']. subst.
        constructor; [apply IHa; exact Ha | apply IHr; assumption]. }
    destruct (reserved_fun f) eqn:Hres.
    + eapply HS_builtin; eassumption.
    + destruct (lookup f (e_funs E)) as [[dom rng] |] eqn:Hl; [| discriminate].
      destruct (sorts_eqb dom ss) eqn:Hd; [| discriminate].
      inversion H. subst. apply sorts_eqb_eq in Hd. subst ss.
      eapply HS_fun; [exact Hres | apply lookup_in; exact Hl | exact Hargs].
Qed.

Lemma sort_of_complete E t s :
  NoDup (declared E) -> has_sort E t s -> sort_of E t = Some s.
Proof.
  intros Hnd. revert s.
  induction t as [n | f args IH] using term_ind'; intros s H.
  - inversion H. subst. simpl. rewrite H1. reflexivity.
  - assert (Hseq : forall ss, Forall2 (has_sort E) args ss ->
                              sequence (map (sort_of E) args) = Some ss).
    { intros ss Hargs. apply sequence_of_forall2. clear H.
      induction Hargs as [| a s' r ss' Ha Hr IHr]; simpl; [constructor |].
      inversion IH as [| ? ? IHa IHr']. subst.
      constructor; [apply IHa; exact Ha | apply IHr; assumption]. }
    inversion H as [| f' args' ss s' Hres Hargs Hb | f' args' dom rng Hres Hin Hargs]; subst.
    + simpl. rewrite (Hseq _ Hargs). rewrite Hres. exact Hb.
    + simpl. rewrite (Hseq _ Hargs). rewrite Hres.
      rewrite (in_lookup _ _ _ Hnd Hin). rewrite sorts_eqb_refl. reflexivity.
Qed.

(* under declarations without repetition a term has at most one sort *)
Lemma has_sort_unique E t s s' :
  NoDup (declared E) -> has_sort E t s -> has_sort E t s' -> s = s'.
Proof.
  intros Hnd H1 H2. apply (sort_of_complete _ _ _ Hnd) in H1. apply (sort_of_complete _ _ _ Hnd) in H2.
  congruence.
Qed.

Lemma has_sort_b_sound E t s : has_sort_b E t s = true -> has_sort E t s.
Proof.
  unfold has_sort_b. destruct (sort_of E t) as [s' |] eqn:H; [| discriminate].
  intros He. apply String.eqb_eq in He. subst. apply sort_of_sound. exact H.
Qed.

Lemma has_sort_b_complete E t s :
  NoDup (declared E) -> has_sort E t s -> has_sort_b E t s = true.
Proof.
  intros Hnd H. unfold has_sort_b. rewrite (sort_of_complete _ _ _ Hnd H). apply String.eqb_refl.
Qed.

(* ------------------------------------------------------------------ *)
(* scripts                                                               *)

Lemma wf_from_sound sc : forall E, wf_from E sc = true -> wf_script_from E sc.
Proof.
  induction sc as [| c r IH]; intros E H; [constructor |].
  simpl in H. apply andb_true_iff in H. destruct H as [Hc Hr]. apply IH in Hr.
  destruct c; simpl in Hc, Hr.
  - (* set-logic *)
    destruct (logic_set E) eqn:Hls; [discriminate |]. simpl in Hc.
    destruct (logic_of l) as [lg |] eqn:Hlg; [| discriminate]. simpl in Hc.
    destruct (e_sorts E) eqn:Hs; [| discriminate]. destruct (e_funs E) eqn:Hf; [| discriminate].
    eapply W_logic; try eassumption.
    unfold logic_set in Hls. destruct (e_logic E); [discriminate | reflexivity].
  - constructor. exact Hr.
  - (* declare-sort *)
    repeat (apply andb_true_iff in Hc; destruct Hc as [Hc ?]).
    apply W_sort; try assumption.
    + apply negb_true_iff. assumption.
    + apply mem_false. apply negb_true_iff. assumption.
  - (* declare-fun *)
    repeat (apply andb_true_iff in Hc; destruct Hc as [Hc ?]).
    destruct (lookup f (e_funs E)) eqn:Hl; [discriminate |].
    apply W_fun; try assumption.
    + apply negb_true_iff. assumption.
    + apply lookup_none. exact Hl.
    + apply Forall_forall. intros s Hs. eapply forallb_forall in Hs; eassumption.
    + intros Hne. destruct dom; [contradiction | assumption].
  - apply andb_true_iff in Hc. destruct Hc as [H1 H2].
    apply W_assert; [exact H1 | apply has_sort_b_sound; exact H2 | exact Hr].
  - apply andb_true_iff in Hc. destruct Hc as [Hc H3].
    apply andb_true_iff in Hc. destruct Hc as [H1 H2].
    apply W_soft; [exact H1 | apply has_sort_b_sound; exact H2 | | exact Hr].
    intros i Hi. subst id. exact H3.
  - apply andb_true_iff in Hc. destruct Hc as [H1 H2].
    apply W_minimize; [exact H1 | apply has_sort_b_sound; exact H2 | exact Hr].
  - apply W_check; assumption.
  - apply W_model; assumption.
  - apply W_objectives; assumption.
  - apply andb_true_iff in Hc. destruct Hc as [H1 H2].
    apply W_value; [exact H1 | | exact Hr].
    apply Forall_forall. intros t Ht. eapply forallb_forall in H2; [| exact Ht].
    unfold any_sort_b in H2. destruct (sort_of E t) as [s |] eqn:Hs; [| discriminate].
    exists s. apply sort_of_sound. exact Hs.
Qed.

Theorem script_wf_sound sc : script_wf sc = true -> wf_script sc.
Proof. apply wf_from_sound. Qed.

Lemma wf_from_complete E sc :
  wf_script_from E sc -> NoDup (declared E) -> wf_from E sc = true.
Proof.
  induction 1 as [E | E n lg r He Hs Hf Hl _ IH | E k v r _ IH | E s r H1 H2 H3 H4 H5 _ IH
                  | E f dom rng r H1 H2 H3 H4 H5 H6 H7 _ IH | E t r H1 H2 _ IH
                  | E t w g r H1 H2 H3 _ IH | E t r H1 H2 _ IH | E r H1 _ IH | E r H1 _ IH
                  | E r H1 _ IH | E ts r H1 H2 _ IH]; intros Hnd; simpl.
  - reflexivity.
  - unfold logic_set. rewrite He, Hl, Hs, Hf. simpl. apply IH. constructor.
  - apply IH. exact Hnd.
  - rewrite H1, H2, H3, H4. apply mem_false in H5. rewrite H5. simpl. apply IH. exact Hnd.
  - rewrite H1, H2, H3. simpl. rewrite (lookup_notin _ _ H4). simpl.
    assert (Hd : forallb (known_sort E) dom = true).
    { apply forallb_forall. intros s Hs. rewrite Forall_forall in H5. apply H5. exact Hs. }
    rewrite Hd, H6. simpl.
    assert (Hu : match dom with [] => true | _ :: _ => has_uf E end = true).
    { destruct dom; [reflexivity | apply H7; discriminate]. }
    rewrite Hu. simpl. apply IH. unfold declared. simpl. constructor; assumption.
  - rewrite H1, (has_sort_b_complete _ _ _ Hnd H2). simpl. apply IH. exact Hnd.
  - rewrite H1, (has_sort_b_complete _ _ _ Hnd H2). simpl.
    assert (Hg : match g with Some i => simple_symbol i | None => true end = true).
    { destruct g; [apply H3; reflexivity | reflexivity]. }
    rewrite Hg. simpl. apply IH. exact Hnd.
  - rewrite H1, (has_sort_b_complete _ _ _ Hnd H2). simpl. apply IH. exact Hnd.
  - rewrite H1. simpl. apply IH. exact Hnd.
  - rewrite H1. simpl. apply IH. exact Hnd.
  - rewrite H1. simpl. apply IH. exact Hnd.
  - rewrite H1. simpl.
    assert (Hv : forallb (any_sort_b E) ts = true).
    { apply forallb_forall. intros t Ht. rewrite Forall_forall in H2. destruct (H2 t Ht) as [s Hs].
      unfold any_sort_b. rewrite (sort_of_complete _ _ _ Hnd Hs). reflexivity. }
    rewrite Hv. simpl. apply IH. exact Hnd.
Qed.

Theorem script_wf_complete sc : wf_script sc -> script_wf sc = true.
Proof. intros H. apply (wf_from_complete _ _ H). constructor. Qed.

(* ------------------------------------------------------------------ *)
(* consequence: no symbol is declared twice                              *)

Fixpoint decl_names (sc : list cmd) : list string :=
  match sc with
  | [] => []
  | CDeclareFun f _ _ :: r => f :: decl_names r
  | _ :: r => decl_names r
  end.

Lemma wf_script_from_nodup E sc :
  wf_script_from E sc -> NoDup (declared E) ->
  NoDup (decl_names sc) /\ forall f, In f (decl_names sc) -> ~ In f (declared E).
Proof.
  induction 1 as [E | E n lg r He Hs Hf Hl _ IH | E k v r _ IH | E s r H1 H2 H3 H4 H5 _ IH
                  | E f dom rng r H1 H2 H3 H4 H5 H6 H7 _ IH | E t r H1 H2 _ IH
                  | E t w g r H1 H2 H3 _ IH | E t r H1 H2 _ IH | E r H1 _ IH | E r H1 _ IH
                  | E r H1 _ IH | E ts r H1 H2 _ IH]; intros Hnd; simpl;
    try (apply IH; exact Hnd).
  - split; [constructor | intros f []].
  - destruct IH as [IH1 IH2]; [constructor |]. split; [exact IH1 |].
    intros f Hin. unfold declared. rewrite Hf. intros [].
  - destruct IH as [IH1 IH2].
    { unfold declared. simpl. constructor; assumption. }
    split.
    + constructor; [| exact IH1]. intros Hin. apply (IH2 _ Hin). left. reflexivity.
    + intros g [Hg | Hg].
      * subst g. exact H4.
      * intros Hd. apply (IH2 _ Hg). right. exact Hd.
Qed.

Theorem wf_script_declared_once sc : wf_script sc -> NoDup (decl_names sc).
Proof. intros H. apply (wf_script_from_nodup _ _ H). constructor. Qed.

(* ------------------------------------------------------------------ *)
(* the builtin rules GASOL's connectives go through, spelled out         *)

Lemma all_sort_forall s l : all_sort s l = true <-> Forall (eq s) l.
Proof.
  unfold all_sort. rewrite forallb_forall, Forall_forall. split; intros H x Hx.
  - apply String.eqb_eq. apply H. exact Hx.
  - apply String.eqb_eq. apply H. exact Hx.
Qed.

Lemma builtin_and E ss s :
  builtin_type E "and" ss = Some s <-> s = "Bool" /\ 2 <= List.length ss /\ Forall (eq "Bool") ss.
Proof.
  replace (builtin_type E "and" ss)
    with (if Nat.leb 2 (List.length ss) && all_sort "Bool" ss then Some "Bool" else None)
    by reflexivity.
  destruct (Nat.leb 2 (List.length ss)) eqn:Hl; destruct (all_sort "Bool" ss) eqn:Ha;
    cbn [andb].
  - apply Nat.leb_le in Hl. apply all_sort_forall in Ha. split.
    + intros H. inversion H. auto.
    + intros [-> _]. reflexivity.
  - split; [discriminate |]. intros [_ [_ H]]. apply all_sort_forall in H. congruence.
  - split; [discriminate |]. intros [_ [H _]]. apply Nat.leb_le in H. congruence.
  - split; [discriminate |]. intros [_ [H _]]. apply Nat.leb_le in H. congruence.
Qed.

Lemma builtin_eq E ss s :
  builtin_type E "=" ss = Some s <->
  s = "Bool" /\ exists a b r, ss = a :: b :: r /\ Forall (eq a) (b :: r).
Proof.
  replace (builtin_type E "=" ss)
    with (match ss with
          | a :: (_ :: _) as r => if all_sort a r then Some "Bool" else None
          | _ => None
          end) by reflexivity.
  destruct ss as [| a [| b r]].
  - split; [discriminate |]. intros [_ [a [b [r [H _]]]]]. discriminate.
  - split; [discriminate |]. intros [_ [a' [b [r [H _]]]]]. discriminate.
  - destruct (all_sort a (b :: r)) eqn:Ha.
    + apply all_sort_forall in Ha. split.
      * intros H. inversion H. split; [reflexivity |]. exists a, b, r. auto.
      * intros [-> _]. reflexivity.
    + split; [discriminate |]. intros [_ [a' [b' [r' [H Hf]]]]]. inversion H. subst.
      apply all_sort_forall in Hf. congruence.
Qed.

(* ------------------------------------------------------------------ *)
(* non-vacuity                                                           *)

Definition demo_script : list sexp :=
  [SL [SA "set-logic"; SA "QF_UFIDL"];
   SL [SA "set-option"; SA ":timeout"; SA "10000"];
   SL [SA "declare-sort"; SA "S"; SA "0"];
   SL [SA "declare-fun"; SA "s_0"; SL []; SA "S"];
   SL [SA "declare-fun"; SA "ADD"; SL [SA "S"; SA "S"]; SA "S"];
   SL [SA "declare-fun"; SA "x_0_0"; SL []; SA "S"];
   SL [SA "declare-fun"; SA "u_0_0"; SL []; SA "Bool"];
   SL [SA "declare-fun"; SA "l_3"; SL []; SA "Int"];
   SL [SA "assert"; SL [SA "and"; SA "u_0_0"; SL [SA "="; SA "x_0_0"; SL [SA "ADD"; SA "s_0"; SA "s_0"]]]];
   SL [SA "assert"; SL [SA "<"; SA "l_3"; SL [SA "-"; SA "5"]]];
   SL [SA "assert-soft"; SL [SA "not"; SA "u_0_0"]; SA ":weight"; SA "3"; SA ":id"; SA "cost"];
   SL [SA "check-sat"]; SL [SA "get-objectives"]; SL [SA "get-model"]].

Example demo_script_ok : check_text demo_script = VOk.
Proof. vm_compute. reflexivity. Qed.

Example demo_script_wf : exists sc, script_of demo_script = Some sc /\ wf_script sc.
Proof.
  destruct (script_of demo_script) as [sc |] eqn:H; [| vm_compute in H; discriminate].
  exists sc. split; [reflexivity |]. apply script_wf_sound.
  vm_compute in H. inversion H. vm_compute. reflexivity.
Qed.

(* rejected: ADD used with an Int argument, a symbol declared twice, Int in QF_UF *)
Example demo_bad_sort :
  check_text [SL [SA "set-logic"; SA "QF_UFIDL"]; SL [SA "declare-sort"; SA "S"; SA "0"];
              SL [SA "declare-fun"; SA "ADD"; SL [SA "S"; SA "S"]; SA "S"];
              SL [SA "declare-fun"; SA "s_0"; SL []; SA "S"];
              SL [SA "assert"; SL [SA "="; SA "s_0"; SL [SA "ADD"; SA "s_0"; SA "3"]]]]
  = VIllFormed 4.
Proof. vm_compute. reflexivity. Qed.

Example demo_bad_twice :
  check_text [SL [SA "set-logic"; SA "QF_IDL"];
              SL [SA "declare-fun"; SA "t_0"; SL []; SA "Int"];
              SL [SA "declare-fun"; SA "t_0"; SL []; SA "Int"]]
  = VIllFormed 2.
Proof. vm_compute. reflexivity. Qed.

Example demo_bad_logic :
  check_text [SL [SA "set-logic"; SA "QF_UF"];
              SL [SA "declare-fun"; SA "l_0"; SL []; SA "Int"]]
  = VIllFormed 1.
Proof. vm_compute. reflexivity. Qed.
