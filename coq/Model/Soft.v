(* C07, model part 1 (definitions only, proofs are in Model/SoftProofs.v).

   A. The instruction table of the Max-SMT encoding (FullEncoding.__init__, default flags: POP basic,
      PUSH uninterpreted) in theta order, the three weight dictionaries of
      FullEncoding.generate_soft_constraints (gas / size / length; memory_encoding = "direct": store
      instructions are left out) and the two soft-constraint generators of
      complete_encoding/synthesis_soft_constraints.py as DATA: a soft constraint is
        (weight, position j, polarity, set of instructions)
      polarity true  = "(or (= t_j i) ... )"  : violated when the instruction at j is NOT in the set
      polarity false = "(distinct t_j i)"      : violated when the instruction at j IS in the set.
      The position windows (InstructionBounds) are a parameter [bnd : step -> nat * nat]
      (lower bound, first position AFTER the window = upper bound + 1; an upper bound of -1 is the
      empty window lb >= 0 = end) so that this file does not depend on Model/Bounds.v.

   B. The reference cost of an id sequence per criterion, taken from the specification's own
      "gas"/"size" fields, and the TRUE optimum of a specification within a length and a stack
      bound: a fuelled exhaustive enumeration over the alphabet
        POP, DUP1..DUP(sk-1), SWAP1..SWAP(sk-1), every user instruction id
      (NOP is padding, literal pushes are not part of the default encoding).  Completeness and
      minimality are theorems of Model/SoftProofs.v. *)
From Coq Require Import ZArith List Bool Arith.
From GV Require Import Sym.Spec Val.Realizes.
Import ListNotations.

Inductive criterion : Type := CGas | CSize | CLength.

(* ------------------------------------------------------------------------------------------ *)
(* A. instruction table, weights, soft constraints                                             *)

(* DUPk / SWAPk exist for k in range(1, min(bs, 17)) *)
Definition kmax (bs : nat) : nat := Nat.min bs 17 - 1.

Definition user_steps (S : spec) : list step := map (fun u => SIns (ui_id u)) (s_instrs S).

Definition basic_steps (S : spec) : list step :=
  [SNop; SPop]
  ++ map SDup (seq 1 (kmax (s_max_sk S)))
  ++ map SSwap (seq 1 (kmax (s_max_sk S))).

(* theta order: the user instructions are created first (FullEncoding._initialize_from_sms) *)
Definition enc_instrs (S : spec) : list step := user_steps S ++ basic_steps S.

(* FullEncoding._instructions = [*basic, *uninterpreted]: the iteration order of the weight dicts *)
Definition dict_instrs (S : spec) : list step := basic_steps S ++ user_steps S.

Definition instr_field (S : spec) (f : uinstr -> Z) (id : nat) : Z :=
  match find_instr S id with Some u => f u | None => 0%Z end.

Definition is_store (S : spec) (st : step) : bool :=
  match st with
  | SIns id => match find_instr S id with Some u => ui_storage u | None => false end
  | _ => false
  end.

(* gas_cost / size_cost properties of the EncodingInstruction classes *)
Definition gas_of (S : spec) (st : step) : Z :=
  match st with
  | SIns id => instr_field S ui_gas id
  | SNop => 0
  | SPop => 2
  | SDup _ | SSwap _ => 3
  | SPushC _ => 3
  end%Z.

Definition size_of (S : spec) (st : step) : Z :=
  match st with
  | SIns id => instr_field S ui_size id
  | SNop => 0
  | SPop | SDup _ | SSwap _ => 1
  | SPushC _ => 5
  end%Z.

Definition len_of (st : step) : Z := if is_nop st then 0%Z else 1%Z.

(* reference cost of one step and of a sequence *)
Definition cost1 (c : criterion) (S : spec) (st : step) : Z :=
  match c with CGas => gas_of S st | CSize => size_of S st | CLength => len_of st end.

Definition sumZ (l : list Z) : Z := fold_right Z.add 0%Z l.

Definition cost (c : criterion) (S : spec) (q : list step) : Z := sumZ (map (cost1 c S) q).

(* the weight the encoding attaches to an instruction (generate_soft_constraints) *)
Definition weight (c : criterion) (S : spec) (st : step) : Z :=
  match c with
  | CGas => gas_of S st
  | CSize => Z.min (size_of S st) 5
  | CLength => len_of st
  end.

(* weight_dict: non-store instructions in the order of FullEncoding._instructions *)
Definition wdict (c : criterion) (S : spec) : list (step * Z) :=
  map (fun st => (st, weight c S st)) (filter (fun st => negb (is_store S st)) (dict_instrs S)).

Definition bounds_t : Type := step -> nat * nat.

Definition in_win (bnd : bounds_t) (j : nat) (st : step) : bool :=
  (fst (bnd st) <=? j) && (j <? snd (bnd st)).

(* range(lb, ub + 1) *)
Definition win_positions (bnd : bounds_t) (st : step) : list nat :=
  seq (fst (bnd st)) (snd (bnd st) - fst (bnd st)).

Record softc : Type := mkSoft {
  sc_w : Z;
  sc_pos : nat;
  sc_pol : bool;
  sc_set : list step
}.

Definition mem_step (st : step) (l : list step) : bool := existsb (step_eqb st) l.

Definition violated (sc : softc) (q : list step) : bool :=
  match nth_error q (sc_pos sc) with
  | Some st => if sc_pol sc then negb (mem_step st (sc_set sc)) else mem_step st (sc_set sc)
  | None => false
  end.

Definition penalty (softs : list softc) (q : list step) : Z :=
  sumZ (map (fun sc => if violated sc q then sc_w sc else 0%Z) softs).

(* soft_constraints_direct *)
Definition soft_direct (wd : list (step * Z)) (bnd : bounds_t) : list softc :=
  flat_map (fun p => if (0 <? snd p)%Z
                     then map (fun j => mkSoft (snd p) j false [fst p]) (win_positions bnd (fst p))
                     else []) wd.

(* _generate_costs_ordered_dict: stable sort by weight *)
Fixpoint insert_w (x : step * Z) (l : list (step * Z)) : list (step * Z) :=
  match l with
  | [] => [x]
  | y :: r => if (snd x <=? snd y)%Z then x :: l else y :: insert_w x r
  end.
Definition sort_w (l : list (step * Z)) : list (step * Z) := fold_right insert_w [] l.

(* keys of _generate_disjoint_sets_from_cost: the distinct weights, increasing *)
Fixpoint dedupZ (l : list Z) : list Z :=
  match l with
  | [] => []
  | a :: r => match r with
              | b :: _ => if (a =? b)%Z then dedupZ r else a :: dedupZ r
              | [] => [a]
              end
  end.
Definition levels (wd : list (step * Z)) : list Z := dedupZ (map snd (sort_w wd)).

(* theta_or_variables when the set of cost [c] is reached: every instruction of a smaller cost *)
Definition cheaper (wd : list (step * Z)) (c : Z) : list step :=
  map fst (filter (fun p => (snd p <? c)%Z) (sort_w wd)).

Definition soft_level (wd : list (step * Z)) (bnd : bounds_t) (b0 : nat) (prev c : Z) : list softc :=
  flat_map (fun j => match filter (in_win bnd j) (cheaper wd c) with
                     | [] => []
                     | allowed => [mkSoft (c - prev) j true allowed]
                     end) (seq 0 b0).

Fixpoint soft_levels (wd : list (step * Z)) (bnd : bounds_t) (b0 : nat) (prev : Z) (cs : list Z) : list softc :=
  match cs with
  | [] => []
  | c :: r => soft_level wd bnd b0 prev c ++ soft_levels wd bnd b0 c r
  end.

(* soft_constraints_grouped_by_weight: the first (cheapest) set carries no constraint *)
Definition soft_grouped (wd : list (step * Z)) (bnd : bounds_t) (b0 : nat) : list softc :=
  match levels wd with
  | [] => []
  | c0 :: cs => soft_levels wd bnd b0 c0 cs
  end.

(* generate_soft_constraints; [direct] = option -direct-inequalities *)
Definition soft (c : criterion) (direct : bool) (S : spec) (bnd : bounds_t) : list softc :=
  if direct then soft_direct (wdict c S) bnd else soft_grouped (wdict c S) bnd (s_init_len S).

(* DumbInstructionBounds(0, b0 - 1) (option -order-bounds switches the dependency bounds off) *)
Definition dumb_bounds (S : spec) : bounds_t := fun _ => (0, s_init_len S).

(* bounds given as a table id -> (lower bound, upper bound + 1) for user instructions; every other
   instruction (and every id missing from the table) has the whole sequence as its window, as
   InstructionBoundsWithDependencies.lower/upper_bound_theta_value do with `.get(theta, default)` *)
Definition table_bounds (S : spec) (tbl : list (nat * (nat * nat))) : bounds_t :=
  fun st => match st with
            | SIns id => match find (fun e => Nat.eqb (fst e) id) tbl with
                         | Some e => snd e
                         | None => (0, s_init_len S)
                         end
            | _ => (0, s_init_len S)
            end.

(* the model-independent constant of soft_prices: every store occurs exactly once, is never in a
   weight dictionary, and therefore violates every grouped constraint of its position (total
   = largest weight - smallest weight) and no direct constraint *)
Definition stores_of (S : spec) : list step := filter (is_store S) (user_steps S).

Definition first_level (wd : list (step * Z)) : Z := hd 0%Z (levels wd).
Definition last_level (wd : list (step * Z)) : Z := last (levels wd) 0%Z.

(* grouped: a store violates every constraint of its position (last_level - first_level in total),
   any other instruction pays weight - first_level (first_level is 0: the weight of NOP) *)
Definition soft_const (c : criterion) (direct : bool) (S : spec) : Z :=
  if direct then (- sumZ (map (cost1 c S) (stores_of S)))%Z
  else (sumZ (map (fun st => (last_level (wdict c S) - cost1 c S st)%Z) (stores_of S))
        - Z.of_nat (s_init_len S) * first_level (wdict c S))%Z.

(* the priced cost: like [cost] but with the encoding's weights (differs from [cost] only for
   the size criterion, where weights are capped at 5) *)
Definition wcost (c : criterion) (S : spec) (q : list step) : Z :=
  sumZ (map (fun st => if is_store S st then cost1 c S st else weight c S st) q).

(* ------------------------------------------------------------------------------------------ *)
(* B. exhaustive enumeration and the true optimum                                              *)

Definition alphabet (S : spec) (sk : nat) : list step :=
  [SPop]
  ++ map SDup (seq 1 (Nat.min (sk - 1) 16))
  ++ map SSwap (seq 1 (Nat.min (sk - 1) 16))
  ++ user_steps S.

(* all sequences over [alpha] of length <= fuel that execute without error from [stk], never
   exceed the height [sk], and end in the stack [tgt] *)
Fixpoint enum_runs (S : spec) (alpha : list step) (sk : nat) (tgt : list operand) (fuel : nat)
         (stk : list operand) : list (list step) :=
  (if operands_eqb stk tgt then [[]] else [])
  ++ match fuel with
     | 0 => []
     | Datatypes.S f =>
         flat_map (fun st => match exec_step S stk st with
                             | inr stk' => if length stk' <=? sk
                                           then map (cons st) (enum_runs S alpha sk tgt f stk')
                                           else []
                             | inl _ => []
                             end) alpha
     end.

Definition enum (S : spec) (L sk : nat) : list (list step) :=
  filter (fun q => realizes_bounded S q L sk)
         (enum_runs S (alphabet S sk) sk (s_tgt S) L (s_src S)).

Fixpoint argmin (f : list step -> Z) (l : list (list step)) : option (Z * list step) :=
  match l with
  | [] => None
  | q :: r => match argmin f r with
              | None => Some (f q, q)
              | Some (m, w) => if (f q <=? m)%Z then Some (f q, q) else Some (m, w)
              end
  end.

(* minimum cost over all realizing sequences within the bounds, with a witness *)
Definition opt (c : criterion) (S : spec) (L sk : nat) : option (Z * list step) :=
  argmin (cost c S) (enum S L sk).

Definition strip_nops (q : list step) : list step := filter (fun s => negb (is_nop s)) q.

Definition no_pushc (q : list step) : bool :=
  forallb (fun s => match s with SPushC _ => false | _ => true end) q.

(* decoded programs: exactly b0 steps, each one an instruction of the encoding placed inside its
   window (restrict_t_domain) *)
Definition in_domain (S : spec) (bnd : bounds_t) (q : list step) : bool :=
  (length q =? s_init_len S)
  && forallb (fun pj => mem_step (snd pj) (enc_instrs S) && in_win bnd (fst pj) (snd pj))
             (combine (seq 0 (length q)) q).

(* ------------------------------------------------------------------------------------------ *)
(* C. canonical output for the correspondence check: instructions as theta values              *)

Fixpoint index_of (st : step) (l : list step) (n : nat) : nat :=
  match l with
  | [] => n
  | x :: r => if step_eqb st x then n else index_of st r (Datatypes.S n)
  end.

Definition theta_of (S : spec) (st : step) : nat := index_of st (enc_instrs S) 0.

Definition soft_out (S : spec) (l : list softc) : list (Z * nat * bool * list nat) :=
  map (fun sc => (sc_w sc, sc_pos sc, sc_pol sc, map (theta_of S) (sc_set sc))) l.

Definition wdict_out (c : criterion) (S : spec) : list (nat * Z) :=
  map (fun p => (theta_of S (fst p), snd p)) (wdict c S).

(* the three optima with one enumeration (for the per-instance check) *)
Definition opt3 (S : spec) (L sk : nat)
  : option (Z * list step) * option (Z * list step) * option (Z * list step) * nat :=
  let e := enum S L sk in
  (argmin (cost CGas S) e, argmin (cost CSize S) e, argmin (cost CLength S) e, List.length e).

Definition cost3 (S : spec) (q : list step) : Z * Z * Z :=
  (cost CGas S q, cost CSize S q, cost CLength S q).

(* ------------------------------------------------------------------------------------------ *)
(* D. decidable side conditions of the pricing theorems (Model/SoftProofs.v); the harness
      evaluates them on every instance (they hold whenever ids are unique and costs are >= 0)   *)

Definition memZ (z : Z) (l : list Z) : bool := existsb (Z.eqb z) l.

Fixpoint strict_incr (l : list Z) : bool :=
  match l with
  | a :: r => match r with b :: _ => (a <? b)%Z && strict_incr r | [] => true end
  | [] => true
  end.

Fixpoint nodupb_step (l : list step) : bool :=
  match l with
  | [] => true
  | a :: r => negb (mem_step a r) && nodupb_step r
  end.

Definition direct_side (c : criterion) (S : spec) : bool :=
  nodupb_step (dict_instrs S) && forallb (fun p => (0 <=? snd p)%Z) (wdict c S).

Definition grouped_side (c : criterion) (S : spec) (bnd : bounds_t) : bool :=
  let wd := wdict c S in
  nodupb_step (dict_instrs S)
  && strict_incr (levels wd)
  && forallb (fun p => memZ (snd p) (levels wd)) wd
  && forallb (fun c' => forallb (fun j => match filter (in_win bnd j) (cheaper wd c') with
                                          | [] => false | _ => true end) (seq 0 (s_init_len S)))
             (tl (levels wd))
  && forallb (fun p => forallb (fun c' => Bool.eqb (mem_step (fst p) (cheaper wd c')) (snd p <? c')%Z)
                               (levels wd)) wd
  && forallb (fun st => forallb (fun c' => negb (mem_step st (cheaper wd c'))) (levels wd)) (stores_of S).

(* every store of the specification occurs exactly once (a consequence of [realizes]) *)
Definition stores_once (S : spec) (q : list step) : bool :=
  forallb (fun st => length (filter (step_eqb st) q) =? 1) (stores_of S).

Definition pad (n : nat) (q : list step) : list step := q ++ repeat SNop (n - length q).

(* per-instance form of soft_prices, evaluated by the harness on every enumerated program that
   lies inside the windows *)
Definition prices_all (c : criterion) (direct : bool) (S : spec) (bnd : bounds_t) (L sk : nat) : nat * nat :=
  let softs := soft c direct S bnd in
  let k := soft_const c direct S in
  let progs := filter (in_domain S bnd) (map (pad (s_init_len S)) (enum S L sk)) in
  (length progs,
   length (filter (fun q => (penalty softs q =? wcost c S q + k)%Z) progs)).
