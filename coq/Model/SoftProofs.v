(* C07: proofs about Model/Soft.v.
   Part 1: the exhaustive enumerator is sound and complete, [opt] is the true minimum.
   Part 2: the soft constraints price decoded programs (soft_prices), refutation for -size. *)
From Coq Require Import ZArith List Bool Arith Lia.
From GV Require Import Sym.Spec Val.Realizes Val.RealizesProofs Model.Soft.
Import ListNotations.

(* ------------------------------------------------------------------------------------------ *)
(* Part 1                                                                                      *)

Lemma run_pos_irrel : forall S q stk pk p1 p2 r,
  run S stk pk p1 q = inr r -> run S stk pk p2 q = inr r.
Proof.
  intros S q. induction q as [|st q IH]; intros stk pk p1 p2 r H; simpl in *; [exact H|].
  destruct (exec_step S stk st) as [e|stk1]; [discriminate|]. eapply IH; exact H.
Qed.

Lemma run_cons : forall S stk pk pos st q,
  run S stk pk pos (st :: q) =
  match exec_step S stk st with
  | inl e => inl (pos, e)
  | inr stk' => run S stk' (Nat.max pk (length stk')) (pos + 1) q
  end.
Proof. reflexivity. Qed.

Lemma strip_cons : forall st q,
  strip_nops (st :: q) = if is_nop st then strip_nops q else st :: strip_nops q.
Proof. intros st q. unfold strip_nops. simpl. destruct (is_nop st); reflexivity. Qed.

Lemma run_strip : forall S q stk pk pos r,
  length stk <= pk -> run S stk pk pos q = inr r -> run S stk pk pos (strip_nops q) = inr r.
Proof.
  intros S q. induction q as [|st q IH]; intros stk pk pos r Hpk H; [exact H|].
  rewrite run_cons in H. rewrite strip_cons.
  destruct (exec_step S stk st) as [e|stk1] eqn:E; [discriminate|].
  destruct (is_nop st) eqn:N.
  - destruct st; try discriminate. simpl in E. inversion E. subst stk1.
    replace (Nat.max pk (length stk)) with pk in H by lia.
    apply IH; [exact Hpk|]. eapply run_pos_irrel; exact H.
  - rewrite run_cons, E. apply IH; [lia|exact H].
Qed.

Lemma count_ins_strip : forall id q, count_ins id (strip_nops q) = count_ins id q.
Proof.
  intros id q. unfold count_ins, strip_nops. induction q as [|st q IH]; simpl; [reflexivity|].
  destruct st; simpl; try exact IH. destruct (Nat.eqb id0 id); simpl; now rewrite IH.
Qed.

Lemma no_occ_strip : forall a q, no_occ a (strip_nops q) = no_occ a q.
Proof.
  intros a q. unfold no_occ, strip_nops. induction q as [|st q IH]; simpl; [reflexivity|].
  destruct st; simpl; try exact IH; now rewrite IH.
Qed.

Lemma dep_ok_strip : forall a b q, dep_ok a b (strip_nops q) = dep_ok a b q.
Proof.
  intros a b q. induction q as [|st q IH]; simpl; [reflexivity|].
  destruct st; simpl; try exact IH; try (now rewrite IH).
  destruct (Nat.eqb id b); [|exact IH].
  fold (strip_nops q). now rewrite no_occ_strip.
Qed.

Lemma store_errors_strip : forall S q, store_errors S (strip_nops q) = store_errors S q.
Proof.
  intros S q. unfold store_errors. apply flat_map_ext. intro u. now rewrite count_ins_strip.
Qed.

Lemma dep_errors_strip : forall S q, dep_errors S (strip_nops q) = dep_errors S q.
Proof.
  intros S q. unfold dep_errors. apply flat_map_ext. intro p. now rewrite dep_ok_strip.
Qed.

Lemma strip_idem : forall q, strip_nops (strip_nops q) = strip_nops q.
Proof.
  intro q. unfold strip_nops. induction q as [|st q IH]; simpl; [reflexivity|].
  destruct (negb (is_nop st)) eqn:E; simpl; [rewrite E; now rewrite IH|exact IH].
Qed.

Lemma seq_len_strip : forall q, seq_len (strip_nops q) = seq_len q.
Proof. intro q. unfold seq_len. fold (strip_nops q). fold (strip_nops (strip_nops q)). now rewrite strip_idem. Qed.

Lemma seq_len_length_strip : forall q, length (strip_nops q) = seq_len q.
Proof. reflexivity. Qed.

(* what acceptance within the bounds gives, in the form used below *)
Lemma realizes_bounded_inv : forall S q L sk,
  realizes_bounded S q L sk = true ->
  exists pk, run S (s_src S) (length (s_src S)) 0 q = inr (s_tgt S, pk) /\ pk <= sk /\
             seq_len q <= L /\ store_errors S q = [] /\ dep_errors S q = [].
Proof.
  intros S q L sk H. unfold realizes_bounded, check_bounded in H.
  destruct (check S q) as [f|] eqn:C; [discriminate|].
  destruct (seq_len q <=? L) eqn:EL; [|discriminate].
  destruct (peak_of S q <=? sk) eqn:EP; [|discriminate].
  assert (R : realizes S q = true) by (unfold realizes; now rewrite C).
  destruct (realizes_inv S q R) as (pk & Hr & Hs & Hd).
  exists pk. unfold peak_of in EP. rewrite Hr in EP.
  apply Nat.leb_le in EL. apply Nat.leb_le in EP. auto.
Qed.

Lemma realizes_bounded_intro : forall S q L sk pk,
  run S (s_src S) (length (s_src S)) 0 q = inr (s_tgt S, pk) -> pk <= sk -> seq_len q <= L ->
  store_errors S q = [] -> dep_errors S q = [] -> realizes_bounded S q L sk = true.
Proof.
  intros S q L sk pk Hr Hp HL Hs Hd. unfold realizes_bounded, check_bounded, check, peak_of.
  rewrite Hr. assert (E : operands_eqb (s_tgt S) (s_tgt S) = true) by now apply operands_eqb_eq.
  rewrite E, Hs, Hd. simpl.
  apply Nat.leb_le in HL. apply Nat.leb_le in Hp. now rewrite HL, Hp.
Qed.

Theorem realizes_bounded_strip : forall S q L sk,
  realizes_bounded S q L sk = true -> realizes_bounded S (strip_nops q) L sk = true.
Proof.
  intros S q L sk H. destruct (realizes_bounded_inv _ _ _ _ H) as (pk & Hr & Hp & HL & Hs & Hd).
  eapply realizes_bounded_intro with (pk := pk); auto.
  - apply run_strip; [lia|exact Hr].
  - now rewrite seq_len_strip.
  - now rewrite store_errors_strip.
  - now rewrite dep_errors_strip.
Qed.

Lemma cost_strip : forall c S q, cost c S (strip_nops q) = cost c S q.
Proof.
  intros c S q. unfold cost, strip_nops. induction q as [|st q IH]; simpl; [reflexivity|].
  destruct st; simpl; try (now rewrite IH). rewrite IH. destruct c; reflexivity.
Qed.

Definition plain (st : step) : bool :=
  match st with SNop | SPushC _ => false | _ => true end.

Lemma plain_strip : forall q, no_pushc q = true -> forallb plain (strip_nops q) = true.
Proof.
  intros q. unfold no_pushc, strip_nops. induction q as [|st q IH]; simpl; intro H; [reflexivity|].
  apply andb_true_iff in H. destruct H as [H1 H2].
  destruct st; simpl; try (now apply IH); try discriminate.
Qed.

Lemma step_in_alphabet : forall S sk stk st stk1,
  exec_step S stk st = inr stk1 -> length stk <= sk -> length stk1 <= sk -> plain st = true ->
  In st (alphabet S sk).
Proof.
  intros S sk stk st stk1 E Hs H1 Hp. unfold alphabet. cbn [app].
  destruct st as [|k|k| |z|id]; simpl in Hp; try discriminate.
  - left; reflexivity.
  - (* DUP *)
    simpl in E. destruct (depth_ok k) eqn:D; [|discriminate]. apply depth_ok_spec in D.
    destruct (nth_error stk (k - 1)) as [v|] eqn:N; [|discriminate]. inversion E; subst stk1.
    simpl in H1. assert (k - 1 < length stk) by (apply nth_error_Some; congruence).
    right. apply in_or_app. left. apply in_map. apply in_seq. lia.
  - (* SWAP *)
    simpl in E. destruct (depth_ok k) eqn:D; [|discriminate]. apply depth_ok_spec in D.
    destruct stk as [|a r]; [discriminate|].
    destruct (nth_error r (k - 1)) as [b|] eqn:N; [|discriminate].
    assert (k - 1 < length r) by (apply nth_error_Some; congruence). simpl in Hs.
    right. apply in_or_app. right. apply in_or_app. left. apply in_map. apply in_seq. lia.
  - (* user instruction *)
    simpl in E. destruct (find_instr S id) as [u|] eqn:F; [|discriminate].
    apply find_instr_some in F. destruct F as [Fi Fe].
    right. apply in_or_app. right. apply in_or_app. right. unfold user_steps.
    rewrite <- Fe. apply in_map with (f := fun u => SIns (ui_id u)). exact Fi.
Qed.

Lemma enum_runs_S : forall S alpha sk tgt f stk,
  enum_runs S alpha sk tgt (Datatypes.S f) stk =
  (if operands_eqb stk tgt then [[]] else [])
  ++ flat_map (fun st => match exec_step S stk st with
                         | inr stk' => if length stk' <=? sk
                                       then map (cons st) (enum_runs S alpha sk tgt f stk')
                                       else []
                         | inl _ => []
                         end) alpha.
Proof. reflexivity. Qed.

Lemma enum_runs_complete : forall S sk tgt q fuel stk pk pos pk',
  length q <= fuel -> forallb plain q = true ->
  run S stk pk pos q = inr (tgt, pk') -> length stk <= pk -> pk' <= sk ->
  In q (enum_runs S (alphabet S sk) sk tgt fuel stk).
Proof.
  intros S sk tgt q. induction q as [|st q IH]; intros fuel stk pk pos pk' HL HP HR Hs Hk.
  - simpl in HR. inversion HR; subst.
    destruct fuel; simpl; (assert (E : operands_eqb tgt tgt = true) by now apply operands_eqb_eq);
      rewrite E; left; reflexivity.
  - destruct fuel as [|f]; [simpl in HL; lia|].
    simpl in HR. destruct (exec_step S stk st) as [e|stk1] eqn:E; [discriminate|].
    simpl in HP. apply andb_true_iff in HP. destruct HP as [HP1 HP2].
    destruct (run_peak _ _ _ _ _ _ _ HR) as [Hmono _].
    assert (H1 : length stk1 <= sk) by lia.
    assert (H0 : length stk <= sk) by lia.
    rewrite enum_runs_S. apply in_or_app. right. apply in_flat_map. exists st. split.
    + eapply step_in_alphabet; eauto.
    + rewrite E. apply Nat.leb_le in H1. rewrite H1. apply in_map.
      eapply IH; eauto; simpl in HL; lia.
Qed.

(* soundness: everything in [enum] realizes the specification within the bounds *)
Theorem enum_sound : forall S L sk q, In q (enum S L sk) -> realizes_bounded S q L sk = true.
Proof. intros S L sk q H. unfold enum in H. apply filter_In in H. tauto. Qed.

(* completeness: every realizing sequence within the bounds (without literal pushes) is in
   [enum] once its NOPs are dropped *)
Theorem enum_complete : forall S L sk q,
  realizes_bounded S q L sk = true -> no_pushc q = true -> In (strip_nops q) (enum S L sk).
Proof.
  intros S L sk q H Hn. pose proof (realizes_bounded_strip _ _ _ _ H) as H'.
  unfold enum. apply filter_In. split; [|exact H'].
  destruct (realizes_bounded_inv _ _ _ _ H') as (pk & Hr & Hp & HL & _ & _).
  eapply enum_runs_complete with (pk := length (s_src S)) (pos := 0) (pk' := pk); eauto.
  - rewrite seq_len_strip in HL. rewrite seq_len_length_strip. rewrite <- seq_len_strip.
    rewrite seq_len_strip. exact HL.
  - now apply plain_strip.
Qed.

Lemma argmin_spec : forall f l m w, argmin f l = Some (m, w) ->
  In w l /\ f w = m /\ forall q, In q l -> (m <= f q)%Z.
Proof.
  intros f l. induction l as [|a r IH]; intros m w H; simpl in H; [discriminate|].
  destruct (argmin f r) as [[m' w']|] eqn:A.
  - destruct (IH _ _ eq_refl) as (I1 & I2 & I3).
    destruct (f a <=? m')%Z eqn:C; inversion H; subst; clear H.
    + apply Z.leb_le in C. split; [now left|]. split; [reflexivity|].
      intros q [->|Hq]; [lia|]. specialize (I3 _ Hq). lia.
    + apply Z.leb_gt in C. split; [now right|]. split; [reflexivity|].
      intros q [->|Hq]; [lia|]. now apply I3.
  - inversion H; subst. destruct r; [|simpl in A; destruct (argmin f r) as [[? ?]|]; try discriminate;
      destruct (f l <=? z)%Z; discriminate].
    split; [now left|]. split; [reflexivity|]. intros q [->|[]]. lia.
Qed.

Lemma argmin_none : forall f l, argmin f l = None -> l = [].
Proof.
  intros f [|a r] H; [reflexivity|]. simpl in H.
  destruct (argmin f r) as [[m w]|]; [destruct (f a <=? m)%Z|]; discriminate.
Qed.

(* [opt] is attained by a realizing sequence and is a lower bound on the cost of EVERY realizing
   sequence within the bounds *)
Theorem opt_is_minimum : forall c S L sk m w,
  opt c S L sk = Some (m, w) ->
  realizes_bounded S w L sk = true /\ cost c S w = m /\
  forall q, realizes_bounded S q L sk = true -> no_pushc q = true -> (m <= cost c S q)%Z.
Proof.
  intros c S L sk m w H. unfold opt in H. apply argmin_spec in H. destruct H as (H1 & H2 & H3).
  split; [now apply enum_sound in H1|]. split; [exact H2|].
  intros q Hq Hn. rewrite <- cost_strip. apply H3. now apply enum_complete.
Qed.

Theorem opt_none_unrealizable : forall c S L sk,
  opt c S L sk = None -> forall q, no_pushc q = true -> realizes_bounded S q L sk = false.
Proof.
  intros c S L sk H q Hn. unfold opt in H. apply argmin_none in H.
  destruct (realizes_bounded S q L sk) eqn:R; [|reflexivity].
  pose proof (enum_complete _ _ _ _ R Hn) as I. rewrite H in I. destruct I.
Qed.

(* ------------------------------------------------------------------------------------------ *)
(* Part 2: pricing                                                                             *)

Local Open Scope Z_scope.

Lemma sumZ_app : forall l1 l2, sumZ (l1 ++ l2) = sumZ l1 + sumZ l2.
Proof. induction l1 as [|a r IH]; intro l2; simpl; [reflexivity|]. rewrite IH. lia. Qed.

Lemma sumZ_map_add : forall (A : Type) (f g : A -> Z) l,
  sumZ (map (fun x => f x + g x) l) = sumZ (map f l) + sumZ (map g l).
Proof. intros A f g l. induction l as [|a r IH]; simpl; [reflexivity|]. rewrite IH. lia. Qed.

Lemma sumZ_map_ext : forall (A : Type) (f g : A -> Z) l,
  (forall x, In x l -> f x = g x) -> sumZ (map f l) = sumZ (map g l).
Proof.
  intros A f g l H. induction l as [|a r IH]; simpl; [reflexivity|].
  rewrite (H a (or_introl eq_refl)), IH; [reflexivity|]. intros x Hx. apply H. now right.
Qed.

Lemma sumZ_map_zero : forall (A : Type) (l : list A), sumZ (map (fun _ => 0) l) = 0.
Proof. intros A l. induction l as [|a r IH]; simpl; [reflexivity|]. rewrite IH. reflexivity. Qed.

Lemma sumZ_flat_map : forall (A B : Type) (f : B -> Z) (F : A -> list B) l,
  sumZ (map f (flat_map F l)) = sumZ (map (fun x => sumZ (map f (F x))) l).
Proof.
  intros A B f F l. induction l as [|a r IH]; simpl; [reflexivity|].
  rewrite map_app, sumZ_app, IH. reflexivity.
Qed.

Lemma sum_indicator : forall (x : Z) (p : nat) n a,
  sumZ (map (fun j => if Nat.eqb j p then x else 0) (seq a n))
  = if ((a <=? p)%nat && (p <? a + n)%nat)%bool then x else 0.
Proof.
  intros x p n. induction n as [|n IH]; intro a; simpl.
  - destruct (Nat.leb_spec a p); destruct (Nat.ltb_spec p (a + 0)); simpl; try reflexivity; lia.
  - rewrite IH. destruct (Nat.eqb_spec a p) as [->|N].
    + destruct (Nat.leb_spec (Datatypes.S p) p); [lia|]. simpl.
      destruct (Nat.leb_spec p p); [|lia]. destruct (Nat.ltb_spec p (p + Datatypes.S n)); [|lia].
      simpl. lia.
    + destruct (Nat.leb_spec (Datatypes.S a) p); destruct (Nat.ltb_spec p (Datatypes.S a + n));
        destruct (Nat.leb_spec a p); destruct (Nat.ltb_spec p (a + Datatypes.S n)); simpl; try lia.
Qed.

Lemma step_eqb_eq : forall a b, step_eqb a b = true <-> a = b.
Proof.
  intros a b. destruct a, b; simpl; split; intro H; try discriminate; try reflexivity;
    try (apply Nat.eqb_eq in H; now subst); try (inversion H; subst; apply Nat.eqb_refl).
  - apply Z.eqb_eq in H. now subst.
  - inversion H. apply Z.eqb_refl.
Qed.

Lemma step_eqb_refl : forall a, step_eqb a a = true.
Proof. intro a. now apply step_eqb_eq. Qed.

Lemma mem_step_In : forall st l, mem_step st l = true <-> In st l.
Proof.
  intros st l. unfold mem_step. rewrite existsb_exists. split.
  - intros (x & Hx & E). apply step_eqb_eq in E. now subst.
  - intro H. exists st. split; [exact H|apply step_eqb_refl].
Qed.

Lemma mem_step_filter : forall f st l,
  mem_step st (filter f l) = (f st && mem_step st l)%bool.
Proof.
  intros f st l. induction l as [|a r IH]; simpl; [now rewrite andb_false_r|].
  destruct (f a) eqn:Fa; simpl; rewrite IH.
  - destruct (step_eqb st a) eqn:E; simpl; [|reflexivity].
    apply step_eqb_eq in E. subst. now rewrite Fa.
  - destruct (step_eqb st a) eqn:E; simpl; [|reflexivity].
    apply step_eqb_eq in E. subst. rewrite Fa. reflexivity.
Qed.

Lemma nodupb_step_filter : forall f l, nodupb_step l = true -> nodupb_step (filter f l) = true.
Proof.
  intros f l. induction l as [|a r IH]; simpl; intro H; [reflexivity|].
  apply andb_true_iff in H. destruct H as [H1 H2]. destruct (f a); simpl; [|now apply IH].
  rewrite mem_step_filter. apply negb_true_iff in H1. rewrite H1, andb_false_r. simpl. now apply IH.
Qed.

Lemma sum_select : forall (g : step -> Z) st l, nodupb_step l = true ->
  sumZ (map (fun x => if step_eqb st x then g x else 0) l) = if mem_step st l then g st else 0.
Proof.
  intros g st l. induction l as [|a r IH]; simpl; intro H; [reflexivity|].
  apply andb_true_iff in H. destruct H as [H1 H2]. rewrite (IH H2).
  destruct (step_eqb st a) eqn:E; simpl.
  - apply step_eqb_eq in E. subst a. apply negb_true_iff in H1. rewrite H1. lia.
  - reflexivity.
Qed.

Definition pen1 (q : list step) (sc : softc) : Z := if violated sc q then sc_w sc else 0.

Definition pp (softs : list softc) (q : list step) (j : nat) : Z :=
  sumZ (map (fun sc => if Nat.eqb (sc_pos sc) j then pen1 q sc else 0) softs).

Lemma pp_app : forall a b q j, pp (a ++ b) q j = pp a q j + pp b q j.
Proof. intros. unfold pp. now rewrite map_app, sumZ_app. Qed.

Lemma pp_flat_map : forall (A : Type) (F : A -> list softc) l q j,
  pp (flat_map F l) q j = sumZ (map (fun x => pp (F x) q j) l).
Proof. intros. unfold pp. now rewrite sumZ_flat_map. Qed.

Lemma penalty_regroup : forall softs q,
  penalty softs q = sumZ (map (pp softs q) (seq 0 (length q))).
Proof.
  intros softs q. unfold penalty. induction softs as [|sc r IH].
  - simpl. unfold pp. simpl. now rewrite sumZ_map_zero.
  - simpl. rewrite IH.
    rewrite (sumZ_map_ext _ (pp (sc :: r) q)
               (fun j => (if Nat.eqb j (sc_pos sc) then pen1 q sc else 0) + pp r q j)).
    + rewrite sumZ_map_add, sum_indicator. f_equal.
      fold (pen1 q sc). simpl. destruct (Nat.ltb_spec (sc_pos sc) (length q)); simpl; [reflexivity|].
      unfold pen1, violated. assert (N : nth_error q (sc_pos sc) = None) by now apply nth_error_None.
      now rewrite N.
    + intros j _. unfold pp. simpl. rewrite (Nat.eqb_sym j). reflexivity.
Qed.

Lemma sumZ_nth : forall (g : step -> Z) q,
  sumZ (map g q) = sumZ (map (fun j => match nth_error q j with Some st => g st | None => 0 end)
                             (seq 0 (length q))).
Proof.
  intros g q. induction q as [|a r IH]; simpl; [reflexivity|].
  rewrite IH. f_equal. rewrite <- seq_shift, map_map. reflexivity.
Qed.

(* a singleton-position list contributes only at its own position *)
Lemma pp_positions : forall (G : nat -> list softc) (X : nat -> Z) q j a n,
  (forall j', pp (G j') q j = if Nat.eqb j' j then X j' else 0) ->
  sumZ (map (fun j' => pp (G j') q j) (seq a n))
  = if ((a <=? j)%nat && (j <? a + n)%nat)%bool then X j else 0.
Proof.
  intros G X q j a n H. rewrite <- sum_indicator.
  apply sumZ_map_ext. intros j' _. rewrite H. destruct (Nat.eqb_spec j' j); [now subst|reflexivity].
Qed.

Lemma win_eq : forall lb e j,
  ((lb <=? j)%nat && (j <? lb + (e - lb))%nat)%bool = ((lb <=? j)%nat && (j <? e)%nat)%bool.
Proof.
  intros. destruct (Nat.leb_spec lb j); simpl; [|reflexivity].
  destruct (Nat.ltb_spec j (lb + (e - lb))); destruct (Nat.ltb_spec j e); try reflexivity; lia.
Qed.

(* ---- direct ---- *)

Lemma pp_direct_entry : forall q j st bnd st' w,
  nth_error q j = Some st ->
  pp (if 0 <? w then map (fun j' => mkSoft w j' false [st']) (win_positions bnd st') else []) q j
  = if ((0 <? w) && in_win bnd j st' && step_eqb st st')%bool then w else 0.
Proof.
  intros q j st bnd st' w Hn. destruct (0 <? w) eqn:W; simpl; [|reflexivity].
  unfold win_positions, pp. rewrite map_map. simpl.
  rewrite (sumZ_map_ext _ _ (fun j' => if Nat.eqb j' j then (if step_eqb st st' then w else 0) else 0)).
  - rewrite sum_indicator, win_eq. unfold in_win.
    destruct ((fst (bnd st') <=? j)%nat && (j <? snd (bnd st'))%nat)%bool; simpl; [|reflexivity].
    destruct (step_eqb st st'); reflexivity.
  - intros j' _. destruct (Nat.eqb_spec j' j) as [->|]; [|reflexivity].
    unfold pen1, violated. simpl. rewrite Hn. unfold mem_step. simpl. now rewrite orb_false_r.
Qed.

Lemma dict_of_enc : forall S st, mem_step st (enc_instrs S) = true -> In st (dict_instrs S).
Proof.
  intros S st H. apply mem_step_In in H. unfold enc_instrs in H. unfold dict_instrs.
  apply in_app_or in H. apply in_or_app. tauto.
Qed.

Lemma wdict_nonneg : forall c S st,
  forallb (fun p => 0 <=? snd p) (wdict c S) = true ->
  In st (dict_instrs S) -> is_store S st = false -> 0 <= weight c S st.
Proof.
  intros c S st H Hin Hs. rewrite forallb_forall in H.
  assert (I : In (st, weight c S st) (wdict c S)).
  { unfold wdict. apply in_map with (f := fun st => (st, weight c S st)).
    apply filter_In. split; [exact Hin|]. now rewrite Hs. }
  apply H in I. cbn [snd] in I. now apply Z.leb_le.
Qed.

Lemma pp_direct : forall c S bnd q j st,
  direct_side c S = true -> nth_error q j = Some st ->
  In st (dict_instrs S) -> in_win bnd j st = true ->
  pp (soft_direct (wdict c S) bnd) q j = if is_store S st then 0 else weight c S st.
Proof.
  intros c S bnd q j st Hside Hn Hin Hw. unfold direct_side in Hside.
  apply andb_true_iff in Hside. destruct Hside as [Hnd Hpos].
  unfold soft_direct. rewrite pp_flat_map. unfold wdict. rewrite map_map. cbn [fst snd].
  rewrite (sumZ_map_ext _ _ (fun x => if step_eqb st x
                                      then (if ((0 <? weight c S x) && in_win bnd j x)%bool then weight c S x else 0)
                                      else 0)).
  - rewrite sum_select by now apply nodupb_step_filter.
    rewrite mem_step_filter. assert (M : mem_step st (dict_instrs S) = true) by now apply mem_step_In.
    rewrite M, andb_true_r. destruct (is_store S st) eqn:Hs; simpl; [reflexivity|].
    rewrite Hw, andb_true_r. pose proof (wdict_nonneg c S st Hpos Hin Hs) as Hge.
    destruct (Z.ltb_spec 0 (weight c S st)); [reflexivity|lia].
  - intros x _. rewrite (pp_direct_entry q j st bnd x (weight c S x) Hn).
    destruct (step_eqb st x); [now rewrite andb_true_r|now rewrite andb_false_r].
Qed.

(* ---- grouped ---- *)

Fixpoint tele (P : Z -> bool) (prev : Z) (cs : list Z) : Z :=
  match cs with
  | [] => 0
  | c :: r => (if P c then 0 else c - prev) + tele P c r
  end.

Lemma tele_ext : forall P P' cs prev, (forall c, In c cs -> P c = P' c) -> tele P prev cs = tele P' prev cs.
Proof.
  intros P P' cs. induction cs as [|c r IH]; intros prev H; simpl; [reflexivity|].
  rewrite (H c (or_introl eq_refl)), (IH c); [reflexivity|]. intros x Hx. apply H. now right.
Qed.

Lemma last_cons : forall (l : list Z) a d, last (a :: l) d = last l a.
Proof.
  induction l as [|b r IH]; intros a d; [reflexivity|].
  change (last (a :: b :: r) d) with (last (b :: r) d). now rewrite (IH b d), (IH b a).
Qed.

Lemma tele_all : forall cs prev, tele (fun _ => false) prev cs = last cs prev - prev.
Proof.
  induction cs as [|c r IH]; intro prev; [simpl; lia|].
  cbn [tele]. rewrite IH, last_cons. lia.
Qed.

Lemma tele_below : forall w cs prev, strict_incr (prev :: cs) = true -> w <= prev ->
  tele (fun c => w <? c) prev cs = 0.
Proof.
  intros w cs. induction cs as [|c r IH]; intros prev H Hw; simpl; [reflexivity|].
  simpl in H. apply andb_true_iff in H. destruct H as [H1 H2]. apply Z.ltb_lt in H1.
  destruct (Z.ltb_spec w c); [|lia]. rewrite (IH c); [reflexivity| |lia]. exact H2.
Qed.

Lemma strict_incr_head_le : forall w cs c, strict_incr (c :: cs) = true -> memZ w (c :: cs) = true -> c <= w.
Proof.
  intros w cs. induction cs as [|d r IH]; intros c H M; simpl in M.
  - rewrite orb_false_r in M. apply Z.eqb_eq in M. lia.
  - simpl in H. apply andb_true_iff in H. destruct H as [H1 H2]. apply Z.ltb_lt in H1.
    destruct (Z.eqb_spec w c); [lia|]. simpl in M. specialize (IH d H2 M). lia.
Qed.

Lemma tele_weight : forall w cs prev, strict_incr (prev :: cs) = true -> memZ w (prev :: cs) = true ->
  tele (fun c => w <? c) prev cs = w - prev.
Proof.
  intros w cs. induction cs as [|c r IH]; intros prev H M.
  - simpl in M. rewrite orb_false_r in M. apply Z.eqb_eq in M. simpl. lia.
  - pose proof H as H0. simpl in H. apply andb_true_iff in H. destruct H as [H1 H2]. apply Z.ltb_lt in H1.
    destruct (Z.eqb_spec w prev) as [->|N].
    + rewrite tele_below; [lia|exact H0|lia].
    + assert (M' : memZ w (c :: r) = true).
      { simpl in M. destruct (Z.eqb_spec w prev); [contradiction|]. exact M. }
      pose proof (strict_incr_head_le _ _ _ H2 M') as Hc. simpl.
      destruct (Z.ltb_spec w c); [lia|]. rewrite (IH c H2 M'). lia.
Qed.

Lemma soft_level_same : forall wd bnd b0 prev c,
  soft_level wd bnd b0 prev c =
  flat_map (fun j' => match filter (in_win bnd j') (cheaper wd c) with
                      | [] => []
                      | _ :: _ => [mkSoft (c - prev) j' true (filter (in_win bnd j') (cheaper wd c))]
                      end) (seq 0 b0).
Proof.
  intros. unfold soft_level. apply flat_map_ext. intro j'.
  destruct (filter (in_win bnd j') (cheaper wd c)); reflexivity.
Qed.

Lemma pp_soft_level : forall wd bnd b0 prev c q j st,
  nth_error q j = Some st -> in_win bnd j st = true -> (j < b0)%nat ->
  filter (in_win bnd j) (cheaper wd c) <> [] ->
  pp (soft_level wd bnd b0 prev c) q j = if mem_step st (cheaper wd c) then 0 else c - prev.
Proof.
  intros wd bnd b0 prev c q j st Hn Hw Hj Hne. rewrite soft_level_same, pp_flat_map.
  rewrite (pp_positions
             (fun j' => match filter (in_win bnd j') (cheaper wd c) with
                        | [] => []
                        | _ :: _ => [mkSoft (c - prev) j' true (filter (in_win bnd j') (cheaper wd c))]
                        end)
             (fun j' => match filter (in_win bnd j') (cheaper wd c) with
                        | [] => 0
                        | _ :: _ => pen1 q (mkSoft (c - prev) j' true (filter (in_win bnd j') (cheaper wd c)))
                        end)).
  - destruct (Nat.leb_spec 0 j); [|lia]. destruct (Nat.ltb_spec j (0 + b0)); [|lia]. simpl.
    destruct (filter (in_win bnd j) (cheaper wd c)) as [|a l] eqn:F; [contradiction|].
    unfold pen1, violated. cbn [sc_pos sc_pol sc_set sc_w]. rewrite Hn.
    rewrite <- F, mem_step_filter, Hw. cbn [andb].
    destruct (mem_step st (cheaper wd c)); reflexivity.
  - intro j'. unfold pp. destruct (filter (in_win bnd j') (cheaper wd c)) as [|a l]; simpl.
    + destruct (Nat.eqb j' j); reflexivity.
    + destruct (Nat.eqb j' j); lia.
Qed.

Lemma pp_soft_levels : forall wd bnd b0 q j st cs prev,
  nth_error q j = Some st -> in_win bnd j st = true -> (j < b0)%nat ->
  (forall c, In c cs -> filter (in_win bnd j) (cheaper wd c) <> []) ->
  pp (soft_levels wd bnd b0 prev cs) q j = tele (fun c => mem_step st (cheaper wd c)) prev cs.
Proof.
  intros wd bnd b0 q j st cs. induction cs as [|c r IH]; intros prev Hn Hw Hj Hne; simpl.
  - reflexivity.
  - rewrite pp_app, (pp_soft_level wd bnd b0 prev c q j st Hn Hw Hj (Hne c (or_introl eq_refl))).
    rewrite (IH c Hn Hw Hj); [reflexivity|]. intros x Hx. apply Hne. now right.
Qed.

Lemma basic_not_store : forall S st, In st (basic_steps S) -> is_store S st = false.
Proof.
  intros S st H. unfold basic_steps in H. cbn [app] in H.
  destruct H as [<-|[<-|H]]; try reflexivity.
  apply in_app_or in H. destruct H as [H|H]; apply in_map_iff in H; destruct H as (k & <- & _); reflexivity.
Qed.

Lemma is_store_mem : forall S st, In st (dict_instrs S) -> is_store S st = mem_step st (stores_of S).
Proof.
  intros S st H. unfold stores_of. rewrite mem_step_filter.
  destruct (is_store S st) eqn:E; [|reflexivity]. simpl. symmetry. apply mem_step_In.
  unfold dict_instrs in H. apply in_app_or in H. destruct H as [H|H]; [|exact H].
  apply basic_not_store in H. congruence.
Qed.

Lemma nodupb_app_r : forall a b, nodupb_step (a ++ b) = true -> nodupb_step b = true.
Proof.
  induction a as [|x r IH]; intros b H; [exact H|]. simpl in H.
  apply andb_true_iff in H. destruct H as [_ H]. now apply IH.
Qed.

Lemma step_eqb_sym : forall a b, step_eqb a b = step_eqb b a.
Proof.
  intros a b. destruct (step_eqb a b) eqn:E1; destruct (step_eqb b a) eqn:E2; try reflexivity.
  - apply step_eqb_eq in E1. subst. now rewrite step_eqb_refl in E2.
  - apply step_eqb_eq in E2. subst. now rewrite step_eqb_refl in E1.
Qed.

Lemma sum_eq_count : forall (g : step -> Z) a q,
  sumZ (map (fun x => if step_eqb a x then g x else 0) q)
  = Z.of_nat (length (filter (step_eqb a) q)) * g a.
Proof.
  intros g a q. induction q as [|x r IH]; [reflexivity|].
  cbn [map sumZ fold_right filter]. fold (sumZ (map (fun x => if step_eqb a x then g x else 0) r)).
  rewrite IH. destruct (step_eqb a x) eqn:E.
  - apply step_eqb_eq in E. subst x. cbn [length]. rewrite Nat2Z.inj_succ. lia.
  - lia.
Qed.

Lemma sum_over_once : forall (g : step -> Z) q l, nodupb_step l = true ->
  (forall a, In a l -> length (filter (step_eqb a) q) = 1%nat) ->
  sumZ (map (fun x => if mem_step x l then g x else 0) q) = sumZ (map g l).
Proof.
  intros g q l. induction l as [|a r IH]; intros Hnd Hone.
  - simpl. apply sumZ_map_zero.
  - simpl in Hnd. apply andb_true_iff in Hnd. destruct Hnd as [Ha Hr]. apply negb_true_iff in Ha.
    rewrite (sumZ_map_ext _ _ (fun x => (if step_eqb a x then g x else 0) + (if mem_step x r then g x else 0))).
    + rewrite sumZ_map_add, sum_eq_count, (Hone a (or_introl eq_refl)), IH; [cbn [map sumZ fold_right]; change (Z.of_nat 1) with 1; unfold sumZ; lia|exact Hr|].
      intros b Hb. apply Hone. now right.
    + intros x _. unfold mem_step at 1. cbn [existsb]. fold (mem_step x r). rewrite (step_eqb_sym x a).
      destruct (step_eqb a x) eqn:E; simpl; [|reflexivity].
      apply step_eqb_eq in E. subst x. rewrite Ha. lia.
Qed.

Lemma sumZ_map_sub_const : forall (A : Type) (f : A -> Z) k l,
  sumZ (map (fun x => f x - k) l) = sumZ (map f l) - Z.of_nat (length l) * k.
Proof.
  intros A f k l. induction l as [|a r IH]; [reflexivity|].
  cbn [map sumZ fold_right length]. fold (sumZ (map (fun x => f x - k) r)). fold (sumZ (map f r)).
  rewrite IH, Nat2Z.inj_succ. lia.
Qed.

Lemma assemble : forall c S q A c0,
  (forall st, In st q -> In st (dict_instrs S)) -> nodupb_step (dict_instrs S) = true ->
  stores_once S q = true ->
  sumZ (map (fun st => if is_store S st then A else weight c S st - c0) q)
  = wcost c S q + (sumZ (map (fun st => A + c0 - cost1 c S st) (stores_of S)) - Z.of_nat (length q) * c0).
Proof.
  intros c S q A c0 Hin Hnd Hone. unfold wcost.
  rewrite (sumZ_map_ext _ _ (fun st => (if is_store S st then cost1 c S st else weight c S st)
                                       + ((if mem_step st (stores_of S) then A + c0 - cost1 c S st else 0) - c0))).
  - rewrite sumZ_map_add, sumZ_map_sub_const. f_equal. f_equal.
    apply sum_over_once.
    + unfold stores_of. apply nodupb_step_filter. unfold dict_instrs in Hnd. now apply nodupb_app_r in Hnd.
    + intros a Ha. unfold stores_once in Hone. rewrite forallb_forall in Hone.
      apply Hone in Ha. now apply Nat.eqb_eq in Ha.
  - intros st Hst. rewrite <- (is_store_mem S st (Hin st Hst)). destruct (is_store S st); lia.
Qed.

Lemma in_combine_seq : forall (q : list step) a j st,
  nth_error q j = Some st -> In ((a + j)%nat, st) (combine (seq a (length q)) q).
Proof.
  induction q as [|x r IH]; intros a j st H; [destruct j; discriminate|].
  destruct j as [|j]; simpl in H.
  - inversion H; subst. rewrite Nat.add_0_r. left. reflexivity.
  - right. replace (a + Datatypes.S j)%nat with (Datatypes.S a + j)%nat by lia. now apply IH.
Qed.

Lemma in_domain_nth : forall S bnd q, in_domain S bnd q = true ->
  length q = s_init_len S /\
  forall j st, nth_error q j = Some st -> In st (dict_instrs S) /\ in_win bnd j st = true.
Proof.
  intros S bnd q H. unfold in_domain in H. apply andb_true_iff in H. destruct H as [H1 H2].
  apply Nat.eqb_eq in H1. split; [exact H1|]. intros j st Hn.
  rewrite forallb_forall in H2. pose proof (in_combine_seq q 0 j st Hn) as I. apply H2 in I.
  cbn [fst snd] in I. apply andb_true_iff in I. destruct I as [I1 I2]. split; [now apply dict_of_enc|exact I2].
Qed.

Lemma pp_grouped : forall c S bnd q j st,
  grouped_side c S bnd = true -> nth_error q j = Some st -> In st (dict_instrs S) ->
  in_win bnd j st = true -> (j < s_init_len S)%nat ->
  pp (soft_grouped (wdict c S) bnd (s_init_len S)) q j
  = if is_store S st then last_level (wdict c S) - first_level (wdict c S)
    else weight c S st - first_level (wdict c S).
Proof.
  intros c S bnd q j st Hside Hn Hin Hw Hj. unfold grouped_side in Hside.
  do 5 (apply andb_true_iff in Hside; let H := fresh "G" in destruct Hside as [Hside H]).
  rename Hside into Gnd.
  unfold soft_grouped, last_level, first_level.
  assert (Wd : is_store S st = false -> In (st, weight c S st) (wdict c S)).
  { intro Hs. unfold wdict. apply in_map with (f := fun st => (st, weight c S st)).
    apply filter_In. split; [exact Hin|]. now rewrite Hs. }
  destruct (levels (wdict c S)) as [|c0 cs] eqn:LV.
  - unfold pp. simpl. destruct (is_store S st) eqn:Hs; [reflexivity|].
    rewrite forallb_forall in G2. specialize (G2 _ (Wd eq_refl)). discriminate.
  - rewrite (pp_soft_levels (wdict c S) bnd (s_init_len S) q j st cs c0 Hn Hw Hj).
    + cbn [hd]. rewrite last_cons. destruct (is_store S st) eqn:Hs.
      * rewrite (tele_ext _ (fun _ => false)); [apply tele_all|].
        intros x Hx. rewrite forallb_forall in G.
        assert (Hst : In st (stores_of S)).
        { apply mem_step_In. rewrite <- is_store_mem; assumption. }
        specialize (G st Hst). rewrite forallb_forall in G.
        specialize (G x (or_intror Hx)). now apply negb_true_iff in G.
      * rewrite (tele_ext _ (fun x => weight c S st <? x)).
        -- apply tele_weight; [exact G3|]. rewrite forallb_forall in G2. exact (G2 _ (Wd eq_refl)).
        -- intros x Hx. rewrite forallb_forall in G0. specialize (G0 _ (Wd eq_refl)).
           rewrite forallb_forall in G0. specialize (G0 x (or_intror Hx)). cbn [fst snd] in G0.
           now apply eqb_prop in G0.
    + intros x Hx. cbn [tl] in G1. rewrite forallb_forall in G1. specialize (G1 x Hx).
      rewrite forallb_forall in G1. specialize (G1 j). 
      assert (Ij : In j (seq 0 (s_init_len S))) by (apply in_seq; lia). specialize (G1 Ij).
      intro E. rewrite E in G1. discriminate.
Qed.

Lemma sumZ_pp_nth : forall softs q (h : step -> Z),
  (forall j st, nth_error q j = Some st -> pp softs q j = h st) ->
  sumZ (map (pp softs q) (seq 0 (length q))) = sumZ (map h q).
Proof.
  intros softs q h H. rewrite (sumZ_nth h q). apply sumZ_map_ext. intros j Hj.
  apply in_seq in Hj. destruct (nth_error q j) as [st|] eqn:N.
  - now apply H.
  - apply nth_error_None in N. lia.
Qed.

(* soft_prices, general form: on a decoded program (every position filled with an instruction of
   the encoding inside its window, every store exactly once) the penalty is the priced cost plus a
   constant of the specification *)
Theorem soft_prices_weighted : forall c (direct : bool) S bnd q,
  (if direct then direct_side c S else grouped_side c S bnd) = true ->
  in_domain S bnd q = true -> stores_once S q = true ->
  penalty (soft c direct S bnd) q = wcost c S q + soft_const c direct S.
Proof.
  intros c direct S bnd q Hside Hdom Hone.
  destruct (in_domain_nth _ _ _ Hdom) as [Hlen Hnth].
  assert (Hin : forall st, In st q -> In st (dict_instrs S)).
  { intros st Hst. apply In_nth_error in Hst. destruct Hst as [j Hj]. now apply (Hnth j st). }
  rewrite penalty_regroup. unfold soft, soft_const. destruct direct.
  - pose proof Hside as Hs2. unfold direct_side in Hs2. apply andb_true_iff in Hs2. destruct Hs2 as [Hnd _].
    rewrite (sumZ_pp_nth (soft_direct (wdict c S) bnd) q (fun st => if is_store S st then 0 else weight c S st - 0)).
    + rewrite (assemble c S q 0 0 Hin Hnd Hone). f_equal.
      rewrite Z.mul_0_r, Z.sub_0_r.
      assert (E : forall l, sumZ (map (fun st => 0 + 0 - cost1 c S st) l) = - sumZ (map (cost1 c S) l)).
      { induction l as [|a r IH]; [reflexivity|]. cbn [map sumZ fold_right].
        fold (sumZ (map (fun st => 0 + 0 - cost1 c S st) r)). fold (sumZ (map (cost1 c S) r)). rewrite IH. lia. }
      apply E.
    + intros j st Hn. destruct (Hnth j st Hn) as [Hi Hw].
      rewrite (pp_direct c S bnd q j st Hside Hn Hi Hw). now rewrite Z.sub_0_r.
  - pose proof Hside as Hs2. unfold grouped_side in Hs2.
    do 5 (apply andb_true_iff in Hs2; destruct Hs2 as [Hs2 _]).
    rewrite (sumZ_pp_nth (soft_grouped (wdict c S) bnd (s_init_len S)) q (fun st => if is_store S st then last_level (wdict c S) - first_level (wdict c S)
                                        else weight c S st - first_level (wdict c S))).
    + rewrite (assemble c S q _ _ Hin Hs2 Hone). f_equal. rewrite Hlen. f_equal.
      apply sumZ_map_ext. intros st _. lia.
    + intros j st Hn. destruct (Hnth j st Hn) as [Hi Hw].
      apply pp_grouped; auto. rewrite <- Hlen. apply nth_error_Some. congruence.
Qed.

(* the priced cost IS the reference cost for gas and length, and for size as long as no
   instruction is larger than 5 bytes *)
Lemma wcost_cost : forall c S q,
  (forall st, In st q -> weight c S st = cost1 c S st) -> wcost c S q = cost c S q.
Proof.
  intros c S q H. unfold wcost, cost. apply sumZ_map_ext. intros st Hst.
  destruct (is_store S st); [reflexivity|now apply H].
Qed.

Definition small_sizes (S : spec) : bool := forallb (fun u => (ui_size u <=? 5)%Z) (s_instrs S).

Lemma weight_size_small : forall S st, small_sizes S = true -> weight CSize S st = cost1 CSize S st.
Proof.
  intros S st H. unfold weight, cost1. apply Z.min_l.
  destruct st; simpl; try lia. unfold instr_field.
  destruct (find_instr S id) as [u|] eqn:F; [|lia].
  apply find_instr_some in F. destruct F as [Fi _].
  unfold small_sizes in H. rewrite forallb_forall in H. specialize (H u Fi). now apply Z.leb_le.
Qed.

Theorem soft_prices_gas : forall (direct : bool) S bnd q,
  (if direct then direct_side CGas S else grouped_side CGas S bnd) = true ->
  in_domain S bnd q = true -> stores_once S q = true ->
  penalty (soft CGas direct S bnd) q = cost CGas S q + soft_const CGas direct S.
Proof.
  intros. rewrite <- (wcost_cost CGas S q); [now apply soft_prices_weighted|reflexivity].
Qed.

Theorem soft_prices_length : forall (direct : bool) S bnd q,
  (if direct then direct_side CLength S else grouped_side CLength S bnd) = true ->
  in_domain S bnd q = true -> stores_once S q = true ->
  penalty (soft CLength direct S bnd) q = cost CLength S q + soft_const CLength direct S.
Proof.
  intros. rewrite <- (wcost_cost CLength S q); [now apply soft_prices_weighted|reflexivity].
Qed.

Theorem soft_prices_size_partial : forall (direct : bool) S bnd q,
  small_sizes S = true ->
  (if direct then direct_side CSize S else grouped_side CSize S bnd) = true ->
  in_domain S bnd q = true -> stores_once S q = true ->
  penalty (soft CSize direct S bnd) q = cost CSize S q + soft_const CSize direct S.
Proof.
  intros direct S bnd q Hsm. intros. rewrite <- (wcost_cost CSize S q); [now apply soft_prices_weighted|].
  intros st _. now apply weight_size_small.
Qed.

(* the hypotheses hold for what the Max-SMT solver returns when it realizes the specification *)
Lemma realizes_stores_once_b : forall S q, realizes S q = true -> stores_once S q = true.
Proof.
  intros S q H. unfold stores_once. apply forallb_forall. intros st Hst.
  unfold stores_of in Hst. apply filter_In in Hst. destruct Hst as [Hu Hs].
  unfold user_steps in Hu. apply in_map_iff in Hu. destruct Hu as (u & <- & Hu).
  simpl in Hs. destruct (find_instr S (ui_id u)) as [u'|] eqn:F; [|discriminate].
  apply find_instr_some in F. destruct F as [Fi Fe].
  pose proof (realizes_stores_once S q H u' Fi Hs) as C. rewrite Fe in C.
  apply Nat.eqb_eq. rewrite <- C. clear.
  induction q as [|x r IH]; [reflexivity|]. simpl.
  destruct (step_eq_dec x (SIns (ui_id u))) as [->|N].
  - simpl. rewrite Nat.eqb_refl. simpl. now rewrite IH.
  - destruct x; simpl; try exact IH.
    destruct (Nat.eqb (ui_id u) id) eqn:E; [|exact IH].
    apply Nat.eqb_eq in E. subst. contradiction.
Qed.

(* ---- refutation for the size criterion: weights are min(size, 5) ---- *)
From Coq Require Import String.
Local Close Scope Z_scope.

Definition ex_push32 : spec :=
  mkSpec [] [OVar 0; OVar 0]
         [mkUI 0 ("PUSH")%string [] [0] false false true (Some (2 ^ 255)%Z) 3%Z 33%Z]
         [] [] [] 2 2 2 0.
Definition ex_q1 : list step := [SIns 0; SDup 1].
Definition ex_q2 : list step := [SIns 0; SIns 0].

(* FULL STATEMENT (false):  forall S bnd q, side conditions -> in_domain S bnd q = true ->
     realizes S q = true -> penalty (soft CSize d S bnd) q = cost CSize S q + K S d
   for some K that does not depend on q.  Two realizing, in-domain programs of one specification
   whose penalty - cost differ: *)
Theorem soft_prices_size_refuted :
  exists S q1 q2, forall direct : bool,
    (if direct then direct_side CSize S else grouped_side CSize S (dumb_bounds S)) = true /\
    in_domain S (dumb_bounds S) q1 = true /\ in_domain S (dumb_bounds S) q2 = true /\
    realizes_bounded S q1 2 2 = true /\ realizes_bounded S q2 2 2 = true /\
    (penalty (soft CSize direct S (dumb_bounds S)) q1 - cost CSize S q1
     <> penalty (soft CSize direct S (dumb_bounds S)) q2 - cost CSize S q2)%Z.
Proof.
  exists ex_push32, ex_q1, ex_q2. intros [|]; vm_compute; repeat split; intro H; discriminate H.
Qed.

(* non-vacuity of the pricing theorems *)
Definition ex_price_spec : spec :=
  mkSpec [OVar 0; OVar 1] [OVar 2]
         [mkUI 0 ("ADD")%string [OVar 0; OVar 3] [2] true false false None 3%Z 1%Z;
          mkUI 1 ("PUSH")%string [] [3] false false true (Some 5%Z) 3%Z 2%Z;
          mkUI 2 ("SSTORE")%string [OVar 1; OVar 2] [] false true false None 5000%Z 1%Z]
         [] [] [] 5 5 3 0.
Definition ex_price_q : list step := [SIns 1; SIns 0; SDup 1; SSwap 2; SIns 2].
