(* Model/Split.v -- executable model of GASOL's block splitting and rebuilding (property C14).

   Modelled code (hand-written; tied to /repo by the correspondence check harness/c14.py):
     sfs_generator/asm_bytecode.py      AsmBytecode.to_plain
     sfs_generator/asm_block.py         instructions_to_optimize_bytecode / _plain
     sfs_generator/ir_block.py          compile_instr (only the text of the nop(...) annotation),
                                        get_subblocks / evm2rbr_compiler (returned sub_block_list)
     sfs_generator/gasol_optimization.py split_blocks, is_optimizable, compute_position_stores,
                                        get_sequence, split_by_numbers, split_blocks_by_number,
                                        generate_subblocks2split / smt_translate_block (splitting part
                                        and post-processing to opcode-name lists), max_bound
     sfs_generator/utils.py             process_blocks_split
     solution_generation/optimize_from_sub_blocks.py   rebuild_optimized_asm_block
     global_params/constants.py         beginning_block, end_block, split_block, store_instructions

   Abstraction: the RBR text is not modelled.  Every EVM instruction contributes >= 1 non-"nop("
   line followed by exactly one "nop(<text>)" line, so split_blocks' `prev = ins_block[-2]` is never
   a nop line and the post-processing `filter (find "nop(" != -1)` keeps exactly one name per
   instruction.  An instruction is a record (disasm, value, payload); `payload` stands for all
   other fields of AsmBytecode (begin, end, source, jump_type, modifier_depth, real_value).

   Python exceptions (IndexError, AssertionError) are `None`.  NO proofs in this file. *)

From Coq Require Import String Ascii List Bool ZArith Arith.
Import ListNotations.
Open Scope string_scope.
Open Scope list_scope.

(* ------------------------------------------------------------------ strings *)

(* Python `a in b` for strings / `b.find(a) != -1` *)
Fixpoint is_substring (a b : string) : bool :=
  if String.prefix a b then true
  else match b with
       | EmptyString => false
       | String _ b' => is_substring a b'
       end.

Fixpoint has_space (s : string) : bool :=
  match s with
  | EmptyString => false
  | String c s' => if Ascii.eqb c " "%char then true else has_space s'
  end.

Fixpoint drop (n : nat) (s : string) : string :=
  match n, s with
  | O, _ => s
  | S n', String _ s' => drop n' s'
  | S _, EmptyString => EmptyString
  end.

Definition mem_str (s : string) (l : list string) : bool := existsb (String.eqb s) l.

(* ------------------------------------------------------------------ constants.py *)

Definition beginning_block : list string := ["tag"; "JUMPDEST"].
Definition end_block : list string :=
  ["JUMP"; "JUMPI"; "STOP"; "RETURN"; "REVERT"; "INVALID"; "SELFDESTRUCT"].
Definition split_block_default : list string :=
  ["LOG0"; "LOG1"; "LOG2"; "LOG3"; "LOG4"; "CALLDATACOPY"; "CODECOPY"; "EXTCODECOPY"; "RETURNDATACOPY";
   "CALL"; "STATICCALL"; "DELEGATECALL"; "CREATE"; "CREATE2"; "ASSIGNIMMUTABLE"; "GAS"].
Definition store_instructions : list string := ["SSTORE"; "MSTORE"; "MSTORE8"].
(* gasol_optimization.py: terminate_block *)
Definition terminate_block : list string := ["ASSERTFAIL"; "RETURN"; "REVERT"; "SUICIDE"; "STOP"].

(* constants.split_block after append_store_instructions_to_split() when -storage *)
Definition split_block (sto : bool) : list string :=
  if sto then split_block_default ++ store_instructions else split_block_default.

(* `nop in constants.split_block or nop in terminate_block` *)
Definition is_split_name (sto : bool) (n : string) : bool :=
  mem_str n (split_block sto) || mem_str n terminate_block.

(* compute_position_stores: nop.find("SSTORE")!=-1 or nop.find("MSTORE")!=-1 *)
Definition is_store_sub (n : string) : bool :=
  is_substring "SSTORE" n || is_substring "MSTORE" n.

(* ------------------------------------------------------------------ instructions *)

Record instr := mkI { disasm : string; ivalue : option string; payload : Z }.

(* AsmBytecode.to_plain; push0 = constants.push0_enabled *)
Definition to_plain (push0 : bool) (i : instr) : string :=
  if push0 && String.eqb (disasm i) "PUSH" &&
     match ivalue i with Some v => String.eqb v "0" | None => false end
  then "PUSH0"
  else match ivalue i with
       | Some v => if is_substring "JUMP" (disasm i) then disasm i else (disasm i ++ " " ++ v)%string
       | None => disasm i
       end.

Definition non_optimizable (d : string) : bool := mem_str d beginning_block || mem_str d end_block.

(* AsmBlock.instructions_to_optimize_bytecode / _plain *)
Definition optimizable (b : list instr) : list instr :=
  filter (fun i => negb (non_optimizable (disasm i))) b.
Definition optimizable_plain (push0 : bool) (b : list instr) : list string :=
  map (to_plain push0) (optimizable b).

(* ir_block.compile_instr: the text placed in nop(...).  evm_opcode.split(" "); the name is all
   words but the last; only when the name is exactly ASSIGNIMMUTABLE (in opcodesYul) the value is
   dropped from the annotation. *)
Definition nop_name (plain : string) : string :=
  if String.prefix "ASSIGNIMMUTABLE " plain && negb (has_space (drop 16 plain))
  then "ASSIGNIMMUTABLE" else plain.

(* ------------------------------------------------------------------ cutting *)

Section Cut.
  Context {A : Type}.

  (* The common core of split_blocks and split_blocks_by_number on a marked list: a marked
     element closes the current block and also opens the next one. *)
  Fixpoint cut (l : list (A * bool)) : list (list A) :=
    match l with
    | [] => [[]]
    | (x, m) :: r =>
        match cut r with
        | [] => [[x]]                              (* unreachable: cut is never empty *)
        | b :: bs => if m then [x] :: (x :: b) :: bs else (x :: b) :: bs
        end
    end.

  Variable nm : A -> string.      (* text of the nop(...) annotation of an element *)

  (* split_blocks *)
  Definition cut_split (sto : bool) (l : list A) : list (list A) :=
    cut (map (fun x => (x, is_split_name sto (nm x))) l).

  (* split_blocks_by_number: cont starts at -1 and is incremented before the test *)
  Fixpoint mark_num (cont : Z) (w : list Z) (l : list A) : list (A * bool) :=
    match l with
    | [] => []
    | x :: r =>
        let hit := match w with w0 :: _ => Z.eqb cont w0 | [] => false end in
        (x, hit) :: mark_num (cont + 1) (if hit then tl w else w) r
    end.
  Definition cut_num (l : list A) (w : list Z) : list (list A) := cut (mark_num 0 w l).
End Cut.

(* compute_position_stores *)
Fixpoint position_stores (cont : Z) (ops : list string) : list Z :=
  match ops with
  | [] => []
  | n :: r => (if is_store_sub n then [cont] else []) ++ position_stores (cont + 1) r
  end.

Fixpoint takewhile {A} (p : A -> bool) (l : list A) : list A :=
  match l with
  | [] => []
  | x :: r => if p x then x :: takewhile p r else []
  end.

Fixpoint last_opt {A} (l : list A) : option A :=
  match l with
  | [] => None
  | [x] => Some x
  | _ :: r => last_opt r
  end.

(* split_by_numbers (with get_sequence inlined: the maximal prefix of values < max_bound is
   removed from the list).  Python loops `while stores != []`; every iteration removes at least
   one element, `fuel` = S (length stores) is enough; running out of fuel is None. *)
Fixpoint split_by_numbers_aux (mb : Z) (fuel : nat) (last : Z) (stores : list Z) : option (list Z) :=
  match fuel with
  | O => None
  | S f =>
      match stores with
      | [] => Some []
      | s0 :: rest =>
          let split := takewhile (fun v => Z.ltb v mb) stores in
          match last_opt split with
          | None =>
              option_map (cons (s0 + last)%Z)
                (split_by_numbers_aux mb f (s0 + last)%Z (map (fun x => (x - s0)%Z) rest))
          | Some e =>
              option_map (cons (e + last)%Z)
                (split_by_numbers_aux mb f (e + last)%Z
                   (map (fun x => (x - e)%Z) (skipn (length split) stores)))
          end
      end
  end.
Definition split_by_numbers (mb : Z) (stores : list Z) : option (list Z) :=
  split_by_numbers_aux mb (S (length stores)) 0 stores.

Definition is_nil {A} (l : list A) : bool := match l with [] => true | _ => false end.

(* is_optimizable(opcodes, instructions): `instructions` are the non-nop, non-empty RBR lines;
   POP and JUMPDEST are the only instructions whose RBR line is "". *)
Definition rbr_nonempty (ops : list string) : bool :=
  existsb (fun n => negb (String.eqb n "POP" || String.eqb n "JUMPDEST")) ops.
Definition is_optimizable (sto : bool) (ops : list string) : bool :=
  let ins := filter (is_split_name sto) ops in
  if negb (is_nil ops) && forallb (is_substring "POP") ops then true
  else if is_nil ins then rbr_nonempty ops else false.

Section SplitTop.
  Context {A : Type}.
  Variable nm : A -> string.

  (* numeric refinement of one (sub-)block, shared by both branches of generate_subblocks2split /
     smt_translate_block *)
  Definition by_number (mb : Z) (s : list A) (stores_pos : list Z) : option (list (list A)) :=
    match split_by_numbers mb stores_pos with
    | None => None
    | Some w => Some (if is_nil w then [s] else cut_num s w)
    end.

  Fixpoint flat_opt {B} (l : list (option (list B))) : option (list B) :=
    match l with
    | [] => Some []
    | None :: _ => None
    | Some x :: r => option_map (app x) (flat_opt r)
    end.

  (* generate_subblocks2split (and the identical splitting part of smt_translate_block) before
     post-processing.  sto = -storage, part = -partition, mb = max_bound. *)
  Definition split_top (sto part : bool) (mb : Z) (l : list A) : option (list (list A)) :=
    let ops := map nm l in
    if is_optimizable sto ops then
      if part then
        if Z.ltb mb (Z.of_nat (length ops)) && negb sto
        then by_number mb l (position_stores 0 ops)
        else Some [l]
      else Some [l]
    else
      let bl := cut_split nm sto l in
      if part then
        flat_opt (map (fun s =>
                         let o := map nm s in
                         let sp := if sto then [] else position_stores 0 o in
                         if Z.ltb mb (Z.of_nat (length o)) && negb (is_nil sp)
                         then by_number mb s sp else Some [s]) bl)
      else Some bl.
End SplitTop.

(* max_bound = 22 *)
Definition max_bound : Z := 22.

(* What the front end returns (sub_block_list) for the plain optimizable instructions *)
Definition sub_block_list (sto part : bool) (mb : Z) (plains : list string) : option (list (list string)) :=
  option_map (map (map nop_name)) (split_top nop_name sto part mb plains).

(* the sub-blocks joined at their shared splitting instruction *)
Definition join {A} (bl : list (list A)) : list A :=
  match bl with
  | [] => []
  | b :: r => b ++ flat_map (@tl A) r
  end.

(* every later sub-block starts with the last instruction of the previous one *)
Fixpoint chained {A} (eqb : A -> A -> bool) (bl : list (list A)) : bool :=
  match bl with
  | b :: ((c :: _) as r) =>
      match last_opt b, hd_error c with
      | Some x, Some y => eqb x y && chained eqb r
      | _, _ => false
      end
  | _ => true
  end.

(* ------------------------------------------------------------------ utils.process_blocks_split *)

Fixpoint remove_last {A} (l : list A) : option (list A) :=
  match l with
  | [] => None
  | [x] => Some []
  | x :: r => option_map (cons x) (remove_last r)
  end.

(* for i in range(len-1): blocks[i].pop(); blocks[i+1].pop(0)   (pop on an empty list = None).
   cur = blocks[i] after its first element was popped in the previous iteration. *)
Fixpoint pbs_go {A} (cur : list A) (rest : list (list A)) : option (list (list A)) :=
  match rest with
  | [] => Some [cur]
  | n :: rest' =>
      match remove_last cur, n with
      | Some c', _ :: t => option_map (cons c') (pbs_go t rest')
      | _, _ => None                                             (* IndexError: pop from empty list *)
      end
  end.
Definition process_blocks_split {A} (bl : list (list A)) : option (list (list A)) :=
  match bl with
  | [] => Some []
  | b :: r => pbs_go b r
  end.

(* ------------------------------------------------------------------ rebuild_optimized_asm_block *)

Section Rebuild.
  Variable push0 : bool.
  (* fix1 = false: the code as it is (first loop compares to_plain() with sub_block_list[0][0]);
     fix1 = true : proposals/C14/1.patch (first loop skips the non-optimizable instructions) *)
  Variable fix1 : bool.
  Variable prev : list instr.                        (* previous_block.instructions *)
  Variable repl : nat -> option (list instr).        (* optimize_blocks_by_name[name_k], None = absent or None *)

  Definition plain := to_plain push0.

  (* the loop test `prev[idx].to_plain() != sub_block_list[0][0]` (None = IndexError when the
     sub-block list or its first sub-block is empty); the patched test does not look at the list *)
  Definition stop_first (name0 : option string) (i : instr) : option bool :=
    if fix1 then Some (negb (non_optimizable (disasm i)))
    else match name0 with
         | Some n0 => Some (String.eqb (plain i) n0)
         | None => None
         end.

  (* first while loop; returns the copied prefix and instr_idx.  The test is only evaluated while
     instr_idx < len(previous_instructions) (short-circuit `and`). *)
  Fixpoint skip_first (name0 : option string) (l : list instr) (out : list instr) (idx : nat)
    : option (list instr * nat) :=
    match l with
    | [] => Some (out, idx)
    | x :: r =>
        match stop_first name0 x with
        | None => None
        | Some true => Some (out, idx)
        | Some false => skip_first name0 r (out ++ [x]) (S idx)
        end
    end.

  (* `for disasm in considered_sub_block: assert disasm in prev[idx].to_plain(); ...; idx += 1`
     keep = true appends the instruction *)
  Fixpoint walk (keep : bool) (names : list string) (out : list instr) (idx : nat)
    : option (list instr * nat) :=
    match names with
    | [] => Some (out, idx)
    | d :: ds =>
        match nth_error prev idx with
        | None => None                                           (* IndexError *)
        | Some x =>
            if is_substring d (plain x)
            then walk keep ds (if keep then out ++ [x] else out) (S idx)
            else None                                            (* AssertionError *)
        end
    end.

  (* previous_instructions[instr_idx-1]; Python's index -1 is the last element *)
  Definition get_prev (idx : nat) : option instr :=
    match idx with
    | O => last_opt prev
    | S j => nth_error prev j
    end.

  Fixpoint loop (k : nat) (sbs : list (list string)) (out : list instr) (idx : nat) (popt : bool)
    : option (list instr * nat) :=
    match sbs with
    | [] => Some (out, idx)
    | sb :: rest =>
        let header :=
          match k with
          | O => Some (sb, out)
          | S _ =>
              match sb with
              | [] => None                                       (* sub_block[0]: IndexError *)
              | h :: t =>
                  match get_prev idx with
                  | None => None
                  | Some x =>
                      if is_substring h (plain x)
                      then Some (t, if popt then out ++ [x] else out)
                      else None                                  (* AssertionError *)
                  end
              end
          end in
        match header with
        | None => None
        | Some (considered, out1) =>
            match repl k with
            | Some R =>
                match walk false considered (out1 ++ R) idx with
                | None => None
                | Some (out2, idx2) => loop (S k) rest out2 idx2 true
                end
            | None =>
                match walk true considered out1 idx with
                | None => None
                | Some (out2, idx2) => loop (S k) rest out2 idx2 false
                end
            end
        end
    end.

  Definition name0_of (sbl : list (list string)) : option string :=
    match sbl with
    | (n0 :: _) :: _ => Some n0
    | _ => None
    end.

  Definition rebuild (sbl : list (list string)) : option (list instr) :=
    match skip_first (name0_of sbl) prev [] 0 with
    | None => None
    | Some (out0, idx0) =>
        match loop 0 sbl out0 idx0 false with
        | None => None
        | Some (out, idx) => Some (out ++ skipn idx prev)
        end
    end.
End Rebuild.

(* gasol_asm.optimize_asm_block_asm_format, reduced to splitting + rebuilding: returns the block
   unchanged when there is nothing to optimize, otherwise rebuilds from the front end's
   sub_block_list. *)
Definition reassemble (push0 fix1 sto part : bool) (mb : Z) (b : list instr)
           (repl : nat -> option (list instr)) : option (list instr) :=
  match optimizable_plain push0 b with
  | [] => Some b
  | pl => match sub_block_list sto part mb pl with
          | None => None
          | Some sbl => rebuild push0 fix1 b repl sbl
          end
  end.

(* ------------------------------------------------------------------ specification side *)

(* "b with the segments chosen by repl replaced": what rebuild is expected to output for the
   optimizable part, as a function of the (instruction-level) sub-blocks *)
Fixpoint spec_rest (repl : nat -> option (list instr)) (k : nat) (popt : bool) (cs : list (list instr))
  : list instr :=
  match cs with
  | [] => []
  | c :: rest =>
      (if popt then firstn 1 c else []) ++
      match repl k with
      | Some R => R ++ spec_rest repl (S k) true rest
      | None => tl c ++ spec_rest repl (S k) false rest
      end
  end.
Definition spec_blocks (repl : nat -> option (list instr)) (bl : list (list instr)) : list instr :=
  match bl with
  | [] => []
  | c :: rest =>
      match repl 0 with
      | Some R => R ++ spec_rest repl 1 true rest
      | None => c ++ spec_rest repl 1 false rest
      end
  end.

(* candidate keys of the specification dictionary: <block name>_<k> for the non-empty segments *)
Fixpoint nonempty_idx {A} (k : nat) (segs : list (list A)) : list nat :=
  match segs with
  | [] => []
  | s :: r => (if is_nil s then [] else [k]) ++ nonempty_idx (S k) r
  end.

(* decidable shape of a block the rebuild can handle: pre ++ mid ++ post with pre/post
   non-optimizable, mid optimizable and non-empty *)
Fixpoint drop_while {A} (p : A -> bool) (l : list A) : list A :=
  match l with
  | [] => []
  | x :: r => if p x then drop_while p r else l
  end.
Definition nonopt_i (i : instr) : bool := non_optimizable (disasm i).
Definition block_pre (b : list instr) : list instr := takewhile nonopt_i b.
Definition block_mid (b : list instr) : list instr :=
  takewhile (fun i => negb (nonopt_i i)) (drop_while nonopt_i b).
Definition block_post (b : list instr) : list instr :=
  drop_while (fun i => negb (nonopt_i i)) (drop_while nonopt_i b).
Definition shape_ok (b : list instr) : bool :=
  negb (is_nil (block_mid b)) && forallb nonopt_i (block_post b).
(* extra condition of the unpatched first loop: the first optimizable instruction prints as its
   nop name and no leading instruction prints the same *)
Definition first_ok (push0 : bool) (b : list instr) : bool :=
  match block_mid b with
  | [] => false
  | m0 :: _ =>
      String.eqb (nop_name (to_plain push0 m0)) (to_plain push0 m0) &&
      forallb (fun p => negb (String.eqb (to_plain push0 p) (nop_name (to_plain push0 m0)))) (block_pre b)
  end.

(* segments view (what "exactly segment k replaced" means): the segments are what
   process_blocks_split returns, the separators are the shared splitting instructions *)
Fixpoint subst_segs {A} (repl : nat -> option (list A)) (k : nat) (segs : list (list A)) : list (list A) :=
  match segs with
  | [] => []
  | s :: ss => (match repl k with Some R => R | None => s end) :: subst_segs repl (S k) ss
  end.
Fixpoint assemble {A} (segs : list (list A)) (seps : list A) : list A :=
  match segs with
  | [] => []
  | s :: ss => s ++ match seps with sp :: sps => sp :: assemble ss sps | [] => [] end
  end.
Definition seps_of {A} (bl : list (list A)) : list A := flat_map (firstn 1) (tl bl).
Definition one {A} (k : nat) (R : list A) : nat -> option (list A) :=
  fun j => if Nat.eqb j k then Some R else None.
Definition none {A} : nat -> option (list A) := fun _ => None.
