(* Model/SplitProofs.v -- lemmas about Model/Split.v (property C14). *)
From Coq Require Import String Ascii List Bool ZArith Arith Lia.
Import ListNotations.
From GV Require Import Model.Split.
Open Scope list_scope.

(* ------------------------------------------------------------------ strings *)

Lemma prefix_refl : forall s, String.prefix s s = true.
Proof.
  induction s as [|c s IH]; simpl; auto.
  destruct (ascii_dec c c); auto; congruence.
Qed.

Lemma prefix_app_l : forall a c s, String.prefix (a ++ c)%string s = true -> String.prefix a s = true.
Proof.
  induction a as [|x a IH]; intros c s H.
  - destruct s; reflexivity.
  - destruct s as [|y s]; simpl in *; try discriminate.
    destruct (ascii_dec x y); try discriminate. eauto.
Qed.

Lemma prefix_substring : forall a b, String.prefix a b = true -> is_substring a b = true.
Proof. intros a b H. destruct b; cbn [is_substring]; rewrite H; auto. Qed.

Lemma nop_name_sub : forall s, is_substring (nop_name s) s = true.
Proof.
  intros s. unfold nop_name.
  destruct (String.prefix "ASSIGNIMMUTABLE " s && negb (has_space (drop 16 s))) eqn:E.
  - apply andb_prop in E. destruct E as [E _].
    apply prefix_substring.
    apply (prefix_app_l "ASSIGNIMMUTABLE" " " s). exact E.
  - apply prefix_substring, prefix_refl.
Qed.

(* ------------------------------------------------------------------ generic list facts *)

Lemma last_opt_app : forall {A} (a : list A) x, last_opt (a ++ [x]) = Some x.
Proof.
  induction a as [|y a IH]; intros x; simpl; auto.
  rewrite IH. destruct (a ++ [x]) eqn:E; auto. destruct a; discriminate.
Qed.

Lemma remove_last_app : forall {A} (a : list A) x, remove_last (a ++ [x]) = Some a.
Proof.
  induction a as [|y a IH]; intros x; simpl; auto.
  rewrite IH. destruct (a ++ [x]) eqn:E; auto. destruct a; discriminate.
Qed.

Lemma app_tail_split : forall {A} (a0 : list A) x0 l0 a1 x1,
    a0 ++ x0 :: l0 = a1 ++ [x1] ->
    (l0 = [] /\ a0 = a1 /\ x0 = x1) \/ exists l2, l0 = l2 ++ [x1] /\ a1 = a0 ++ x0 :: l2.
Proof.
  intros A a0 x0 l0 a1 x1 H.
  destruct l0 as [|z l0'].
  - left. apply app_inj_tail in H. destruct H; auto.
  - right. destruct (@exists_last _ (z :: l0')) as [l2 [y E]]; [discriminate|].
    rewrite E in *. exists l2.
    change (a0 ++ x0 :: l2 ++ [y]) with (a0 ++ (x0 :: l2) ++ [y]) in H.
    rewrite app_assoc in H. apply app_inj_tail in H. destruct H as [H1 H2]; subst. auto.
Qed.

(* ------------------------------------------------------------------ partitions with shared cut points *)

Section Parts.
  Context {A : Type}.

  (* parts l bl: bl is l cut at some positions, the element at a cut closing one block and
     opening the next *)
  Inductive parts : list A -> list (list A) -> Prop :=
  | parts_last : forall l, parts l [l]
  | parts_cut : forall a x l' cs, parts (x :: l') cs -> parts (a ++ x :: l') ((a ++ [x]) :: cs).

  Lemma parts_nonempty : forall l bl, parts l bl -> bl <> [].
  Proof. intros l bl H. inversion H; discriminate. Qed.

  Lemma parts_cons : forall x l b bs, parts l (b :: bs) -> parts (x :: l) ((x :: b) :: bs).
  Proof.
    intros x l b bs H. inversion H; subst.
    - apply parts_last.
    - change (x :: a ++ x0 :: l') with ((x :: a) ++ x0 :: l').
      change (x :: a ++ [x0]) with ((x :: a) ++ [x0]).
      apply parts_cut; auto.
  Qed.

  Lemma parts_hd : forall x l c cs, parts (x :: l) (c :: cs) -> exists c', c = x :: c'.
  Proof.
    intros x l c cs H. inversion H; subst.
    - eauto.
    - destruct a as [|y a]; simpl in *.
      + injection H0 as -> _. eauto.
      + injection H0 as -> _. eauto.
  Qed.

  Lemma cut_nonempty : forall (l : list (A * bool)), cut l <> [].
  Proof.
    induction l as [|[x m] r IH]; simpl; try discriminate.
    destruct (cut r); try discriminate. destruct m; discriminate.
  Qed.

  Lemma cut_parts : forall (l : list (A * bool)), parts (map fst l) (cut l).
  Proof.
    induction l as [|[x m] r IH]; simpl.
    - apply parts_last.
    - destruct (cut r) as [|b bs] eqn:E.
      + exfalso. eapply cut_nonempty; eauto.
      + destruct m.
        * apply (parts_cut [] x (map fst r) ((x :: b) :: bs)). apply parts_cons; auto.
        * apply parts_cons; auto.
  Qed.

  Lemma parts_join : forall l bl, parts l bl -> join bl = l.
  Proof.
    induction 1 as [l | a x l' cs H IH]; simpl.
    - apply app_nil_r.
    - destruct cs as [|c cs']; [inversion H|].
      destruct (parts_hd _ _ _ _ H) as [c' ->].
      simpl in IH. simpl. injection IH as IH. rewrite <- IH.
      rewrite <- app_assoc. reflexivity.
  Qed.

  (* every later block starts with the last element of the previous one *)
  Fixpoint chainedP (bl : list (list A)) : Prop :=
    match bl with
    | b :: r =>
        match r with
        | c :: _ => (exists x, last_opt b = Some x /\ hd_error c = Some x) /\ chainedP r
        | [] => True
        end
    | [] => True
    end.

  Lemma parts_chained : forall l bl, parts l bl -> chainedP bl.
  Proof.
    induction 1 as [l | a x l' cs H IH]; simpl; auto.
    destruct cs as [|c cs']; [inversion H|].
    destruct (parts_hd _ _ _ _ H) as [c' ->].
    split; auto. exists x. split; auto. apply last_opt_app.
  Qed.

  Lemma parts_app : forall m ds, parts m ds -> forall a x, m = a ++ [x] ->
      forall l' cs, parts (x :: l') cs -> parts (a ++ x :: l') (ds ++ cs).
  Proof.
    induction 1 as [l | a0 x0 l0 cs0 H IH]; intros a x Em l' cs Hc.
    - subst. simpl. apply parts_cut; auto.
    - destruct (app_tail_split _ _ _ _ _ Em) as [[E1 [E2 E3]] | [l2 [E1 E2]]]; subst.
      + simpl. apply parts_cut. apply (IH [] x eq_refl l' cs Hc).
      + simpl. rewrite <- app_assoc. simpl. apply parts_cut.
        apply (IH (x0 :: l2) x eq_refl l' cs Hc).
  Qed.

  Lemma parts_refine : forall (g : list A -> option (list (list A))),
      (forall s r, g s = Some r -> parts s r) ->
      forall l bl, parts l bl -> forall r, flat_opt (map g bl) = Some r -> parts l r.
  Proof.
    intros g Hg. induction 1 as [l | a x l' cs H IH]; intros r Hr; simpl in Hr.
    - destruct (g l) as [d|] eqn:E; try discriminate. simpl in Hr. injection Hr as <-.
      rewrite app_nil_r. auto.
    - destruct (g (a ++ [x])) as [d|] eqn:E; try discriminate.
      destruct (flat_opt (map g cs)) as [r'|] eqn:E'; try discriminate.
      simpl in Hr. injection Hr as <-.
      eapply parts_app; eauto.
  Qed.

  Lemma map_fst_mark_num : forall (l : list A) c w, map fst (mark_num c w l) = l.
  Proof.
    induction l as [|x r IH]; intros c w; simpl; auto. rewrite IH. auto.
  Qed.

  Variable nm : A -> string.

  Lemma by_number_parts : forall mb s sp r, by_number mb s sp = Some r -> parts s r.
  Proof.
    intros mb s sp r H. unfold by_number in H.
    destruct (split_by_numbers mb sp) as [w|]; try discriminate.
    injection H as <-. destruct (is_nil w).
    - apply parts_last.
    - unfold cut_num. rewrite <- (map_fst_mark_num s 0%Z w) at 1. apply cut_parts.
  Qed.

  Lemma cut_split_parts : forall sto l, parts l (cut_split nm sto l).
  Proof.
    intros sto l. unfold cut_split.
    replace l with (map fst (map (fun x => (x, is_split_name sto (nm x))) l)) at 1.
    - apply cut_parts.
    - rewrite map_map. simpl. apply map_id.
  Qed.

  Theorem split_top_parts : forall sto part mb l bl,
      split_top nm sto part mb l = Some bl -> parts l bl.
  Proof.
    intros sto part mb l bl H. unfold split_top in H.
    destruct (is_optimizable sto (map nm l)).
    - destruct part.
      + destruct (_ && _).
        * eapply by_number_parts; eauto.
        * injection H as <-. apply parts_last.
      + injection H as <-. apply parts_last.
    - destruct part.
      + eapply parts_refine; [| apply cut_split_parts | exact H].
        intros s r Hs. simpl in Hs. destruct (_ && _).
        * eapply by_number_parts; eauto.
        * injection Hs as <-. apply parts_last.
      + injection H as <-. apply cut_split_parts.
  Qed.
End Parts.

(* ------------------------------------------------------------------ totality (the fuel is enough) *)

Lemma takewhile_length_skipn : forall {A} (p : A -> bool) (l : list A),
    length (skipn (length (takewhile p l)) l) + length (takewhile p l) = length l.
Proof.
  induction l as [|x r IH]; simpl; auto.
  destruct (p x); simpl; lia.
Qed.

Lemma last_opt_some_nonempty : forall {A} (l : list A) x, last_opt l = Some x -> l <> [].
Proof. intros A l x H E. subst. discriminate. Qed.

Lemma sbn_total : forall mb f last st, length st < f ->
    exists w, split_by_numbers_aux mb f last st = Some w.
Proof.
  induction f as [|f IH]; intros last st Hlen; [lia|].
  destruct st as [|s0 rest]; [simpl; eauto|].
  cbn [split_by_numbers_aux].
  destruct (last_opt (takewhile (fun v => Z.ltb v mb) (s0 :: rest))) as [e|] eqn:E.
  - apply last_opt_some_nonempty in E.
    pose proof (takewhile_length_skipn (fun v => Z.ltb v mb) (s0 :: rest)) as HL.
    destruct (IH (e + last)%Z
                 (map (fun x => (x - e)%Z)
                      (skipn (length (takewhile (fun v => Z.ltb v mb) (s0 :: rest))) (s0 :: rest)))) as [w Hw].
    + rewrite map_length.
      destruct (takewhile (fun v => Z.ltb v mb) (s0 :: rest)) eqn:ET; [congruence|].
      simpl length in *. lia.
    + rewrite Hw. simpl. eauto.
  - destruct (IH (s0 + last)%Z (map (fun x => (x - s0)%Z) rest)) as [w Hw].
    + rewrite map_length. simpl in Hlen. lia.
    + rewrite Hw. simpl. eauto.
Qed.

Lemma by_number_total : forall {A} mb (s : list A) sp, exists r, by_number mb s sp = Some r.
Proof.
  intros A mb s sp. unfold by_number, split_by_numbers.
  destruct (sbn_total mb (S (length sp)) 0%Z sp) as [w Hw]; [lia|].
  rewrite Hw. eauto.
Qed.

Lemma flat_opt_total : forall {B} (l : list (option (list B))),
    (forall x, In x l -> exists r, x = Some r) -> exists r, flat_opt l = Some r.
Proof.
  induction l as [|x l IH]; intros H; simpl; eauto.
  destruct (H x (or_introl eq_refl)) as [r ->].
  destruct IH as [r' ->]; [intros; apply H; right; auto|]. simpl. eauto.
Qed.

Theorem split_top_total : forall {A} (nm : A -> string) sto part mb l,
    exists bl, split_top nm sto part mb l = Some bl.
Proof.
  intros A nm sto part mb l. unfold split_top.
  destruct (is_optimizable sto (map nm l)).
  - destruct part; eauto. destruct (_ && _); eauto. apply by_number_total.
  - destruct part; eauto. apply flat_opt_total.
    intros x Hx. apply in_map_iff in Hx. destruct Hx as [s [<- _]].
    simpl. destruct (_ && _); eauto. apply by_number_total.
Qed.

(* ------------------------------------------------------------------ naturality in the element type *)

Section Natural.
  Context {A B : Type}.
  Variable f : A -> B.

  Lemma cut_map : forall (l : list (A * bool)),
      cut (map (fun p => (f (fst p), snd p)) l) = map (map f) (cut l).
  Proof.
    induction l as [|[x m] r IH]; simpl; auto.
    rewrite IH. destruct (cut r) as [|b bs]; simpl; auto. destruct m; auto.
  Qed.

  Lemma mark_num_map : forall (l : list A) c w,
      mark_num c w (map f l) = map (fun p => (f (fst p), snd p)) (mark_num c w l).
  Proof.
    induction l as [|x r IH]; intros c w; simpl; auto. rewrite IH. auto.
  Qed.

  Lemma by_number_map : forall mb (s : list A) sp,
      by_number mb (map f s) sp = option_map (map (map f)) (by_number mb s sp).
  Proof.
    intros mb s sp. unfold by_number.
    destruct (split_by_numbers mb sp) as [w|]; simpl; auto.
    destruct (is_nil w); simpl; auto.
    unfold cut_num. rewrite mark_num_map, cut_map. auto.
  Qed.

  Lemma flat_opt_map : forall (l : list (option (list (list A)))),
      flat_opt (map (option_map (map (map f))) l) = option_map (map (map f)) (flat_opt l).
  Proof.
    induction l as [|[x|] l IH]; simpl; auto.
    rewrite IH. destruct (flat_opt l); simpl; auto. rewrite map_app. auto.
  Qed.

  Variable nmB : B -> string.

  Lemma cut_split_map : forall sto (l : list A),
      cut_split nmB sto (map f l) = map (map f) (cut_split (fun a => nmB (f a)) sto l).
  Proof.
    intros sto l. unfold cut_split. rewrite <- cut_map. f_equal.
    rewrite !map_map. simpl. auto.
  Qed.

  Theorem split_top_map : forall sto part mb (l : list A),
      split_top nmB sto part mb (map f l) =
      option_map (map (map f)) (split_top (fun a => nmB (f a)) sto part mb l).
  Proof.
    intros sto part mb l. unfold split_top.
    rewrite map_map. rewrite !map_length.
    destruct (is_optimizable sto (map (fun x => nmB (f x)) l)).
    - destruct part; auto. destruct (_ && _); auto. apply by_number_map.
    - destruct part.
      + rewrite cut_split_map. rewrite map_map. rewrite <- flat_opt_map. rewrite map_map.
        f_equal. apply map_ext. intros s. rewrite map_map. rewrite !map_length.
        destruct (_ && _); auto. apply by_number_map.
      + simpl. rewrite cut_split_map. auto.
  Qed.
End Natural.

Lemma join_map : forall {A B} (f : A -> B) (bl : list (list A)), join (map (map f) bl) = map f (join bl).
Proof.
  intros A B f [|b r]; simpl; auto. rewrite map_app. f_equal.
  induction r as [|c r IH]; simpl; auto. rewrite map_app, IH. f_equal. destruct c; auto.
Qed.

(* ------------------------------------------------------------------ rebuild walks a partition *)

Section RebuildProofs.
  Variable push0 : bool.
  Variable repl : nat -> option (list instr).

  (* the name the front end reports for an instruction *)
  Definition nmI (i : instr) : string := nop_name (to_plain push0 i).

  Lemma nmI_sub : forall x, is_substring (nmI x) (plain push0 x) = true.
  Proof. intros x. apply nop_name_sub. Qed.

  Lemma nth_error_mid : forall {A} (c : list A) x r, nth_error (c ++ x :: r) (length c) = Some x.
  Proof. induction c; simpl; auto. Qed.

  Lemma walk_ok : forall keep body consumed rest out prev idx,
      prev = consumed ++ body ++ rest -> idx = length consumed ->
      walk push0 prev keep (map nmI body) out idx
      = Some (if keep then out ++ body else out, idx + length body).
  Proof.
    induction body as [|x body IH]; intros consumed rest out prev idx E Ei; cbn [map walk length].
    - rewrite Nat.add_0_r. destruct keep; rewrite ?app_nil_r; auto.
    - subst idx. rewrite E at 1. cbn [app]. rewrite nth_error_mid. rewrite nmI_sub.
      rewrite (IH (consumed ++ [x]) rest _ prev (S (length consumed))).
      + f_equal. f_equal; [|lia]. destruct keep; auto. rewrite <- app_assoc. auto.
      + rewrite E. rewrite <- app_assoc. auto.
      + rewrite app_length. simpl. lia.
  Qed.

  Lemma loop_parts : forall m cs, parts m cs -> forall x l', m = x :: l' ->
      forall k consumed out popt rest prev idx,
      prev = consumed ++ x :: l' ++ rest -> idx = S (length consumed) ->
      loop push0 prev repl (S k) (map (map nmI) cs) out idx popt
      = Some (out ++ spec_rest repl (S k) popt cs, idx + length l').
  Proof.
    induction 1 as [l | a x0 l0 cs0 H IH]; intros x l' Em k consumed out popt rest prev idx Ep Ei.
    - subst l idx. cbn [map loop get_prev spec_rest firstn tl].
      rewrite Ep at 1. rewrite nth_error_mid. rewrite nmI_sub.
      destruct (repl (S k)) as [R|].
      + rewrite (walk_ok false l' (consumed ++ [x]) rest _ prev (S (length consumed))).
        * cbn [loop]. f_equal. f_equal. destruct popt; rewrite ?app_nil_r, <- ?app_assoc; auto.
        * rewrite Ep, <- app_assoc. auto.
        * rewrite app_length. simpl. lia.
      + rewrite (walk_ok true l' (consumed ++ [x]) rest _ prev (S (length consumed))).
        * cbn [loop]. f_equal. f_equal. destruct popt; rewrite ?app_nil_r, <- ?app_assoc; auto.
        * rewrite Ep, <- app_assoc. auto.
        * rewrite app_length. simpl. lia.
    - destruct a as [|y a']; cbn [app] in Em; [injection Em as -> -> | injection Em as -> <-].
      + (* degenerate block [x] *)
        subst idx. cbn [map loop get_prev spec_rest firstn tl app].
        rewrite Ep at 1. rewrite nth_error_mid. rewrite nmI_sub.
        destruct (repl (S k)) as [R|]; cbn [walk].
        * rewrite (IH x l' eq_refl (S k) consumed _ true rest prev (S (length consumed)) Ep eq_refl).
          f_equal. f_equal. destruct popt; rewrite <- ?app_assoc; auto.
        * rewrite (IH x l' eq_refl (S k) consumed _ false rest prev (S (length consumed)) Ep eq_refl).
          f_equal. f_equal. destruct popt; rewrite <- ?app_assoc; auto.
      + subst idx. cbn [map loop get_prev spec_rest firstn tl app].
        rewrite Ep at 1. rewrite nth_error_mid. rewrite nmI_sub.
        assert (Ep2 : prev = (consumed ++ [x]) ++ (a' ++ [x0]) ++ (l0 ++ rest)).
        { rewrite Ep. repeat (rewrite <- app_assoc; simpl). reflexivity. }
        assert (Ep3 : prev = (consumed ++ x :: a') ++ x0 :: l0 ++ rest).
        { rewrite Ep. repeat (rewrite <- app_assoc; simpl). reflexivity. }
        assert (El : S (length consumed) + length (a' ++ [x0]) = S (length (consumed ++ x :: a'))).
        { rewrite !app_length. simpl. lia. }
        destruct (repl (S k)) as [R|].
        * rewrite (walk_ok false (a' ++ [x0]) (consumed ++ [x]) (l0 ++ rest) _ prev (S (length consumed)) Ep2);
            [| rewrite app_length; simpl; lia].
          rewrite (IH x0 l0 eq_refl (S k) (consumed ++ x :: a') _ true rest prev _ Ep3 El).
          f_equal. f_equal.
          -- destruct popt; rewrite <- ?app_assoc; auto.
          -- rewrite !app_length. simpl. lia.
        * rewrite (walk_ok true (a' ++ [x0]) (consumed ++ [x]) (l0 ++ rest) _ prev (S (length consumed)) Ep2);
            [| rewrite app_length; simpl; lia].
          rewrite (IH x0 l0 eq_refl (S k) (consumed ++ x :: a') _ false rest prev _ Ep3 El).
          f_equal. f_equal.
          -- destruct popt; rewrite <- ?app_assoc; auto.
          -- rewrite !app_length. simpl. lia.
  Qed.
End RebuildProofs.

Section RebuildTop.
  Variable push0 fix1 : bool.
  Variable repl : nat -> option (list instr).
  Notation nm := (nmI push0).

  Lemma loop_first : forall mid bl, parts mid bl -> forall pre post out prev,
      prev = pre ++ mid ++ post ->
      loop push0 prev repl 0 (map (map nm) bl) out (length pre) false
      = Some (out ++ spec_blocks repl bl, length pre + length mid).
  Proof.
    intros mid bl H. inversion H as [l | a x l' cs Hc]; subst; intros pre post out prev Ep.
    - cbn [map loop spec_blocks spec_rest].
      destruct (repl 0) as [R|].
      + rewrite (walk_ok push0 false mid pre post _ prev (length pre) Ep eq_refl). cbn [loop].
        rewrite app_nil_r. auto.
      + rewrite (walk_ok push0 true mid pre post _ prev (length pre) Ep eq_refl). cbn [loop].
        rewrite app_nil_r. auto.
    - cbn [map loop spec_blocks].
      assert (Ep2 : prev = pre ++ (a ++ [x]) ++ (l' ++ post)).
      { rewrite Ep. repeat (rewrite <- app_assoc; simpl). reflexivity. }
      assert (Ep3 : prev = (pre ++ a) ++ x :: l' ++ post).
      { rewrite Ep. repeat (rewrite <- app_assoc; simpl). reflexivity. }
      assert (El : length pre + length (a ++ [x]) = S (length (pre ++ a))).
      { rewrite !app_length. simpl. lia. }
      destruct (repl 0) as [R|].
      + rewrite (walk_ok push0 false (a ++ [x]) pre (l' ++ post) _ prev (length pre) Ep2 eq_refl).
        rewrite (loop_parts push0 repl _ _ Hc x l' eq_refl 0 (pre ++ a) _ true post prev _ Ep3 El).
        f_equal. f_equal.
        * rewrite <- !app_assoc. auto.
        * rewrite !app_length. simpl. lia.
      + rewrite (walk_ok push0 true (a ++ [x]) pre (l' ++ post) _ prev (length pre) Ep2 eq_refl).
        rewrite (loop_parts push0 repl _ _ Hc x l' eq_refl 0 (pre ++ a) _ false post prev _ Ep3 El).
        f_equal. f_equal.
        * rewrite <- !app_assoc. auto.
        * rewrite !app_length. simpl. lia.
  Qed.

  Lemma skip_first_ok : forall name0 pre m0 tl0 out idx,
      (forall p, In p pre -> stop_first push0 fix1 name0 p = Some false) ->
      stop_first push0 fix1 name0 m0 = Some true ->
      skip_first push0 fix1 name0 (pre ++ m0 :: tl0) out idx = Some (out ++ pre, idx + length pre).
  Proof.
    induction pre as [|p pre IH]; intros m0 tl0 out idx Hpre Hm; cbn [app skip_first length].
    - rewrite Hm. rewrite app_nil_r, Nat.add_0_r. auto.
    - rewrite (Hpre p (or_introl eq_refl)).
      rewrite IH; auto.
      + f_equal. f_equal; [|lia]. rewrite <- app_assoc. auto.
      + intros q Hq. apply Hpre. right. auto.
  Qed.

  (* the general statement: whatever partition `bl` of the optimizable part the front end reports,
     rebuild outputs pre ++ spec_blocks repl bl ++ post *)
  Theorem rebuild_spec : forall pre mid post bl m0 mid',
      mid = m0 :: mid' -> parts mid bl ->
      (forall p, In p pre -> stop_first push0 fix1 (Some (nm m0)) p = Some false) ->
      stop_first push0 fix1 (Some (nm m0)) m0 = Some true ->
      rebuild push0 fix1 (pre ++ mid ++ post) repl (map (map nm) bl)
      = Some (pre ++ spec_blocks repl bl ++ post).
  Proof.
    intros pre mid post bl m0 mid' Em Hp Hpre Hm0. unfold rebuild.
    assert (En : name0_of (map (map nm) bl) = Some (nm m0)).
    { destruct bl as [|c cs]; [exfalso; eapply parts_nonempty; eauto|].
      subst mid. destruct (parts_hd _ _ _ _ Hp) as [c' ->]. reflexivity. }
    rewrite En. subst mid. cbn [app].
    rewrite (skip_first_ok (Some (nm m0)) pre m0 (mid' ++ post) [] 0 Hpre Hm0).
    cbn [app plus].
    rewrite (loop_first (m0 :: mid') bl Hp pre post pre (pre ++ m0 :: mid' ++ post) eq_refl).
    f_equal. rewrite <- app_assoc. f_equal. f_equal.
    change (pre ++ m0 :: mid' ++ post) with (pre ++ (m0 :: mid') ++ post).
    rewrite app_assoc. rewrite <- app_length.
    rewrite skipn_app. rewrite skipn_all. rewrite Nat.sub_diag. reflexivity.
  Qed.

  (* nothing replaced: the partition is glued back *)
  Lemma spec_rest_none : forall (cs : list (list instr)) k,
      spec_rest (fun _ => None) k false cs = flat_map (@tl instr) cs.
  Proof. induction cs as [|c cs IH]; intros k; simpl; auto. rewrite IH. auto. Qed.

  Lemma spec_blocks_none : forall mid bl, parts mid bl -> spec_blocks (fun _ => None) bl = mid.
  Proof.
    intros mid bl H. rewrite <- (parts_join _ _ H).
    destruct bl as [|c cs]; simpl; auto. rewrite spec_rest_none. auto.
  Qed.
End RebuildTop.

(* ------------------------------------------------------------------ segments *)

Section Segments.
  Variable repl : nat -> option (list instr).

  Lemma seg_rest : forall m cs, parts m cs -> forall x l', m = x :: l' ->
      forall c cs', cs = c :: cs' -> forall segs, pbs_go (tl c) cs' = Some segs ->
      forall k popt,
        spec_rest repl k popt cs
        = (if popt then [x] else []) ++ assemble (subst_segs repl k segs) (flat_map (firstn 1) cs').
  Proof.
    induction 1 as [l | a x0 l0 cs0 H IH]; intros x l' Em c cs' Ec segs Hs k popt.
    - injection Ec as <- <-. subst l. cbn [tl pbs_go] in Hs. injection Hs as <-.
      cbn [spec_rest firstn tl subst_segs assemble flat_map].
      destruct (repl k); destruct popt; rewrite ?app_nil_r; auto.
    - injection Ec as <- <-.
      destruct cs0 as [|c1 cs1]; [inversion H|].
      destruct (parts_hd _ _ _ _ H) as [c1' ->].
      destruct a as [|y a']; cbn [app] in Em; [injection Em as -> -> | injection Em as -> <-].
      + cbn [app tl pbs_go remove_last] in Hs. discriminate.
      + cbn [app tl pbs_go] in Hs. rewrite remove_last_app in Hs.
        destruct (pbs_go c1' cs1) as [segs'|] eqn:E; try discriminate.
        cbn [option_map] in Hs. injection Hs as <-.
        pose proof (IH x0 l0 eq_refl _ _ eq_refl segs' E (S k) true) as IHt.
        pose proof (IH x0 l0 eq_refl _ _ eq_refl segs' E (S k) false) as IHf.
        set (CS := (x0 :: c1') :: cs1) in *.
        cbn [spec_rest firstn tl subst_segs].
        destruct (repl k) as [R|].
        * rewrite IHt. subst CS. cbn [assemble flat_map firstn app].
          destruct popt; cbn [app]; rewrite <- ?app_assoc; auto.
        * rewrite IHf. subst CS. cbn [assemble flat_map firstn app].
          destruct popt; simpl tl; cbn [app]; rewrite <- ?app_assoc; cbn [app]; auto.
  Qed.

  Theorem spec_blocks_segments : forall mid bl segs,
      parts mid bl -> process_blocks_split bl = Some segs ->
      spec_blocks repl bl = assemble (subst_segs repl 0 segs) (seps_of bl).
  Proof.
    intros mid bl segs H Hs. inversion H as [l | a x l' cs Hc]; subst.
    - cbn in Hs. injection Hs as <-. cbn. destruct (repl 0); rewrite ?app_nil_r; auto.
    - destruct cs as [|c1 cs1]; [inversion Hc|].
      destruct (parts_hd _ _ _ _ Hc) as [c1' ->].
      cbn [process_blocks_split pbs_go] in Hs. rewrite remove_last_app in Hs.
      destruct (pbs_go c1' cs1) as [segs'|] eqn:E; try discriminate.
      cbn [option_map] in Hs. injection Hs as <-.
      pose proof (seg_rest _ _ Hc x l' eq_refl _ _ eq_refl segs' E 1 true) as St.
      pose proof (seg_rest _ _ Hc x l' eq_refl _ _ eq_refl segs' E 1 false) as Sf.
      unfold seps_of. set (CS := (x :: c1') :: cs1) in *.
      cbn [spec_blocks tl subst_segs].
      destruct (repl 0) as [R|].
      + rewrite St. subst CS. cbn [assemble flat_map firstn app]. auto.
      + rewrite Sf. subst CS. cbn [assemble flat_map firstn app]. rewrite <- app_assoc. auto.
  Qed.
End Segments.

Lemma pbs_go_length : forall {A} (rest : list (list A)) cur segs,
    pbs_go cur rest = Some segs -> length segs = S (length rest).
Proof.
  induction rest as [|n rest IH]; intros cur segs H; cbn [pbs_go] in H.
  - injection H as <-. auto.
  - destruct (remove_last cur); try discriminate. destruct n as [|z t]; try discriminate.
    destruct (pbs_go t rest) as [s'|] eqn:E; try discriminate.
    injection H as <-. simpl. f_equal. eauto.
Qed.

Lemma pbs_length : forall {A} (bl : list (list A)) segs,
    process_blocks_split bl = Some segs -> length segs = length bl.
Proof.
  intros A [|b r] segs H; cbn in H.
  - injection H as <-. auto.
  - apply pbs_go_length in H. auto.
Qed.

(* process_blocks_split never fails on a single-level cut (default and -storage policies, and
   the numeric cut of an unsplit block) *)
Lemma pbs_go_cons : forall {A} (x : A) b bs segs,
    pbs_go b bs = Some segs -> exists segs', pbs_go (x :: b) bs = Some segs'.
Proof.
  intros A x b bs segs H. destruct bs as [|n bs]; cbn [pbs_go] in *; eauto.
  destruct (remove_last b) as [b'|] eqn:E; try discriminate.
  destruct b as [|y b0]; [discriminate|].
  cbn [remove_last]. cbn [remove_last] in E.
  destruct b0 as [|z b1].
  - injection E as <-. cbn. destruct n; try discriminate. destruct (pbs_go n bs); try discriminate. cbn. eauto.
  - destruct (remove_last (z :: b1)); try discriminate. cbn.
    destruct n; try discriminate. destruct (pbs_go n bs); try discriminate. cbn. eauto.
Qed.

Lemma pbs_cut : forall {A} (l : list (A * bool)), exists segs, process_blocks_split (cut l) = Some segs.
Proof.
  induction l as [|[x m] r IH]; cbn [cut].
  - cbn. eauto.
  - destruct (cut r) as [|b bs] eqn:E; [cbn; eauto|].
    destruct IH as [segs Hs]. cbn [process_blocks_split] in Hs.
    destruct m.
    + cbn [process_blocks_split pbs_go remove_last]. rewrite Hs. cbn. eauto.
    + cbn [process_blocks_split]. eapply pbs_go_cons; eauto.
Qed.

(* candidate keys of the specification dictionary *)
Lemma nonempty_idx_sound : forall {A} (segs : list (list A)) k0 k,
    In k (nonempty_idx k0 segs) ->
    k0 <= k /\ exists s, nth_error segs (k - k0) = Some s /\ s <> [].
Proof.
  induction segs as [|s segs IH]; intros k0 k H; cbn [nonempty_idx] in H; [destruct H|].
  apply in_app_or in H. destruct H as [H|H].
  - destruct s as [|z s]; cbn in H; [destruct H|]. destruct H as [<-|[]].
    split; auto. rewrite Nat.sub_diag. cbn. eexists; split; eauto. discriminate.
  - apply IH in H. destruct H as [Hle [s' [Hn Hs']]]. split; [lia|].
    replace (k - k0) with (S (k - S k0)) by lia. cbn. eauto.
Qed.

(* ------------------------------------------------------------------ shape of a block *)

Lemma takewhile_dropwhile : forall {A} (p : A -> bool) l, l = takewhile p l ++ drop_while p l.
Proof. induction l as [|x r IH]; simpl; auto. destruct (p x); simpl; congruence. Qed.

Lemma takewhile_all : forall {A} (p : A -> bool) l x, In x (takewhile p l) -> p x = true.
Proof.
  induction l as [|y r IH]; simpl; intros x H; [destruct H|].
  destruct (p y) eqn:E; [|destruct H]. destruct H as [<-|H]; auto.
Qed.

Lemma block_decomp : forall b, b = block_pre b ++ block_mid b ++ block_post b.
Proof.
  intros b. unfold block_pre, block_mid, block_post.
  rewrite <- takewhile_dropwhile. apply takewhile_dropwhile.
Qed.

Lemma filter_none : forall {A} (p : A -> bool) l, (forall x, In x l -> p x = false) -> filter p l = [].
Proof.
  induction l as [|x r IH]; simpl; intros H; auto.
  rewrite (H x (or_introl eq_refl)). apply IH. intros; apply H; auto.
Qed.

Lemma filter_all : forall {A} (p : A -> bool) l, (forall x, In x l -> p x = true) -> filter p l = l.
Proof.
  induction l as [|x r IH]; simpl; intros H; auto.
  rewrite (H x (or_introl eq_refl)). f_equal. apply IH. intros; apply H; auto.
Qed.

Lemma optimizable_shape : forall b, forallb nonopt_i (block_post b) = true ->
    optimizable b = block_mid b.
Proof.
  intros b Hpost. rewrite (block_decomp b) at 1. unfold optimizable.
  rewrite !filter_app.
  rewrite (filter_none _ (block_pre b)), (filter_all _ (block_mid b)), (filter_none _ (block_post b)).
  - rewrite app_nil_r. auto.
  - intros x Hx. rewrite forallb_forall in Hpost. apply Hpost in Hx. unfold nonopt_i in Hx. rewrite Hx. auto.
  - intros x Hx. apply takewhile_all in Hx. exact Hx.
  - intros x Hx. apply takewhile_all in Hx. unfold nonopt_i in Hx. rewrite Hx. auto.
Qed.

(* ------------------------------------------------------------------ main theorems on reassemble *)

Theorem reassemble_spec : forall push0 fix1 sto part mb b repl,
    shape_ok b = true -> (fix1 = true \/ first_ok push0 b = true) ->
    exists bl,
      split_top (nmI push0) sto part mb (block_mid b) = Some bl /\
      parts (block_mid b) bl /\
      sub_block_list sto part mb (optimizable_plain push0 b) = Some (map (map (nmI push0)) bl) /\
      reassemble push0 fix1 sto part mb b repl
      = Some (block_pre b ++ spec_blocks repl bl ++ block_post b).
Proof.
  intros push0 fix1 sto part mb b repl Hs Hf.
  unfold shape_ok in Hs. apply andb_prop in Hs. destruct Hs as [Hmid Hpost].
  destruct (split_top_total (nmI push0) sto part mb (block_mid b)) as [bl Hbl].
  exists bl. split; auto.
  pose proof (split_top_parts _ _ _ _ _ _ Hbl) as Hp. split; auto.
  assert (Hsbl : sub_block_list sto part mb (optimizable_plain push0 b) = Some (map (map (nmI push0)) bl)).
  { unfold sub_block_list, optimizable_plain. rewrite (optimizable_shape b Hpost).
    rewrite split_top_map. fold (nmI push0). unfold nmI in Hbl. unfold nmI.
    rewrite Hbl. cbn [option_map]. rewrite map_map. f_equal. apply map_ext. intros c. rewrite map_map. auto. }
  split; auto.
  assert (Hop : optimizable_plain push0 b = map (to_plain push0) (block_mid b)).
  { unfold optimizable_plain. rewrite (optimizable_shape b Hpost). auto. }
  destruct (block_mid b) as [|m0 mid'] eqn:Em; [discriminate|].
  rewrite Hop in Hsbl. cbn [map] in Hsbl.
  unfold reassemble. rewrite Hop. cbn [map]. rewrite Hsbl.
  rewrite (block_decomp b) at 1. rewrite Em.
  apply (rebuild_spec push0 fix1 repl (block_pre b) (m0 :: mid') (block_post b) bl m0 mid' eq_refl Hp).
  - intros p Hp'. unfold stop_first. destruct fix1.
    + apply takewhile_all in Hp'. unfold nonopt_i in Hp'. rewrite Hp'. auto.
    + destruct Hf as [Hf|Hf]; [discriminate|].
      unfold first_ok in Hf. rewrite Em in Hf. apply andb_prop in Hf. destruct Hf as [_ Hf].
      rewrite forallb_forall in Hf. apply Hf in Hp'.
      unfold plain, nmI. destruct (String.eqb _ _); auto. discriminate.
  - unfold stop_first. destruct fix1.
    + assert (In m0 (block_mid b)) as Hin by (rewrite Em; left; auto).
      unfold block_mid in Hin. apply takewhile_all in Hin. unfold nonopt_i in Hin. rewrite Hin. auto.
    + destruct Hf as [Hf|Hf]; [discriminate|].
      unfold first_ok in Hf. rewrite Em in Hf. apply andb_prop in Hf. destruct Hf as [Hf _].
      unfold plain, nmI. rewrite String.eqb_sym. rewrite Hf. auto.
Qed.

(* join at the shared splitting instruction *)
Theorem join_split_gen : forall {A} (nm : A -> string) sto part mb l,
    exists bl, split_top nm sto part mb l = Some bl /\ join bl = l /\ chainedP bl.
Proof.
  intros A nm sto part mb l. destruct (split_top_total nm sto part mb l) as [bl H].
  exists bl. split; auto. pose proof (split_top_parts _ _ _ _ _ _ H) as Hp.
  split; [eapply parts_join | eapply parts_chained]; eauto.
Qed.

Lemma last_opt_map : forall {A B} (f : A -> B) l x, last_opt l = Some x -> last_opt (map f l) = Some (f x).
Proof.
  induction l as [|y l IH]; intros x H; [discriminate|].
  destruct l as [|z l']; cbn in *; [congruence|]. apply IH. exact H.
Qed.

Lemma chainedP_map : forall {A B} (f : A -> B) (bl : list (list A)),
    chainedP bl -> chainedP (map (map f) bl).
Proof.
  induction bl as [|b r IH]; intros H; [exact I|].
  destruct r as [|c r']; [exact I|].
  change (chainedP (map f b :: map f c :: map (map f) r')). cbn [chainedP].
  cbn [chainedP] in H. destruct H as [[x [Hl Hh]] Hc]. split.
  - exists (f x). split; [apply last_opt_map; auto|]. destruct c; cbn in *; congruence.
  - apply IH. exact Hc.
Qed.

Theorem join_split_names : forall sto part mb (pl : list string),
    exists sbl, sub_block_list sto part mb pl = Some sbl /\ join sbl = map nop_name pl /\ chainedP sbl.
Proof.
  intros sto part mb pl. destruct (join_split_gen nop_name sto part mb pl) as [bl [H [Hj Hc]]].
  exists (map (map nop_name) bl). unfold sub_block_list. rewrite H. split; auto.
  split; [rewrite join_map; congruence|]. apply chainedP_map. exact Hc.
Qed.

Theorem rebuild_none_partial : forall push0 fix1 sto part mb b,
    shape_ok b = true -> (fix1 = true \/ first_ok push0 b = true) ->
    reassemble push0 fix1 sto part mb b none = Some b.
Proof.
  intros push0 fix1 sto part mb b Hs Hf.
  destruct (reassemble_spec push0 fix1 sto part mb b none Hs Hf) as [bl [_ [Hp [_ ->]]]].
  unfold none. rewrite (spec_blocks_none _ _ Hp). rewrite <- block_decomp. auto.
Qed.

(* replacing sub-blocks: exactly the chosen segments are replaced *)
Theorem rebuild_subset_partial : forall push0 fix1 sto part mb b repl,
    shape_ok b = true -> (fix1 = true \/ first_ok push0 b = true) ->
    forall bl segs,
      split_top (nmI push0) sto part mb (block_mid b) = Some bl ->
      process_blocks_split bl = Some segs ->
      b = block_pre b ++ assemble segs (seps_of bl) ++ block_post b /\
      reassemble push0 fix1 sto part mb b repl
      = Some (block_pre b ++ assemble (subst_segs repl 0 segs) (seps_of bl) ++ block_post b).
Proof.
  intros push0 fix1 sto part mb b repl Hs Hf bl segs Hbl Hsegs.
  destruct (reassemble_spec push0 fix1 sto part mb b repl Hs Hf) as [bl' [Hbl' [Hp [_ Hr]]]].
  rewrite Hbl in Hbl'. injection Hbl' as <-.
  split.
  - pose proof (spec_blocks_segments none _ _ _ Hp Hsegs) as E.
    unfold none in E at 1. rewrite (spec_blocks_none _ _ Hp) in E.
    assert (Hid : forall k (s : list (list instr)), subst_segs none k s = s).
    { intros k s. revert k. induction s as [|x s IH]; intros k; cbn; auto. rewrite IH. auto. }
    rewrite Hid in E. rewrite <- E. apply block_decomp.
  - rewrite Hr. rewrite (spec_blocks_segments repl _ _ _ Hp Hsegs). auto.
Qed.

Lemma subst_one_nth : forall {A} (R : list A) segs k0 k j,
    nth_error (subst_segs (one k R) k0 segs) j =
    match nth_error segs j with
    | Some s => Some (if Nat.eqb (k0 + j) k then R else s)
    | None => None
    end.
Proof.
  induction segs as [|s segs IH]; intros k0 k j; destruct j; cbn; auto.
  - unfold one. rewrite Nat.add_0_r. destruct (Nat.eqb k0 k); auto.
  - rewrite IH. replace (S k0 + j) with (k0 + S j) by lia. auto.
Qed.

(* the segmentation exists for every single-level cut: default and -storage policies *)
Theorem segments_exist_nopart : forall {A} (nm : A -> string) sto mb l bl,
    split_top nm sto false mb l = Some bl -> exists segs, process_blocks_split bl = Some segs.
Proof.
  intros A nm sto mb l bl H. unfold split_top in H.
  destruct (is_optimizable sto (map nm l)); injection H as <-.
  - cbn. eauto.
  - unfold cut_split. apply pbs_cut.
Qed.

(* keys of the specification dictionary: <name>_<k> for a non-empty segment k, which is the
   segment of the k-th reported sub-block *)
Theorem spec_keys_sound : forall {A} (bl segs : list (list A)) k,
    process_blocks_split bl = Some segs -> In k (nonempty_idx 0 segs) ->
    k < length bl /\ exists s, nth_error segs k = Some s /\ s <> [].
Proof.
  intros A bl segs k H Hin. apply nonempty_idx_sound in Hin. destruct Hin as [_ [s [Hn Hs]]].
  rewrite Nat.sub_0_r in Hn. split; eauto.
  rewrite <- (pbs_length _ _ H). apply nth_error_Some. congruence.
Qed.

(* ------------------------------------------------------------------ witnesses *)

Open Scope string_scope.

(* PUSH 0 SELFDESTRUCT POP JUMP: a non-optimizable instruction between optimizable ones *)
Definition w_inside : list instr :=
  [mkI "PUSH" (Some "0") 1; mkI "SELFDESTRUCT" None 2; mkI "POP" None 3; mkI "JUMP" None 4].
(* ASSIGNIMMUTABLE 5 PUSH 1 POP: the first optimizable instruction is reported without its value *)
Definition w_first : list instr :=
  [mkI "ASSIGNIMMUTABLE" (Some "5") 1; mkI "PUSH" (Some "1") 2; mkI "POP" None 3].
(* tag 1 JUMPDEST PUSH 1 GAS POP LOG1 CALL PUSH 2 MSTORE PUSH 3 JUMP *)
Definition w_good : list instr :=
  [mkI "tag" (Some "1") 1; mkI "JUMPDEST" None 2; mkI "PUSH" (Some "1") 3; mkI "GAS" None 4;
   mkI "POP" None 5; mkI "LOG1" None 6; mkI "CALL" None 7; mkI "PUSH" (Some "2") 8;
   mkI "MSTORE" None 9; mkI "PUSH" (Some "3") 10; mkI "JUMP" None 11].

Lemma rebuild_none_refuted_inside_l :
  exists b, forall fix1, reassemble true fix1 false false 22 b none = None.
Proof. exists w_inside. intros [|]; vm_compute; reflexivity. Qed.

Lemma rebuild_none_refuted_first_l :
  exists b, shape_ok b = true /\ reassemble true false false false 22 b none = None
            /\ reassemble true true false false 22 b none = Some b.
Proof. exists w_first. vm_compute. auto. Qed.

Lemma w_good_hyps : shape_ok w_good = true /\ first_ok true w_good = true.
Proof. vm_compute. auto. Qed.

Lemma w_good_split :
  sub_block_list false false 22 (optimizable_plain true w_good)
  = Some [["PUSH 1"; "GAS"]; ["GAS"; "POP"; "LOG1"]; ["LOG1"; "CALL"]; ["CALL"; "PUSH 2"; "MSTORE"; "PUSH 3"]]
  /\ sub_block_list true false 22 (optimizable_plain true w_good)
  = Some [["PUSH 1"; "GAS"]; ["GAS"; "POP"; "LOG1"]; ["LOG1"; "CALL"]; ["CALL"; "PUSH 2"; "MSTORE"]; ["MSTORE"; "PUSH 3"]]
  /\ sub_block_list false true 3 (optimizable_plain true w_good)
  = Some [["PUSH 1"; "GAS"]; ["GAS"; "POP"; "LOG1"]; ["LOG1"; "CALL"]; ["CALL"; "PUSH 2"; "MSTORE"]; ["MSTORE"; "PUSH 3"]].
Proof. vm_compute. auto. Qed.

Lemma w_good_one :
  option_map (map payload)
    (reassemble true false false false 22 w_good (one 1 [mkI "PUSH" (Some "9") 100; mkI "POP" None 101]))
  = Some [1; 2; 3; 4; 100; 101; 6; 7; 8; 9; 10; 11]%Z.
Proof. vm_compute. reflexivity. Qed.

Lemma w_good_segments :
  exists bl segs, split_top (nmI true) false false 22 (block_mid w_good) = Some bl /\
                  process_blocks_split bl = Some segs /\ length segs = 4 /\
                  nonempty_idx 0 segs = [0; 1; 3].
Proof. eexists. eexists. vm_compute. repeat split; reflexivity. Qed.
