(* A generic trace-theory lemma for the schedule quantifier of C02.
   Operations with a dependence relation; adjacent independent operations commute in the semantics.  Then any two
   schedules that are permutations of each other and keep every dependent pair in the same order have the same
   semantics.  (What is NOT proved in this development: that the denotation of a specification satisfies the
   commutation hypothesis for every pair that deps_complete leaves unordered; see Props/C02.v.) *)
From Coq Require Import List Permutation Bool.
Import ListNotations.

Section Trace.
  Variables (op state : Type).
  Variable step : op -> state -> state.
  Variable dep : op -> op -> bool.
  Hypothesis indep_comm : forall a b s,
    dep a b = false -> dep b a = false -> step b (step a s) = step a (step b s).

  Definition run (l : list op) (s : state) : state := fold_left (fun s o => step o s) l s.

  (* a occurs before b in l *)
  Fixpoint before (a b : op) (l : list op) : Prop :=
    match l with
    | [] => False
    | h :: t => (h = a /\ In b t) \/ before a b t
    end.

  (* l2 keeps the order l1 gives to every dependent pair *)
  Definition keeps_dep_order (l1 l2 : list op) : Prop :=
    forall a b, before a b l1 -> (dep a b = true \/ dep b a = true) -> before a b l2.

  Lemma before_In_l a b l : before a b l -> In a l.
  Proof. induction l as [|h t IH]; cbn; [tauto|]. intros [[-> _]|H]; [left; reflexivity|right; apply IH; exact H]. Qed.
  Lemma before_In_r a b l : before a b l -> In b l.
  Proof. induction l as [|h t IH]; cbn; [tauto|]. intros [[_ H]|H]; [right; exact H|right; apply IH; exact H]. Qed.

  Lemma before_antisym a b l : NoDup l -> before a b l -> before b a l -> False.
  Proof.
    induction l as [|h t IH]; cbn; [tauto|]. intros ND H1 H2. inversion ND as [|x y Hn ND']; subst.
    destruct H1 as [[-> Hb]|H1]; destruct H2 as [[E Ha]|H2].
    - subst. apply Hn. exact Hb.
    - apply Hn. apply (before_In_r _ _ _ H2).
    - subst. apply Hn. apply (before_In_r _ _ _ H1).
    - apply (IH ND' H1 H2).
  Qed.

  Lemma before_remove a' b' a p q : before a' b' (p ++ a :: q) -> a' <> a -> b' <> a -> before a' b' (p ++ q).
  Proof.
    induction p as [|h p IH]; cbn; intros H Na Nb.
    - destruct H as [[E _]|H]; [congruence|exact H].
    - destruct H as [[-> Hi]|H].
      + left. split; [reflexivity|]. apply in_app_or in Hi. apply in_or_app.
        destruct Hi as [Hi|[Hi|Hi]]; [left; exact Hi|congruence|right; exact Hi].
      + right. apply IH; assumption.
  Qed.

  Lemma before_prefix x a p q : In x p -> before x a (p ++ a :: q).
  Proof.
    induction p as [|h p IH]; cbn; [tauto|]. intros [->|H].
    - left. split; [reflexivity|]. apply in_or_app. right. left. reflexivity.
    - right. apply IH. exact H.
  Qed.

  Lemma run_cons a l s : run (a :: l) s = run l (step a s).
  Proof. reflexivity. Qed.

  Lemma move_front a p q s :
    (forall x, In x p -> dep a x = false /\ dep x a = false) ->
    run (p ++ a :: q) s = run (a :: p ++ q) s.
  Proof.
    revert s. induction p as [|h p IH]; intros s Hp; [reflexivity|].
    cbn [app]. rewrite run_cons. rewrite IH by (intros x Hx; apply Hp; right; exact Hx).
    rewrite !run_cons. f_equal. destruct (Hp h (or_introl eq_refl)) as [D1 D2].
    symmetry. apply indep_comm; assumption.
  Qed.

  Theorem schedules_equivalent : forall l1 l2,
    NoDup l1 -> Permutation l1 l2 -> keeps_dep_order l1 l2 -> forall s, run l1 s = run l2 s.
  Proof.
    induction l1 as [|a t IH]; intros l2 ND P K s.
    - apply Permutation_nil in P. subst. reflexivity.
    - assert (Ha : In a l2) by (apply (Permutation_in _ P); left; reflexivity).
      destruct (in_split _ _ Ha) as [p [q ->]].
      inversion ND as [|x y Hn ND']; subst.
      assert (ND2 : NoDup (p ++ a :: q)) by (apply (Permutation_NoDup P); exact ND).
      assert (Pt : Permutation t (p ++ q)) by (apply Permutation_cons_app_inv with a; exact P).
      assert (Ind : forall x, In x p -> dep a x = false /\ dep x a = false).
      { intros x Hx.
        assert (Hxt : In x t).
        { apply (Permutation_in _ (Permutation_sym Pt)). apply in_or_app. left. exact Hx. }
        assert (B1 : before a x (a :: t)) by (left; split; [reflexivity|exact Hxt]).
        destruct (dep a x) eqn:D1; [|destruct (dep x a) eqn:D2; [|split; reflexivity]].
        - exfalso. apply (before_antisym a x (p ++ a :: q) ND2); [apply K; [exact B1|left; exact D1]|apply before_prefix; exact Hx].
        - exfalso. apply (before_antisym a x (p ++ a :: q) ND2); [apply K; [exact B1|right; exact D2]|apply before_prefix; exact Hx]. }
      rewrite move_front by exact Ind. rewrite !run_cons.
      apply IH; [exact ND'|exact Pt|].
      intros a' b' B D.
      assert (Na : a' <> a) by (intros ->; apply Hn; apply (before_In_l _ _ _ B)).
      assert (Nb : b' <> a) by (intros ->; apply Hn; apply (before_In_r _ _ _ B)).
      apply before_remove with a; [|exact Na|exact Nb].
      apply K; [right; exact B|exact D].
  Qed.
End Trace.

(* non-vacuity: three writes to a two-cell store; writes to different cells are independent *)
Example trace_example :
  let step := fun (o : nat * nat) (s : nat * nat) => if Nat.eqb (fst o) 0 then (snd o, snd s) else (fst s, snd o) in
  let dep := fun (a b : nat * nat) => Nat.eqb (fst a) (fst b) in
  run _ _ step [(0, 1); (1, 2); (0, 3)] (0, 0) = run _ _ step [(0, 1); (0, 3); (1, 2)] (0, 0).
Proof. reflexivity. Qed.
