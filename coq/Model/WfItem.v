(* C09: well-formed assembly items and the skeleton of an instruction stream (executable). *)
From Coq Require Import ZArith List Bool String Ascii.
From GV Require Import Model.Split.
Import ListNotations.
Local Open Scope string_scope.

(* --- hexadecimal constants ------------------------------------------------------ *)
Definition hex_digit (c : ascii) : option N :=
  let n := N_of_ascii c in
  if ((48 <=? n) && (n <=? 57))%N then Some (n - 48)%N
  else if ((97 <=? n) && (n <=? 102))%N then Some (n - 87)%N
  else if ((65 <=? n) && (n <=? 70))%N then Some (n - 55)%N
  else None.

Fixpoint hex_value_aux (s : string) (acc : N) : option N :=
  match s with
  | EmptyString => Some acc
  | String c r => match hex_digit c with Some d => hex_value_aux r (acc * 16 + d)%N | None => None end
  end.
Definition hex_value (s : string) : option N :=
  match s with EmptyString => None | _ => hex_value_aux s 0%N end.

(* canonical: only hex digits, no leading zero (except the constant 0 itself), value below 2^256 *)
Definition canonical_hex (s : string) : bool :=
  match s with
  | EmptyString => false
  | String c r =>
    (match r with EmptyString => true | _ => negb (Ascii.eqb c "0"%char) end) &&
    match hex_value s with Some v => (v <? 2 ^ 256)%N | None => false end
  end.

(* --- names ------------------------------------------------------------------------ *)
Fixpoint dec_value_aux (s : string) (acc : nat) : option nat :=
  match s with
  | EmptyString => Some acc
  | String c r =>
    let n := N_of_ascii c in
    if ((48 <=? n) && (n <=? 57))%N then dec_value_aux r (acc * 10 + N.to_nat (n - 48)%N) else None
  end.
Definition dec_value (s : string) : option nat :=
  match s with EmptyString => None | _ => dec_value_aux s 0 end.

Fixpoint prefixb (p s : string) : bool :=
  match p, s with
  | EmptyString, _ => true
  | String a p', String b s' => Ascii.eqb a b && prefixb p' s'
  | _, _ => false
  end.

Definition stack_index (pre : string) (n : string) : option nat :=
  if prefixb pre n then dec_value (substring (String.length pre) (String.length n - String.length pre) n) else None.

Definition pseudo_push_names : list string :=
  ["PUSH [tag]"; "PUSH #[$]"; "PUSH [$]"; "PUSH data"; "PUSHLIB"; "PUSHIMMUTABLE"; "PUSHDEPLOYADDRESS"; "PUSHSIZE"].

(* the skeleton of a stream: what the optimizer must never touch *)
Definition is_skel (sto : bool) (i : instr) : bool :=
  mem_str (disasm i) beginning_block || mem_str (disasm i) end_block || mem_str (disasm i) (split_block sto).

Definition skeleton (sto : bool) (l : list instr) : list instr := filter (is_skel sto) l.

Definition instr_eqb (a b : instr) : bool :=
  String.eqb (disasm a) (disasm b) &&
  match ivalue a, ivalue b with
  | None, None => true
  | Some x, Some y => String.eqb x y
  | _, _ => false
  end && Z.eqb (payload a) (payload b).

Fixpoint list_eqb (l1 l2 : list instr) : bool :=
  match l1, l2 with
  | [], [] => true
  | a :: r1, b :: r2 => instr_eqb a b && list_eqb r1 r2
  | _, _ => false
  end.

Definition skeleton_eq (sto : bool) (old new : list instr) : bool := list_eqb (skeleton sto old) (skeleton sto new).

(* [known]: the opcode names of the assembler (sfs_generator/opcodes.py), [input]: the input block *)
Definition wf_emitted (known : list string) (sto : bool) (input : list instr) (i : instr) : bool :=
  let n := disasm i in
  negb (is_skel sto i) &&
  if String.eqb n "PUSH" then
    match ivalue i with Some v => canonical_hex v | None => false end
  else if String.eqb n "PUSH0" then match ivalue i with None => true | Some _ => false end
  else if mem_str n pseudo_push_names then
    existsb (fun j => String.eqb (disasm j) n &&
                      match ivalue i, ivalue j with
                      | None, None => true
                      | Some x, Some y => String.eqb x y
                      | _, _ => false
                      end) input
  else match stack_index "DUP" n with
  | Some k => (1 <=? k)%nat && (k <=? 16)%nat && match ivalue i with None => true | _ => false end
  | None =>
  match stack_index "SWAP" n with
  | Some k => (1 <=? k)%nat && (k <=? 16)%nat && match ivalue i with None => true | _ => false end
  | None => mem_str n known && match ivalue i with None => true | _ => false end
  end end.
