(* C09 proofs: the skeleton of a block is untouched by re-assembly when the replaced and the
   replacing segments contain no skeleton instruction; meaning of the boolean item checker. *)
From Coq Require Import ZArith List Bool String Ascii Lia.
From GV Require Import Model.Split Model.SplitProofs Model.WfItem.
Import ListNotations.
Local Open Scope string_scope.
Local Open Scope list_scope.

Definition skel_free (sto : bool) (l : list instr) : Prop := forallb (fun i => negb (is_skel sto i)) l = true.

Lemma skeleton_app sto a b : skeleton sto (a ++ b) = skeleton sto a ++ skeleton sto b.
Proof. unfold skeleton. apply filter_app. Qed.

Lemma skeleton_free sto l : skel_free sto l -> skeleton sto l = [].
Proof.
  unfold skel_free, skeleton. induction l as [|x l IH]; intros H; [reflexivity|].
  cbn [forallb] in H. apply andb_true_iff in H. destruct H as [Hx Hl]. cbn [filter].
  apply negb_true_iff in Hx. rewrite Hx. apply IH. exact Hl.
Qed.

Lemma skeleton_assemble sto segs : forall segs' seps, List.length segs = List.length segs' ->
  Forall (skel_free sto) segs -> Forall (skel_free sto) segs' ->
  skeleton sto (assemble segs seps) = skeleton sto (assemble segs' seps).
Proof.
  induction segs as [|s ss IH]; intros [|s' ss'] seps Hl H1 H2; try discriminate Hl; [reflexivity|].
  cbn [assemble]. rewrite !skeleton_app.
  inversion H1; subst. inversion H2; subst.
  rewrite (skeleton_free sto s), (skeleton_free sto s') by assumption. cbn [app].
  destruct seps as [|sp sps]; [reflexivity|].
  change (sp :: assemble ss sps) with ([sp] ++ assemble ss sps).
  change (sp :: assemble ss' sps) with ([sp] ++ assemble ss' sps).
  rewrite !skeleton_app. f_equal. apply IH; [simpl in Hl; lia|assumption|assumption].
Qed.

Lemma subst_segs_length {A} (repl : nat -> option (list A)) segs : forall k,
  List.length (subst_segs repl k segs) = List.length segs.
Proof. induction segs as [|s ss IH]; intros k; [reflexivity|]. cbn [subst_segs List.length]. rewrite IH. reflexivity. Qed.

Lemma subst_segs_free sto (repl : nat -> option (list instr)) segs : forall k,
  Forall (skel_free sto) segs -> (forall j R, repl j = Some R -> skel_free sto R) ->
  Forall (skel_free sto) (subst_segs repl k segs).
Proof.
  induction segs as [|s ss IH]; intros k H Hr; [constructor|]. cbn [subst_segs].
  inversion H; subst. constructor; [|apply IH; assumption].
  destruct (repl k) as [R|] eqn:E; [apply (Hr k R E)|assumption].
Qed.

(* Every tag, JUMPDEST, jump, terminal and splitting instruction of the block is present in the
   re-assembled block, in the same order, with all of its fields, whatever sub-blocks were
   replaced, provided the segments and their replacements are free of such instructions. *)
Theorem rebuild_skeleton : forall push0 fix1 sto part mb b repl,
    shape_ok b = true -> (fix1 = true \/ first_ok push0 b = true) ->
    forall bl segs,
      split_top (nmI push0) sto part mb (block_mid b) = Some bl ->
      process_blocks_split bl = Some segs ->
      Forall (skel_free sto) segs ->
      (forall j R, repl j = Some R -> skel_free sto R) ->
      exists b', reassemble push0 fix1 sto part mb b repl = Some b' /\ skeleton sto b' = skeleton sto b.
Proof.
  intros push0 fix1 sto part mb b repl Hs Hf bl segs Hbl Hsegs Hfree Hrepl.
  destruct (rebuild_subset_partial push0 fix1 sto part mb b repl Hs Hf bl segs Hbl Hsegs) as [Eb Er].
  eexists. split; [exact Er|].
  assert (E2 : skeleton sto b = skeleton sto (block_pre b ++ assemble segs (seps_of bl) ++ block_post b))
    by (rewrite <- Eb; reflexivity).
  rewrite E2. rewrite !skeleton_app. f_equal. f_equal.
  apply skeleton_assemble.
  - apply subst_segs_length.
  - apply subst_segs_free; assumption.
  - exact Hfree.
Qed.

(* --- meaning of the item checker ---------------------------------------------------- *)
Lemma canonical_hex_sound s : canonical_hex s = true ->
  exists v, hex_value s = Some v /\ (v < 2 ^ 256)%N /\
            (s = "0" \/ exists c r, s = String c r /\ c <> "0"%char \/ r = EmptyString).
Proof.
  unfold canonical_hex. destruct s as [|c r]; [discriminate|]. intros H.
  apply andb_true_iff in H. destruct H as [H1 H2].
  destruct (hex_value (String c r)) as [v|] eqn:E; [|discriminate].
  exists v. split; [reflexivity|]. split; [apply N.ltb_lt; exact H2|].
  right. exists c, r. destruct r as [|c2 r2]; [right; reflexivity|].
  left. split; [reflexivity|]. apply negb_true_iff in H1. intros ->. rewrite Ascii.eqb_refl in H1. discriminate.
Qed.

Lemma wf_emitted_not_skeleton known sto input i : wf_emitted known sto input i = true -> is_skel sto i = false.
Proof. unfold wf_emitted. intros H. apply andb_true_iff in H. destruct H as [H _]. apply negb_true_iff. exact H. Qed.

Lemma wf_emitted_push known sto input i : wf_emitted known sto input i = true -> disasm i = "PUSH" ->
  exists v, ivalue i = Some v /\ canonical_hex v = true.
Proof.
  unfold wf_emitted. intros H E. apply andb_true_iff in H. destruct H as [_ H].
  rewrite E in H. cbn in H. destruct (ivalue i) as [v|]; [|discriminate]. exists v. split; [reflexivity|exact H].
Qed.

Lemma wf_emitted_segment_free known sto input l :
  forallb (wf_emitted known sto input) l = true -> skel_free sto l.
Proof.
  unfold skel_free. induction l as [|x l IH]; intros H; [reflexivity|].
  cbn [forallb] in *. apply andb_true_iff in H. destruct H as [Hx Hl].
  rewrite (wf_emitted_not_skeleton _ _ _ _ Hx). cbn. apply IH. exact Hl.
Qed.

(* DUP/SWAP depths of accepted items are 1..16 and they carry no value *)
Lemma prefix_dup n : prefixb "DUP" n = true -> exists r, n = String "D" (String "U" (String "P" r)).
Proof.
  destruct n as [|a [|b [|c r]]]; cbn [prefixb]; try discriminate;
  rewrite ?andb_false_r; try discriminate.
  rewrite andb_true_r. intros H. apply andb_prop in H as [H1 H]. apply andb_prop in H as [H2 H3].
  apply Ascii.eqb_eq in H1, H2, H3. subst. eexists; reflexivity.
Qed.
Lemma prefix_swap n : prefixb "SWAP" n = true -> exists r, n = String "S" (String "W" (String "A" (String "P" r))).
Proof.
  destruct n as [|a [|b [|c [|d r]]]]; cbn [prefixb]; try discriminate;
  rewrite ?andb_false_r; try discriminate.
  rewrite andb_true_r. intros H. apply andb_prop in H as [H1 H]. apply andb_prop in H as [H2 H]. apply andb_prop in H as [H3 H4].
  apply Ascii.eqb_eq in H1, H2, H3, H4. subst. eexists; reflexivity.
Qed.

Lemma wf_emitted_dup known sto input i k : wf_emitted known sto input i = true ->
  stack_index "DUP" (disasm i) = Some k -> (1 <= k <= 16)%nat /\ ivalue i = None.
Proof.
  unfold wf_emitted. intros H Hk. apply andb_prop in H as [_ H].
  assert (P : prefixb "DUP" (disasm i) = true).
  { unfold stack_index in Hk. destruct (prefixb "DUP" (disasm i)); [reflexivity|discriminate]. }
  destruct (prefix_dup _ P) as [r Hr]. rewrite Hr in H, Hk.
  cbn [String.eqb Ascii.eqb Bool.eqb] in H.
  change (mem_str (String "D" (String "U" (String "P" r))) pseudo_push_names) with false in H.
  rewrite Hk in H. apply andb_prop in H as [H H3]. apply andb_prop in H as [H1 H2].
  apply Nat.leb_le in H1, H2. split; [lia|]. destruct (ivalue i); [discriminate|reflexivity].
Qed.

Lemma wf_emitted_swap known sto input i k : wf_emitted known sto input i = true ->
  stack_index "SWAP" (disasm i) = Some k -> (1 <= k <= 16)%nat /\ ivalue i = None.
Proof.
  unfold wf_emitted. intros H Hk. apply andb_prop in H as [_ H].
  assert (P : prefixb "SWAP" (disasm i) = true).
  { unfold stack_index in Hk. destruct (prefixb "SWAP" (disasm i)); [reflexivity|discriminate]. }
  destruct (prefix_swap _ P) as [r Hr]. rewrite Hr in H, Hk.
  cbn [String.eqb Ascii.eqb Bool.eqb] in H.
  change (mem_str (String "S" (String "W" (String "A" (String "P" r)))) pseudo_push_names) with false in H.
  change (stack_index "DUP" (String "S" (String "W" (String "A" (String "P" r))))) with (@None nat) in H.
  rewrite Hk in H. apply andb_prop in H as [H H3]. apply andb_prop in H as [H1 H2].
  apply Nat.leb_le in H1, H2. split; [lia|]. destruct (ivalue i); [discriminate|reflexivity].
Qed.

(* a pseudo-push accepted by the item checker occurs, with the same operand, in the input block *)
Lemma wf_emitted_pseudo_push known sto input i : wf_emitted known sto input i = true ->
  mem_str (disasm i) pseudo_push_names = true ->
  exists j, In j input /\ disasm j = disasm i /\ ivalue j = ivalue i.
Proof.
  intros H Hm. unfold wf_emitted in H. apply andb_prop in H as [_ H].
  pose proof Hm as Hm'. unfold mem_str in Hm'. apply existsb_exists in Hm' as (x & Hin & Heq).
  apply String.eqb_eq in Heq.
  assert (E : String.eqb (disasm i) "PUSH" = false /\ String.eqb (disasm i) "PUSH0" = false).
  { rewrite Heq. unfold pseudo_push_names in Hin. cbn [In] in Hin.
    repeat (destruct Hin as [Hin|Hin]; [rewrite <- Hin; split; reflexivity|]). destruct Hin. }
  destruct E as [E1 E2]. rewrite E1, E2, Hm in H.
  apply existsb_exists in H as (j & Hj & Hc). apply andb_prop in Hc as [Hn Hv]. apply String.eqb_eq in Hn.
  exists j. split; [exact Hj|]. split; [exact Hn|].
  destruct (ivalue i) as [a|], (ivalue j) as [b|]; try discriminate; [|reflexivity].
  apply String.eqb_eq in Hv. subst. reflexivity.
Qed.
