(* C01: optimized blocks are observationally equivalent to the original. *)
From Coq Require Import ZArith List Bool.
From GV Require Import Ref.Word Ref.EVM Sym.Term Sym.SymExec Val.Equiv Val.EquivProofs Model.Pipeline.
Import ListNotations.
Local Open Scope Z_scope.

(* Event-free code: every well-formed state on which the original runs. *)
Theorem C01_segment : forall b1 b2, equiv_seg b1 b2 = true ->
  forall e s0 c1, wf_env e -> wf_state s0 -> exec e b1 s0 = Some c1 ->
  exists c2, exec e b2 s0 = Some c2 /\ stk c2 = stk c1 /\
             (forall x, mem c2 x = mem c1 x) /\ (forall k, sto c2 k = sto c1 k).
Proof. exact equiv_seg_sound. Qed.
Print Assumptions C01_segment.

(* Whole blocks with externally visible operations, for every behaviour [x] of the outside world
   that cannot tell pointwise-equal memories apart and returns well-formed data. *)
Theorem C01_block : forall (x : event -> response),
  (forall e1 e2, event_equiv e1 e2 ->
     rs_outs (x e1) = rs_outs (x e2) /\ rs_env (x e1) = rs_env (x e2) /\
     (forall y, rs_mem (x e1) y = rs_mem (x e2) y) /\ (forall k, rs_sto (x e1) k = rs_sto (x e2) k)) ->
  (forall e, wf_env (ev_env e) -> wf_mem (ev_mem e) -> wf_sto (ev_sto e) ->
     wf_env (rs_env (x e)) /\ wf_stack (rs_outs (x e)) /\ wf_mem (rs_mem (x e)) /\ wf_sto (rs_sto (x e))) ->
  forall b1 b2, equiv_block b1 b2 = true ->
  forall c, wf_bstate c -> forall c1, run x b1 c = Some c1 ->
  exists c2, run x b2 c = Some c2 /\ bstate_equiv c1 c2.
Proof. exact equiv_block_sound. Qed.
Print Assumptions C01_block.

(* The pipeline, for EVERY candidate generator. *)
Theorem C01_pipeline : forall (search : list instr -> list instr) (x : event -> response),
  (forall e1 e2, event_equiv e1 e2 ->
     rs_outs (x e1) = rs_outs (x e2) /\ rs_env (x e1) = rs_env (x e2) /\
     (forall y, rs_mem (x e1) y = rs_mem (x e2) y) /\ (forall k, rs_sto (x e1) k = rs_sto (x e2) k)) ->
  (forall e, wf_env (ev_env e) -> wf_mem (ev_mem e) -> wf_sto (ev_sto e) ->
     wf_env (rs_env (x e)) /\ wf_stack (rs_outs (x e)) /\ wf_mem (rs_mem (x e)) /\ wf_sto (rs_sto (x e))) ->
  forall b c, wf_bstate c -> forall c1, run x b c = Some c1 ->
  exists c2, run x (optimize_block search b) c = Some c2 /\ bstate_equiv c1 c2.
Proof.
  intros search x Hp Hw b c Wc c1 R. unfold optimize_block.
  destruct (equiv_block b (search b)) eqn:E.
  - exact (equiv_block_sound x Hp Hw b (search b) E c Wc c1 R).
  - exists c1. split; [exact R|]. split; [reflexivity|]. split.
    + repeat split; reflexivity.
    + induction (b_trace c1); constructor; [|assumption]. repeat split; reflexivity.
Qed.
Print Assumptions C01_pipeline.

(* Non-vacuity: a 13-instruction block with two stores, a load and a LOG1, and a different
   instruction sequence that the validator accepts (reordered independent stores, folded
   constant, forwarded load, commuted addition). *)
Example C01_accepts_nontrivial :
  equiv_block
    [IPush 1; IPush 2; IOp2 ADD; IPush 64; IMstore; IDup 1; IPush 0; IMstore; IPush 64; IMload;
     IDup 2; IOp2 ADD; IPush 0; IPush 32; IEvent 100 3 0; IPop]
    [IDup 1; IPush 0; IMstore; IPush 3; IPush 64; IMstore; IDup 1; IPush 3; IOp2 ADD;
     IPush 0; IPush 32; IEvent 100 3 0; IPop] = true.
Proof. vm_compute. reflexivity. Qed.

Example C01_rejects_wrong :
  equiv_block [IDup 1; IOp2 DIV] [IPop; IPush 1] = false.
Proof. vm_compute. reflexivity. Qed.
