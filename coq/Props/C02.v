(* C02: the stack/memory specification denotes the block under every admissible schedule. *)
From Coq Require Import ZArith List Bool.
From Coq Require String.
Export String.StringSyntax.
From GV Require Import Ref.Word Ref.EVM Sym.Term Sym.SymExec Sym.SymExecProofs Sym.Spec Sym.SpecSym
  Val.Equiv Val.SpecCheck Val.SpecCheckProofs Model.DepPrelude Gen.DepConst Model.DepConstProofs Model.Trace.
From Coq Require Import Permutation.
Import ListNotations.
Local Open Scope Z_scope.

(* For a specification S, a schedule L of its memory/storage/hash operations and the block B:
   when [spec_check] accepts, L executes every such operation once and respects the declared
   dependences, and evaluating S under L on ANY well-formed state with enough stack gives exactly
   the final stack, memory bytes and storage that running B gives. *)
Theorem C02_spec_denotes_block : forall S opmap L B, spec_check S opmap L B = true ->
  exists ss, spec_sym S opmap L = Some ss /\ admissible S opmap L = true /\
  forall e s0 c, wf_env e -> wf_state s0 -> (s_base ss <= length (stk s0))%nat -> exec e B s0 = Some c ->
    let r := rho0 e s0 in
    stk c = map (evalw r) (s_stk ss) ++ skipn (s_base ss) (stk s0) /\
    (forall x, mem c x = evalm r (s_mem ss) x) /\ (forall k, sto c k = evals r (s_sto ss) k).
Proof. exact spec_check_sound. Qed.
Print Assumptions C02_spec_denotes_block.

(* The dependences that make a schedule admissible come from are_dependent.  Its decision for two accesses with
   integer-constant offsets is regenerated from the source on every run (Gen/DepConst.v, gen/gen_dep.py); whenever it
   answers "independent" for a pair with a write, the two byte ranges are disjoint (memory) or the keys differ
   (storage) -- for all offsets and all lengths, KECCAK256 with a symbolic length included. *)
Theorem C02_const_dependence_sound_mem : forall k1 k2 a1 a2 s1 s2 l1 l2 L1 L2,
  In k1 mem_kinds -> In k2 mem_kinds -> writes k1 || writes k2 = true ->
  0 <= L1 -> 0 <= L2 -> (s1 = false -> L1 = l1) -> (s2 = false -> L2 = l2) ->
  are_dependent_const k1 k2 a1 a2 s1 s2 l1 l2 = false ->
  forall x, ~ (a1 <= x < a1 + size_of k1 L1 /\ a2 <= x < a2 + size_of k2 L2).
Proof. exact dep_const_sound_mem. Qed.
Print Assumptions C02_const_dependence_sound_mem.

Theorem C02_const_dependence_sound_sto : forall k1 k2 a1 a2 s1 s2 l1 l2,
  In k1 sto_kinds -> In k2 sto_kinds ->
  are_dependent_const k1 k2 a1 a2 s1 s2 l1 l2 = false -> a1 <> a2.
Proof. exact dep_const_sound_sto. Qed.
Print Assumptions C02_const_dependence_sound_sto.

(* The trace-theory core of the schedule quantifier, proved in general (Model/Trace.v): if operations that are not
   ordered by the dependence relation commute in the semantics, then two schedules that are permutations of each other
   and keep every dependent pair in the same order have the same semantics.  What remains unproved is the hypothesis
   for the denotation of a specification: that every pair left unordered by the declared dependences commutes --
   this is what [deps_complete] decides per specification (provably disjoint ranges / different keys / same value). *)
Theorem C02_schedules_equivalent_generic : forall (op state : Type) (step : op -> state -> state) (dep : op -> op -> bool),
  (forall a b s, dep a b = false -> dep b a = false -> step b (step a s) = step a (step b s)) ->
  forall l1 l2, NoDup l1 -> Permutation l1 l2 -> keeps_dep_order op dep l1 l2 ->
  forall s, run op state step l1 s = run op state step l2 s.
Proof. exact schedules_equivalent. Qed.
Print Assumptions C02_schedules_equivalent_generic.

(* The full statement of the property quantifies over ALL admissible schedules:
     forall L, admissible S opmap L = true -> spec_check S opmap L B = true.
   It is decided per specification by enumerating the admissible schedules (all of them up to a
   cap, see harness/c02.py) and by [deps_complete] (every possibly-overlapping pair with a write
   is ordered).  The implication  deps_complete /\ one accepted schedule -> every admissible
   schedule is accepted  (a trace-theory argument) is NOT proved here: C02 is claimed with the
   schedule quantifier enumerated. *)

(* Non-vacuity: the specification of
     PUSH 1 DUP3 MSTORE DUP1 PUSH 20 MLOAD ADD SWAP2 SSTORE CALLER
   as produced by the front end, under its three admissible schedules. *)
Local Open Scope string_scope.
Definition exS : spec :=
  (mkSpec [OVar 0; OVar 1] [OVar 2; OVar 3]
    [mkUI 0 "CALLER" [] [2] false false false None 2%Z 1%Z;
     mkUI 1 "ADD" [OVar 4; OVar 0] [3] true false false None 3%Z 1%Z;
     mkUI 2 "MLOAD" [OVar 5] [4] false false false None 3%Z 1%Z;
     mkUI 3 "SSTORE" [OVar 1; OVar 0] [] false true false None 5000%Z 1%Z;
     mkUI 4 "MSTORE" [OVar 1; OVar 6] [] false true false None 3%Z 1%Z;
     mkUI 5 "PUSH" [] [5] false false true (Some 32%Z) 3%Z 2%Z;
     mkUI 6 "PUSH" [] [6] false false true (Some 1%Z) 3%Z 2%Z]
    [(4, 2)] [(4, 2)] [] 10 10 5 9)%nat.
Definition exO : list (nat * instr) :=
  [(0%nat, IEnv0 3); (1%nat, IOp2 ADD); (2%nat, IMload); (3%nat, ISstore); (4%nat, IMstore);
   (5%nat, IPush 32); (6%nat, IPush 1)].
Definition exB : list instr :=
  [IPush 1; IDup 3; IMstore; IDup 1; IPush 32; IMload; IOp2 ADD; ISwap 2; ISstore; IEnv0 3].

Example C02_example_all_schedules :
  map (fun L => spec_check exS exO L exB) [[3; 4; 2]; [4; 2; 3]; [4; 3; 2]]%nat = [true; true; true]
  /\ deps_complete exS exO [4; 2; 3]%nat = true.
Proof. vm_compute. split; reflexivity. Qed.

(* a schedule that violates the declared dependence MSTORE_0 -> MLOAD_0 is not admissible *)
Example C02_example_inadmissible : spec_check exS exO [2; 4; 3]%nat exB = false.
Proof. vm_compute. reflexivity. Qed.
(* without the dependence, the ordering is incomplete: the store and the load may overlap *)
Example C02_example_missing_edge :
  deps_complete (mkSpec (s_src exS) (s_tgt exS) (s_instrs exS) [] [] [] 10 10 5 9) exO [4; 2; 3]%nat = false.
Proof. vm_compute. reflexivity. Qed.
