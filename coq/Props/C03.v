(* C03  Simplification rules and constant folding are identities on 256-bit words  ([T-gen] core).

   The definitions fold2 / fold3 / local_rule / check_size are REGENERATED from
   $GASOL_REPO/sfs_generator/{gasol_optimization,utils}.py on every run (gen/gen_fold.py), so the
   theorems below are re-checked against what the code says now.  Python's int semantics: Ref/PyInt.v;
   EVM word semantics: Ref/Word.v.

   FULL statements (what C03 demands):
     (F2) forall lim op a b r, inw a -> inw b -> fold2 lim op a b = PyOk r -> Some r = ref_fold2 op a b
     (F3) same for fold3
     (R)  forall sf opc inp o e rho, wf_rho rho -> Forall wf_op inp -> length inp = opcode_arity opc ->
            local_rule sf opc inp = Replace o e ->
            Some (value rho o) = ref_opcode opc (map (value rho) inp) /\ wf_op o
   On the unchanged tree (F2) and (R) are FALSE.  The operators / branches for which they fail are
   listed (with witnesses) in gen/known_unsound.json; Gen/*Obligations.v proves one `_refuted` lemma
   per listed item and one `_sound` lemma per remaining item, and from them:
     - `_partial`: the full statement restricted to the items not listed;
     - `_status` : the full statement holds, or there is a concrete counterexample.
   When /repo is repaired and the list is emptied, `_partial` IS the full statement and
   `_status` can only be proved through its left disjunct. *)
From Coq Require Import ZArith Bool Lia String List.
Import ListNotations.
From GV Require Import Ref.Word Ref.WordLemmas Ref.PyInt.
From GV Require Import Gen.CheckSize Gen.Fold Gen.LocalRules Gen.FoldObligations Gen.LocalRulesObligations.
From GV Require Import Model.FoldProofs Model.LocalRulesTactics Model.LocalRulesProofs.
Local Open Scope Z_scope.

(* ---- constant folding (compute_binary / compute_ternary -> evaluate_expression[_ter]) ---- *)
Theorem C03_fold2_partial :
  forall lim op a b r, ~ In op unsound_folds2 -> inw a -> inw b ->
    fold2 lim op a b = PyOk r -> Some r = ref_fold2 op a b.
Proof. exact fold2_sound_except. Qed.
Print Assumptions C03_fold2_partial.

Theorem C03_fold3_partial :
  forall lim op a b c r, ~ In op unsound_folds3 -> inw a -> inw b -> inw c ->
    fold3 lim op a b c = PyOk r -> Some r = ref_fold3 op a b c.
Proof. exact fold3_sound_except. Qed.
Print Assumptions C03_fold3_partial.

Theorem C03_fold2_status :
  (forall lim op a b r, inw a -> inw b -> fold2 lim op a b = PyOk r -> Some r = ref_fold2 op a b) \/
  (exists op a b r, In op unsound_folds2 /\ inw a /\ inw b /\
     fold2 default_lim op a b = PyOk r /\ Some r <> ref_fold2 op a b).
Proof. exact fold2_status. Qed.
Print Assumptions C03_fold2_status.

Theorem C03_fold3_status :
  (forall lim op a b c r, inw a -> inw b -> inw c -> fold3 lim op a b c = PyOk r -> Some r = ref_fold3 op a b c) \/
  (exists op a b c r, In op unsound_folds3 /\ inw a /\ inw b /\ inw c /\
     fold3 default_lim op a b c = PyOk r /\ Some r <> ref_fold3 op a b c).
Proof. exact fold3_status. Qed.
Print Assumptions C03_fold3_status.

(* ---- local rewrite rules (apply_transform_rules -> apply_transform) ---- *)
Theorem C03_local_rules_partial :
  forall sf opc inp o e rho, wf_rho rho -> Forall wf_op inp -> length inp = opcode_arity opc ->
    local_rule sf opc inp = Replace o e -> fired_unsound sf opc inp = false ->
    Some (value rho o) = ref_opcode opc (map (value rho) inp) /\ wf_op o.
Proof. exact local_rule_sound_except. Qed.
Print Assumptions C03_local_rules_partial.

Theorem C03_local_rules_status :
  (forall sf opc inp o e rho, wf_rho rho -> Forall wf_op inp -> length inp = opcode_arity opc ->
     local_rule sf opc inp = Replace o e -> Some (value rho o) = ref_opcode opc (map (value rho) inp) /\ wf_op o) \/
  (exists sf opc inp o e rho, wf_rho rho /\ Forall wf_op inp /\ length inp = opcode_arity opc /\
     local_rule sf opc inp = Replace o e /\ Some (value rho o) <> ref_opcode opc (map (value rho) inp)).
Proof. exact local_rule_status. Qed.
Print Assumptions C03_local_rules_status.

(* ---- size mode: a fold / the NOT rule is applied only when the code does not grow ---- *)
Theorem C03_size_gate_fold :
  forall v0 v1 e x, check_size v0 v1 e = (true, x) -> push_size e <= push_size v0 + push_size v1 + 1.
Proof. exact check_size_no_growth. Qed.
Print Assumptions C03_size_gate_fold.

Theorem C03_size_gate_not :
  forall a o e, at_NOT true "NOT" [a] = Replace o e ->
    exists v, a = OInt v /\ push_size (value (fun _ => 0) o) <= push_size v + 1.
Proof. exact not_rule_size_gate. Qed.
Print Assumptions C03_size_gate_not.

(* ---- non-vacuity: the hypotheses are satisfiable with non-trivial instances ---- *)
Example ex_fold2 : inw 12 /\ inw 10 /\ ~ In "and"%string unsound_folds2 /\ fold2 default_lim "and" 12 10 = PyOk 8.
Proof. split; [inw_lit|]. split; [inw_lit|]. split; [not_in_strs|vm_compute; reflexivity]. Qed.
Example ex_fold2_shl : fold2 default_lim "shl" 255 (W - 1) = PyOk (2 ^ 255) /\ ~ In "shl"%string unsound_folds2.
Proof. split; [vm_compute; reflexivity|not_in_strs]. Qed.
Example ex_rule_and :
  local_rule false "AND" [OVar 0; OInt (W - 1)] = Replace (OVar 0) (mkEff 1 2 3 "AND(X,2^256-1)")
  /\ fired_unsound false "AND" [OVar 0; OInt (W - 1)] = false
  /\ Forall wf_op [OVar 0; OInt (W - 1)] /\ length [OVar 0; OInt (W - 1)] = opcode_arity "AND" /\ wf_rho (fun _ => 7).
Proof.
  split; [vm_compute; reflexivity|]. split; [vm_compute; reflexivity|].
  split; [repeat (apply Forall_cons; [first [exact I|cbn [wf_op]; inw_lit]|]); apply Forall_nil|].
  split; [reflexivity|intros n; inw_lit].
Qed.
Example ex_rule_sub : local_rule true "SUB" [OVar 3; OVar 3] = Replace (OInt 0) (mkEff 1 1 3 "SUB(X,X)").
Proof. vm_compute. reflexivity. Qed.
Example ex_check_size : check_size 1 2 3 = (true, CSNew 3) /\ check_size 1 (W - 1) W = (true, CSNew W)
  /\ check_size 0 0 (2 ^ 40) = (false, CSOld).
Proof. split; [|split]; vm_compute; reflexivity. Qed.
Example ex_not_gate : at_NOT true "NOT" [OInt (W - 1)] = Replace (OInt 0) (mkEff 0 1 3 "NOT(X)")
  /\ at_NOT true "NOT" [OInt 0] = NoRule.
Proof. split; vm_compute; reflexivity. Qed.
