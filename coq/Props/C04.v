(* C04  The greedy back end returns a sequence that realizes the specification.

   [T-val]: the theorems below are about the validator `realizes` (Val/Realizes.v), for ALL
   specifications and ALL id sequences; the quantifier over the greedy's inputs is covered by
   running the validator on greedy_from_json's answers (harness/c04.py).  The six consequences
   of the property statement, one theorem each, against the independent relational semantics
   `sstep`/`ssteps` of Val/RealizesProofs.v. *)
From Coq Require Import List Arith.
From GV Require Import Sym.Spec Val.Realizes Val.RealizesProofs.
Import ListNotations.

(* executes without getting stuck and ends with exactly tgt_ws *)
Theorem C04_final_stack : forall S q,
  realizes S q = true -> ssteps S (s_src S) q (s_tgt S).
Proof. exact realizes_final_stack. Qed.

(* never underflows *)
Theorem C04_no_underflow : forall S q,
  realizes S q = true ->
  forall pre st post, q = pre ++ st :: post ->
  exists stk n, ssteps S (s_src S) pre stk /\ touches S st n /\ n <= length stk.
Proof. exact realizes_no_underflow. Qed.

(* only DUP/SWAP depths 1..16 *)
Theorem C04_depths : forall S q, realizes S q = true -> Forall depth_in_range q.
Proof. exact realizes_depths. Qed.

(* every store exactly once *)
Theorem C04_stores_once : forall S q,
  realizes S q = true ->
  forall u, In u (s_instrs S) -> ui_storage u = true ->
  count_occ step_eq_dec q (SIns (ui_id u)) = 1.
Proof. exact realizes_stores_once. Qed.

(* every declared ordering constraint, for every pair of occurrences *)
Theorem C04_order : forall S q,
  realizes S q = true ->
  forall a b, In (a, b) (s_deps S) ->
  forall i j, nth_error q i = Some (SIns a) -> nth_error q j = Some (SIns b) -> i < j.
Proof. exact realizes_order. Qed.

(* each uninterpreted operation computed from exactly the operands the specification names *)
Theorem C04_operands : forall S q,
  realizes S q = true ->
  forall pre id post, q = pre ++ SIns id :: post ->
  exists u args rest,
    In u (s_instrs S) /\ ui_id u = id /\ operands_named u args /\
    ssteps S (s_src S) pre (args ++ rest) /\
    ssteps S (map OVar (ui_out u) ++ rest) post (s_tgt S).
Proof. exact realizes_operands. Qed.

Print Assumptions C04_final_stack.
Print Assumptions C04_no_underflow.
Print Assumptions C04_depths.
Print Assumptions C04_stores_once.
Print Assumptions C04_order.
Print Assumptions C04_operands.

(* non-vacuity: the hypothesis holds for the front end's specification of
   PUSH 1 DUP3 MSTORE DUP1 PUSH 20 MLOAD ADD SWAP2 SSTORE CALLER with the greedy's answer *)
Example C04_hypothesis_inhabited : realizes ex_spec ex_ids = true.
Proof. exact ex_realizes. Qed.

Example C04_instance : ssteps ex_spec (s_src ex_spec) ex_ids (s_tgt ex_spec).
Proof. exact (C04_final_stack _ _ ex_realizes). Qed.

Example C04_order_instance :
  forall i j, nth_error ex_ids i = Some (SIns 4) -> nth_error ex_ids j = Some (SIns 2) -> i < j.
Proof. apply (C04_order _ _ ex_realizes). simpl. auto. Qed.

From Coq Require Import String ZArith.
Local Open Scope string_scope.
Example C04_stores_instance : count_occ step_eq_dec ex_ids (SIns 4) = 1.
Proof.
  apply (C04_stores_once _ _ ex_realizes (mkUI 4 "MSTORE" [OVar 1; OVar 6] [] false true false None 3%Z 1%Z));
    simpl; auto 10.
Qed.
