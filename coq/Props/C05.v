(* C05: the built-in equivalence checkers never accept distinguishable blocks.
   GASOL's checker (verification/sfs_verify.py behind compare_asm_block_asm_format) is an
   untrusted oracle [checker].  What is proved: whenever the checker's verdict "equal" is
   confirmed by the validator, no machine state, environment or outside world can tell the
   two blocks apart; the correspondence obligation checked on every pair the implementation
   accepts is therefore [checker B B' = true -> equiv_block B B' = true], and a pair violating
   it is searched for a concrete distinguishing state. *)
From Coq Require Import ZArith List Bool.
From GV Require Import Ref.Word Ref.EVM Val.Equiv Val.EquivProofs.
Import ListNotations.

Theorem C05_accepted_pairs_indistinguishable :
  forall (checker : list instr -> list instr -> bool),
  forall b1 b2, checker b1 b2 = true -> (checker b1 b2 = true -> equiv_block b1 b2 = true) ->
  forall (x : event -> response),
  (forall e1 e2, event_equiv e1 e2 ->
     rs_outs (x e1) = rs_outs (x e2) /\ rs_env (x e1) = rs_env (x e2) /\
     (forall y, rs_mem (x e1) y = rs_mem (x e2) y) /\ (forall k, rs_sto (x e1) k = rs_sto (x e2) k)) ->
  (forall e, wf_env (ev_env e) -> wf_mem (ev_mem e) -> wf_sto (ev_sto e) ->
     wf_env (rs_env (x e)) /\ wf_stack (rs_outs (x e)) /\ wf_mem (rs_mem (x e)) /\ wf_sto (rs_sto (x e))) ->
  forall c, wf_bstate c -> forall c1, run x b1 c = Some c1 ->
  exists c2, run x b2 c = Some c2 /\ bstate_equiv c1 c2.
Proof.
  intros checker b1 b2 Hc Himp x Hp Hw c Wc c1 R.
  exact (equiv_block_sound x Hp Hw b1 b2 (Himp Hc) c Wc c1 R).
Qed.
Print Assumptions C05_accepted_pairs_indistinguishable.

(* the validator is reflexive on well-sorted event-free code (so it can play the role of
   "checker(B,B) = equal" as a reference) *)
Example C05_reflexive_example :
  equiv_block [IDup 2; IDup 2; IMstore; IOp2 SDIV; IPush 5; ISload; IEvent 100 1 0]
              [IDup 2; IDup 2; IMstore; IOp2 SDIV; IPush 5; ISload; IEvent 100 1 0] = true.
Proof. vm_compute. reflexivity. Qed.

(* distinguishable pairs of the kinds the property lists are rejected *)
Example C05_rejects_signed_unsigned : equiv_block [IOp2 SMOD] [IOp2 MOD] = false.
Proof. vm_compute. reflexivity. Qed.
Example C05_rejects_operand_swap : equiv_block [IOp2 SUB] [ISwap 1; IOp2 SUB] = false.
Proof. vm_compute. reflexivity. Qed.
Example C05_rejects_dropped_store : equiv_block [IMstore] [IPop; IPop] = false.
Proof. vm_compute. reflexivity. Qed.
