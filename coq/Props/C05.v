(* C05: the built-in equivalence checkers never accept distinguishable blocks.
   GASOL's checker (verification/sfs_verify.py behind compare_asm_block_asm_format) is an
   untrusted oracle [checker].  What is proved: whenever the checker's verdict "equal" is
   confirmed by the validator, no machine state, environment or outside world can tell the
   two blocks apart; the correspondence obligation checked on every pair the implementation
   accepts is therefore [checker B B' = true -> equiv_block B B' = true], and a pair violating
   it is searched for a concrete distinguishing state. *)
From Coq Require Import ZArith List Bool.
From GV Require Import Ref.Word Ref.EVM Val.Equiv Val.EquivProofs Model.Contain.
Import ListNotations.

Theorem C05_accepted_pairs_indistinguishable :
  forall (checker : list instr -> list instr -> bool),
  forall b1 b2, checker b1 b2 = true -> (checker b1 b2 = true -> equiv_block b1 b2 = true) ->
  forall (x : event -> response),
  (forall e1 e2, event_equiv e1 e2 ->
     rs_outs (x e1) = rs_outs (x e2) /\ rs_env (x e1) = rs_env (x e2) /\
     (forall y, rs_mem (x e1) y = rs_mem (x e2) y) /\ (forall k, rs_sto (x e1) k = rs_sto (x e2) k)) ->
  (forall e, wf_env (ev_env e) -> wf_mem (ev_mem e) -> wf_sto (ev_sto e) ->
     wf_env (rs_env (x e)) /\ wf_stack (rs_outs (x e)) /\ wf_mem (rs_mem (x e)) /\ wf_sto (rs_sto (x e))) ->
  forall c, wf_bstate c -> forall c1, run x b1 c = Some c1 ->
  exists c2, run x b2 c = Some c2 /\ bstate_equiv c1 c2.
Proof.
  intros checker b1 b2 Hc Himp x Hp Hw c Wc c1 R.
  exact (equiv_block_sound x Hp Hw b1 b2 (Himp Hc) c Wc c1 R).
Qed.
Print Assumptions C05_accepted_pairs_indistinguishable.

(* what the keep-or-revert driver (Model/Contain.v: analysis, search/rebuild and comparison may all
   raise) inherits from the checker: for ANY reflexive relation R on blocks for which the checker's
   verdict "equal" is sound, every block of the emitted contract is R-related to the input block at
   the same position -- whatever the search returns and wherever an exception is raised.  With
   R = observational equivalence this is the reason why C05 carries C01 for the shipped tool. *)
Theorem C05_driver_sound_if_checker_sound :
  forall (block spec : Type) (analysis : block -> res spec) (backend : block -> spec -> res block)
         (verify : spec -> spec -> bool) (R : block -> block -> Prop),
  (forall b, R b b) ->
  (forall b c so sn, analysis b = Ok so -> analysis c = Ok sn -> verify so sn = true -> R b c) ->
  forall bs, Forall2 R bs (optimize_contract block spec analysis backend verify bs).
Proof.
  intros block spec analysis backend verify R Hrefl Hsound bs. unfold optimize_contract.
  induction bs as [|b bs IH]; cbn [map]; constructor; [|exact IH].
  unfold process.
  destruct (compare block spec analysis verify b (candidate block spec analysis backend b)) eqn:E; [|apply Hrefl].
  unfold compare in E.
  destruct (analysis (candidate block spec analysis backend b)) as [sn|] eqn:En; [|discriminate].
  destruct (analysis b) as [so|] eqn:Eo; [|discriminate].
  exact (Hsound b _ so sn Eo En E).
Qed.
Print Assumptions C05_driver_sound_if_checker_sound.

(* non-vacuity: a sound checker (equality of specifications, analysis = value mod 10) and a search
   that proposes a related block, an unrelated block and a raise *)
Example C05_driver_example :
  optimize_contract nat nat (fun b => if Nat.eqb b 7 then Raise else Ok (Nat.modulo b 10))
     (fun b s => if Nat.eqb b 12 then Ok 2 else if Nat.eqb b 13 then Ok 4 else Raise) Nat.eqb [12; 13; 7; 15]
  = [2; 13; 7; 15].
Proof. reflexivity. Qed.

(* the validator is reflexive on well-sorted event-free code (so it can play the role of
   "checker(B,B) = equal" as a reference) *)
Example C05_reflexive_example :
  equiv_block [IDup 2; IDup 2; IMstore; IOp2 SDIV; IPush 5; ISload; IEvent 100 1 0]
              [IDup 2; IDup 2; IMstore; IOp2 SDIV; IPush 5; ISload; IEvent 100 1 0] = true.
Proof. vm_compute. reflexivity. Qed.

(* distinguishable pairs of the kinds the property lists are rejected *)
Example C05_rejects_signed_unsigned : equiv_block [IOp2 SMOD] [IOp2 MOD] = false.
Proof. vm_compute. reflexivity. Qed.
Example C05_rejects_operand_swap : equiv_block [IOp2 SUB] [ISwap 1; IOp2 SUB] = false.
Proof. vm_compute. reflexivity. Qed.
Example C05_rejects_dropped_store : equiv_block [IMstore] [IPop; IPop] = false.
Proof. vm_compute. reflexivity. Qed.
