(* Property C06 (claimed PARTIAL): every model of the Max-SMT hard constraints decodes to a
   realizing sequence; the emitted SMT-LIB text is well formed. *)
From Coq Require Import List String Bool NArith.
From GV Require Import Model.Smt2 Model.Smt2Proofs.
Import ListNotations.

(* --- second sentence of the property: the emitted text is well formed ---------------------
   script_wf is evaluated (vm_compute) on every emitted .smt2 file by harness/c06.py. *)
Theorem C06_script_wf_sound : forall sc, script_wf sc = true -> wf_script sc.
Proof. exact script_wf_sound. Qed.
Print Assumptions C06_script_wf_sound.

Theorem C06_script_wf_complete : forall sc, wf_script sc -> script_wf sc = true.
Proof. exact script_wf_complete. Qed.
Print Assumptions C06_script_wf_complete.

Theorem C06_declared_once : forall sc, wf_script sc -> NoDup (decl_names sc).
Proof. exact wf_script_declared_once. Qed.
Print Assumptions C06_declared_once.

Theorem C06_sort_unique : forall E t s s',
  NoDup (declared E) -> has_sort E t s -> has_sort E t s' -> s = s'.
Proof. exact has_sort_unique. Qed.
Print Assumptions C06_sort_unique.

(* non-vacuity: a script in GASOL's shape is accepted, three defective ones are rejected *)
Example C06_script_example : exists sc, script_of demo_script = Some sc /\ wf_script sc.
Proof. exact demo_script_wf. Qed.

(* --- first sentence of the property: stages of hard_sound (PARTIAL) -------------------------
   Full statement, NOT proved as a whole (Model/EncodingProofs.v lists the missing stages):
     hard_sound : sat M (hard O S X) = true ->
                  exists q, decode O S X M = Some q /\
                            realizes_bounded S q (s_init_len S) (s_max_sk S) = true.
   What is proved, for every assignment M, every term encoding, every bounds, every option set
   with o_empty = false (the model `hard` is tied to the Python generators by the syntactic
   correspondence of harness/c06.py for ALL option sets): *)
From GV Require Import Sym.Spec Val.Realizes Model.Encoding Model.EncodingProofs.
From Coq Require Import ZArith.

Theorem C06_hard_sound_partial_initial_stack :
  forall (O : options) (S : spec) (X : extra) (M : asg),
    o_empty O = false -> List.length (s_src S) <= s_max_sk S ->
    sat M (hard O S X) = true ->
    Inv M (var_table O S X) (s_max_sk S) 0 (s_src S).
Proof. exact init_inv. Qed.
Print Assumptions C06_hard_sound_partial_initial_stack.

Theorem C06_hard_sound_partial_nop :
  forall (O : options) (T : table) (E : tm) (bs : nat) (M : asg) (Sp : spec),
    o_empty O = false ->
    forall (j th : nat) (stk : list operand),
      holds M (enc_instr O T E bs j th KNop) = true -> holds M (t_is O j th) = true ->
      Inv M T bs j stk ->
      exists stk', exec_step Sp stk SNop = inr stk' /\ Inv M T bs (Datatypes.S j) stk'.
Proof. exact nop_preserves. Qed.
Print Assumptions C06_hard_sound_partial_nop.

Theorem C06_hard_sound_partial_pop :
  forall (O : options) (T : table) (E : tm) (bs : nat) (M : asg) (Sp : spec),
    o_empty O = false ->
    forall (j th : nat) (stk : list operand),
      0 < bs ->
      holds M (enc_instr O T E bs j th KPop) = true -> holds M (t_is O j th) = true ->
      Inv M T bs j stk ->
      exists stk', exec_step Sp stk SPop = inr stk' /\ Inv M T bs (Datatypes.S j) stk'.
Proof. exact pop_preserves. Qed.
Print Assumptions C06_hard_sound_partial_pop.

Theorem C06_hard_sound_partial_dup :
  forall (O : options) (T : table) (E : tm) (bs : nat) (M : asg) (Sp : spec),
    o_empty O = false ->
    forall (j th d : nat) (stk : list operand),
      depth_ok d = true -> d < bs ->
      holds M (enc_instr O T E bs j th (KDup d)) = true -> holds M (t_is O j th) = true ->
      Inv M T bs j stk ->
      exists stk', exec_step Sp stk (SDup d) = inr stk' /\ Inv M T bs (Datatypes.S j) stk'.
Proof. exact dup_preserves. Qed.
Print Assumptions C06_hard_sound_partial_dup.

(* the constructors of connector_factory.py never strengthen a formula *)
Theorem C06_constructors_sound :
  forall (M : asg),
    (forall l, holds M (mk_and l) = true -> forallb (holds M) l = true) /\
    (forall l, holds M (mk_or l) = true -> existsb (holds M) l = true) /\
    (forall a, holds M (mk_not a) = negb (holds M a)) /\
    (forall a b, holds M (mk_imp a b) = true -> holds M a = true -> holds M b = true) /\
    (forall a b, holds M (mk_eq a b) = true -> tmval M a = tmval M b).
Proof. exact constructors_sound. Qed.
Print Assumptions C06_constructors_sound.

(* non-vacuity of the transition theorems: an assignment, a POP constraint it satisfies, and the
   invariant before it *)
Example C06_pop_example :
  holds demo_asg (enc_instr demo_opts demo_table (TmInt 99) 3 0 7 KPop) = true /\
  holds demo_asg (t_is demo_opts 0 7) = true /\
  Inv demo_asg demo_table 3 0 [OVar 0; OVar 1].
Proof. split; [apply demo_pop_constraint | split; [apply demo_pop_constraint | apply demo_inv]]. Qed.
