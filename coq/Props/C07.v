(* C07: the Max-SMT problem keeps an optimal program and prices it correctly -- PARTIAL.

   Proved (for all specifications):
     C07_soft_prices_gas / _length / _size_partial   pricing by both soft-constraint generators
     C07_soft_prices_size_refuted                     -size: weights are min(size, 5)
     C07_enum_complete / C07_opt_is_minimum / C07_opt_none   the per-instance optimum computed by
                                                      Coq IS the minimum over every realizing sequence
   Proved in per-instance form (certificate evaluated by the kernel on every instance of the check):
     C07_lb_sound_partial, C07_keeps_optimum_partial
   NOT proved: lb_sound and ub_keeps_optimum for all specifications (full statements in
   Model/BoundsProofs.v); hard constraints satisfiable whenever realizable (C06 + z3 runs). *)
From Coq Require Import ZArith List Bool.
From GV Require Import Sym.Spec Val.Realizes Model.Soft Model.SoftProofs Model.Bounds Model.BoundsProofs.
Import ListNotations.

Theorem C07_soft_prices_gas : forall (direct : bool) S bnd q,
  (if direct then direct_side CGas S else grouped_side CGas S bnd) = true ->
  in_domain S bnd q = true -> stores_once S q = true ->
  penalty (soft CGas direct S bnd) q = (cost CGas S q + soft_const CGas direct S)%Z.
Proof. exact soft_prices_gas. Qed.
Print Assumptions C07_soft_prices_gas.

Theorem C07_soft_prices_length : forall (direct : bool) S bnd q,
  (if direct then direct_side CLength S else grouped_side CLength S bnd) = true ->
  in_domain S bnd q = true -> stores_once S q = true ->
  penalty (soft CLength direct S bnd) q = (cost CLength S q + soft_const CLength direct S)%Z.
Proof. exact soft_prices_length. Qed.
Print Assumptions C07_soft_prices_length.

(* FULL STATEMENT (false, see the refutation below): the same without [small_sizes S = true] *)
Theorem C07_soft_prices_size_partial : forall (direct : bool) S bnd q,
  small_sizes S = true ->
  (if direct then direct_side CSize S else grouped_side CSize S bnd) = true ->
  in_domain S bnd q = true -> stores_once S q = true ->
  penalty (soft CSize direct S bnd) q = (cost CSize S q + soft_const CSize direct S)%Z.
Proof. exact soft_prices_size_partial. Qed.
Print Assumptions C07_soft_prices_size_partial.

Theorem C07_soft_prices_size_refuted :
  exists S q1 q2, forall direct : bool,
    (if direct then direct_side CSize S else grouped_side CSize S (dumb_bounds S)) = true /\
    in_domain S (dumb_bounds S) q1 = true /\ in_domain S (dumb_bounds S) q2 = true /\
    realizes_bounded S q1 2 2 = true /\ realizes_bounded S q2 2 2 = true /\
    (penalty (soft CSize direct S (dumb_bounds S)) q1 - cost CSize S q1
     <> penalty (soft CSize direct S (dumb_bounds S)) q2 - cost CSize S q2)%Z.
Proof. exact soft_prices_size_refuted. Qed.
Print Assumptions C07_soft_prices_size_refuted.

(* the priced cost (weights of the encoding) is what the penalty measures for every criterion *)
Theorem C07_soft_prices_weighted : forall c (direct : bool) S bnd q,
  (if direct then direct_side c S else grouped_side c S bnd) = true ->
  in_domain S bnd q = true -> stores_once S q = true ->
  penalty (soft c direct S bnd) q = (wcost c S q + soft_const c direct S)%Z.
Proof. exact soft_prices_weighted. Qed.
Print Assumptions C07_soft_prices_weighted.

Theorem C07_stores_once : forall S q, realizes S q = true -> stores_once S q = true.
Proof. exact realizes_stores_once_b. Qed.
Print Assumptions C07_stores_once.

Theorem C07_enum_complete : forall S L sk q,
  realizes_bounded S q L sk = true -> no_pushc q = true -> In (strip_nops q) (enum S L sk).
Proof. exact enum_complete. Qed.
Print Assumptions C07_enum_complete.

Theorem C07_opt_is_minimum : forall c S L sk m w,
  opt c S L sk = Some (m, w) ->
  realizes_bounded S w L sk = true /\ cost c S w = m /\
  forall q, realizes_bounded S q L sk = true -> no_pushc q = true -> (m <= cost c S q)%Z.
Proof. exact opt_is_minimum. Qed.
Print Assumptions C07_opt_is_minimum.

Theorem C07_opt_none : forall c S L sk,
  opt c S L sk = None -> forall q, no_pushc q = true -> realizes_bounded S q L sk = false.
Proof. exact opt_none_unrealizable. Qed.
Print Assumptions C07_opt_none.

Theorem C07_lb_sound_partial : forall S mo L sk,
  lb_checked S mo L sk = true ->
  forall q p i, realizes_bounded S q L sk = true -> no_pushc q = true ->
                nth_error q p = Some (SIns i) -> lb S mo i <= p.
Proof. exact lb_sound_partial. Qed.
Print Assumptions C07_lb_sound_partial.

Theorem C07_keeps_optimum_partial : forall c S bnd L sk m w0,
  keeps_optimum_checked c S bnd L sk = true -> opt c S L sk = Some (m, w0) ->
  exists w, realizes_bounded S w L sk = true /\
            in_domain S bnd (pad (s_init_len S) w) = true /\ prune_ok S w = true /\
            cost c S w = m /\
            forall q, realizes_bounded S q L sk = true -> no_pushc q = true -> (m <= cost c S q)%Z.
Proof. exact keeps_optimum_partial. Qed.
Print Assumptions C07_keeps_optimum_partial.

(* ---- non-vacuity: a specification with an ADD, a PUSH and an SSTORE ---- *)
Definition ex_tbl : list (nat * (nat * nat)) :=
  match bounds_table ex_price_spec [] with Some t => t | None => [] end.

Example ex_bounds_computed : bounds_dict ex_price_spec [] = Some [(0, (1, 2)%Z); (1, (0, 3)%Z); (2, (2, 4)%Z)].
Proof. vm_compute. reflexivity. Qed.

Example ex_price_hyps :
  grouped_side CGas ex_price_spec (table_bounds ex_price_spec ex_tbl) = true /\
  direct_side CGas ex_price_spec = true /\
  grouped_side CLength ex_price_spec (table_bounds ex_price_spec ex_tbl) = true /\
  small_sizes ex_price_spec = true /\
  grouped_side CSize ex_price_spec (table_bounds ex_price_spec ex_tbl) = true /\
  in_domain ex_price_spec (table_bounds ex_price_spec ex_tbl) ex_price_q = true /\
  realizes_bounded ex_price_spec ex_price_q 5 3 = true /\
  stores_once ex_price_spec ex_price_q = true.
Proof. vm_compute. repeat split. Qed.

Example ex_price_value :
  penalty (soft CGas false ex_price_spec (table_bounds ex_price_spec ex_tbl)) ex_price_q = 15%Z /\
  cost CGas ex_price_spec ex_price_q = 5012%Z /\ soft_const CGas false ex_price_spec = (-4997)%Z.
Proof. vm_compute. repeat split. Qed.

Example ex_opt : opt CGas ex_price_spec 5 3 = Some (5012%Z, [SIns 1; SIns 0; SDup 1; SSwap 2; SIns 2]).
Proof. vm_compute. reflexivity. Qed.

Example ex_certificates :
  lb_checked ex_price_spec [] 5 3 = true /\
  keeps_optimum_checked CGas ex_price_spec (table_bounds ex_price_spec ex_tbl) 5 3 = true /\
  keeps_optimum_checked CSize ex_price_spec (table_bounds ex_price_spec ex_tbl) 5 3 = true /\
  keeps_optimum_checked CLength ex_price_spec (table_bounds ex_price_spec ex_tbl) 5 3 = true.
Proof. vm_compute. repeat split. Qed.

Example ex_unrealizable : opt CGas ex_price_spec 4 3 = None.
Proof. vm_compute. reflexivity. Qed.
