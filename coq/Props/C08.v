(* C08  Optimization never makes a block costlier in the chosen criterion.
   Only statements closed by `exact`, their assumptions, and non-vacuity examples. *)
From Coq Require Import ZArith List Bool String.
From GV Require Import Model.CostPrelude Ref.Cost Gen.Push0 Gen.CostTables Gen.Accept Model.Cost
  Model.AcceptProofs Model.CostProofs.
Import ListNotations.
Open Scope string_scope.
Open Scope Z_scope.

(* ---- the accept decision (generated from gasol_asm.py) ---- *)

(* improves_criterion, for lists of any length *)
Theorem improves_criterion_characterised : forall (s : Z) (l : list Z),
  improves_criterion s l = true <->
  (s > 0 \/ (s = 0 /\ Forall (fun x => x >= 0) l /\ Exists (fun x => x > 0) l)).
Proof. exact improves_criterion_spec. Qed.
Print Assumptions improves_criterion_characterised.

(* FULL STATEMENT (the property's predicate `improves`, Ref/Cost.v, looks at BOTH other measures):
     forall o n c, block_has_been_optimized o n c = true -> improves c (dgas o n) (dsize o n) (dlen o n)
   It holds for c = "length" and is refuted for "gas" and "size", which never look at the length. *)
Theorem accept_sound_length : forall o n,
  block_has_been_optimized o n "length" = true -> improves "length" (dgas o n) (dsize o n) (dlen o n).
Proof. exact AcceptProofs.accept_sound_length. Qed.
Print Assumptions accept_sound_length.

Theorem accept_sound_refuted_gas :
  exists o n, block_has_been_optimized o n "gas" = true /\ ~ improves "gas" (dgas o n) (dsize o n) (dlen o n).
Proof. exact accept_full_refuted_gas. Qed.
Print Assumptions accept_sound_refuted_gas.

Theorem accept_sound_refuted_size :
  exists o n, block_has_been_optimized o n "size" = true /\ ~ improves "size" (dgas o n) (dsize o n) (dlen o n).
Proof. exact accept_full_refuted_size. Qed.
Print Assumptions accept_sound_refuted_size.

(* exactly which "others" each criterion looks at: gas -> [size], size -> [gas], length -> [gas; size] *)
Theorem accept_sound : forall o n c,
  block_has_been_optimized o n c = true ->
  let dg := dgas o n in let ds := dsize o n in let dl := dlen o n in
  known_criterion c /\
  crit_saving c dg ds dl >= 0 /\
  (crit_saving c dg ds dl > 0 \/
   (crit_saving c dg ds dl = 0 /\ Forall (fun x => x >= 0) (considered c dg ds dl)
                               /\ Exists (fun x => x > 0) (considered c dg ds dl))).
Proof. exact accept_sound_considered. Qed.
Print Assumptions accept_sound.

(* strongest true restriction of the full statement for all criteria *)
Theorem accept_sound_partial : forall o n c,
  block_has_been_optimized o n c = true ->
  dlen o n >= 0 \/ crit_saving c (dgas o n) (dsize o n) (dlen o n) > 0 ->
  improves c (dgas o n) (dsize o n) (dlen o n).
Proof. exact AcceptProofs.accept_sound_partial. Qed.
Print Assumptions accept_sound_partial.

Example accept_sound_nonvacuous :
  block_has_been_optimized (bv 5 9 3) (bv 5 9 2) "length" = true /\
  block_has_been_optimized (bv 5 9 3) (bv 4 9 3) "gas" = true /\ dlen (bv 5 9 3) (bv 4 9 3) >= 0.
Proof. vm_compute. repeat split; discriminate. Qed.

(* ---- candidate selection ---- *)

(* FULL STATEMENT "never picks a candidate worse than the other":
     forall o s g c, seq_cost c (fst (compare_best_block o s g c)) <= seq_cost c g   (and <= seq_cost c s)
   refuted when both candidates are no better than the original (the solver's one is returned). *)
Theorem compare_best_never_worse_refuted :
  exists o s g c, let r := fst (compare_best_block o s g c) in seq_cost c g < seq_cost c r.
Proof. exact cbb_never_worse_refuted. Qed.
Print Assumptions compare_best_never_worse_refuted.

Theorem compare_best_partial : forall o s g c,
  snd (compare_best_block o s g c) <> "both_worse_or_equal" ->
  let r := fst (compare_best_block o s g c) in
  seq_cost c r <= seq_cost c s /\ seq_cost c r <= seq_cost c g /\ seq_cost c r < seq_cost c o.
Proof. exact cbb_best_when_some_improves. Qed.
Print Assumptions compare_best_partial.

Theorem compare_best_both_worse : forall o s g c,
  snd (compare_best_block o s g c) = "both_worse_or_equal" ->
  fst (compare_best_block o s g c) = s /\ seq_cost c o <= seq_cost c s /\ seq_cost c o <= seq_cost c g.
Proof. exact cbb_both_worse. Qed.
Print Assumptions compare_best_both_worse.

Example compare_best_nonvacuous :
  snd (compare_best_block [iv 1 3; iv 1 3] [iv 1 3] [iv 1 3; iv 1 3] "gas") = "superopt" /\
  snd (compare_best_block [iv 1 3] [iv 1 3] [iv 1 3] "gas") = "both_worse_or_equal".
Proof. vm_compute. split; reflexivity. Qed.

Theorem choose_best_table : forall o s g out p, p_ub_greedy p = true ->
  choose_best_solution o s g out p =
  match g with
  | Some gr => if no_model_or_unsat out then (gr, Some "greedy_no_model")
               else (fst (compare_best_block o s gr (p_criteria p)), Some (snd (compare_best_block o s gr (p_criteria p))))
  | None => if no_model_or_unsat out then ([], Some "both_worse_or_equal")
            else (fst (compare_best_block o s o (p_criteria p)), Some (snd (compare_best_block o s o (p_criteria p))))
  end.
Proof. exact cbs_table. Qed.
Print Assumptions choose_best_table.

Theorem choose_best_candidates : forall o s g out p,
  let r := fst (choose_best_solution o s g out p) in
  r = s \/ g = Some r \/ r = [] \/ (g = None /\ r = o).
Proof. exact cbs_candidates. Qed.
Print Assumptions choose_best_candidates.

Example choose_best_nonvacuous : p_ub_greedy (mkParams true "gas") = true.
Proof. reflexivity. Qed.

(* ---- cost tables against the reference (finite domain: gasol_vocabulary x {warm, cold}) ---- *)

(* FULL STATEMENT: without `~ In op gas_exceptions`; refuted by MCOPY (0 vs 3) and SHA3 (36 vs 30). *)
Theorem tables_agree : forall op warm r,
  In op gasol_vocabulary -> ~ In op gas_exceptions -> ref_gas op warm = Some r ->
  get_ins_cost op None warm false = r.
Proof. exact tables_agree_gas. Qed.
Print Assumptions tables_agree.

Theorem tables_agree_refuted :
  (get_ins_cost "MCOPY" None false false = 0 /\ ref_gas "MCOPY" false = Some 3) /\
  (get_ins_cost "SHA3" None false false = 36 /\ ref_gas "SHA3" false = Some 30 /\
   get_ins_cost "KECCAK256" None false false = 30).
Proof. exact tables_agree_gas_refuted. Qed.
Print Assumptions tables_agree_refuted.

Theorem tables_domain_without_reference :
  filter (fun op => match ref_class op with None => true | Some _ => false end) gasol_vocabulary = no_reference.
Proof. exact no_reference_exact. Qed.
Print Assumptions tables_domain_without_reference.

Theorem tables_agree_sizes : forall op p0 r,
  In op gasol_vocabulary -> op <> "PUSH" -> ref_size p0 op None = Some r -> get_ins_size op None 2 = Some r.
Proof. exact tables_agree_size. Qed.
Print Assumptions tables_agree_sizes.

Example tables_agree_nonvacuous :
  In "SLOAD" gasol_vocabulary /\ ~ In "SLOAD" gas_exceptions /\ ref_gas "SLOAD" true = Some 100 /\
  ref_size true "PUSH [tag]" None = Some 3.
Proof.
  split; [vm_compute; tauto|]. split; [|split; reflexivity].
  intros [H|[H|[]]]; discriminate.
Qed.

(* PUSH width for ALL values (unbounded) *)
Theorem push_size : forall v, 0 <= v ->
  get_ins_size "PUSH" (Some v) 2 = Some (1 + Z.max 1 (byte_len v)).
Proof. exact push_size_all_values. Qed.
Print Assumptions push_size.

Theorem push_item_size : forall p0 v, 0 <= v ->
  AsmBytecode_bytes_required p0 (mkItem "PUSH" (Some (hex_of v))) = ref_size p0 "PUSH" (Some v).
Proof. exact push_item_size_agrees. Qed.
Print Assumptions push_item_size.

Example push_size_nonvacuous : get_ins_size "PUSH" (Some (2 ^ 256 - 1)) 2 = Some 33 /\ get_ins_size "PUSH" (Some 256) 2 = Some 3.
Proof. vm_compute. split; reflexivity. Qed.

(* ---- additivity and rebuild ---- *)

Theorem rebuild_monotone_size : forall p0 pre seg seg' suf s s' t,
  block_size p0 seg = Some s -> block_size p0 seg' = Some s' ->
  block_size p0 (rebuild pre seg suf) = Some t ->
  exists t', block_size p0 (rebuild pre seg' suf) = Some t' /\ t - t' = s - s'.
Proof. exact CostProofs.rebuild_monotone_size. Qed.
Print Assumptions rebuild_monotone_size.

Theorem rebuild_monotone_length : forall pre seg seg' suf,
  block_length (rebuild pre seg suf) - block_length (rebuild pre seg' suf) = block_length seg - block_length seg'.
Proof. exact CostProofs.rebuild_monotone_length. Qed.
Print Assumptions rebuild_monotone_length.

Theorem rebuild_parts_monotone_size : forall p0 (parts parts' : list (list Item)) t,
  Forall2 (fun a b => match block_size p0 a, block_size p0 b with Some x, Some y => y <= x | _, _ => False end) parts parts' ->
  block_size p0 (rebuild_parts parts) = Some t ->
  exists t', block_size p0 (rebuild_parts parts') = Some t' /\ t' <= t.
Proof. exact rebuild_parts_size_monotone. Qed.
Print Assumptions rebuild_parts_monotone_size.

Theorem rebuild_parts_monotone_length : forall (parts parts' : list (list Item)),
  Forall2 (fun a b => block_length b <= block_length a) parts parts' ->
  block_length (rebuild_parts parts') <= block_length (rebuild_parts parts).
Proof. exact rebuild_parts_length_monotone. Qed.
Print Assumptions rebuild_parts_monotone_length.

Example rebuild_nonvacuous :
  block_size true [it "DUP1"; it "POP"] = Some 2 /\ block_size true [] = Some 0 /\
  block_size true (rebuild [it "CALLER"] [it "DUP1"; it "POP"] [it "JUMP"]) = Some 4.
Proof. vm_compute. repeat split; reflexivity. Qed.

Example rebuild_parts_nonvacuous :
  Forall2 (fun a b => block_length b <= block_length a) [[it "DUP1"; it "POP"]; [it "ADD"]] [[]; [it "ADD"]] /\
  Forall2 (fun a b => static_gas true b <= static_gas true a) [[it "DUP1"; it "POP"]; [it "ADD"]] [[]; [it "ADD"]].
Proof. split; repeat constructor; vm_compute; discriminate. Qed.

(* gas.  FULL STATEMENT for GASOL's own accounting with warm/cold bookkeeping (AsmBlock.gas_spent):
     gas seg' <= gas seg -> gas (rebuild pre seg' suf) <= gas (rebuild pre seg suf)
   refuted in the shipped code (zero-push spellings give different storage keys); partial: the static
   schedule (sum of AsmBytecode.gas_spent) is additive. *)
Theorem gas_rebuild_monotone_refuted :
  execute_asm_push0_as_zero = false ->
  exists pre seg seg' suf g g' t t',
    AsmBlock_gas_spent true seg = Some g /\ AsmBlock_gas_spent true seg' = Some g' /\ g' < g /\
    AsmBlock_gas_spent true (rebuild pre seg suf) = Some t /\
    AsmBlock_gas_spent true (rebuild pre seg' suf) = Some t' /\ t < t'.
Proof. exact CostProofs.gas_rebuild_monotone_refuted. Qed.
Print Assumptions gas_rebuild_monotone_refuted.

Theorem gas_witness_after_repair :
  execute_asm_push0_as_zero = true ->
  AsmBlock_gas_spent true (rebuild w_pre w_seg []) = Some 2211 /\
  AsmBlock_gas_spent true (rebuild w_pre w_seg' []) = Some 2206.
Proof. exact CostProofs.gas_witness_after_repair. Qed.
Print Assumptions gas_witness_after_repair.

(* exactly one of the two hypotheses holds for the checkout the models were generated from *)
Example gas_flag_decided : execute_asm_push0_as_zero = false \/ execute_asm_push0_as_zero = true.
Proof. destruct execute_asm_push0_as_zero; [right | left]; reflexivity. Qed.

Theorem gas_rebuild_monotone_partial : forall p0 pre seg seg' suf,
  static_gas p0 (rebuild pre seg suf) - static_gas p0 (rebuild pre seg' suf) = static_gas p0 seg - static_gas p0 seg'.
Proof. exact rebuild_monotone_static_gas. Qed.
Print Assumptions gas_rebuild_monotone_partial.

Theorem gas_rebuild_parts_monotone_partial : forall p0 (parts parts' : list (list Item)),
  Forall2 (fun a b => static_gas p0 b <= static_gas p0 a) parts parts' ->
  static_gas p0 (rebuild_parts parts') <= static_gas p0 (rebuild_parts parts).
Proof. exact rebuild_parts_static_gas_monotone. Qed.
Print Assumptions gas_rebuild_parts_monotone_partial.

(* ---- totals ---- *)
Theorem totals_are_sums_gas : forall l,
  fold_left (totals_step update_gas_count) l (0, 0) =
  (fold_right Z.add 0 (map (fun p => b_gas_spent (fst p)) l), fold_right Z.add 0 (map (fun p => b_gas_spent (snd p)) l)).
Proof. exact totals_gas. Qed.
Print Assumptions totals_are_sums_gas.

Theorem totals_are_sums_size : forall l,
  fold_left (totals_step update_size_count) l (0, 0) =
  (fold_right Z.add 0 (map (fun p => b_bytes_required (fst p)) l), fold_right Z.add 0 (map (fun p => b_bytes_required (snd p)) l)).
Proof. exact totals_size. Qed.
Print Assumptions totals_are_sums_size.

Theorem totals_are_sums_length : forall l,
  fold_left (totals_step update_length_count) l (0, 0) =
  (fold_right Z.add 0 (map (fun p => nontag_count (fst p)) l), fold_right Z.add 0 (map (fun p => nontag_count (snd p)) l)).
Proof. exact totals_length. Qed.
Print Assumptions totals_are_sums_length.
