(* C09: non-optimizable code and metadata are preserved; emitted items are well formed. *)
From Coq Require Import ZArith List Bool String.
From GV Require Import Model.Split Model.SplitProofs Model.WfItem Model.WfItemProofs.
Import ListNotations.
Local Open Scope string_scope.
Local Open Scope list_scope.

(* On the model of the re-assembly (Model/Split.v, tied to the code by C14's correspondence):
   the skeleton (tags, JUMPDESTs, jumps, terminals, splitting instructions, each with all its
   fields) of the re-assembled block equals that of the input block, for every replacement map,
   when the replaced segments and the emitted replacements contain no skeleton instruction. *)
Theorem C09_rebuild_skeleton : forall push0 fix1 sto part mb b repl,
    shape_ok b = true -> (fix1 = true \/ first_ok push0 b = true) ->
    forall bl segs,
      split_top (nmI push0) sto part mb (block_mid b) = Some bl ->
      process_blocks_split bl = Some segs ->
      Forall (skel_free sto) segs ->
      (forall j R, repl j = Some R -> skel_free sto R) ->
      exists b', reassemble push0 fix1 sto part mb b repl = Some b' /\ skeleton sto b' = skeleton sto b.
Proof. exact rebuild_skeleton. Qed.
Print Assumptions C09_rebuild_skeleton.

(* an emitted segment accepted by the item checker contains no skeleton instruction ... *)
Theorem C09_wf_segment_free : forall known sto input l,
  forallb (wf_emitted known sto input) l = true -> skel_free sto l.
Proof. exact wf_emitted_segment_free. Qed.
Print Assumptions C09_wf_segment_free.

(* ... and its PUSH constants are canonical hexadecimal numbers below 2^256 *)
Theorem C09_wf_push : forall known sto input i, wf_emitted known sto input i = true -> disasm i = "PUSH" ->
  exists s v, ivalue i = Some s /\ hex_value s = Some v /\ (v < 2 ^ 256)%N.
Proof.
  intros known sto input i H E. destruct (wf_emitted_push known sto input i H E) as (s & Hs & Hc).
  destruct (canonical_hex_sound s Hc) as (v & Hv & Hlt & _). exists s, v. auto.
Qed.
Print Assumptions C09_wf_push.

(* ... its DUPk / SWAPk have 1 <= k <= 16 and no value field *)
Theorem C09_wf_dup : forall known sto input i k, wf_emitted known sto input i = true ->
  stack_index "DUP" (disasm i) = Some k -> (1 <= k <= 16)%nat /\ ivalue i = None.
Proof. exact wf_emitted_dup. Qed.
Print Assumptions C09_wf_dup.
Theorem C09_wf_swap : forall known sto input i k, wf_emitted known sto input i = true ->
  stack_index "SWAP" (disasm i) = Some k -> (1 <= k <= 16)%nat /\ ivalue i = None.
Proof. exact wf_emitted_swap. Qed.
Print Assumptions C09_wf_swap.

(* ... and its pseudo-pushes (tags, data and library references, immutables, sub-assembly sizes) occur
   with the same operand in the input block *)
Theorem C09_wf_pseudo_push : forall known sto input i, wf_emitted known sto input i = true ->
  mem_str (disasm i) pseudo_push_names = true ->
  exists j, In j input /\ disasm j = disasm i /\ ivalue j = ivalue i.
Proof. exact wf_emitted_pseudo_push. Qed.
Print Assumptions C09_wf_pseudo_push.

(* non-vacuity *)
Example C09_items :
  map (wf_emitted ["ADD"; "MLOAD"] false [mkI "PUSH [tag]" (Some "5") 0])
      [mkI "PUSH" (Some "ff") 0; mkI "PUSH" (Some "0") 0; mkI "PUSH" (Some "00ff") 0;
       mkI "PUSH" (Some "10000000000000000000000000000000000000000000000000000000000000000") 0;
       mkI "DUP16" None 0; mkI "DUP17" None 0; mkI "SWAP0" None 0; mkI "PUSH [tag]" (Some "5") 0;
       mkI "PUSH [tag]" (Some "6") 0; mkI "ADD" None 0; mkI "FOO" None 0; mkI "LOG1" None 0; mkI "JUMP" None 0]
  = [true; true; false; false; true; false; false; true; false; true; false; false; false].
Proof. vm_compute. reflexivity. Qed.
