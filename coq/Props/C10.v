(* C10: every block is processed to completion; a failure costs at most that block.
   Proved on the model of the driver (Model/Contain.v); termination within a CPU/memory budget
   is measured by the check, not proved (partial). *)
From Coq Require Import List Bool Lia.
From GV Require Import Model.Contain.
Import ListNotations.

Section C10.
  Variable block spec : Type.
  Variable backend : block -> spec -> res block.
  Variable verify : spec -> spec -> bool.

  (* the driver returns a contract with one block per input block, whatever the analysis does
     (in particular when it raises on every block) *)
  Theorem contained : forall (analysis : block -> res spec) bs,
    length (optimize_contract block spec analysis backend verify bs) = length bs.
  Proof. intros. unfold optimize_contract. apply map_length. Qed.

  (* a block whose analysis raises is emitted unchanged *)
  Theorem failing_block_kept : forall (analysis : block -> res spec) b,
    analysis b = Raise -> process block spec analysis backend verify b = b.
  Proof.
    intros analysis b H. unfold process, candidate. rewrite H. unfold compare. rewrite H. reflexivity.
  Qed.

  (* two analyses that agree everywhere except on block k (for instance: one raises there) produce
     outputs that agree everywhere except at position k *)
  Theorem fault_local : forall (a1 a2 : block -> res spec) bs k,
    (forall j b, j <> k -> nth_error bs j = Some b ->
       forall x, (x = b \/ x = candidate block spec a1 backend b \/ x = candidate block spec a2 backend b) -> a1 x = a2 x) ->
    forall j, j <> k ->
    nth_error (optimize_contract block spec a1 backend verify bs) j =
    nth_error (optimize_contract block spec a2 backend verify bs) j.
  Proof.
    intros a1 a2 bs k H j Hj. unfold optimize_contract. rewrite !nth_error_map.
    destruct (nth_error bs j) as [b|] eqn:E; [|reflexivity]. cbn [option_map]. f_equal.
    assert (Hb : a1 b = a2 b) by (apply (H j b Hj E); left; reflexivity).
    assert (Hc : candidate block spec a1 backend b = candidate block spec a2 backend b).
    { unfold candidate. rewrite Hb. reflexivity. }
    unfold process. rewrite Hc. unfold compare.
    rewrite (H j b Hj E (candidate block spec a2 backend b)) by (right; right; reflexivity).
    rewrite Hb. reflexivity.
  Qed.
  (* a block whose search or rebuild raises (after a successful analysis) is emitted unchanged:
     the try/except around optimize_asm_block_asm_format_unprotected *)
  Theorem backend_failure_kept : forall (analysis : block -> res spec) b s,
    analysis b = Ok s -> backend b s = Raise -> process block spec analysis backend verify b = b.
  Proof.
    intros analysis b s Ha Hb. unfold process, candidate. rewrite Ha, Hb.
    destruct (compare block spec analysis verify b b); reflexivity.
  Qed.

  (* a raise while the candidate is analysed for the comparison (the first try/except of
     compare_asm_block_asm_format) or a verdict "not equal" (which is also what a raise inside the
     comparison of the two specifications is turned into) keeps the original block *)
  Theorem compare_failure_kept : forall (analysis : block -> res spec) b,
    analysis (candidate block spec analysis backend b) = Raise ->
    process block spec analysis backend verify b = b.
  Proof. intros analysis b H. unfold process, compare. rewrite H. reflexivity. Qed.

  Theorem rejected_kept : forall (analysis : block -> res spec) b so sn,
    analysis b = Ok so -> analysis (candidate block spec analysis backend b) = Ok sn ->
    verify so sn = false -> process block spec analysis backend verify b = b.
  Proof. intros analysis b so sn Ho Hn Hv. unfold process, compare. rewrite Hn, Ho, Hv. reflexivity. Qed.

  (* whatever raises, the emitted block is the input block or a candidate on which the analysis
     succeeded for both blocks and the tool's checker answered "equal" *)
  Theorem kept_or_verified : forall (analysis : block -> res spec) b,
    process block spec analysis backend verify b = b \/
    exists so sn, analysis b = Ok so /\
                  analysis (process block spec analysis backend verify b) = Ok sn /\
                  verify so sn = true.
  Proof.
    intros analysis b. unfold process.
    destruct (compare block spec analysis verify b (candidate block spec analysis backend b)) eqn:E; [|left; reflexivity].
    right. unfold compare in E.
    destruct (analysis (candidate block spec analysis backend b)) as [sn|] eqn:En; [|discriminate].
    destruct (analysis b) as [so|] eqn:Eo; [|discriminate].
    exists so, sn. repeat split; assumption.
  Qed.
End C10.

(* two back ends that agree everywhere except on block k (for instance: one raises there) produce
   outputs that agree everywhere except at position k *)
Theorem backend_fault_local : forall (block spec : Type) (analysis : block -> res spec)
    (b1 b2 : block -> spec -> res block) (verify : spec -> spec -> bool) bs k,
  (forall j b, j <> k -> nth_error bs j = Some b -> forall s, b1 b s = b2 b s) ->
  forall j, j <> k ->
  nth_error (optimize_contract block spec analysis b1 verify bs) j =
  nth_error (optimize_contract block spec analysis b2 verify bs) j.
Proof.
  intros block spec analysis b1 b2 verify bs k H j Hj. unfold optimize_contract. rewrite !nth_error_map.
  destruct (nth_error bs j) as [b|] eqn:E; [|reflexivity]. cbn [option_map]. f_equal.
  assert (Hc : candidate block spec analysis b1 b = candidate block spec analysis b2 b).
  { unfold candidate. destruct (analysis b) as [s|]; [|reflexivity]. rewrite (H j b Hj E s). reflexivity. }
  unfold process. rewrite Hc. reflexivity.
Qed.
Print Assumptions contained.
Print Assumptions failing_block_kept.
Print Assumptions fault_local.
Print Assumptions backend_failure_kept.
Print Assumptions kept_or_verified.
Print Assumptions compare_failure_kept.
Print Assumptions rejected_kept.
Print Assumptions backend_fault_local.

(* non-vacuity: the analysis raises on the second block, the back end on the third *)
Example fault_example :
  optimize_contract nat nat (fun b => if Nat.eqb b 2 then Raise else Ok (b * 10)) (fun b s => if Nat.eqb b 3 then Raise else Ok (b + s)) (fun a b => true)
    [1; 2; 3; 4] = [11; 2; 3; 44].
Proof. reflexivity. Qed.
(* the premises of backend_failure_kept hold at block 3 of that example *)
Example backend_failure_example :
  (fun b => if Nat.eqb b 2 then @Raise nat else Ok (b * 10)) 3 = Ok 30 /\
  (fun b s => if Nat.eqb b 3 then @Raise nat else Ok (b + s)) 3 30 = Raise.
Proof. split; reflexivity. Qed.
