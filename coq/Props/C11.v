(* C11: log replay reproduces the optimized code and rejects tampered logs.
   Model: [rebuild b l] (ids -> assembly items -> stitched block; an arbitrary partial function of
   the block and the log entry) and [search] (whatever produces the log entry) are untrusted.
   A replay keeps the rebuilt block only when the validator accepts it. *)
From Coq Require Import ZArith List Bool.
From GV Require Import Ref.Word Ref.EVM Val.Equiv Val.EquivProofs.
Import ListNotations.

Section Replay.
  Variable log : Type.
  Variable rebuild : list instr -> log -> option (list instr).
  Variable search : list instr -> option log.      (* None: nothing to replace *)

  Definition replay (b : list instr) (l : option log) : option (list instr) :=
    match l with
    | None => Some b                                  (* block absent from the log: kept *)
    | Some e =>
      match rebuild b e with
      | None => None                                  (* malformed entry: error *)
      | Some c => if equiv_block b c then Some c else None   (* verification error *)
      end
    end.

  Definition optimize (b : list instr) : list instr * option log :=
    match search b with
    | None => (b, None)
    | Some e =>
      match rebuild b e with
      | Some c => if equiv_block b c then (c, Some e) else (b, None)
      | None => (b, None)
      end
    end.

  (* every log, however it was produced: error, or a block no state can tell from the input *)
  Theorem replay_safe : forall b l c, replay b l = Some c ->
    forall (x : event -> response),
    (forall e1 e2, event_equiv e1 e2 ->
       rs_outs (x e1) = rs_outs (x e2) /\ rs_env (x e1) = rs_env (x e2) /\
       (forall y, rs_mem (x e1) y = rs_mem (x e2) y) /\ (forall k, rs_sto (x e1) k = rs_sto (x e2) k)) ->
    (forall e, wf_env (ev_env e) -> wf_mem (ev_mem e) -> wf_sto (ev_sto e) ->
       wf_env (rs_env (x e)) /\ wf_stack (rs_outs (x e)) /\ wf_mem (rs_mem (x e)) /\ wf_sto (rs_sto (x e))) ->
    forall st, wf_bstate st -> forall st1, run x b st = Some st1 ->
    exists st2, run x c st = Some st2 /\ bstate_equiv st1 st2.
  Proof.
    intros b l c H x Hp Hw st Wst st1 R. unfold replay in H. destruct l as [e|].
    - destruct (rebuild b e) as [c'|]; [|discriminate].
      destruct (equiv_block b c') eqn:E; [|discriminate]. inversion H; subst c'.
      exact (equiv_block_sound x Hp Hw b c E st Wst st1 R).
    - inversion H; subst c. exists st1. split; [exact R|]. split; [reflexivity|]. split.
      + repeat split; reflexivity.
      + induction (b_trace st1); constructor; [|assumption]. repeat split; reflexivity.
  Qed.

  (* the log written by a run reproduces that run *)
  Theorem replay_own_log : forall b, replay b (snd (optimize b)) = Some (fst (optimize b)).
  Proof.
    intros b. unfold optimize. destruct (search b) as [e|]; [|reflexivity].
    destruct (rebuild b e) as [c|] eqn:R; [|reflexivity].
    destruct (equiv_block b c) eqn:E; cbn [fst snd replay]; [|reflexivity].
    rewrite R, E. reflexivity.
  Qed.
End Replay.
Print Assumptions replay_safe.
Print Assumptions replay_own_log.

(* non-vacuity: a log entry that rebuilds to an equivalent block is replayed, a tampered one is an error *)
Example replay_accepts :
  replay nat (fun b e => if Nat.eqb e 0 then Some [IDup 2; ISwap 5] else Some [IDup 2; ISwap 4])
         [ISwap 1; ISwap 4; IDup 5; ISwap 2; ISwap 1] (Some 0) = Some [IDup 2; ISwap 5].
Proof. vm_compute. reflexivity. Qed.
Example replay_rejects_tampered :
  replay nat (fun b e => if Nat.eqb e 0 then Some [IDup 2; ISwap 5] else Some [IDup 2; ISwap 4])
         [ISwap 1; ISwap 4; IDup 5; ISwap 2; ISwap 1] (Some 1) = None.
Proof. vm_compute. reflexivity. Qed.
