(* C11: log replay reproduces the optimized code and rejects tampered logs.
   Model: [rebuild b l] (ids -> assembly items -> stitched block; an arbitrary partial function of
   the block and the log entry) and [search] (whatever produces the log entry) are untrusted.
   A replay keeps the rebuilt block only when the validator accepts it. *)
From Coq Require Import ZArith List Bool.
From GV Require Import Ref.Word Ref.EVM Val.Equiv Val.EquivProofs.
Import ListNotations.

Section Replay.
  Variable log : Type.
  Variable rebuild : list instr -> log -> option (list instr).
  Variable search : list instr -> option log.      (* None: nothing to replace *)

  Definition replay (b : list instr) (l : option log) : option (list instr) :=
    match l with
    | None => Some b                                  (* block absent from the log: kept *)
    | Some e =>
      match rebuild b e with
      | None => None                                  (* malformed entry: error *)
      | Some c => if equiv_block b c then Some c else None   (* verification error *)
      end
    end.

  Definition optimize (b : list instr) : list instr * option log :=
    match search b with
    | None => (b, None)
    | Some e =>
      match rebuild b e with
      | Some c => if equiv_block b c then (c, Some e) else (b, None)
      | None => (b, None)
      end
    end.

  (* every log, however it was produced: error, or a block no state can tell from the input *)
  Theorem replay_safe : forall b l c, replay b l = Some c ->
    forall (x : event -> response),
    (forall e1 e2, event_equiv e1 e2 ->
       rs_outs (x e1) = rs_outs (x e2) /\ rs_env (x e1) = rs_env (x e2) /\
       (forall y, rs_mem (x e1) y = rs_mem (x e2) y) /\ (forall k, rs_sto (x e1) k = rs_sto (x e2) k)) ->
    (forall e, wf_env (ev_env e) -> wf_mem (ev_mem e) -> wf_sto (ev_sto e) ->
       wf_env (rs_env (x e)) /\ wf_stack (rs_outs (x e)) /\ wf_mem (rs_mem (x e)) /\ wf_sto (rs_sto (x e))) ->
    forall st, wf_bstate st -> forall st1, run x b st = Some st1 ->
    exists st2, run x c st = Some st2 /\ bstate_equiv st1 st2.
  Proof.
    intros b l c H x Hp Hw st Wst st1 R. unfold replay in H. destruct l as [e|].
    - destruct (rebuild b e) as [c'|]; [|discriminate].
      destruct (equiv_block b c') eqn:E; [|discriminate]. inversion H; subst c'.
      exact (equiv_block_sound x Hp Hw b c E st Wst st1 R).
    - inversion H; subst c. exists st1. split; [exact R|]. split; [reflexivity|]. split.
      + repeat split; reflexivity.
      + induction (b_trace st1); constructor; [|assumption]. repeat split; reflexivity.
  Qed.

  (* the log written by a run reproduces that run *)
  Theorem replay_own_log : forall b, replay b (snd (optimize b)) = Some (fst (optimize b)).
  Proof.
    intros b. unfold optimize. destruct (search b) as [e|]; [|reflexivity].
    destruct (rebuild b e) as [c|] eqn:R; [|reflexivity].
    destruct (equiv_block b c) eqn:E; cbn [fst snd replay]; [|reflexivity].
    rewrite R, E. reflexivity.
  Qed.
  (* contract level: the log is a list with one (optional) entry per block; blocks beyond the end of
     a truncated log are kept; one error stops the replay *)
  Fixpoint replay_all (bs : list (list instr)) (ls : list (option log)) : option (list (list instr)) :=
    match bs with
    | [] => Some []
    | b :: bs' =>
      match replay b (hd None ls) with
      | None => None
      | Some c => match replay_all bs' (tl ls) with None => None | Some cs => Some (c :: cs) end
      end
    end.

  (* the logs written by the run of a whole contract reproduce every block of that run *)
  Theorem replay_all_own_log : forall bs,
    replay_all bs (map (fun b => snd (optimize b)) bs) = Some (map (fun b => fst (optimize b)) bs).
  Proof.
    induction bs as [|b bs IH]; [reflexivity|].
    cbn [replay_all map hd tl]. rewrite replay_own_log, IH. reflexivity.
  Qed.

  (* any list of log entries (edited, truncated, reordered, foreign): error, or one block per input
     block, each obtained by an accepted replay of some entry -- so [replay_safe] applies to it *)
  Theorem replay_all_safe : forall bs ls cs, replay_all bs ls = Some cs ->
    Forall2 (fun b c => exists l, replay b l = Some c) bs cs.
  Proof.
    induction bs as [|b bs IH]; intros ls cs H; cbn [replay_all] in H.
    - inversion H. constructor.
    - destruct (replay b (hd None ls)) as [c|] eqn:E; [|discriminate].
      destruct (replay_all bs (tl ls)) as [cs'|] eqn:E'; [|discriminate].
      inversion H; subst cs. constructor; [exists (hd None ls); exact E | exact (IH _ _ E')].
  Qed.
End Replay.
Print Assumptions replay_safe.
Print Assumptions replay_own_log.
Print Assumptions replay_all_own_log.
Print Assumptions replay_all_safe.

(* non-vacuity: a log entry that rebuilds to an equivalent block is replayed, a tampered one is an error *)
Example replay_accepts :
  replay nat (fun b e => if Nat.eqb e 0 then Some [IDup 2; ISwap 5] else Some [IDup 2; ISwap 4])
         [ISwap 1; ISwap 4; IDup 5; ISwap 2; ISwap 1] (Some 0) = Some [IDup 2; ISwap 5].
Proof. vm_compute. reflexivity. Qed.
Example replay_rejects_tampered :
  replay nat (fun b e => if Nat.eqb e 0 then Some [IDup 2; ISwap 5] else Some [IDup 2; ISwap 4])
         [ISwap 1; ISwap 4; IDup 5; ISwap 2; ISwap 1] (Some 1) = None.
Proof. vm_compute. reflexivity. Qed.
(* contract level: a truncated log keeps the remaining blocks, one tampered entry is an error *)
Example replay_all_truncated :
  replay_all nat (fun b e => Some [IDup 2; ISwap 5])
         [[ISwap 1; ISwap 4; IDup 5; ISwap 2; ISwap 1]; [IPop]] [Some 0] = Some [[IDup 2; ISwap 5]; [IPop]].
Proof. vm_compute. reflexivity. Qed.
Example replay_all_rejects :
  replay_all nat (fun b e => Some [IDup 2; ISwap 5])
         [[ISwap 1; ISwap 4; IDup 5; ISwap 2; ISwap 1]; [IPop]] [Some 0; Some 0] = None.
Proof. vm_compute. reflexivity. Qed.
