(* C12  A block's result does not depend on what was processed before it.
   Full statement proved for the model: for the footprint tables regenerated from GASOL's source,
   every per-block computation that respects them (an arbitrary transformer otherwise) returns
   the same result after any history as in a fresh process with the same options. *)
From Coq Require Import List NArith Bool.
From GV Require Import Model.Frame Model.FrameProofs Gen.FrameTables.
Import ListNotations.

(* obligations on the regenerated tables (closed by computation) *)
Theorem gasol_tables_wf : wf_tables gasol_tables = true.
Proof. vm_compute. reflexivity. Qed.

Theorem gasol_exposed_empty : exposed gasol_tables = [].
Proof. vm_compute. reflexivity. Qed.

Theorem frame_gasol :
  forall (val res block : Type) (G0 : name -> val) (upd : name -> val -> val)
         (body : block -> (name -> val) -> (name -> val) * res),
    (forall b G1 G2, same_view val (genuine_reads_pb gasol_tables) (t_R gasol_tables) (t_idem gasol_tables) upd G1 G2 ->
                     snd (body b G1) = snd (body b G2)) ->
    (forall b G n, ~ In n (writes_hist gasol_tables) -> fst (body b G) n = G n) ->
    (forall b G n, In n (t_idem gasol_tables) -> fst (body b G) n = G n \/ fst (body b G) n = upd n (G n)) ->
    (forall n x, In n (t_idem gasol_tables) -> upd n (upd n x) = upd n x) ->
    (forall b G n, In n (t_keep gasol_tables) -> G n = G0 n -> fst (body b G) n = G0 n) ->
    forall (H : list block) (b : block),
      snd (body b (run val res block body H G0)) = snd (body b G0).
Proof. exact (frame_of_tables gasol_tables gasol_tables_wf gasol_exposed_empty). Qed.
Print Assumptions frame_gasol.

Theorem frame_generic : forall T, wf_tables T = true -> exposed T = [] ->
  forall n, In n (genuine_reads_pb T) -> In n (writes_hist T) ->
            In n (t_R T) \/ In n (t_idem T) \/ In n (t_keep T).
Proof. exact exposed_nil_cover. Qed.
Print Assumptions frame_generic.

(* ---- non-vacuity: a toy program satisfying every hypothesis of the frame theorem ----
   names: 0 constant table, 1 reset per block, 2 monotone flag (idempotent update), 3 kept, 4 accumulator *)
Definition toy_funs : ftable :=
  [ (0%N, mkF [0%N; 1%N; 2%N; 3%N] [4%N] [1%N; 2%N; 3%N; 4%N] [1%N]); (1%N, mkF [] [] [] []) ].
Definition toy_tables : tables :=
  {| t_funs := toy_funs; t_vars := [0%N; 1%N; 2%N; 3%N; 4%N]; t_entries := [0%N]; t_hist := [0%N];
     t_dunders := []; t_R := [1%N]; t_idem := [2%N]; t_keep := [3%N] |}.
Definition toy_G0 (n : name) : N := match n with 0%N => 7%N | 3%N => 5%N | _ => 0%N end.
Definition toy_upd (n : name) (x : N) : N := if N.eqb n 2 then 1%N else x.
Definition toy_body (b : N) (G : name -> N) : (name -> N) * N :=
  (fun n => if N.eqb n 1 then b else if N.eqb n 2 then 1%N else if N.eqb n 3 then 5%N
            else if N.eqb n 4 then (G 4 + 1)%N else G n,
   (G 0 + b + toy_upd 2 (G 2) + G 3)%N).

Example toy_exposed : wf_tables toy_tables = true /\ exposed toy_tables = [] /\ accumulators toy_tables = [4%N].
Proof. vm_compute. repeat split. Qed.

Example toy_history_independent : forall (H : list N) (b : N),
  snd (toy_body b (run N N N toy_body H toy_G0)) = snd (toy_body b toy_G0).
Proof.
  apply (frame_of_tables toy_tables) with (upd := toy_upd).
  - vm_compute; reflexivity.
  - vm_compute; reflexivity.
  - intros b G1 G2 Hv. unfold toy_body; simpl.
    assert (E0 : G1 0%N = G2 0%N).
    { specialize (Hv 0%N). vm_compute in Hv. apply Hv; [auto | intros [E | []]; discriminate]. }
    assert (E3 : G1 3%N = G2 3%N).
    { specialize (Hv 3%N). vm_compute in Hv. apply Hv; [auto 6 | intros [E | []]; discriminate]. }
    rewrite E0, E3. reflexivity.
  - intros b G n Hn. unfold toy_body; simpl.
    destruct (N.eqb n 1) eqn:E1; [apply N.eqb_eq in E1; subst; exfalso; apply Hn; vm_compute; auto |].
    destruct (N.eqb n 2) eqn:E2; [apply N.eqb_eq in E2; subst; exfalso; apply Hn; vm_compute; auto |].
    destruct (N.eqb n 3) eqn:E3; [apply N.eqb_eq in E3; subst; exfalso; apply Hn; vm_compute; auto 6 |].
    destruct (N.eqb n 4) eqn:E4; [apply N.eqb_eq in E4; subst; exfalso; apply Hn; vm_compute; auto 6 |].
    reflexivity.
  - intros b G n [E | []]. subst. right. reflexivity.
  - intros n x _. unfold toy_upd. destruct (N.eqb n 2); reflexivity.
  - intros b G n [E | []] _. subst. reflexivity.
Qed.

(* and the theorem is not vacuous the other way round: a result that genuinely reads the accumulator
   (name 4) is history dependent, and the corresponding table has a non-empty [exposed] *)
Definition leaky_body (b : N) (G : name -> N) : (name -> N) * N := (fst (toy_body b G), G 4%N).
Example leaky_differs : snd (leaky_body 0%N (run N N N leaky_body [0%N] toy_G0)) <> snd (leaky_body 0%N toy_G0).
Proof. vm_compute. discriminate. Qed.
Example leaky_tables_exposed :
  exposed {| t_funs := [ (0%N, mkF [0%N; 4%N] [4%N] [4%N] []) ]; t_vars := [0%N; 4%N]; t_entries := [0%N];
             t_hist := [0%N]; t_dunders := []; t_R := []; t_idem := []; t_keep := [] |} = [4%N].
Proof. vm_compute. reflexivity. Qed.
