(* C13  Specification generation and greedy search are deterministic.
   FULL STATEMENT (proved on the regenerated site table):  every set-iteration site on the
   specification/greedy/bounds path is unobservable, unreachable or order independent, i.e.
       all_accounted iter_sites = true /\ dynamic_only iter_sites = [].
   Every site of the table regenerated from /repo by gen/gen_frame.py is discharged by a generic lemma
   (consumer insensitive to the order: sorted, membership, len, any/all, sum, min/max, set building),
   unreachable from the entry points, or modelled and proved order independent.  The six sites of the
   bound/dependency computations that used to be validated by forced-order replay only are sorted since
   the fix commit 2b1d7c75 (they did depend on the string hash seed before it). *)
From Coq Require Import List NArith Bool String Permutation.
From GV Require Import Model.OrderIndep Model.OrderIndepProofs Gen.IterSites.
Import ListNotations.
Open Scope string_scope.

Theorem c13_sites :
  all_accounted iter_sites = true /\ dynamic_only iter_sites = [].
Proof. vm_compute. split; reflexivity. Qed.
Print Assumptions c13_sites.

(* order independence of the modelled order-exposed sites (iteration order pi explicit) *)
Theorem c13_pointwise_update : forall (V : Type) (f : N -> V -> V) pi pi' m,
  Permutation pi pi' -> forall x, pointwise_update f pi m x = pointwise_update f pi' m x.
Proof. exact pointwise_update_perm. Qed.
Print Assumptions c13_pointwise_update.

Theorem c13_delete_keys : forall (V : Type) pi pi' (d : list (N * V)),
  Permutation pi pi' -> delete_keys pi d = delete_keys pi' d.
Proof. exact delete_keys_perm. Qed.
Print Assumptions c13_delete_keys.

(* the generic lemmas behind the discharged classes *)
Theorem c13_discharge_lemmas :
  (forall l l', Permutation l l' -> forall x, set_build l x = set_build l' x) /\
  (forall l l', Permutation l l' -> isort l = isort l') /\
  (forall (p : N -> bool) l l', Permutation l l' -> existsb p l = existsb p l') /\
  (forall (p : N -> bool) l l', Permutation l l' -> forallb p l = forallb p l') /\
  (forall l l' a, Permutation l l' -> fold_left N.add l a = fold_left N.add l' a) /\
  (forall l l' a, Permutation l l' -> fold_left N.min l a = fold_left N.min l' a) /\
  (forall l l' a, Permutation l l' -> fold_left N.max l a = fold_left N.max l' a) /\
  (forall (l l' : list N), Permutation l l' -> List.length l = List.length l').
Proof.
  repeat split.
  - exact set_build_perm.
  - exact sort_perm.
  - exact existsb_perm.
  - exact forallb_perm.
  - exact sum_perm.
  - exact min_perm.
  - exact max_perm.
  - exact length_perm.
Qed.
Print Assumptions c13_discharge_lemmas.

(* ---- non-vacuity ---- *)
Example perm_312 : Permutation [3%N; 1%N; 2%N] [1%N; 2%N; 3%N].
Proof. apply (Permutation_cons_app [1%N; 2%N] [] 3%N). simpl. apply Permutation_refl. Qed.

Example pointwise_instance : forall x,
  pointwise_update (fun k v => (v + 10 * k)%N) [3%N; 1%N; 2%N] (fun _ => 1%N) x =
  pointwise_update (fun k v => (v + 10 * k)%N) [1%N; 2%N; 3%N] (fun _ => 1%N) x.
Proof. apply c13_pointwise_update. exact perm_312. Qed.

Example delete_instance :
  delete_keys [3%N; 1%N] [(1%N, "a"); (2%N, "b"); (3%N, "c")] = [(2%N, "b")] /\
  delete_keys [1%N; 3%N] [(1%N, "a"); (2%N, "b"); (3%N, "c")] = [(2%N, "b")].
Proof. vm_compute. split; reflexivity. Qed.

Example sort_instance : isort [3%N; 1%N; 2%N] = isort [1%N; 2%N; 3%N] /\ isort [3%N; 1%N; 2%N] = [1%N; 2%N; 3%N].
Proof. split; [apply sort_perm; exact perm_312 | vm_compute; reflexivity]. Qed.

(* and order does matter for a consumer that is not on the discharged list: building a list *)
Example list_build_order_exposed :
  fold_left (fun a x => x :: a) [1%N; 2%N] [] <> fold_left (fun a x => x :: a) [2%N; 1%N] [].
Proof. vm_compute. discriminate. Qed.

(* an undischarged site breaks the obligation *)
Example undischarged_breaks :
  all_accounted (mkSite "m" "f" 1%N "for: s" (Undischarged "loop in set order") :: iter_sites) = false.
Proof. vm_compute. reflexivity. Qed.
