(* Props/C14.v -- Splitting partitions the block; rebuilding with nothing optimized is identity.

   Model: Model/Split.v (tied to /repo by harness/c14.py on every run); lemmas: Model/SplitProofs.v.
   sto = -storage, part = -partition, mb = max_bound (22 in /repo; the theorems hold for every
   bound), push0 = constants.push0_enabled, fix1 = false: rebuild_optimized_asm_block as it is,
   fix1 = true: with proposals/C14/1.patch.

   FULL STATEMENTS of the property (false for the code as it is, see the two _refuted theorems):
     rebuild_none : forall push0 sto part mb b,
                      reassemble push0 false sto part mb b none = Some b
     rebuild_one  : forall push0 sto part mb b k R, ...
                      reassemble push0 false sto part mb b (one k R)
                      = Some (block_pre b ++ assemble (subst_segs (one k R) 0 segs) seps ++ block_post b)
   They hold (_partial) for blocks of the shape  non-optimizable* optimizable+ non-optimizable*
   (shape_ok) whose first optimizable instruction prints as the front end reports it (first_ok;
   not needed with the patch). *)
From Coq Require Import String List Bool ZArith.
Import ListNotations.
From GV Require Import Model.Split Model.SplitProofs.
Open Scope string_scope.
Open Scope list_scope.

(* 1. the sub-blocks reported by the front end, joined at the shared splitting instruction
      (join (b0 :: r) = b0 ++ flat_map tl r, and every later sub-block starts with the last name
      of the previous one: chainedP), are exactly the optimizable instructions (as nop names).
      Holds for every list of names, every policy and every bound; the splitter is total. *)
Theorem join_split : forall sto part mb (pl : list string),
    exists sbl, sub_block_list sto part mb pl = Some sbl /\ join sbl = map nop_name pl /\ chainedP sbl.
Proof. exact join_split_names. Qed.
Print Assumptions join_split.

(* the same on any element type (used for instructions with all their fields) *)
Theorem join_split_any : forall (A : Type) (nm : A -> string) sto part mb (l : list A),
    exists bl, split_top nm sto part mb l = Some bl /\ join bl = l /\ chainedP bl.
Proof. exact (@join_split_gen). Qed.
Print Assumptions join_split_any.

(* 2. rebuilding with nothing replaced *)
Theorem rebuild_none_partial : forall push0 fix1 sto part mb b,
    shape_ok b = true -> (fix1 = true \/ first_ok push0 b = true) ->
    reassemble push0 fix1 sto part mb b none = Some b.
Proof. exact SplitProofs.rebuild_none_partial. Qed.
Print Assumptions rebuild_none_partial.

(* refuted, defect C14-F2: PUSH 0 SELFDESTRUCT POP JUMP  (AssertionError, also with the patch) *)
Theorem rebuild_none_refuted_inside :
  exists b, forall fix1, reassemble true fix1 false false 22 b none = None.
Proof. exact rebuild_none_refuted_inside_l. Qed.
Print Assumptions rebuild_none_refuted_inside.

(* refuted, defect C14-F1: ASSIGNIMMUTABLE 5 PUSH 1 POP is well shaped, the code as it is fails
   (IndexError), the patched first loop returns the block *)
Theorem rebuild_none_refuted_first :
  exists b, shape_ok b = true /\ reassemble true false false false 22 b none = None
            /\ reassemble true true false false 22 b none = Some b.
Proof. exact rebuild_none_refuted_first_l. Qed.
Print Assumptions rebuild_none_refuted_first.

(* 3. replacing any set of sub-blocks: the output is the block with exactly the chosen segments
      replaced (segments = process_blocks_split of the reported sub-blocks, separators = the
      shared splitting instructions); first conjunct: the block itself is pre ++ segments and
      separators ++ post *)
Theorem rebuild_subset_partial : forall push0 fix1 sto part mb b repl,
    shape_ok b = true -> (fix1 = true \/ first_ok push0 b = true) ->
    forall bl segs,
      split_top (nmI push0) sto part mb (block_mid b) = Some bl ->
      process_blocks_split bl = Some segs ->
      b = block_pre b ++ assemble segs (seps_of bl) ++ block_post b /\
      reassemble push0 fix1 sto part mb b repl
      = Some (block_pre b ++ assemble (subst_segs repl 0 segs) (seps_of bl) ++ block_post b).
Proof. exact SplitProofs.rebuild_subset_partial. Qed.
Print Assumptions rebuild_subset_partial.

(* ... in particular for one replaced sub-block k: only segment k differs *)
Theorem rebuild_one_segments : forall (R : list instr) segs k j,
    nth_error (subst_segs (one k R) 0 segs) j =
    match nth_error segs j with
    | Some s => Some (if Nat.eqb (0 + j) k then R else s)
    | None => None
    end.
Proof. exact (fun R segs k j => subst_one_nth R segs 0 k j). Qed.
Print Assumptions rebuild_one_segments.

(* without any hypothesis on segments: what rebuild returns for an arbitrary replacement map, as a
   function (spec_blocks) of the instruction-level sub-blocks bl, whose names are the reported list *)
Theorem rebuild_general : forall push0 fix1 sto part mb b repl,
    shape_ok b = true -> (fix1 = true \/ first_ok push0 b = true) ->
    exists bl,
      split_top (nmI push0) sto part mb (block_mid b) = Some bl /\
      parts (block_mid b) bl /\
      sub_block_list sto part mb (optimizable_plain push0 b) = Some (map (map (nmI push0)) bl) /\
      reassemble push0 fix1 sto part mb b repl
      = Some (block_pre b ++ spec_blocks repl bl ++ block_post b).
Proof. exact reassemble_spec. Qed.
Print Assumptions rebuild_general.

(* the segment view exists for the default and the -storage policy (single-level cut); for
   -partition it is a hypothesis of rebuild_subset_partial, evaluated per instance by the harness *)
Theorem segments_exist : forall (A : Type) (nm : A -> string) sto mb l bl,
    split_top nm sto false mb l = Some bl -> exists segs, process_blocks_split bl = Some segs.
Proof. exact (@segments_exist_nopart). Qed.
Print Assumptions segments_exist.

(* 4. every candidate key <name>_<k> of the specification dictionary (non-empty segment k) is the
      index of a reported sub-block and names its segment *)
Theorem spec_keys : forall (A : Type) (bl segs : list (list A)) k,
    process_blocks_split bl = Some segs -> In k (nonempty_idx 0 segs) ->
    k < length bl /\ exists s, nth_error segs k = Some s /\ s <> [].
Proof. exact (@spec_keys_sound). Qed.
Print Assumptions spec_keys.

(* non-vacuity: tag 1 JUMPDEST PUSH 1 GAS POP LOG1 CALL PUSH 2 MSTORE PUSH 3 JUMP satisfies the
   hypotheses, is split in 4 / 5 / 5 sub-blocks under the three policies (max_bound 3 for
   -partition), has segments with candidate keys 0, 1, 3 (segment 2 is empty), and replacing
   sub-block 1 yields the expected instruction ids *)
Example hyps_satisfiable : shape_ok w_good = true /\ first_ok true w_good = true.
Proof. exact w_good_hyps. Qed.
Example split_example :
  sub_block_list false false 22 (optimizable_plain true w_good)
  = Some [["PUSH 1"; "GAS"]; ["GAS"; "POP"; "LOG1"]; ["LOG1"; "CALL"]; ["CALL"; "PUSH 2"; "MSTORE"; "PUSH 3"]]
  /\ sub_block_list true false 22 (optimizable_plain true w_good)
  = Some [["PUSH 1"; "GAS"]; ["GAS"; "POP"; "LOG1"]; ["LOG1"; "CALL"]; ["CALL"; "PUSH 2"; "MSTORE"]; ["MSTORE"; "PUSH 3"]]
  /\ sub_block_list false true 3 (optimizable_plain true w_good)
  = Some [["PUSH 1"; "GAS"]; ["GAS"; "POP"; "LOG1"]; ["LOG1"; "CALL"]; ["CALL"; "PUSH 2"; "MSTORE"]; ["MSTORE"; "PUSH 3"]].
Proof. exact w_good_split. Qed.
Example replace_one_example :
  option_map (map payload)
    (reassemble true false false false 22 w_good (one 1 [mkI "PUSH" (Some "9") 100; mkI "POP" None 101]))
  = Some [1; 2; 3; 4; 100; 101; 6; 7; 8; 9; 10; 11]%Z.
Proof. exact w_good_one. Qed.
Example segments_example :
  exists bl segs, split_top (nmI true) false false 22 (block_mid w_good) = Some bl /\
                  process_blocks_split bl = Some segs /\ length segs = 4 /\
                  nonempty_idx 0 segs = [0; 1; 3].
Proof. exact w_good_segments. Qed.
