(* Props/C15.v -- property C15 "Parsing and serialization round-trip".
   Model: Model/Asm.v (tied to /repo by harness/c15.py on every run); lemmas: Model/AsmProofs.v.

   Reading of the property used here.
   * p0 is constants.push0_enabled.  kn says which variant of AsmContract.to_json is in the tree
     (false = pinned tree, true = with proposals/C15/1-asm-null-roundtrip.patch).
   * A document "accepted by solc's format" is one recognised by [solc_shaped_b kn]: it is the
     rendering (members in jsoncpp's sorted order) of a typed document [sdoc] -- items with
     begin/end/name/source and optional jumpType/modifierDepth/value, a top-level asm with .code,
     .data (sub-assemblies with optional .auxdata and an arbitrary nested .data, or data strings)
     and optional sourceList, contracts without asm written {} or (kn only) {"asm": null} --
     whose opcode names are accepted by get_opcode and whose PUSHLIB/tag items have a value.
   * Equality of documents is [jperm]: equality up to the order of object members (what a
     comparison of json.dumps(sort_keys=True) sees).  [sdoc_spell p0] is the documented
     respelling PUSH "0" -> PUSH0 when p0.

   FULL STATEMENT of the first clause (all documents with "asm": null allowed), kept visible:
     forall p0 D, solc_shaped_b true D = true ->
       exists out d, D = sdoc_json d /\ roundtrip_doc p0 false D = Some out
                     /\ jperm out (sdoc_json (sdoc_spell p0 d)).
   It is REFUTED for the pinned tree by [json_roundtrip_refuted] ({"asm": null} comes back as {});
   [json_roundtrip] is it for kn = true and the partial statement for kn = false. *)
From Coq Require Import ZArith NArith List Bool String Ascii.
From GV Require Import Model.Asm Model.AsmProofs.
Import ListNotations.
Open Scope string_scope.

(* ---- clause 1: to_json (parse D) = D up to the PUSH0 spelling *)

Theorem json_roundtrip : forall p0 kn D, solc_shaped_b kn D = true ->
  exists out d,
    D = sdoc_json d /\ roundtrip_doc p0 kn D = Some out /\ jperm out (sdoc_json (sdoc_spell p0 d)).
Proof. exact json_roundtrip_b. Qed.

(* kn = false: the partial statement for the pinned tree (no contract written {"asm": null}) *)
Theorem json_roundtrip_partial : forall p0 D, solc_shaped_b false D = true ->
  exists out d,
    D = sdoc_json d /\ roundtrip_doc p0 false D = Some out /\ jperm out (sdoc_json (sdoc_spell p0 d)).
Proof. exact (fun p0 => json_roundtrip_b p0 false). Qed.

Theorem json_roundtrip_push0_off : forall kn D, solc_shaped_b kn D = true ->
  exists out, roundtrip_doc false kn D = Some out /\ jperm out D.
Proof. exact json_roundtrip_no_push0. Qed.

Theorem json_roundtrip_refuted :
  solc_shaped_b true wit_doc_null_asm = true
  /\ exists out, roundtrip_doc false false wit_doc_null_asm = Some out
                 /\ out = JObj [("version", JStr "0.8.17"); ("contracts", JObj [("I.sol:I", JObj [])])]
                 /\ ~ jperm out wit_doc_null_asm.
Proof. exact json_roundtrip_refuted_null_asm. Qed.

(* outside solc's shape: an item lacking "source" gets -1 written back *)
Theorem item_roundtrip_refuted :
  exists bc, build_asm_bytecode false wit_item_no_source [] = Some (bc, [])
             /\ bc_to_json bc = JObj [("begin", JInt 1); ("end", JInt 2); ("name", JStr "ADD"); ("source", JInt (-1))]
             /\ ~ jperm (bc_to_json bc) (JObj wit_item_no_source).
Proof. exact item_roundtrip_refuted_missing_source. Qed.

(* item level: to_json (build_asm_bytecode item) = item for every well-formed item and every
   state of the PUSHLIB numbering *)
Theorem item_roundtrip : forall p0 i st, sitem_ok i = true ->
  build_asm_bytecode p0 (sitem_members i) st = Some (bc_of_sitem p0 i st)
  /\ jperm (bc_to_json (fst (bc_of_sitem p0 i st))) (sitem_json (sitem_spell p0 i)).
Proof. exact (fun p0 i st H => conj (build_sitem p0 i st H) (sitem_roundtrip p0 i st H)). Qed.

(* ---- clause 2: parse_plain (to_plain b) = b.
   FULL STATEMENT (every block the parsers can build): refuted three ways -- tags are not
   printed, constants are re-normalised (leading zeros dropped, lower case) -- see the
   [plain_roundtrip_refuted_*] witnesses; the numeric values survive ([plain_roundtrip_value_kept]).
   PARTIAL: the class [block_ok p0 its]: a non-empty tag-free sequence of items as the text
   parser builds them (pitem: plain opcodes, PUSH0 when p0, ASSIGNIMMUTABLE v, PUSH*/PUSHIMMUTABLE
   with a canonical lower-case constant, PUSH [tag]/#[$]/[$]/data with a canonical constant; no
   PUSHLIB), only the last of which may be a terminator. *)

Theorem plain_roundtrip_partial : forall p0 its id nm tg idx, block_ok p0 its = true ->
  exists text,
    block_to_plain p0 (mkBlock id nm tg (map (pi_bc p0) its) idx) = Some text
    /\ parse_plain_instrs p0 text = Some [map (pi_bc p0) its].
Proof. exact plain_roundtrip_class. Qed.

Theorem plain_roundtrip_refuted :
  plain_rt_fails false "tag 1 JUMPDEST" /\ plain_rt_fails false "PUSH1 0x00" /\ plain_rt_fails false "PUSH1 0xFF".
Proof.
  exact (conj plain_roundtrip_refuted_tag (conj plain_roundtrip_refuted_leading_zero plain_roundtrip_refuted_uppercase)).
Qed.

Theorem plain_roundtrip_values_survive :
  value_of_tokens false (tokenize "PUSH1 0x00") = Some 0%N
  /\ value_of_tokens false (tokenize "PUSH 00") = Some 0%N
  /\ value_of_tokens false (tokenize "PUSH1 0xFF") = Some 255%N
  /\ value_of_tokens false (tokenize "PUSH FF") = Some 255%N.
Proof. exact plain_roundtrip_value_kept. Qed.

(* ---- clause 3: every spelling of a constant is read with that numeric value.
   The grammar [spelling] is the code's convention: hexadecimal (optionally 0x/0X) after PUSH,
   0x-hexadecimal or decimal after PUSH1..PUSH32, any number of leading zeros, either case. *)

Theorem const_value : forall p0 c toks, spelling c toks -> value_of_tokens p0 toks = Some c.
Proof. exact const_value_tokens. Qed.

(* an idealised reading ("10" is ten everywhere; bare hexadecimal accepted after PUSHn) is refuted *)
Theorem const_value_refuted :
  value_of_tokens false ["PUSH"; "10"] = Some 16%N
  /\ value_of_tokens false ["PUSH1"; "10"] = Some 10%N
  /\ parse_tokens false ["PUSH1"; "ff"] = None
  /\ parse_tokens false ["PUSH1"; "0XFF"] = None.
Proof. exact const_value_refuted_convention. Qed.

(* text level: tokens joined by blanks are read back as those tokens *)
Theorem tokenize_join_tokens : forall ts,
  Forall (fun t => token t = true) ts -> tokenize (join " " ts) = ts.
Proof. exact tokenize_join. Qed.

Print Assumptions json_roundtrip.
Print Assumptions json_roundtrip_partial.
Print Assumptions json_roundtrip_push0_off.
Print Assumptions json_roundtrip_refuted.
Print Assumptions item_roundtrip_refuted.
Print Assumptions item_roundtrip.
Print Assumptions plain_roundtrip_partial.
Print Assumptions plain_roundtrip_refuted.
Print Assumptions plain_roundtrip_values_survive.
Print Assumptions const_value.
Print Assumptions const_value_refuted.
Print Assumptions tokenize_join_tokens.

(* ---- non-vacuity: the hypotheses are satisfied by realistic instances *)

Example solc_shaped_instance : solc_shaped_b false ex_doc = true.
Proof. exact ex_doc_shaped. Qed.

Example solc_shaped_instance_null : solc_shaped_b true wit_doc_null_asm = true /\ solc_shaped_b false wit_doc_null_asm = false.
Proof. split; vm_compute; reflexivity. Qed.

Example null_asm_roundtrips_with_patch :
  exists out, roundtrip_doc false true wit_doc_null_asm = Some out /\ jperm out wit_doc_null_asm.
Proof. exact null_asm_roundtrip_with_patch. Qed.

Example sitem_ok_instance :
  sitem_ok (mkSItem 4 8 (Some "[in]") (Some 1%Z) "PUSHLIB" 0 (Some "lib.sol:L")) = true.
Proof. vm_compute. reflexivity. Qed.

Example block_ok_instance : block_ok false ex_block = true /\ block_ok true (PI_push0 :: ex_block) = true.
Proof. exact ex_block_ok. Qed.

Example spelling_instance : spelling 255 ["PUSH"; "0x00FF"] /\ spelling 255 ["PUSH2"; "0255"].
Proof. exact ex_spelling. Qed.

Example token_instance : Forall (fun t => token t = true) ["PUSH"; "[tag]"; "12"; "JUMPI"].
Proof. repeat constructor. Qed.
