(* C16  The numeric bounds published in a specification are valid.

   [T-model] `minsize` (Model/MinSize.v) is the hand model of
   count_sms_greedy.minsize_from_json (= "min_length_instrs"; "min_length" is the maximum of it
   and a position-bound estimate), tied to the code by the correspondence check of
   harness/c16.py on every generated specification.
   [T-val] feasibility of (init_progr_len, max_sk_sz) is an existential statement per
   specification: harness/c16.py exhibits a witness q and Coq evaluates
   `check_bounded S q init_progr_len max_sk_sz` (sound by realizes_bounded_sound).

   FULL STATEMENT (false, see C16_min_length_lower_bound_refuted):
     forall S q n, wf_spec S = true -> minsize S = Some n -> realizes S q = true -> n <= seq_len q.
   It fails for specifications that contain a dead instruction with three operands (the
   unused source operands are charged one POP each, but one dead ADDMOD and one POP dispose
   of all three).  The front end never emits dead instructions; the restriction below
   (`ms_wf_spec`: the certificate lb_cert of Model/MinSize.v, evaluated on every
   specification by the harness and true on all of them) excludes them. *)
From Coq Require Import List Arith.
From GV Require Import Sym.Spec Val.Realizes Val.RealizesProofs Model.MinSize Model.MinSizeProofs.
Import ListNotations.

Theorem C16_min_length_lower_bound_partial : forall S q n,
  ms_wf_spec S = true -> minsize S = Some n -> realizes S q = true -> n <= seq_len q.
Proof. exact minsize_lower_bound_partial. Qed.

(* a published length bound below minsize admits no realizing sequence at all *)
Theorem C16_infeasible_below_minsize : forall S q n len sk,
  ms_wf_spec S = true -> minsize S = Some n -> len < n -> realizes_bounded S q len sk = false.
Proof. exact minsize_excludes_short. Qed.

(* witnesses accepted by the bounded validator do stay within both bounds *)
Theorem C16_witness_sound : forall S q len sk,
  realizes_bounded S q len sk = true ->
  realizes S q = true /\ seq_len q <= len /\
  forall pre post, q = pre ++ post ->
    exists stk, ssteps S (s_src S) pre stk /\ ssteps S stk post (s_tgt S) /\ length stk <= sk.
Proof. exact realizes_bounded_sound. Qed.

Theorem C16_min_length_lower_bound_refuted :
  exists S q n, wf_spec S = true /\ minsize S = Some n /\ realizes S q = true /\ seq_len q < n.
Proof. exact minsize_full_refuted. Qed.

Print Assumptions C16_min_length_lower_bound_partial.
Print Assumptions C16_infeasible_below_minsize.
Print Assumptions C16_witness_sound.
Print Assumptions C16_min_length_lower_bound_refuted.

(* non-vacuity: the front end's specification of
   PUSH 1 DUP3 MSTORE DUP1 PUSH 20 MLOAD ADD SWAP2 SSTORE CALLER satisfies the certificate, its
   minsize is the published min_length_instrs = 9, and the greedy's answer has length 11 *)
Example C16_cert_inhabited : ms_wf_spec ex_spec = true /\ minsize ex_spec = Some 9.
Proof. exact ex_minsize. Qed.

Example C16_instance : 9 <= seq_len ex_ids.
Proof. exact (C16_min_length_lower_bound_partial ex_spec ex_ids 9 (proj1 ex_minsize) (proj2 ex_minsize) ex_realizes). Qed.

(* the finding: block `PUSH0 AND` (rule AND(X,0)): init_progr_len = 1 but minsize = 2, so the
   published length bound admits no realizing sequence, whatever the stack bound *)
Example C16_push0_and_infeasible : forall q sk, realizes_bounded push0_and_spec q 1 sk = false.
Proof. exact push0_and_infeasible. Qed.
