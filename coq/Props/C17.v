(* C17  Instruction-set restrictions chosen by the user are honoured.
   Only statements closed by `exact`, their assumptions, and non-vacuity examples. *)
From Coq Require Import ZArith List Bool String.
From GV Require Import Model.CostPrelude Ref.Cost Gen.Push0 Gen.CostTables Model.Cost Model.CostProofs Model.Push0Proofs.
Import ListNotations.
Open Scope string_scope.
Open Scope Z_scope.

(* ---- PUSH0 disabled: nothing named PUSH0 is introduced ---- *)
Theorem push0_off_no_push0 : forall uf id,
  dict_mem uf id = true -> i_disasm (id_to_asm_bytecode uf id) <> "PUSH0".
Proof. exact Push0Proofs.push0_off_no_push0. Qed.
Print Assumptions push0_off_no_push0.

Theorem emit_named_push0_only_verbatim : forall uf id,
  i_disasm (id_to_asm_bytecode uf id) = "PUSH0" -> dict_mem uf id = false /\ id = "PUSH0".
Proof. exact Push0Proofs.emit_named_push0_only_verbatim. Qed.
Print Assumptions emit_named_push0_only_verbatim.

Theorem push0_off_no_push0_sfs : forall idx v out,
  o_disasm (generate_push_instruction false idx v out) = "PUSH" /\
  o_id (generate_push_instruction false idx v out) = String.append "PUSH_" (py_str_Z idx).
Proof. exact Push0Proofs.push0_off_no_push0_sfs. Qed.
Print Assumptions push0_off_no_push0_sfs.

Theorem push0_off_parse_identity : forall name value, build_asm_bytecode_item false name value = mkItem name value.
Proof. exact Push0Proofs.push0_off_parse_identity. Qed.
Print Assumptions push0_off_parse_identity.

Theorem push0_off_to_plain : forall i, AsmBytecode_to_plain false i = "PUSH0" -> i_disasm i = "PUSH0".
Proof. exact Push0Proofs.push0_off_to_plain. Qed.
Print Assumptions push0_off_to_plain.

Example push0_off_nonvacuous :
  dict_mem [("PUSH_0", mkUInstr "PUSH" (Some [0]))] "PUSH_0" = true /\
  id_to_asm_bytecode [("PUSH_0", mkUInstr "PUSH" (Some [0]))] "PUSH_0" = mkItem "PUSH" (Some "0") /\
  AsmBytecode_to_plain false (mkItem "PUSH0" None) = "PUSH0".
Proof. vm_compute. repeat split; reflexivity. Qed.

(* ---- the two internal spellings of a zero push are priced (and printed) identically ---- *)
Theorem push0_priced_consistently : forall p0,
  AsmBytecode_gas_spent p0 (zero_parsed p0) = AsmBytecode_gas_spent p0 (zero_emitted p0) /\
  AsmBytecode_bytes_required p0 (zero_parsed p0) = AsmBytecode_bytes_required p0 (zero_emitted p0) /\
  AsmBytecode_gas_spent p0 (zero_emitted p0) = ref_push_gas p0 0 /\
  AsmBytecode_bytes_required p0 (zero_emitted p0) = ref_size p0 "PUSH" (Some 0) /\
  AsmBytecode_to_plain p0 (zero_parsed p0) = AsmBytecode_to_plain p0 (zero_emitted p0).
Proof. exact Push0Proofs.push0_priced_consistently. Qed.
Print Assumptions push0_priced_consistently.

Theorem zero_spellings :
  zero_parsed true = mkItem "PUSH0" None /\ zero_emitted true = mkItem "PUSH" (Some "0") /\
  zero_parsed false = mkItem "PUSH" (Some "0") /\ zero_emitted false = mkItem "PUSH" (Some "0").
Proof. exact Push0Proofs.zero_spellings. Qed.
Print Assumptions zero_spellings.

Theorem sfs_push_gas : forall p0 idx v out, generate_push_instruction_gas p0 idx v out = ref_push_gas p0 v.
Proof. exact Push0Proofs.sfs_push_gas. Qed.
Print Assumptions sfs_push_gas.

(* FULL STATEMENT "the SFS prices a push like the emitted item":
     forall p0 idx v out, 0 <= v -> generate_push_instruction_size idx v out = AsmBytecode_bytes_required p0 (PUSH v)
   refuted at p0 = true, v = 0 (2 bytes vs 1). *)
Theorem sfs_push_size_refuted :
  exists p0 v, generate_push_instruction_size 0 v "s(0)" <> AsmBytecode_bytes_required p0 (mkItem "PUSH" (Some (hex_of v))).
Proof. exact Push0Proofs.sfs_push_size_refuted. Qed.
Print Assumptions sfs_push_size_refuted.

Theorem sfs_push_size_partial : forall p0 idx v out, 0 <= v -> (p0 = false \/ v <> 0) ->
  generate_push_instruction_size idx v out = AsmBytecode_bytes_required p0 (mkItem "PUSH" (Some (hex_of v))).
Proof. exact Push0Proofs.sfs_push_size_partial. Qed.
Print Assumptions sfs_push_size_partial.

Example sfs_push_size_nonvacuous : 0 <= 255 /\ (true = false \/ 255 <> 0).
Proof. split; [discriminate | right; discriminate]. Qed.

(* FULL STATEMENT "both spellings are the same zero for the block-level accounting":
     execute_asm true [] (zero_parsed true) = execute_asm true [] (zero_emitted true)
   refuted in the shipped code: keys "PUSH0" vs "0" (hence C08.gas_rebuild_monotone_refuted). *)
Theorem zero_spellings_keys_refuted :
  execute_asm_push0_as_zero = false ->
  execute_asm true [] (zero_parsed true) = Some ["PUSH0"] /\ execute_asm true [] (zero_emitted true) = Some ["0"].
Proof. exact Push0Proofs.zero_spellings_keys. Qed.
Print Assumptions zero_spellings_keys_refuted.

Theorem zero_spellings_keys_repaired :
  execute_asm_push0_as_zero = true ->
  execute_asm true [] (zero_parsed true) = execute_asm true [] (zero_emitted true).
Proof. exact Push0Proofs.zero_spellings_keys_repaired. Qed.
Print Assumptions zero_spellings_keys_repaired.

Example keys_flag_decided : execute_asm_push0_as_zero = false \/ execute_asm_push0_as_zero = true.
Proof. destruct execute_asm_push0_as_zero; [right | left]; reflexivity. Qed.

(* ---- contract filter (model of the loop of optimize_asm_in_asm_format, any contract type) ---- *)
Theorem contract_filter : forall (C : Type) (has_asm : C -> bool) (name : C -> string) (opt : C -> C) s cs n c,
  nth_error cs n = Some c -> name c <> s ->
  nth_error (filter_contracts has_asm name opt (Some s) cs) n = Some c.
Proof. exact (@contract_filter_others_unchanged). Qed.
Print Assumptions contract_filter.

Theorem contract_filter_emits_selected_only :
  forall (C : Type) (has_asm : C -> bool) (name : C -> string) (opt : C -> C) s cs e,
  emit has_asm name opt (Some s) cs = Some e ->
  exists c, e = OneContract (opt c) /\ In c cs /\ name c = s /\ has_asm c = true.
Proof. exact (@Push0Proofs.contract_filter_emits_selected_only). Qed.
Print Assumptions contract_filter_emits_selected_only.

Theorem contract_filter_none : forall (C : Type) (has_asm : C -> bool) (name : C -> string) (opt : C -> C) cs,
  emit has_asm name opt None cs = Some (WholeFile (map (fun c => if has_asm c then opt c else c) cs)).
Proof. exact (@Push0Proofs.contract_filter_none). Qed.
Print Assumptions contract_filter_none.

Example contract_filter_nonvacuous :
  let cs := [("A", 1); ("B", 2); ("C", 3)] in
  emit (fun _ => true) fst (fun c => (fst c, snd c + 10)) (Some "B") cs = Some (OneContract ("B", 12)) /\
  filter_contracts (fun _ => true) fst (fun c => (fst c, snd c + 10)) (Some "B") cs = [("A", 1); ("B", 12); ("C", 3)].
Proof. vm_compute. split; reflexivity. Qed.
