(* C18  Formula constructors preserve truth value and emitted text matches the formula.

   Model: Model/Formula.v (tied to /repo/smt_encoding by harness/c18.py on every run).
   `add m c args` is the entry point add_implies/add_and/add_or/add_not/add_eq/add_lt/add_leq/
   add_distinct (c selects it), `build m t` runs the entry points bottom-up on a construction tree
   t, which is at the same time the unsimplified formula; `eval v` is the truth value under the
   valuation v; `form_eqb m` / `py_eq m` is Python's `==` on formulas; `render nm` is
   translate_formula; `read d` is an SMT-LIB reader (lexer, s-expression parser, elaboration against
   the declarations d).

   Variants (detected from the checkout by the harness):
     m  = Strict / nm = NegSmt : behaviour with proposals/C18/0001 and 0002 applied -> FULL theorems
     m  = Loose  / nm = NegRaw : the code as it stands -> `_partial` theorems, and the full
                                 statements are `_refuted` with the witnesses replayed by the harness.
   All theorems quantify over formulas of any depth and arity and over every valuation. *)
From Coq Require Import ZArith List Bool String.
From GV Require Import Model.Formula Model.FormulaProofs.
Import ListNotations.
Local Open Scope string_scope.

(* ---------------------------------------------------------------- *)
(* Strict / NegSmt: the full statements                               *)

Theorem add_sound_strict : forall c args psi,
  add Strict c args = Ok psi ->
  forall v x, eval v (FConn c args) = Some x -> eval v psi = Some x.
Proof. exact (fun c args psi => add_sound_gen Strict c args psi (add_ok_strict c args)). Qed.

Theorem construct_sound_strict : forall t psi,
  build Strict t = Ok psi ->
  forall v x, eval v t = Some x -> eval v psi = Some x.
Proof. exact (fun t psi => build_sound_gen Strict t psi (calls_ok_strict t)). Qed.

Theorem struct_eq_sound_strict : forall f1 f2,
  form_eqb Strict f1 f2 = true -> forall v, eval v f1 = eval v f2.
Proof. exact form_eqb_sound_strict. Qed.

(* top-level `f1 == f2`; between two bare literals Python's builtin comparison decides
   (True == 1), which is not code of the project *)
Theorem py_eq_sound_strict : forall f1 f2,
  is_lit f1 && is_lit f2 = false -> py_eq Strict f1 f2 = true -> forall v, eval v f1 = eval v f2.
Proof. exact FormulaProofs.py_eq_sound_strict. Qed.

Theorem print_parse_smt : forall d f,
  printable NegSmt d f = true -> parse d (tokens NegSmt f) = Some f.
Proof. exact (fun d f => parse_tokens d NegSmt f). Qed.

Theorem read_render_smt : forall d f,
  printable NegSmt d f = true -> read d (render NegSmt f) = Some f.
Proof. exact (fun d f => read_render NegSmt d f). Qed.

(* eval(construct(phi)) = eval(phi) = eval(parse(print(construct(phi)))) *)
Theorem c18_strict : forall d t psi,
  build Strict t = Ok psi -> printable NegSmt d psi = true ->
  forall v x, eval v t = Some x ->
    eval v psi = Some x /\
    exists f', read d (render NegSmt psi) = Some f' /\ eval v f' = Some x.
Proof. exact (fun d t psi => build_print_read_gen Strict NegSmt d t psi (calls_ok_strict t)). Qed.

(* ---------------------------------------------------------------- *)
(* Loose / NegRaw (the code as it stands)                             *)

(* FULL STATEMENTS, FALSE for the Loose / NegRaw variant:
     add_sound        : add Loose c args = Ok psi -> forall v x, eval v (FConn c args) = Some x -> eval v psi = Some x
     construct_sound  : build Loose t = Ok psi -> forall v x, eval v t = Some x -> eval v psi = Some x
     struct_eq_sound  : form_eqb Loose f1 f2 = true -> forall v, eval v f1 = eval v f2
     read_render      : (names declared) -> read d (render NegRaw f) = Some f                       *)

Theorem add_eq_refuted : exists args psi v x,
  add Loose CEq args = Ok psi /\ eval v (FConn CEq args) = Some x /\ eval v psi <> Some x.
Proof.
  exact (ex_intro _ [FBool true; FInt 1%Z] (ex_intro _ (FBool true) (ex_intro _ v_one
        (ex_intro _ (VB false) add_eq_loose_witness)))).
Qed.

Theorem construct_sound_refuted : exists t psi v x,
  no_bool_lit t = true /\
  build Loose t = Ok psi /\ eval v t = Some x /\ eval v psi <> Some x.
Proof.
  exact (ex_intro _ (FConn CEq [FConn CEq [cP; cP]; FInt 1%Z]) (ex_intro _ (FBool true)
        (ex_intro _ v_true (ex_intro _ (VB false) (conj eq_refl build_loose_witness))))).
Qed.

Theorem struct_eq_sound_refuted : exists t1 t2 f1 f2 v,
  build Loose t1 = Ok f1 /\ build Loose t2 = Ok f2 /\
  form_eqb Loose f1 f2 = true /\ eval v f1 = Some (VB true) /\ eval v f2 = Some (VB false).
Proof.
  exact (ex_intro _ _ (ex_intro _ _ (ex_intro _ _ (ex_intro _ _ (ex_intro _ v_one eq_loose_witness))))).
Qed.

Theorem print_parse_refuted : exists f,
  printable NegSmt [] f = true /\ read [] (render NegRaw f) = None /\
  read [] (render NegSmt f) = Some f.
Proof.
  exact (ex_intro _ (FInt (-5)%Z) (conj eq_refl (conj (proj1 (proj2 neg_raw_witness)) (proj2 (proj2 neg_raw_witness))))).
Qed.

(* restrictions: `add_ok Loose c args` is True for every entry point but add_eq, where it says
   that no boolean literal of one argument can meet an integer literal 0/1 of the other
   (sepb); `calls_ok Loose t` says so for every add_eq call made while building t *)
Theorem add_sound_partial : forall c args psi,
  add_ok Loose c args -> add Loose c args = Ok psi ->
  forall v x, eval v (FConn c args) = Some x -> eval v psi = Some x.
Proof. exact (add_sound_gen Loose). Qed.

Theorem construct_sound_partial : forall t psi,
  calls_ok Loose t -> build Loose t = Ok psi ->
  forall v x, eval v t = Some x -> eval v psi = Some x.
Proof. exact (build_sound_gen Loose). Qed.

Theorem struct_eq_sound_partial : forall f1 f2,
  sepb f1 f2 = true -> form_eqb Loose f1 f2 = true -> forall v, eval v f1 = eval v f2.
Proof. exact form_eqb_sound_loose. Qed.

Theorem py_eq_sound_partial : forall f1 f2,
  sepb f1 f2 = true -> py_eq Loose f1 f2 = true -> forall v, eval v f1 = eval v f2.
Proof. exact py_eq_sound_loose. Qed.

(* printable NegRaw additionally asks for non-negative integer literals *)
Theorem print_parse_partial : forall d f,
  printable NegRaw d f = true -> parse d (tokens NegRaw f) = Some f.
Proof. exact (fun d f => parse_tokens d NegRaw f). Qed.

Theorem read_render_partial : forall d f,
  printable NegRaw d f = true -> read d (render NegRaw f) = Some f.
Proof. exact (fun d f => read_render NegRaw d f). Qed.

Theorem c18_partial : forall d t psi,
  calls_ok Loose t -> build Loose t = Ok psi -> printable NegRaw d psi = true ->
  forall v x, eval v t = Some x ->
    eval v psi = Some x /\
    exists f', read d (render NegRaw psi) = Some f' /\ eval v f' = Some x.
Proof. exact (build_print_read_gen Loose NegRaw). Qed.

(* ---------------------------------------------------------------- *)
(* Both variants: lexing, and when the entry points raise             *)

Theorem lex_render_tokens : forall nm d f,
  printable nm d f = true -> lex (render nm f) = tokens nm f.
Proof. exact lex_render. Qed.

Theorem add_and_error_exact : forall m args e,
  add m CAnd args = Err e <->
  e = AssertionError /\ existsb is_false args = false /\ flat_map and_piece args = [].
Proof. exact add_and_error. Qed.

Theorem add_or_error_exact : forall m args e,
  add m COr args = Err e <->
  e = AssertionError /\ existsb is_true args = false /\ flat_map or_piece args = [].
Proof. exact add_or_error. Qed.

(* on literal arguments: add_and raises exactly when all of them are True (add_and() included) *)
Theorem add_and_error_literals : forall args,
  forallb is_lit args = true ->
  (existsb is_false args = false /\ flat_map and_piece args = [] <-> forallb is_true args = true).
Proof. exact and_pieces_nil_lits. Qed.

Theorem add_distinct_error_exact : forall m args e,
  add m CDistinct args = Err e <-> e = AssertionError /\ args = [].
Proof. exact add_distinct_error. Qed.

(* not, =>, =, <, <= on arguments that respect the registry arities: only the arity assertion *)
Theorem add_fixed_error_exact : forall m c n args e,
  conn_arity c = Some n -> forallb arity_ok args = true ->
  (add m c args = Err e <-> e = AssertionError /\ List.length args <> n).
Proof. exact add_fixed_error. Qed.

(* ... and everything the interface builds respects them *)
Theorem build_respects_arities : forall m t psi, build m t = Ok psi -> arity_ok psi = true.
Proof. exact build_arity_ok. Qed.

Print Assumptions add_sound_strict.
Print Assumptions construct_sound_strict.
Print Assumptions struct_eq_sound_strict.
Print Assumptions py_eq_sound_strict.
Print Assumptions print_parse_smt.
Print Assumptions read_render_smt.
Print Assumptions c18_strict.
Print Assumptions add_eq_refuted.
Print Assumptions construct_sound_refuted.
Print Assumptions struct_eq_sound_refuted.
Print Assumptions print_parse_refuted.
Print Assumptions add_sound_partial.
Print Assumptions construct_sound_partial.
Print Assumptions struct_eq_sound_partial.
Print Assumptions py_eq_sound_partial.
Print Assumptions print_parse_partial.
Print Assumptions read_render_partial.
Print Assumptions c18_partial.
Print Assumptions lex_render_tokens.
Print Assumptions add_and_error_exact.
Print Assumptions add_or_error_exact.
Print Assumptions add_and_error_literals.
Print Assumptions add_distinct_error_exact.
Print Assumptions add_fixed_error_exact.
Print Assumptions build_respects_arities.

(* ---------------------------------------------------------------- *)
(* Non-vacuity: the hypotheses are satisfiable by non-trivial instances *)

Definition xP := FApp "p" [SBool] [].
Definition xQ := FApp "q" [SBool] [].
Definition xA := FApp "a" [SInt] [].
Definition xF (t : form) := FApp "f" [SInt; SInt] [t].
Definition xD : decls := [("p", [SBool]); ("q", [SBool]); ("a", [SInt]); ("f", [SInt; SInt])].
Definition xV : valuation := fun n _ args =>
  if String.eqb n "p" then VB true else if String.eqb n "q" then VB false
  else if String.eqb n "a" then VI 7 else match args with [VI z] => VI (z + 1) | _ => VI 0 end.

(* add_and(True, add_or(p, False, q), add_not(add_not(add_lt(f(a), -3))), add_eq(a, a)) *)
Definition xT : form :=
  FConn CAnd [FBool true; FConn COr [xP; FBool false; xQ];
              FConn CNot [FConn CNot [FConn CLt [xF xA; FInt (-3)]]]; FConn CEq [xA; xA]].
Definition xPsi : form := FConn CAnd [FConn COr [xP; xQ]; FConn CLt [xF xA; FInt (-3)]].

Example ex_build_strict : build Strict xT = Ok xPsi /\ build Loose xT = Ok xPsi.
Proof. split; reflexivity. Qed.

Example ex_eval : eval xV xT = Some (VB false) /\ eval xV xPsi = Some (VB false).
Proof. split; reflexivity. Qed.

Example ex_printable : printable NegSmt xD xPsi = true /\ printable NegRaw xD xPsi = false /\
  render NegSmt xPsi = "(and  (or  p q) (<  (f a) (- 3)))" /\
  render NegRaw xPsi = "(and  (or  p q) (<  (f a) -3))".
Proof. repeat split; reflexivity. Qed.

Example ex_printable_raw :
  printable NegRaw xD (FConn CLe [FInt 0; xF xA]) = true /\
  read xD "(<=  0 (f a))" = Some (FConn CLe [FInt 0; xF xA]).
Proof. split; reflexivity. Qed.

Example ex_calls_ok_loose : calls_ok Loose xT.
Proof. simpl. unfold lits_ok. repeat split; right; reflexivity. Qed.

Example ex_add_ok_loose : add_ok Loose CEq [FConn CAnd [xP; FBool true]; FInt 2].
Proof. right. reflexivity. Qed.

(* a comparison modulo permutation that is accepted, with separated literals *)
Example ex_struct_eq :
  form_eqb Strict (FConn CAnd [xP; FConn CEq [xA; FInt 1]; xQ]) (FConn CAnd [xQ; xP; FConn CEq [FInt 1; xA]]) = true /\
  form_eqb Loose (FConn CAnd [xP; FConn CEq [xA; FInt 1]; xQ]) (FConn CAnd [xQ; xP; FConn CEq [FInt 1; xA]]) = true /\
  sepb (FConn CAnd [xP; FConn CEq [xA; FInt 1]; xQ]) (FConn CAnd [xQ; xP; FConn CEq [FInt 1; xA]]) = true /\
  py_eq Strict (FConn CAnd [xP; xQ]) (FConn CAnd [xQ; xP]) = true.
Proof. repeat split; reflexivity. Qed.

Example ex_errors :
  add Strict CAnd [FBool true; FBool true] = Err AssertionError /\
  add Loose CAnd [] = Err AssertionError /\
  add Loose COr [FBool false] = Err AssertionError /\
  add Loose CAnd [FBool true; xP] = Ok xP /\
  add Loose CNot [xP; xQ] = Err AssertionError /\
  conn_arity CNot = Some 1%nat /\ forallb arity_ok [xP; xQ] = true.
Proof. repeat split; reflexivity. Qed.
