(* REFERENCE cost tables for EVM assembly items (C08, C17).

   Written from the specifications, not from GASOL's opcodes.py/utils.py:
     - Ethereum Yellow Paper (Berlin/Shanghai versions), Appendix G (fee schedule) and H (instruction set);
     - EIP-145 (SHL/SHR/SAR: verylow), EIP-1014 (CREATE2), EIP-1052 (EXTCODEHASH), EIP-1344 (CHAINID: base),
       EIP-1884 (SELFBALANCE: low), EIP-2200/EIP-3529 (SSTORE), EIP-2929 (cold 2600/2100, warm 100),
       EIP-3198 (BASEFEE: base), EIP-3855 (PUSH0: base, one byte), EIP-4399 (PREVRANDAO), EIP-5656 (MCOPY: verylow + copy);
     - libevmasm/AssemblyItem.cpp `bytesRequired` for the sizes of solc's pseudo-items.

   Conventions for the parts of the schedule that depend on run-time values (stated once, here):
     - memory expansion and per-word copy/hash/log-data costs are not counted (they are equal for
       equivalent blocks: C01 preserves the memory operations' arguments);
     - EXP is charged Gexp + Gexpbyte * 1 (a one-byte exponent);
     - CALL/CALLCODE/DELEGATECALL/STATICCALL are charged the warm access cost 100 (no value transfer,
       no new account, callee gas excluded);
     - SSTORE is charged Gsreset = 2900 (original = current <> new, original <> 0) plus 2100 when the
       slot is cold; SELFDESTRUCT 5000; CREATE/CREATE2 32000; LOGn 375 + 375 n;
     - warm/cold: an address or slot is warm iff an earlier instruction OF THE SAME BLOCK accessed the
       same key (keys are compared as given: the harness supplies syntactic terms over the initial stack);
     - pseudo-items that assemble to PUSHn (PUSH [tag], PUSH data, PUSHLIB, ...) cost Gverylow;
       `tag` is not an instruction (its JUMPDEST is a separate item); ASSIGNIMMUTABLE has no reference
       gas (it expands to a run-time dependent sequence; GASOL never optimizes across it).
   Names are solc's assembly names; legacy aliases (SHA3, SUICIDE, ASSERTFAIL) : SHA3 = KECCAK256,
   the other two have no reference entry. *)
From Coq Require Import ZArith List Bool String.
Import ListNotations.
Open Scope string_scope.
Open Scope Z_scope.

Definition Gzero := 0.   Definition Gjumpdest := 1.  Definition Gbase := 2.   Definition Gverylow := 3.
Definition Glow := 5.    Definition Gmid := 8.       Definition Ghigh := 10.  Definition Gwarmaccess := 100.
Definition Gcoldaccountaccess := 2600.  Definition Gcoldsload := 2100.  Definition Gsreset := 2900.
Definition Gselfdestruct := 5000.  Definition Gcreate := 32000.  Definition Gexp := 10.  Definition Gexpbyte := 50.
Definition Glog := 375.  Definition Glogtopic := 375.  Definition Gkeccak256 := 30.  Definition Gblockhash := 20.

Inductive gclass :=
| Fixed (g : Z)            (* same cost whatever was accessed before *)
| Account                  (* EIP-2929 account access: cold 2600 / warm 100 *)
| SloadC                   (* cold 2100 / warm 100 *)
| SstoreC.                 (* 2900 + (2100 if cold) *)

Definition W_zero := ["STOP"; "RETURN"; "REVERT"; "INVALID"].
Definition W_base := ["ADDRESS"; "ORIGIN"; "CALLER"; "CALLVALUE"; "CALLDATASIZE"; "CODESIZE"; "GASPRICE";
  "COINBASE"; "TIMESTAMP"; "NUMBER"; "DIFFICULTY"; "PREVRANDAO"; "GASLIMIT"; "CHAINID"; "BASEFEE";
  "RETURNDATASIZE"; "POP"; "PC"; "MSIZE"; "GAS"; "PUSH0"].
Definition W_verylow := ["ADD"; "SUB"; "NOT"; "LT"; "GT"; "SLT"; "SGT"; "EQ"; "ISZERO"; "AND"; "OR"; "XOR";
  "BYTE"; "SHL"; "SHR"; "SAR"; "CALLDATALOAD"; "MLOAD"; "MSTORE"; "MSTORE8";
  "CALLDATACOPY"; "CODECOPY"; "RETURNDATACOPY"; "MCOPY";
  "PUSH"; "PUSH [tag]"; "PUSH data"; "PUSH [$]"; "PUSH #[$]"; "PUSHSIZE"; "PUSHLIB"; "PUSHDEPLOYADDRESS";
  "PUSHIMMUTABLE"].
Definition W_low := ["MUL"; "DIV"; "SDIV"; "MOD"; "SMOD"; "SIGNEXTEND"; "SELFBALANCE"].
Definition W_mid := ["ADDMOD"; "MULMOD"; "JUMP"].
Definition W_account := ["BALANCE"; "EXTCODESIZE"; "EXTCODEHASH"; "EXTCODECOPY"].
Definition W_call := ["CALL"; "CALLCODE"; "DELEGATECALL"; "STATICCALL"].

Local Infix "==" := String.eqb (at level 70).

Definition mem (x : string) (l : list string) : bool := existsb (String.eqb x) l.

Definition dups := map (fun n => "DUP" ++ n)
  ["1";"2";"3";"4";"5";"6";"7";"8";"9";"10";"11";"12";"13";"14";"15";"16"].
Definition swaps := map (fun n => "SWAP" ++ n)
  ["1";"2";"3";"4";"5";"6";"7";"8";"9";"10";"11";"12";"13";"14";"15";"16"].

Definition ref_class (op : string) : option gclass :=
  if mem op W_zero then Some (Fixed Gzero)
  else if mem op W_base then Some (Fixed Gbase)
  else if mem op W_verylow || mem op dups || mem op swaps then Some (Fixed Gverylow)
  else if mem op W_low then Some (Fixed Glow)
  else if mem op W_mid then Some (Fixed Gmid)
  else if op == "JUMPI" then Some (Fixed Ghigh)
  else if op == "JUMPDEST" then Some (Fixed Gjumpdest)
  else if op == "tag" then Some (Fixed 0)
  else if op == "EXP" then Some (Fixed (Gexp + Gexpbyte * 1))
  else if (op == "KECCAK256") || (op == "SHA3") then Some (Fixed Gkeccak256)
  else if op == "BLOCKHASH" then Some (Fixed Gblockhash)
  else if mem op W_account then Some Account
  else if op == "SLOAD" then Some SloadC
  else if op == "SSTORE" then Some SstoreC
  else if op == "LOG0" then Some (Fixed (Glog + 0 * Glogtopic))
  else if op == "LOG1" then Some (Fixed (Glog + 1 * Glogtopic))
  else if op == "LOG2" then Some (Fixed (Glog + 2 * Glogtopic))
  else if op == "LOG3" then Some (Fixed (Glog + 3 * Glogtopic))
  else if op == "LOG4" then Some (Fixed (Glog + 4 * Glogtopic))
  else if (op == "CREATE") || (op == "CREATE2") then Some (Fixed Gcreate)
  else if mem op W_call then Some (Fixed Gwarmaccess)
  else if op == "SELFDESTRUCT" then Some (Fixed Gselfdestruct)
  else None.

(* gas of one instruction given whether its key was accessed before in the block *)
Definition class_gas (c : gclass) (warm : bool) : Z :=
  match c with
  | Fixed g => g
  | Account => if warm then Gwarmaccess else Gcoldaccountaccess
  | SloadC => if warm then Gwarmaccess else Gcoldsload
  | SstoreC => Gsreset + (if warm then 0 else Gcoldsload)
  end.

Definition ref_gas (op : string) (warm : bool) : option Z :=
  match ref_class op with Some c => Some (class_gas c warm) | None => None end.

(* ---- sizes ---- *)
(* number of bytes of the big-endian representation of v (0 for v = 0) *)
Definition byte_len (v : Z) : Z := if v <=? 0 then 0 else Z.log2 v / 8 + 1.

Definition address_length := 2.   (* solc: tags and data offsets of contracts below 64 KiB *)

(* op: assembly name; v: the numeric value of a PUSH.  push0: whether PUSH0 belongs to the target
   instruction set (EIP-3855); a zero push is then the one-byte PUSH0, otherwise PUSH1 0x00. *)
Definition ref_size (push0 : bool) (op : string) (v : option Z) : option Z :=
  if op == "PUSH" then
    match v with
    | Some z => if (z =? 0) && push0 then Some 1 else Some (1 + Z.max 1 (byte_len z))
    | None => None
    end
  else if op == "PUSH0" then Some 1
  else if op == "tag" then Some 0
  else if (op == "PUSH [tag]") || (op == "PUSH data") || (op == "PUSH [$]") then Some (1 + address_length)
  else if (op == "PUSH #[$]") || (op == "PUSHSIZE") then Some (1 + 4)
  else if (op == "PUSHLIB") || (op == "PUSHDEPLOYADDRESS") then Some (1 + 20)
  else if op == "PUSHIMMUTABLE" then Some (1 + 32)
  else if op == "ASSIGNIMMUTABLE" then Some (3 + 32)       (* one occurrence of the immutable *)
  else match ref_class op with Some _ => Some 1 | None => None end.

(* gas of a zero push under the instruction-set switch *)
Definition ref_push_gas (push0 : bool) (z : Z) : Z := if (z =? 0) && push0 then Gbase else Gverylow.

(* ---- whole blocks ---- *)
(* a reference instruction: name, numeric value of a PUSH, and the key it accesses (account
   address or storage slot, as a term), if any *)
Record rinstr := mkR { r_op : string; r_val : option Z; r_key : option string }.

Definition r_is_push0 (push0 : bool) (i : rinstr) : bool :=
  (r_op i == "PUSH0") || ((r_op i == "PUSH") && push0 && match r_val i with Some 0 => true | _ => false end).

Definition rinstr_size (push0 : bool) (i : rinstr) : option Z := ref_size push0 (r_op i) (r_val i).

Fixpoint sum_opt (l : list (option Z)) : option Z :=
  match l with
  | [] => Some 0
  | Some x :: l' => match sum_opt l' with Some s => Some (x + s) | None => None end
  | None :: _ => None
  end.

Definition ref_block_size (push0 : bool) (b : list rinstr) : option Z := sum_opt (map (rinstr_size push0) b).
Definition ref_block_length (b : list rinstr) : Z :=
  Z.of_nat (List.length (filter (fun i => negb (r_op i == "tag")) b)).

(* warm sets: accounts and slots touched so far in the block *)
Fixpoint ref_block_gas_from (push0 : bool) (accts slots : list string) (b : list rinstr) : option Z :=
  match b with
  | [] => Some 0
  | i :: b' =>
    if r_is_push0 push0 i then
      match ref_block_gas_from push0 accts slots b' with Some s => Some (Gbase + s) | None => None end
    else
    match ref_class (r_op i) with
    | None => None
    | Some (Fixed g) =>
        match ref_block_gas_from push0 accts slots b' with Some s => Some (g + s) | None => None end
    | Some Account =>
        match r_key i with
        | None => None
        | Some k => match ref_block_gas_from push0 (k :: accts) slots b' with
                    | Some s => Some (class_gas Account (mem k accts) + s) | None => None end
        end
    | Some c =>
        match r_key i with
        | None => None
        | Some k => match ref_block_gas_from push0 accts (k :: slots) b' with
                    | Some s => Some (class_gas c (mem k slots) + s) | None => None end
        end
    end
  end.
Definition ref_block_gas (push0 : bool) (b : list rinstr) : option Z := ref_block_gas_from push0 [] [] b.

(* the property's predicate on the three reference measures (g, s, l) of input and output:
   cost in criterion c does not increase, and a changed block is strictly cheaper in c or equal in c,
   no worse in BOTH other measures and strictly better in one of them *)
Definition crit_saving (c : string) (dg ds dl : Z) : Z :=
  if c == "gas" then dg else if c == "size" then ds else dl.
Definition crit_others (c : string) (dg ds dl : Z) : list Z :=
  if c == "gas" then [ds; dl] else if c == "size" then [dg; dl] else [dg; ds].
Definition improves (c : string) (dg ds dl : Z) : Prop :=
  crit_saving c dg ds dl > 0 \/
  (crit_saving c dg ds dl = 0 /\ Forall (fun x => x >= 0) (crit_others c dg ds dl)
                              /\ Exists (fun x => x > 0) (crit_others c dg ds dl)).
Definition improvesb (c : string) (dg ds dl : Z) : bool :=
  (crit_saving c dg ds dl >? 0) ||
  ((crit_saving c dg ds dl =? 0) && forallb (fun x => x >=? 0) (crit_others c dg ds dl)
                                && existsb (fun x => x >? 0) (crit_others c dg ds dl)).
