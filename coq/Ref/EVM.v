(* Reference semantics of EVM basic blocks (specification; trusted base).
   Written from the Yellow Paper, independent of GASOL's sources.

   Modelling choices (see DESIGN.md section 3):
   - words are Z in [0,2^256) (Ref/Word.v); memory is a total map from byte
     addresses (unbounded Z, no 2^64 gas ceiling) to bytes; storage maps words to words;
   - gas is not part of the state; GAS, PC, MSIZE are outside the vocabulary
     (GAS is an event: GASOL splits blocks at it);
   - instructions whose effect depends on the world outside the machine state
     (LOGn, CALL family, CREATE, copies, ASSIGNIMMUTABLE, GAS, and the terminal
     instructions) are *events*: they consume operands, are recorded in the trace
     together with the memory, storage and environment they can observe, and their
     effect on stack/memory/storage/environment is given by an arbitrary function [ext];
   - environment reads are nullary (ADDRESS, CALLER, ...) or unary (BALANCE,
     CALLDATALOAD, EXTCODESIZE, EXTCODEHASH, BLOCKHASH) functions of an
     environment record that only events can change;
   - KECCAK256 is an arbitrary function of the byte string it reads. *)
From Coq Require Import ZArith List Bool Lia.
From GV Require Import Ref.Word.
Import ListNotations.
Local Open Scope Z_scope.

Inductive op1 := ISZERO | NOT.
Inductive op2 :=
  ADD | MUL | SUB | DIV | SDIV | MOD | SMOD | EXP | SIGNEXTEND
| LT | GT | SLT | SGT | EQ | AND | OR | XOR | BYTE | SHL | SHR | SAR.
Inductive op3 := ADDMOD | MULMOD.

(* first argument = top of the stack *)
Definition eval_op1 (o : op1) (a : Z) : Z :=
  match o with ISZERO => wiszero a | NOT => wnot a end.

Definition eval_op2 (o : op2) (a b : Z) : Z :=
  match o with
  | ADD => wadd a b | MUL => wmul a b | SUB => wsub a b
  | DIV => wdiv a b | SDIV => wsdiv a b | MOD => wmod a b | SMOD => wsmod a b
  | EXP => powmod a b | SIGNEXTEND => wsignextend a b
  | LT => wlt a b | GT => wgt a b | SLT => wslt a b | SGT => wsgt a b | EQ => weq a b
  | AND => wand a b | OR => wor a b | XOR => wxor a b
  | BYTE => wbyte a b | SHL => wshl a b | SHR => wshr a b | SAR => wsar a b
  end.

Definition eval_op3 (o : op3) (a b c : Z) : Z :=
  match o with ADDMOD => waddmod a b c | MULMOD => wmulmod a b c end.

(* well-known identifiers of environment reads used by rules (the harness interns
   every other name to numbers >= 100) *)
Definition K_ADDRESS : N := 1.
Definition K_ORIGIN : N := 2.
Definition K_CALLER : N := 3.
Definition K_COINBASE : N := 4.
Definition K_SELFBALANCE : N := 5.
Definition K_BALANCE : N := 1.   (* unary namespace *)

Inductive instr :=
| IPush (v : Z)                  (* PUSHn / PUSH0 with a numeric constant *)
| IPushSym (k : N)               (* PUSH [tag], PUSH data, PUSHLIB, PUSHIMMUTABLE, ...: opaque word *)
| IPop
| IDup (n : nat)                 (* DUPn, n in 1..16 *)
| ISwap (n : nat)                (* SWAPn, n in 1..16 *)
| IOp1 (o : op1) | IOp2 (o : op2) | IOp3 (o : op3)
| IEnv0 (k : N)
| IEnv1 (k : N)
| IMload | IMstore | IMstore8 | ISload | ISstore | IKeccak
| IEvent (k : N) (nin nout : nat).

Record env := {
  e_sym : N -> Z;                (* value of pseudo-push k *)
  e_env0 : N -> Z;
  e_env1 : N -> Z -> Z;
  e_keccak : list Z -> Z
}.

Definition memory := Z -> Z.
Definition storage := Z -> Z.

Record state := { stk : list Z; mem : memory; sto : storage }.

(* --- memory access --------------------------------------------------------- *)
Fixpoint read_be (m : memory) (a : Z) (n : nat) : Z :=
  match n with
  | O => 0
  | S k => read_be m a k * 256 + m (a + Z.of_nat k)
  end.
Definition mload (m : memory) (a : Z) : Z := read_be m a 32.
Definition mstore (m : memory) (a v : Z) : memory :=
  fun x => if (a <=? x) && (x <? a + 32) then (v / 256 ^ (31 - (x - a))) mod 256 else m x.
Definition mstore8 (m : memory) (a v : Z) : memory :=
  fun x => if x =? a then v mod 256 else m x.
Definition sstore (s : storage) (k v : Z) : storage :=
  fun x => if x =? k then v else s x.
Fixpoint mem_range (m : memory) (a : Z) (n : nat) : list Z :=
  match n with
  | O => []
  | S k => m a :: mem_range m (a + 1) k
  end.

(* --- one step of a non-event instruction ------------------------------------ *)
Definition swap_top {A : Type} (n : nat) (s : list A) : option (list A) :=
  match s with
  | [] => None
  | x :: r =>
    match n with
    | O => None
    | S k =>
      match nth_error r k with
      | None => None
      | Some y => Some (y :: firstn k r ++ x :: skipn (S k) r)
      end
    end
  end.

Definition step (e : env) (i : instr) (s : state) : option state :=
  let st := stk s in
  match i with
  | IPush v => Some {| stk := v :: st; mem := mem s; sto := sto s |}
  | IPushSym k => Some {| stk := e_sym e k :: st; mem := mem s; sto := sto s |}
  | IPop => match st with _ :: r => Some {| stk := r; mem := mem s; sto := sto s |} | _ => None end
  | IDup n =>
    if ((1 <=? n) && (n <=? 16))%nat then
      match nth_error st (n - 1) with
      | Some x => Some {| stk := x :: st; mem := mem s; sto := sto s |}
      | None => None
      end
    else None
  | ISwap n =>
    if ((1 <=? n) && (n <=? 16))%nat then
      match swap_top n st with
      | Some st' => Some {| stk := st'; mem := mem s; sto := sto s |}
      | None => None
      end
    else None
  | IOp1 o => match st with a :: r => Some {| stk := eval_op1 o a :: r; mem := mem s; sto := sto s |} | _ => None end
  | IOp2 o => match st with a :: b :: r => Some {| stk := eval_op2 o a b :: r; mem := mem s; sto := sto s |} | _ => None end
  | IOp3 o => match st with a :: b :: c :: r => Some {| stk := eval_op3 o a b c :: r; mem := mem s; sto := sto s |} | _ => None end
  | IEnv0 k => Some {| stk := e_env0 e k :: st; mem := mem s; sto := sto s |}
  | IEnv1 k => match st with a :: r => Some {| stk := e_env1 e k a :: r; mem := mem s; sto := sto s |} | _ => None end
  | IMload => match st with a :: r => Some {| stk := mload (mem s) a :: r; mem := mem s; sto := sto s |} | _ => None end
  | IMstore => match st with a :: v :: r => Some {| stk := r; mem := mstore (mem s) a v; sto := sto s |} | _ => None end
  | IMstore8 => match st with a :: v :: r => Some {| stk := r; mem := mstore8 (mem s) a v; sto := sto s |} | _ => None end
  | ISload => match st with k :: r => Some {| stk := sto s k :: r; mem := mem s; sto := sto s |} | _ => None end
  | ISstore => match st with k :: v :: r => Some {| stk := r; mem := mem s; sto := sstore (sto s) k v |} | _ => None end
  | IKeccak => match st with a :: n :: r =>
                 Some {| stk := e_keccak e (mem_range (mem s) a (Z.to_nat n)) :: r; mem := mem s; sto := sto s |}
               | _ => None end
  | IEvent _ _ _ => None
  end.

(* --- a segment: a list of non-event instructions ---------------------------- *)
Fixpoint exec (e : env) (b : list instr) (s : state) : option state :=
  match b with
  | [] => Some s
  | i :: r => match step e i s with Some s' => exec e r s' | None => None end
  end.

(* --- whole blocks with events ------------------------------------------------ *)
Record event := { ev_k : N; ev_args : list Z; ev_mem : memory; ev_sto : storage; ev_env : env }.
Record response := { rs_outs : list Z; rs_mem : memory; rs_sto : storage; rs_env : env }.

Record bstate := { b_env : env; b_state : state; b_trace : list event }.

Fixpoint run (x : event -> response) (b : list instr) (c : bstate) : option bstate :=
  match b with
  | [] => Some c
  | IEvent k nin nout :: r =>
    let s := b_state c in
    if (length (stk s) <? nin)%nat then None
    else
      let ev := {| ev_k := k; ev_args := firstn nin (stk s); ev_mem := mem s; ev_sto := sto s;
                   ev_env := b_env c |} in
      let rs := x ev in
      run x r {| b_env := rs_env rs;
                 b_state := {| stk := firstn nout (rs_outs rs ++ repeat 0 nout) ++ skipn nin (stk s);
                               mem := rs_mem rs; sto := rs_sto rs |};
                 b_trace := b_trace c ++ [ev] |}
  | i :: r =>
    match step (b_env c) i (b_state c) with
    | Some s' => run x r {| b_env := b_env c; b_state := s'; b_trace := b_trace c |}
    | None => None
    end
  end.

(* --- well-formed states: every word is a word, every byte a byte ------------- *)
Definition wf_env (e : env) : Prop :=
  (forall k, inw (e_sym e k)) /\ (forall k, inw (e_env0 e k)) /\
  (forall k a, inw (e_env1 e k a)) /\ (forall l, inw (e_keccak e l)) /\
  e_env0 e K_ADDRESS < 2 ^ 160 /\ e_env0 e K_ORIGIN < 2 ^ 160 /\
  e_env0 e K_CALLER < 2 ^ 160 /\ e_env0 e K_COINBASE < 2 ^ 160 /\
  e_env0 e K_SELFBALANCE = e_env1 e K_BALANCE (e_env0 e K_ADDRESS).
Definition wf_mem (m : memory) : Prop := forall x, 0 <= m x < 256.
Definition wf_sto (s : storage) : Prop := forall k, inw (s k).
Definition wf_stack (l : list Z) : Prop := Forall inw l.
Definition wf_state (s : state) : Prop := wf_stack (stk s) /\ wf_mem (mem s) /\ wf_sto (sto s).
