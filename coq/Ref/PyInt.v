(* Python integer semantics used by the generated models (Gen/Fold.v, Gen/CheckSize.v,
   Gen/LocalRules.v).  Specification of the *host language*, trusted base: it says what
   CPython 3 computes for the int operators GASOL's folding code uses.

   - ints are unbounded: + - * & | ^ ~ are the Z operations;
   - x % y, x // y: floor semantics (sign of the divisor), ZeroDivisionError when y = 0;
   - x ** y: exact; a result of more than [lim] bits is reported as [PyHuge] instead of being
     computed (the resource bound [lim] is a parameter: every theorem holds for every [lim],
     so whatever amount of memory the real interpreter has, the values it does produce are
     covered);
   - math.floor(x / y): int/int true division is the *correctly rounded* (round-half-even)
     binary64 value of the exact rational (CPython long_true_divide), OverflowError when that
     is >= 2^1024, ZeroDivisionError when y = 0; math.floor of a float is exact.  Modelled
     exactly in Z (53-bit significand, subnormals included).
   - outcome type [pyres]: value, exception kind, or None (function fell off its if-chain).

   Also here: the value type of GASOL's operand lists (ints and variable names mixed in one
   Python list) with Python's == / in semantics on them. *)
From Coq Require Import ZArith Bool Lia String List.
Import ListNotations.
Local Open Scope Z_scope.

(* unfold hints for the generated definitions (filled by Gen/*.v, used by the proof tactics) *)
Create HintDb gen_fold.
Create HintDb gen_rules.
Create HintDb gen_size.

Inductive pyres : Type :=
| PyOk (z : Z)        (* an int *)
| PyZeroDiv           (* ZeroDivisionError *)
| PyOverflow          (* OverflowError: int too large to convert to float *)
| PyHuge              (* result would need more than [lim] bits: not computed (hang/MemoryError) *)
| PyOther             (* any other outcome outside the modelled domain: float result of a
                         negative exponent, ValueError of a negative shift count *)
| PyNone.             (* the function returned None *)

Definition pybind (r : pyres) (f : Z -> pyres) : pyres :=
  match r with PyOk z => f z | e => e end.

(* resource bound used when the model is *executed* (cases files); theorems quantify over it *)
(* below 4300 decimal digits: compute_binary's str(val) raises ValueError above that *)
Definition default_lim : Z := 12000.

Definition py_floordiv (a b : Z) : pyres := if b =? 0 then PyZeroDiv else PyOk (a / b).
Definition py_mod (a b : Z) : pyres := if b =? 0 then PyZeroDiv else PyOk (a mod b).

(* square-and-multiply; equal to Z.pow (lemma in Model/FoldProofs.v) but usable under vm_compute *)
Fixpoint pow_pos_fast (a : Z) (p : positive) : Z :=
  match p with
  | xH => a
  | xO q => let r := pow_pos_fast a q in r * r
  | xI q => let r := pow_pos_fast a q in r * r * a
  end.
Definition zpow_fast (a b : Z) : Z :=
  match b with Z0 => 1 | Zpos p => pow_pos_fast a p | Zneg _ => 0 end.

Definition py_pow (lim a b : Z) : pyres :=
  if b <? 0 then (if a =? 0 then PyZeroDiv else PyOther)
  else if Z.abs a <=? 1 then
    PyOk (if b =? 0 then 1 else if a =? 0 then 0 else if a =? 1 then 1 else if Z.even b then 1 else -1)
  else if lim <? b * Z.log2 (Z.abs a) then PyHuge
  else PyOk (zpow_fast a b).

(* pow(a, b, m) *)
Fixpoint powmod_pos_fast (m a : Z) (p : positive) : Z :=
  match p with
  | xH => a mod m
  | xO q => let r := powmod_pos_fast m a q in (r * r) mod m
  | xI q => let r := powmod_pos_fast m a q in (((r * r) mod m) * a) mod m
  end.
Definition py_powmod (a b m : Z) : pyres :=
  if m =? 0 then PyOther (* ValueError *)
  else match b with
       | Z0 => PyOk (1 mod m)
       | Zpos p => PyOk (powmod_pos_fast m a p)
       | Zneg _ => PyOther (* modular inverse: not modelled *)
       end.

(* x >> y, x << y *)
Definition py_rshift (a b : Z) : pyres :=
  if b <? 0 then PyOther
  else if Z.log2 (Z.abs a) + 1 <? b then PyOk (if a <? 0 then -1 else 0)
  else PyOk (Z.shiftr a b).
Definition py_lshift (lim a b : Z) : pyres :=
  if b <? 0 then PyOther
  else if a =? 0 then PyOk 0
  else if lim <? b then PyHuge
  else PyOk (a * zpow_fast 2 b).

(* ---- int / int -> binary64 -> math.floor ------------------------------------------- *)
(* [zpow_fast 2 k] is 2^k (lemma zpow_fast_spec in Model/FoldProofs.v) *)

(* round-half-even of n/d for n >= 0, d > 0 *)
Definition round_half_even (n d : Z) : Z :=
  let q := n / d in
  let r := n mod d in
  if 2 * r <? d then q
  else if d <? 2 * r then q + 1
  else if Z.even q then q else q + 1.

(* is n/d >= 2^k ? *)
Definition ratio_ge_pow2 (n d k : Z) : bool :=
  if 0 <=? k then d * zpow_fast 2 k <=? n else d <=? n * zpow_fast 2 (- k).

(* floor(log2(n/d)) for n, d > 0 *)
Definition ratio_log2 (n d : Z) : Z :=
  let k := Z.log2 n - Z.log2 d in
  if ratio_ge_pow2 n d k then k else k - 1.

(* nearest binary64 to n/d (n, d > 0) as significand * 2^exponent *)
Definition float_of_ratio (n d : Z) : Z * Z :=
  let e := Z.max (ratio_log2 n d - 52) (-1074) in
  let m := if 0 <=? e then round_half_even n (d * zpow_fast 2 e) else round_half_even (n * zpow_fast 2 (- e)) d in
  (m, e).

(* math.floor(a / b) *)
Definition py_truediv_floor (a b : Z) : pyres :=
  if b =? 0 then PyZeroDiv
  else if a =? 0 then PyOk 0
  else
    let s := Z.sgn a * Z.sgn b in
    let (m, e) := float_of_ratio (Z.abs a) (Z.abs b) in
    if 0 <=? e then
      (if zpow_fast 2 1024 <=? m * zpow_fast 2 e then PyOverflow else PyOk (s * m * zpow_fast 2 e))
    else PyOk ((s * m) / zpow_fast 2 (- e)).

(* ---- sfs_generator/utils.py: number_encoding_size ----------------------------------- *)
(* def number_encoding_size(number):
       i = 0
       if number < 0: number = (2**256)+number
       while number != 0: i += 1; number = number >> 8
       return i
   Used through an idiom hint of the translator (which checks the fingerprint of the
   function's AST and fails closed when it changes) and compared with the real function
   by the differential check.  For number < -2^256 the Python loop does not terminate;
   the model returns 0 there (outside the domain of every theorem). *)
Definition number_encoding_size (number : Z) : Z :=
  let n := if number <? 0 then 2 ^ 256 + number else number in
  if n <=? 0 then 0 else Z.log2 n / 8 + 1.

(* ---- mixed operand lists ------------------------------------------------------------ *)
(* instr["inpt_sk"] holds Python ints and variable names (strings "s(k)"); generate_userdefname
   converts every digit string to int, so a string element is always a variable name. *)
Inductive operand : Type := OInt (z : Z) | OVar (n : nat).

(* Python ==: int/int numeric, str/str by characters, int/str False *)
Definition op_eq (a b : operand) : bool :=
  match a, b with
  | OInt x, OInt y => x =? y
  | OVar n, OVar m => Nat.eqb n m
  | _, _ => false
  end.
(* x in l *)
Definition op_in (x : operand) (l : list operand) : bool := existsb (fun e => op_eq e x) l.
(* l[k] for a literal k; IndexError is outside the model: lists have the instruction's arity *)
Definition op_nth (k : nat) (l : list operand) : operand := nth k l (OInt 0).
Definition is_int (o : operand) : bool := match o with OInt _ => true | OVar _ => false end.
(* int(o), used only under the guard all_integers(...) *)
Definition as_int (o : operand) : Z := match o with OInt z => z | OVar _ => 0 end.
(* utils.all_integers(l)[0] (fingerprint-checked hint) *)
Definition all_integers (l : list operand) : bool := forallb is_int l.
Definition str_in (s : string) (l : list string) : bool := existsb (String.eqb s) l.

(* increments of the module globals and the rule name set by a firing branch *)
Record effects : Type := mkEff {
  eff_discount_op : Z; eff_saved_push : Z; eff_gas_saved_op : Z; eff_rule : string }.

Inductive rule_res : Type :=
| NoRule                                  (* return -1 *)
| Replace (o : operand) (e : effects)     (* return <operand> *)
| RuleNone.                               (* fell off the if-chain: returns None *)
