(* Reference semantics of EVM 256-bit word operations (specification; trusted base).
   Written from the Yellow Paper / EIP-145, not from GASOL's sources.
   Words are integers in [0, 2^256); every operation reduces explicitly. *)
From Coq Require Import ZArith Bool Lia.
Local Open Scope Z_scope.

Definition W : Z := 2 ^ 256.
Definition HALF : Z := 2 ^ 255.
Definition wrap (z : Z) : Z := z mod W.
Definition inw (z : Z) : Prop := 0 <= z < W.
Definition b2z (b : bool) : Z := if b then 1 else 0.

(* two's complement reading *)
Definition sgn (x : Z) : Z := if x <? HALF then x else x - W.

Definition wadd (a b : Z) := wrap (a + b).
Definition wsub (a b : Z) := wrap (a - b).
Definition wmul (a b : Z) := wrap (a * b).
Definition wdiv (a b : Z) := if b =? 0 then 0 else a / b.
Definition wsdiv (a b : Z) := if b =? 0 then 0 else wrap (Z.quot (sgn a) (sgn b)).
Definition wmod (a b : Z) := if b =? 0 then 0 else a mod b.
Definition wsmod (a b : Z) := if b =? 0 then 0 else wrap (Z.rem (sgn a) (sgn b)).
Definition waddmod (a b n : Z) := if n =? 0 then 0 else (a + b) mod n.
Definition wmulmod (a b n : Z) := if n =? 0 then 0 else (a * b) mod n.
Definition wexp (a b : Z) := wrap (a ^ b).
Definition wsignextend (b x : Z) :=
  if b <? 31 then
    let k := 8 * b + 7 in
    if Z.testbit x k then Z.lor x (W - 2 ^ (k + 1)) else Z.land x (2 ^ (k + 1) - 1)
  else x.
Definition wlt (a b : Z) := b2z (a <? b).
Definition wgt (a b : Z) := b2z (b <? a).
Definition wslt (a b : Z) := b2z (sgn a <? sgn b).
Definition wsgt (a b : Z) := b2z (sgn b <? sgn a).
Definition weq (a b : Z) := b2z (a =? b).
Definition wiszero (a : Z) := b2z (a =? 0).
Definition wand (a b : Z) := Z.land a b.
Definition wor (a b : Z) := Z.lor a b.
Definition wxor (a b : Z) := Z.lxor a b.
Definition wnot (a : Z) := W - 1 - a.
Definition wbyte (i x : Z) := if i <? 32 then (x / 2 ^ (8 * (31 - i))) mod 256 else 0.
(* shift amount is the first (top-of-stack) operand *)
Definition wshl (s x : Z) := if s <? 256 then wrap (x * 2 ^ s) else 0.
Definition wshr (s x : Z) := if s <? 256 then x / 2 ^ s else 0.
Definition wsar (s x : Z) :=
  if s <? 256 then wrap (sgn x / 2 ^ s) else if sgn x <? 0 then W - 1 else 0.

(* Executable modular exponentiation, proved equal to the specification [wexp]. *)
Fixpoint powmod_pos (a : Z) (p : positive) : Z :=
  match p with
  | xH => wrap a
  | xO q => let r := powmod_pos a q in wrap (r * r)
  | xI q => let r := powmod_pos a q in wrap (wrap (r * r) * a)
  end.
Definition powmod (a b : Z) : Z :=
  match b with
  | Z0 => wrap 1
  | Zpos p => powmod_pos a p
  | Zneg _ => wrap 1
  end.
