(* Algebraic identities of the reference word operations (Ref/Word.v) used by the local rewrite
   rules of GASOL's apply_transform.  Rewrite db [wordalg]. *)
From Coq Require Import ZArith Bool Lia.
From GV Require Import Ref.Word Ref.WordLemmas.
Local Open Scope Z_scope.

Lemma ones_bits i : 0 <= i < 256 -> Z.testbit (W - 1) i = true.
Proof.
  intros Hi. unfold W. replace (2 ^ 256 - 1) with (Z.ones 256) by (rewrite Z.ones_equiv; reflexivity).
  apply Z.ones_spec_low. lia.
Qed.

Lemma wand_0_l x : wand 0 x = 0. Proof. apply Z.land_0_l. Qed.
Lemma wand_0_r x : wand x 0 = 0. Proof. apply Z.land_0_r. Qed.
Lemma wand_diag x : wand x x = x. Proof. apply Z.land_diag. Qed.
Lemma wand_ones_l x : inw x -> wand (W - 1) x = x.
Proof.
  intros Hx. unfold wand. apply Z.bits_inj'. intros i Hi. rewrite Z.land_spec.
  destruct (Z_lt_le_dec i 256).
  - rewrite ones_bits by lia. reflexivity.
  - rewrite (bits_inw x i Hx) by lia. apply andb_false_r.
Qed.
Lemma wand_ones_r x : inw x -> wand x (W - 1) = x.
Proof. intros. unfold wand. rewrite Z.land_comm. apply wand_ones_l. assumption. Qed.
Lemma wor_0_l x : wor 0 x = x. Proof. apply Z.lor_0_l. Qed.
Lemma wor_0_r x : wor x 0 = x. Proof. apply Z.lor_0_r. Qed.
Lemma wor_diag x : wor x x = x. Proof. apply Z.lor_diag. Qed.
Lemma wxor_diag x : wxor x x = 0. Proof. apply Z.lxor_nilpotent. Qed.
Lemma wxor_0_l x : wxor 0 x = x. Proof. apply Z.lxor_0_l. Qed.
Lemma wxor_0_r x : wxor x 0 = x. Proof. apply Z.lxor_0_r. Qed.

Lemma wexp_0_r x : wexp x 0 = 1. Proof. reflexivity. Qed.
Lemma wexp_1_r x : inw x -> wexp x 1 = x.
Proof. intros. unfold wexp. rewrite Z.pow_1_r. apply wrap_small. assumption. Qed.
Lemma wexp_1_l x : inw x -> wexp 1 x = 1.
Proof. intros [H _]. unfold wexp. rewrite Z.pow_1_l by assumption. reflexivity. Qed.

Lemma wadd_0_l x : inw x -> wadd 0 x = x. Proof. intros. unfold wadd. apply wrap_small. assumption. Qed.
Lemma wadd_0_r x : inw x -> wadd x 0 = x.
Proof. intros. unfold wadd. rewrite Z.add_0_r. apply wrap_small. assumption. Qed.
Lemma wsub_0_r x : inw x -> wsub x 0 = x.
Proof. intros. unfold wsub. rewrite Z.sub_0_r. apply wrap_small. assumption. Qed.
Lemma wsub_diag x : wsub x x = 0. Proof. unfold wsub. rewrite Z.sub_diag. reflexivity. Qed.
Lemma wmul_0_l x : wmul 0 x = 0. Proof. reflexivity. Qed.
Lemma wmul_0_r x : wmul x 0 = 0. Proof. unfold wmul. rewrite Z.mul_0_r. reflexivity. Qed.
Lemma wmul_1_l x : inw x -> wmul 1 x = x.
Proof. intros. unfold wmul. rewrite Z.mul_1_l. apply wrap_small. assumption. Qed.
Lemma wmul_1_r x : inw x -> wmul x 1 = x.
Proof. intros. unfold wmul. rewrite Z.mul_1_r. apply wrap_small. assumption. Qed.

Lemma wdiv_1_r x : wdiv x 1 = x. Proof. unfold wdiv. simpl. apply Z.div_1_r. Qed.
Lemma wdiv_0_l x : wdiv 0 x = 0. Proof. unfold wdiv. destruct (x =? 0); [reflexivity|apply Zdiv_0_l]. Qed.
Lemma wdiv_0_r x : wdiv x 0 = 0. Proof. reflexivity. Qed.
Lemma wdiv_diag x : x <> 0 -> wdiv x x = 1.
Proof. intros H. unfold wdiv. apply Z.eqb_neq in H. rewrite H. apply Z.div_same. apply Z.eqb_neq. assumption. Qed.

Lemma sgn_0 : sgn 0 = 0. Proof. reflexivity. Qed.
Lemma sgn_1 : sgn 1 = 1. Proof. reflexivity. Qed.
Lemma sgn_eq_0 x : inw x -> sgn x = 0 -> x = 0.
Proof. unfold sgn, inw. pose proof W_eq. destruct (x <? HALF) eqn:E; lia. Qed.

Lemma wsdiv_1_r x : inw x -> wsdiv x 1 = x.
Proof. intros. unfold wsdiv. simpl (1 =? 0). rewrite sgn_1, Z.quot_1_r. apply wrap_sgn. assumption. Qed.
Lemma wsdiv_0_l x : wsdiv 0 x = 0.
Proof. unfold wsdiv. destruct (x =? 0); [reflexivity|]. rewrite sgn_0. destruct (sgn x); reflexivity. Qed.
Lemma wsdiv_0_r x : wsdiv x 0 = 0. Proof. reflexivity. Qed.
Lemma wsdiv_diag x : inw x -> x <> 0 -> wsdiv x x = 1.
Proof.
  intros Hx H. unfold wsdiv. apply Z.eqb_neq in H. rewrite H. apply Z.eqb_neq in H.
  rewrite Z.quot_same; [reflexivity|]. intros E. apply H. apply sgn_eq_0; assumption.
Qed.

Lemma wmod_1_r x : wmod x 1 = 0. Proof. unfold wmod. simpl. apply Z.mod_1_r. Qed.
Lemma wmod_diag x : wmod x x = 0.
Proof. unfold wmod. destruct (x =? 0) eqn:E; [reflexivity|]. apply Z.mod_same. apply Z.eqb_neq. assumption. Qed.
Lemma wmod_0_r x : wmod x 0 = 0. Proof. reflexivity. Qed.

Lemma weq_diag x : weq x x = 1. Proof. unfold weq. rewrite Z.eqb_refl. reflexivity. Qed.
Lemma wgt_0_l x : inw x -> wgt 0 x = 0.
Proof. intros [H _]. unfold wgt. replace (x <? 0) with false; [reflexivity|]. symmetry. apply Z.ltb_ge. assumption. Qed.
Lemma wlt_0_r x : inw x -> wlt x 0 = 0.
Proof. intros [H _]. unfold wlt. replace (x <? 0) with false; [reflexivity|]. symmetry. apply Z.ltb_ge. assumption. Qed.
Lemma wgt_diag x : wgt x x = 0. Proof. unfold wgt. rewrite Z.ltb_irrefl. reflexivity. Qed.
Lemma wlt_diag x : wlt x x = 0. Proof. unfold wlt. rewrite Z.ltb_irrefl. reflexivity. Qed.
Lemma wsgt_diag x : wsgt x x = 0. Proof. unfold wsgt. rewrite Z.ltb_irrefl. reflexivity. Qed.
Lemma wslt_diag x : wslt x x = 0. Proof. unfold wslt. rewrite Z.ltb_irrefl. reflexivity. Qed.

Lemma wiszero_0 : wiszero 0 = 1. Proof. reflexivity. Qed.
Lemma wiszero_1 : wiszero 1 = 0. Proof. reflexivity. Qed.
Lemma wnot_alt x : Z.lnot x + 2 ^ 256 = wnot x.
Proof. unfold wnot, Z.lnot. change (2 ^ 256) with W. lia. Qed.

Lemma wshl_0_l x : inw x -> wshl 0 x = x.
Proof. intros. unfold wshl. simpl (0 <? 256). rewrite Z.pow_0_r, Z.mul_1_r. apply wrap_small. assumption. Qed.
Lemma wshl_0_r s : wshl s 0 = 0.
Proof. unfold wshl. destruct (s <? 256); reflexivity. Qed.
Lemma wshr_0_l x : wshr 0 x = x.
Proof. unfold wshr. simpl (0 <? 256). rewrite Z.pow_0_r. apply Z.div_1_r. Qed.
Lemma wshr_0_r s : wshr s 0 = 0.
Proof. unfold wshr. destruct (s <? 256); [apply Zdiv_0_l|reflexivity]. Qed.

#[export] Hint Rewrite wand_0_l wand_0_r wand_diag wor_0_l wor_0_r wor_diag wxor_diag wxor_0_l wxor_0_r
  wexp_0_r wsub_diag wmul_0_l wmul_0_r wdiv_1_r wdiv_0_l wdiv_0_r wsdiv_0_l wsdiv_0_r
  wmod_1_r wmod_diag wmod_0_r weq_diag wgt_diag wlt_diag wsgt_diag wslt_diag wiszero_0 wiszero_1
  wnot_alt wshl_0_r wshr_0_l wshr_0_r : wordalg.
#[export] Hint Rewrite wand_ones_l wand_ones_r wexp_1_r wexp_1_l wadd_0_l wadd_0_r wsub_0_r wmul_1_l wmul_1_r
  wsdiv_1_r wgt_0_l wlt_0_r wshl_0_l wdiv_diag wsdiv_diag using (assumption || auto) : wordalg.
