(* Range lemmas and algebraic identities of the reference word operations. *)
From Coq Require Import ZArith Bool Lia.
From GV Require Import Ref.Word.
Local Open Scope Z_scope.

Lemma W_pos : 0 < W.
Proof. unfold W. apply Z.pow_pos_nonneg; lia. Qed.

Lemma W_eq : W = 2 * HALF.
Proof. unfold W, HALF. change 256 with (1 + 255). rewrite Z.pow_add_r by lia. reflexivity. Qed.

Lemma HALF_pos : 0 < HALF.
Proof. unfold HALF. apply Z.pow_pos_nonneg; lia. Qed.

Lemma wrap_range z : inw (wrap z).
Proof. unfold inw, wrap. apply Z.mod_pos_bound, W_pos. Qed.

Lemma wrap_small z : inw z -> wrap z = z.
Proof. unfold inw, wrap. intros. apply Z.mod_small; assumption. Qed.

Lemma wrap_wrap z : wrap (wrap z) = wrap z.
Proof. apply wrap_small, wrap_range. Qed.

Lemma b2z_range b : inw (b2z b).
Proof. pose proof W_eq; pose proof HALF_pos. destruct b; unfold inw; simpl; lia. Qed.

Lemma sgn_range x : inw x -> - HALF <= sgn x < HALF.
Proof. unfold inw, sgn. pose proof W_eq. intros. destruct (x <? HALF) eqn:E; lia. Qed.

Lemma wrap_sgn x : inw x -> wrap (sgn x) = x.
Proof.
  unfold sgn. intros H. destruct (x <? HALF).
  - apply wrap_small; assumption.
  - unfold wrap. replace (x - W) with (x + (-1) * W) by ring.
    rewrite Z.mod_add by (pose proof W_pos; lia). apply Z.mod_small. exact H.
Qed.

Lemma powmod_pos_spec a p : powmod_pos a p = wrap (a ^ Zpos p).
Proof.
  pose proof W_pos as HW.
  induction p as [q IH|q IH|]; cbn [powmod_pos].
  - rewrite IH. unfold wrap. rewrite Pos2Z.inj_xI.
    replace (2 * Z.pos q + 1) with (Z.pos q + Z.pos q + 1) by lia.
    rewrite !Z.pow_add_r by lia. rewrite Z.pow_1_r.
    rewrite <- Z.mul_mod by lia. rewrite Z.mul_mod_idemp_l by lia. reflexivity.
  - rewrite IH. unfold wrap. rewrite Pos2Z.inj_xO.
    replace (2 * Z.pos q) with (Z.pos q + Z.pos q) by lia.
    rewrite Z.pow_add_r by lia. rewrite <- Z.mul_mod by lia. reflexivity.
  - rewrite Z.pow_1_r. reflexivity.
Qed.

Lemma powmod_spec a b : 0 <= b -> powmod a b = wexp a b.
Proof.
  intros Hb. unfold wexp. destruct b as [|p|p]; cbn [powmod].
  - reflexivity.
  - apply powmod_pos_spec.
  - lia.
Qed.

(* every operation maps words to words *)
Lemma wadd_range a b : inw (wadd a b). Proof. apply wrap_range. Qed.
Lemma wsub_range a b : inw (wsub a b). Proof. apply wrap_range. Qed.
Lemma wmul_range a b : inw (wmul a b). Proof. apply wrap_range. Qed.
Lemma wexp_range a b : inw (wexp a b). Proof. apply wrap_range. Qed.

Lemma wdiv_range a b : inw a -> inw b -> inw (wdiv a b).
Proof.
  unfold inw, wdiv. intros Ha Hb. destruct (b =? 0) eqn:E; [pose proof W_pos; lia|].
  apply Z.eqb_neq in E. split.
  - apply Z.div_pos; lia.
  - apply Z.le_lt_trans with a; [|lia]. apply Z.div_le_upper_bound; nia.
Qed.

Lemma wmod_range a b : inw a -> inw b -> inw (wmod a b).
Proof.
  unfold inw, wmod. intros Ha Hb. destruct (b =? 0) eqn:E; [pose proof W_pos; lia|].
  apply Z.eqb_neq in E. pose proof (Z.mod_pos_bound a b). lia.
Qed.

Lemma wsdiv_range a b : inw (wsdiv a b).
Proof. unfold wsdiv. destruct (b =? 0); [apply (b2z_range false)|apply wrap_range]. Qed.
Lemma wsmod_range a b : inw (wsmod a b).
Proof. unfold wsmod. destruct (b =? 0); [apply (b2z_range false)|apply wrap_range]. Qed.

Lemma waddmod_range a b n : inw n -> inw (waddmod a b n).
Proof.
  unfold inw, waddmod. intros Hn. destruct (n =? 0) eqn:E; [pose proof W_pos; lia|].
  apply Z.eqb_neq in E. pose proof (Z.mod_pos_bound (a + b) n). lia.
Qed.
Lemma wmulmod_range a b n : inw n -> inw (wmulmod a b n).
Proof.
  unfold inw, wmulmod. intros Hn. destruct (n =? 0) eqn:E; [pose proof W_pos; lia|].
  apply Z.eqb_neq in E. pose proof (Z.mod_pos_bound (a * b) n). lia.
Qed.

Lemma wlt_range a b : inw (wlt a b). Proof. apply b2z_range. Qed.
Lemma wgt_range a b : inw (wgt a b). Proof. apply b2z_range. Qed.
Lemma wslt_range a b : inw (wslt a b). Proof. apply b2z_range. Qed.
Lemma wsgt_range a b : inw (wsgt a b). Proof. apply b2z_range. Qed.
Lemma weq_range a b : inw (weq a b). Proof. apply b2z_range. Qed.
Lemma wiszero_range a : inw (wiszero a). Proof. apply b2z_range. Qed.

Lemma inw_bits z : 0 <= z -> (forall i, 256 <= i -> Z.testbit z i = false) -> inw z.
Proof.
  intros Hz Hb. split; [assumption|].
  destruct (Z.eq_dec z 0) as [->|Hne]; [apply W_pos|].
  assert (Hl : Z.log2 z < 256).
  { destruct (Z_lt_le_dec (Z.log2 z) 256) as [|Hge]; [assumption|].
    specialize (Hb _ Hge). rewrite Z.bit_log2 in Hb by lia. discriminate. }
  unfold W. apply Z.log2_lt_pow2; lia.
Qed.

Lemma bits_inw z i : inw z -> 256 <= i -> Z.testbit z i = false.
Proof.
  intros [H0 H1] Hi. destruct (Z.eq_dec z 0) as [->|Hne]; [apply Z.bits_0|].
  apply Z.bits_above_log2; [assumption|].
  assert (Z.log2 z < 256) by (apply Z.log2_lt_pow2; [lia|exact H1]). lia.
Qed.

Lemma wand_range a b : inw a -> inw b -> inw (wand a b).
Proof.
  intros Ha Hb. apply inw_bits.
  - apply Z.land_nonneg. left. apply Ha.
  - intros i Hi. unfold wand. rewrite Z.land_spec, (bits_inw a i Ha Hi). reflexivity.
Qed.
Lemma wor_range a b : inw a -> inw b -> inw (wor a b).
Proof.
  intros Ha Hb. apply inw_bits.
  - apply Z.lor_nonneg. split; [apply Ha|apply Hb].
  - intros i Hi. unfold wor. rewrite Z.lor_spec, (bits_inw a i Ha Hi), (bits_inw b i Hb Hi). reflexivity.
Qed.
Lemma wxor_range a b : inw a -> inw b -> inw (wxor a b).
Proof.
  intros Ha Hb. apply inw_bits.
  - apply Z.lxor_nonneg. split; intros _; [apply Hb|apply Ha].
  - intros i Hi. unfold wxor. rewrite Z.lxor_spec, (bits_inw a i Ha Hi), (bits_inw b i Hb Hi). reflexivity.
Qed.
Lemma wnot_range a : inw a -> inw (wnot a).
Proof. unfold inw, wnot. lia. Qed.

Lemma wbyte_range i x : inw (wbyte i x).
Proof.
  unfold wbyte. destruct (i <? 32); [|apply (b2z_range false)].
  pose proof (Z.mod_pos_bound (x / 2 ^ (8 * (31 - i))) 256 ltac:(lia)).
  unfold inw. assert (256 < W) by (unfold W; apply (Z.pow_lt_mono_r 2 8 256); lia). lia.
Qed.
Lemma wshl_range s x : inw (wshl s x).
Proof. unfold wshl. destruct (s <? 256); [apply wrap_range|apply (b2z_range false)]. Qed.
Lemma wshr_range s x : inw x -> 0 <= s -> inw (wshr s x).
Proof.
  unfold wshr, inw. intros Hx Hs. destruct (s <? 256); [|pose proof W_pos; lia].
  assert (0 < 2 ^ s) by (apply Z.pow_pos_nonneg; lia). split.
  - apply Z.div_pos; lia.
  - apply Z.le_lt_trans with x; [|lia]. apply Z.div_le_upper_bound; nia.
Qed.
Lemma wsar_range s x : inw (wsar s x).
Proof.
  unfold wsar. destruct (s <? 256); [apply wrap_range|].
  destruct (sgn x <? 0); [|apply (b2z_range false)]. pose proof W_pos. unfold inw. lia.
Qed.
Lemma wsignextend_range b x : inw x -> 0 <= b -> inw (wsignextend b x).
Proof.
  intros Hx Hb. unfold wsignextend. destruct (b <? 31) eqn:E; [|assumption].
  apply Z.ltb_lt in E. set (k := 8 * b + 7).
  assert (Hk : 0 <= k + 1 <= 256) by (unfold k; lia).
  assert (Hp : 0 < 2 ^ (k + 1) <= W).
  { split; [apply Z.pow_pos_nonneg; lia|]. unfold W. apply Z.pow_le_mono_r; lia. }
  destruct (Z.testbit x k).
  - apply wor_range; [assumption|]. unfold inw. lia.
  - apply wand_range; [assumption|]. unfold inw. lia.
Qed.
