(* Facts about the reference memory and storage operations. *)
From Coq Require Import ZArith List Bool Lia.
From GV Require Import Ref.Word Ref.WordLemmas Ref.EVM.
Import ListNotations.
Local Open Scope Z_scope.

Lemma mstore_other m a v x : ~ (a <= x < a + 32) -> mstore m a v x = m x.
Proof.
  intros H. unfold mstore. destruct (Z.leb_spec a x), (Z.ltb_spec x (a + 32)); simpl; try reflexivity. lia.
Qed.
Lemma mstore_in m a v x : a <= x < a + 32 -> mstore m a v x = (v / 256 ^ (31 - (x - a))) mod 256.
Proof.
  intros H. unfold mstore. destruct (Z.leb_spec a x), (Z.ltb_spec x (a + 32)); simpl; try reflexivity; lia.
Qed.
Lemma mstore8_other m a v x : x <> a -> mstore8 m a v x = m x.
Proof. intros H. unfold mstore8. destruct (Z.eqb_spec x a); [contradiction|reflexivity]. Qed.
Lemma mstore8_in m a v : mstore8 m a v a = v mod 256.
Proof. unfold mstore8. rewrite Z.eqb_refl. reflexivity. Qed.
Lemma sstore_other s k v x : x <> k -> sstore s k v x = s x.
Proof. intros H. unfold sstore. destruct (Z.eqb_spec x k); [contradiction|reflexivity]. Qed.
Lemma sstore_same s k v : sstore s k v k = v.
Proof. unfold sstore. rewrite Z.eqb_refl. reflexivity. Qed.

Lemma read_be_ext m1 m2 a n :
  (forall i, 0 <= i < Z.of_nat n -> m1 (a + i) = m2 (a + i)) -> read_be m1 a n = read_be m2 a n.
Proof.
  induction n as [|n IH]; intros H; [reflexivity|]. cbn [read_be].
  rewrite IH by (intros i Hi; apply H; lia). rewrite H by lia. reflexivity.
Qed.
Lemma mload_ext m1 m2 a : (forall x, a <= x < a + 32 -> m1 x = m2 x) -> mload m1 a = mload m2 a.
Proof. intros H. unfold mload. apply read_be_ext. intros i Hi. apply H. simpl in Hi. lia. Qed.
Lemma mem_range_ext m1 m2 n : forall a,
  (forall x, a <= x < a + Z.of_nat n -> m1 x = m2 x) -> mem_range m1 a n = mem_range m2 a n.
Proof.
  induction n as [|n IH]; intros a H; [reflexivity|]. cbn [mem_range].
  rewrite (H a) by lia. f_equal. apply IH. intros x Hx. apply H. lia.
Qed.

Lemma mod_step u p : 0 < p -> (u / 256) mod p * 256 + u mod 256 = u mod (256 * p).
Proof. intros Hp. rewrite Z.rem_mul_r by lia. lia. Qed.

Lemma read_be_mstore m a v n : (n <= 32)%nat ->
  read_be (mstore m a v) a n = v / 256 ^ (32 - Z.of_nat n) mod 256 ^ Z.of_nat n.
Proof.
  induction n as [|n IH]; intros Hn.
  - simpl. rewrite Z.mod_1_r. reflexivity.
  - cbn [read_be]. rewrite IH by lia. rewrite mstore_in by lia.
    replace (31 - (a + Z.of_nat n - a)) with (31 - Z.of_nat n) by lia.
    rewrite Nat2Z.inj_succ.
    replace (32 - Z.of_nat n) with (Z.succ (31 - Z.of_nat n)) by lia.
    replace (32 - Z.succ (Z.of_nat n)) with (31 - Z.of_nat n) by lia.
    set (k := 31 - Z.of_nat n). assert (Hk : 0 <= k) by (unfold k; lia).
    rewrite !Z.pow_succ_r by lia.
    assert (Hq : v / (256 * 256 ^ k) = v / 256 ^ k / 256).
    { rewrite (Z.mul_comm 256). rewrite Z.div_div; [reflexivity| |lia].
      pose proof (Z.pow_pos_nonneg 256 k); lia. }
    rewrite Hq. apply mod_step. apply Z.pow_pos_nonneg; lia.
Qed.

Lemma mload_mstore_same m a v : inw v -> mload (mstore m a v) a = v.
Proof.
  intros Hv. unfold mload. rewrite read_be_mstore by lia.
  change (32 - Z.of_nat 32) with 0. rewrite Z.pow_0_r, Z.div_1_r.
  change (256 ^ Z.of_nat 32) with W. apply Z.mod_small. exact Hv.
Qed.

Lemma read_be_byte m a n : (forall x, 0 <= m x < 256) -> forall i, 0 <= i < Z.of_nat n ->
  (read_be m a n / 256 ^ (Z.of_nat n - 1 - i)) mod 256 = m (a + i).
Proof.
  intros Hm. induction n as [|n IH]; intros i Hi; [simpl in Hi; lia|].
  cbn [read_be]. rewrite Nat2Z.inj_succ.
  destruct (Z.eq_dec i (Z.of_nat n)) as [->|Hne].
  - replace (Z.succ (Z.of_nat n) - 1 - Z.of_nat n) with 0 by lia. rewrite Z.pow_0_r, Z.div_1_r.
    rewrite Z.add_comm, Z.mod_add by lia. apply Z.mod_small. apply Hm.
  - replace (Z.succ (Z.of_nat n) - 1 - i) with (Z.succ (Z.of_nat n - 1 - i)) by lia.
    rewrite Z.pow_succ_r by lia. rewrite <- Z.div_div; [| lia | apply Z.pow_pos_nonneg; lia].
    rewrite Z.div_add_l by lia. rewrite (Z.div_small (m (a + Z.of_nat n))) by apply Hm.
    rewrite Z.add_0_r. apply IH. lia.
Qed.

Lemma mstore_mload_same m a x : (forall y, 0 <= m y < 256) -> mstore m a (mload m a) x = m x.
Proof.
  intros Hm. destruct (Z_le_dec a x) as [H1|H1]; [destruct (Z_lt_dec x (a + 32)) as [H2|H2]|].
  - rewrite mstore_in by lia. unfold mload.
    pose proof (read_be_byte m a 32 Hm (x - a) ltac:(simpl; lia)) as H.
    change (Z.of_nat 32 - 1) with 31 in H. rewrite H. f_equal. lia.
  - apply mstore_other. lia.
  - apply mstore_other. lia.
Qed.
