(* Normaliser of symbolic terms (executable; proofs in NormProofs.v).
   Constant folding with the reference semantics, canonical argument order for
   commutative operators, GT/SGT expressed as LT/SLT, the algebraic rewrites that
   GASOL's rule set contains (only those that are identities on 256-bit words),
   and memory/storage read simplification (forwarding, skipping of provably
   disjoint stores). *)
From Coq Require Import ZArith List Bool Lia.
From GV Require Import Ref.Word Ref.EVM Sym.Term.
Import ListNotations.
Local Open Scope Z_scope.

Definition is_c (t : term) (z : Z) : bool :=
  match t with TConst c => Z.eqb c z | _ => false end.

Definition is_boolt (t : term) : bool :=
  match t with
  | TOp1 ISZERO _ => true
  | TOp2 LT _ _ | TOp2 GT _ _ | TOp2 SLT _ _ | TOp2 SGT _ _ | TOp2 EQ _ _ => true
  | TConst z => (z =? 0) || (z =? 1)
  | _ => false
  end.

Definition is_addr (t : term) : bool :=
  match t with
  | TEnv0 k => (N.eqb k K_ADDRESS || N.eqb k K_ORIGIN || N.eqb k K_CALLER || N.eqb k K_COINBASE)%bool
  | _ => false
  end.

Definition commutative (o : op2) : bool :=
  match o with ADD | MUL | AND | OR | XOR | EQ => true | _ => false end.

Definition inner (o : op2) (t : term) : option (term * term) :=
  match t with
  | TOp2 o' x y => if op2_eqb o o' then Some (x, y) else None
  | _ => None
  end.

Definition is_not_of (t x : term) : bool :=
  match t with TOp1 NOT y => term_eqb x y | _ => false end.

Definition mk2 (o : op2) (a b : term) : term :=
  if commutative o then
    match term_cmp a b with Gt => TOp2 o b a | _ => TOp2 o a b end
  else TOp2 o a b.

(* one-of test on the two arguments of an inner node *)
Definition among (x : term) (p : term * term) : bool := term_eqb x (fst p) || term_eqb x (snd p).

Definition s_iszero (a : term) : term :=
  match a with
  | TConst z => TConst (wiszero z)
  | TOp1 ISZERO b =>
    match b with
    | TOp1 ISZERO c => TOp1 ISZERO c                       (* ISZ(ISZ(ISZ(X))) *)
    | _ => if is_boolt b then b else TOp1 ISZERO a         (* ISZ(ISZ(bool)) *)
    end
  | TOp2 XOR x y => mk2 EQ x y                             (* ISZ(XOR(X,Y)) *)
  | TOp2 SUB x y => mk2 EQ x y                             (* ISZ(SUB(X,Y)) *)
  | _ => TOp1 ISZERO a
  end.

Definition s_not (a : term) : term :=
  match a with
  | TConst z => TConst (wnot z)
  | TOp1 NOT b => b
  | _ => TOp1 NOT a
  end.

Definition s_add (a b : term) : term :=
  if is_c a 0 then b else TOp2 ADD a b.

(* a constant that is a power of two below 2^256: its exponent *)
Definition pow2_exp (t : term) : option Z :=
  match t with
  | TConst c => if (0 <? c) && (c =? 2 ^ Z.log2 c) && (Z.log2 c <? 256) then Some (Z.log2 c) else None
  | _ => None
  end.

Definition big_shift (t : term) : bool :=
  match t with TConst c => 256 <=? c | _ => false end.

Definition shl_one (t : term) : option term :=
  match t with
  | TOp2 SHL y o => if is_c o 1 then Some y else None
  | _ => None
  end.

Definition s_mul (a b : term) : term :=
  if is_c a 0 then TConst 0
  else if is_c a 1 then b
  else match shl_one b with
       | Some y => TOp2 SHL y a                    (* MUL(X,SHL(Y,1)) *)
       | None =>
         match shl_one a with
         | Some y => TOp2 SHL y b
         | None =>
           match pow2_exp a with
           | Some k => TOp2 SHL (TConst k) b       (* 2^k * X = X << k *)
           | None => TOp2 MUL a b
           end
         end
       end.

Definition s_sub (a b : term) : term :=
  if is_c b 0 then a else if term_eqb a b then TConst 0 else TOp2 SUB a b.

Definition s_div (a b : term) : term :=
  if is_c b 1 then a
  else if is_c b 0 then TConst 0
  else if is_c a 0 then TConst 0
  else match pow2_exp b with
  | Some k => TOp2 SHR (TConst k) a                (* X / 2^k = X >> k *)
  | None =>
  match shl_one b with
       | Some y => TOp2 SHR y a                    (* DIV(X,SHL(Y,1)) *)
       | None => TOp2 DIV a b
       end end.

Definition s_sdiv (a b : term) : term :=
  if is_c b 1 then a else if is_c b 0 then TConst 0 else if is_c a 0 then TConst 0 else TOp2 SDIV a b.

Definition s_mod (a b : term) : term :=
  if is_c b 1 then TConst 0
  else if is_c b 0 then TConst 0
  else if term_eqb a b then TConst 0
  else if is_c a 0 then TConst 0
  else TOp2 MOD a b.

Definition s_smod (a b : term) : term :=
  if is_c b 0 then TConst 0 else TOp2 SMOD a b.

Definition s_exp (a b : term) : term :=
  if is_c b 0 then TConst 1
  else if is_c b 1 then a
  else if is_c a 1 then TConst 1
  else if is_c a 0 then s_iszero b
  else if is_c a 2 then TOp2 SHL b (TConst 1)
  else TOp2 EXP a b.

Definition s_lt (a b : term) : term :=
  if is_c b 0 then TConst 0
  else if term_eqb a b then TConst 0
  else if is_c b 1 then s_iszero a
  else if is_c a 0 then s_iszero (s_iszero b)
  else TOp2 LT a b.

Definition s_slt (a b : term) : term :=
  if term_eqb a b then TConst 0 else TOp2 SLT a b.

Definition s_eq (a b : term) : term :=
  if term_eqb a b then TConst 1
  else if is_c a 0 then s_iszero b
  else if is_c a 1 && is_boolt b then b
  else match inner XOR b with
  | Some (x, y) => if term_eqb a x then s_iszero y else if term_eqb a y then s_iszero x else TOp2 EQ a b
  | None =>
  match inner XOR a with
  | Some (x, y) => if term_eqb b x then s_iszero y else if term_eqb b y then s_iszero x else TOp2 EQ a b
  | None => TOp2 EQ a b
  end end.

Definition and_const_shl_view (a b : term) : option (Z * Z * term) :=
  match a, b with
  | TConst c, TOp2 SHL (TConst s) y => if (0 <=? s) && (s <? 256) then Some (c, s, y) else None
  | _, _ => None
  end.

Fixpoint first_some {A} (l : list (option A)) : option A :=
  match l with
  | [] => None
  | Some x :: _ => Some x
  | None :: r => first_some r
  end.

(* each rule: Some t when it applies *)
Definition ra_const_shl (a b : term) : option term :=
  match and_const_shl_view a b with
  | Some (c, s, y) =>
    (* c & (y << s) = ((c >> s) & y) << s ; the mask is dropped when it keeps every bit that survives the shift *)
    if Z.land (wshr s c) (Z.ones (256 - s)) =? Z.ones (256 - s) then Some (TOp2 SHL (TConst s) y)
    else Some (TOp2 SHL (TConst s) (mk2 AND (TConst (wshr s c)) y))
  | None => None
  end.
Definition ra_and_r (a b : term) : option term :=      (* X & (X & Y) = X & Y *)
  match inner AND b with Some p => if among a p then Some b else None | None => None end.
Definition ra_and_l (a b : term) : option term :=
  match inner AND a with Some p => if among b p then Some a else None | None => None end.
Definition ra_or_r (a b : term) : option term :=       (* X & (X | Y) = X *)
  match inner OR b with Some p => if among a p then Some a else None | None => None end.
Definition ra_or_l (a b : term) : option term :=
  match inner OR a with Some p => if among b p then Some b else None | None => None end.
Definition ra_shl_shl (a b : term) : option term :=    (* (Y << S) & (Z << S) = (Y & Z) << S *)
  match inner SHL a, inner SHL b with
  | Some (s, y), Some (s', z) => if term_eqb s s' then Some (TOp2 SHL s (mk2 AND y z)) else None
  | _, _ => None
  end.

Definition s_and (a b : term) : term :=
  if is_c a 0 then TConst 0
  else if term_eqb a b then a
  else if is_c a (W - 1) then b
  else if is_c a (2 ^ 160 - 1) && is_addr b then b
  else if is_not_of b a || is_not_of a b then TConst 0
  else match first_some [ra_const_shl a b; ra_and_r a b; ra_and_l a b; ra_or_r a b; ra_or_l a b; ra_shl_shl a b] with
       | Some t => t
       | None => TOp2 AND a b
       end.

Definition ro_and_r (a b : term) : option term :=      (* X | (X & Y) = X *)
  match inner AND b with Some p => if among a p then Some a else None | None => None end.
Definition ro_and_l (a b : term) : option term :=
  match inner AND a with Some p => if among b p then Some b else None | None => None end.
Definition ro_or_r (a b : term) : option term :=       (* X | (X | Y) = X | Y *)
  match inner OR b with Some p => if among a p then Some b else None | None => None end.
Definition ro_or_l (a b : term) : option term :=
  match inner OR a with Some p => if among b p then Some a else None | None => None end.

Definition s_or (a b : term) : term :=
  if is_c a 0 then b
  else if is_c a (W - 1) then TConst (W - 1)
  else if term_eqb a b then a
  else if is_not_of b a || is_not_of a b then TConst (W - 1)
  else match first_some [ro_and_r a b; ro_and_l a b; ro_or_r a b; ro_or_l a b] with
       | Some t => t
       | None => TOp2 OR a b
       end.

Definition rx_r (a b : term) : option term :=          (* X ^ (X ^ Y) = Y *)
  match inner XOR b with
  | Some (x, y) => if term_eqb a x then Some y else if term_eqb a y then Some x else None
  | None => None
  end.
Definition rx_l (a b : term) : option term :=
  match inner XOR a with
  | Some (x, y) => if term_eqb b x then Some y else if term_eqb b y then Some x else None
  | None => None
  end.

Definition s_xor (a b : term) : term :=
  if term_eqb a b then TConst 0
  else if is_c a 0 then b
  else match first_some [rx_r a b; rx_l a b] with
       | Some t => t
       | None => TOp2 XOR a b
       end.

(* (c & y) << s: only the low 256-s bits of the mask matter; the mask is dropped when they are all set *)
Definition shl_and_view (a b : term) : option (Z * Z * term) :=
  match a, b with
  | TConst s, TOp2 AND (TConst c) y => if (0 <=? s) && (s <? 256) then Some (s, c, y) else None
  | _, _ => None
  end.

Definition s_shift (o : op2) (a b : term) : term :=
  if is_c a 0 then b else if is_c b 0 then TConst 0
  else if big_shift a && negb (op2_eqb o SAR) then TConst 0       (* logical shifts by 256 or more *)
  else match (if op2_eqb o SHL then shl_and_view a b else None) with
       | Some (s, c, y) =>
         let c' := Z.land c (Z.ones (256 - s)) in
         if c' =? Z.ones (256 - s) then TOp2 SHL a y else TOp2 SHL a (TOp2 AND (TConst c') y)
       | None => TOp2 o a b
       end.

Definition both_const (a b : term) : option (Z * Z) :=
  match a, b with TConst x, TConst y => Some (x, y) | _, _ => None end.

Definition simp2' (o : op2) (a b : term) : term :=
  match o with
  | GT => s_lt b a
  | SGT => s_slt b a
  | LT => s_lt a b
  | SLT => s_slt a b
  | SUB => s_sub a b | DIV => s_div a b | SDIV => s_sdiv a b | MOD => s_mod a b | SMOD => s_smod a b
  | EXP => s_exp a b
  | SHL | SHR | SAR => s_shift o a b
  | SIGNEXTEND | BYTE => TOp2 o a b
  | ADD | MUL | AND | OR | XOR | EQ =>
    let (a', b') := match term_cmp a b with Gt => (b, a) | _ => (a, b) end in
    match o with
    | ADD => s_add a' b' | MUL => s_mul a' b' | AND => s_and a' b' | OR => s_or a' b'
    | XOR => s_xor a' b' | _ => s_eq a' b'
    end
  end.

(* arguments are already normalised *)
Definition simp2 (o : op2) (a b : term) : term :=
  match both_const a b with
  | Some (x, y) => TConst (eval_op2 o x y)
  | None => simp2' o a b
  end.

Definition simp1 (o : op1) (a : term) : term :=
  match o with ISZERO => s_iszero a | NOT => s_not a end.

Definition simp3 (o : op3) (a b c : term) : term :=
  match both_const a b, c with
  | Some (x, y), TConst z => TConst (eval_op3 o x y z)
  | _, _ => TOp3 o a b c
  end.

Definition simp_env1 (k : N) (a : term) : term :=
  match a with
  | TEnv0 k' => if N.eqb k K_BALANCE && N.eqb k' K_ADDRESS then TEnv0 K_SELFBALANCE else TEnv1 k a
  | _ => TEnv1 k a
  end.

(* --- addresses --------------------------------------------------------------- *)
(* value of t = (value of base + offset) mod 2^256, base None meaning 0 *)
Definition split_addr (t : term) : option term * Z :=
  match t with
  | TConst c => (None, c)
  | TOp2 ADD (TConst c) b => (Some b, c)
  | _ => (Some t, 0)
  end.

Definition same_base (b1 b2 : option term) : bool :=
  match b1, b2 with
  | None, None => true
  | Some x, Some y => term_eqb x y
  | _, _ => false
  end.

(* byte ranges [a1,a1+n1) and [a2,a2+n2) are disjoint in every state *)
(* two constant offsets: the ranges are compared exactly (byte addresses do not wrap around in the reference semantics) *)
Definition disj_const (n1 : Z) (a1 : term) (n2 : Z) (a2 : term) : bool :=
  match a1, a2 with
  | TConst c1, TConst c2 => (c1 + n1 <=? c2) || (c2 + n2 <=? c1)
  | _, _ => false
  end.

Definition disj (n1 : Z) (a1 : term) (n2 : Z) (a2 : term) : bool :=
  let (b1, c1) := split_addr a1 in
  let (b2, c2) := split_addr a2 in
  disj_const n1 a1 n2 a2 || (n1 =? 0) || (n2 =? 0) ||
  (same_base b1 b2 && (0 <=? n1) && (0 <=? n2) &&
   (let d := (c2 - c1) mod W in (n1 <=? d) && (d <=? W - n2))).

Definition keys_distinct (k1 k2 : term) : bool :=
  let (b1, c1) := split_addr k1 in
  let (b2, c2) := split_addr k2 in
  same_base b1 b2 && negb ((c2 - c1) mod W =? 0).

(* drop the stores that cannot touch [a, a+n) *)
Fixpoint relevant (n : Z) (a : term) (m : term) : term :=
  match m with
  | MStore m' a' v => if disj n a 32 a' then relevant n a m' else MStore (relevant n a m') a' v
  | MStore8 m' a' v => if disj n a 1 a' then relevant n a m' else MStore8 (relevant n a m') a' v
  | _ => m
  end.

Definition s_mload (m a : term) : term :=
  let m' := relevant 32 a m in
  match m' with
  | MStore _ a' v => if term_eqb a a' then v else TMload m' a
  | _ => TMload m' a
  end.

Definition s_keccak (m a n : term) : term :=
  match n with
  | TConst c => TKeccak (relevant c a m) a n
  | _ => TKeccak m a n
  end.

Fixpoint relevant_s (k : term) (s : term) : term :=
  match s with
  | SStore s' k' v => if keys_distinct k k' then relevant_s k s' else SStore (relevant_s k s') k' v
  | _ => s
  end.

Definition s_sload (s k : term) : term :=
  let s' := relevant_s k s in
  match s' with
  | SStore _ k' v => if term_eqb k k' then v else TSload s' k
  | _ => TSload s' k
  end.

(* stores that a new 32-byte store at the same address / a new store to the same key
   overwrites completely are dropped from the chain *)
Fixpoint drop_same (a : term) (m : term) : term :=
  match m with
  | MStore m' a' v => if term_eqb a a' then drop_same a m' else MStore (drop_same a m') a' v
  | MStore8 m' a' v => if term_eqb a a' then drop_same a m' else MStore8 (drop_same a m') a' v
  | _ => m
  end.
Fixpoint drop_same_s (k : term) (s : term) : term :=
  match s with
  | SStore s' k' v => if term_eqb k k' then drop_same_s k s' else SStore (drop_same_s k s') k' v
  | _ => s
  end.

(* canonical order of provably disjoint stores: the store at the smaller offset (same base) goes inside *)
Definition addr_lt (a a' : term) : bool :=
  let (b1, c1) := split_addr a in
  let (b2, c2) := split_addr a' in
  same_base b1 b2 && (c1 <? c2).

(* an arbitrary fingerprint of a term: it only chooses which of two commuting writes goes inside, so nothing
   depends on its properties (a collision loses a canonical form, never soundness) *)
Fixpoint tkey (t : term) : Z :=
  (match t with
   | TConst z => 1 + 3 * z
   | TVar n => 2 + 5 * Z.of_nat n
   | TSym k => 3 + 7 * Z.of_N k
   | TEnv0 k => 4 + 11 * Z.of_N k
   | TEnv1 k a => 5 + 13 * Z.of_N k + 17 * tkey a
   | TOp1 _ a => 6 + 19 * tkey a
   | TOp2 o a b => 7 + 23 * Z.of_nat (op2_code o) + 29 * tkey a + 31 * tkey b
   | TOp3 _ a b c => 8 + 37 * tkey a + 41 * tkey b + 43 * tkey c
   | TMload m a => 9 + 47 * tkey m + 53 * tkey a
   | TSload s k => 10 + 59 * tkey s + 61 * tkey k
   | TKeccak m a n => 11 + 67 * tkey m + 71 * tkey a + 73 * tkey n
   | MInit => 12
   | MStore m a v => 13 + 79 * tkey m + 83 * tkey a + 89 * tkey v
   | MStore8 m a v => 14 + 97 * tkey m + 101 * tkey a + 103 * tkey v
   | SInit => 15
   | SStore s k v => 16 + 107 * tkey s + 109 * tkey k + 113 * tkey v
   end) mod 2305843009213693951.

(* order of two write addresses / keys: by offset when they share their base, by fingerprint otherwise *)
Definition olt (a a' : term) : bool :=
  let (b1, c1) := split_addr a in
  let (b2, c2) := split_addr a' in
  if same_base b1 b2 then c1 <? c2 else tkey a <? tkey a'.

Fixpoint ins_store (w : bool) (a v m : term) : term :=
  let n := if w then 32 else 1 in
  let top := if w then MStore m a v else MStore8 m a v in
  match m with
  | MStore m' a' v' => if disj n a 32 a' && addr_lt a a' then MStore (ins_store w a v m') a' v' else top
  | MStore8 m' a' v' =>
    (* two byte stores of the same value commute whatever their offsets *)
    if (disj n a 1 a' && addr_lt a a') || (negb w && term_eqb v v' && olt a a')
    then MStore8 (ins_store w a v m') a' v' else top
  | _ => top
  end.

(* storage writes commute when the keys are provably different or the values are the same term *)
Fixpoint ins_sstore (k v s : term) : term :=
  match s with
  | SStore s' k' v' =>
    if (keys_distinct k k' || term_eqb v v') && olt k k' then SStore (ins_sstore k v s') k' v' else SStore s k v
  | _ => SStore s k v
  end.

(* a byte store makes the earlier byte stores at the same offset term dead (word stores below are kept) *)
Fixpoint drop_same8 (a : term) (m : term) : term :=
  match m with
  | MStore8 m' a' v => if term_eqb a a' then drop_same8 a m' else MStore8 (drop_same8 a m') a' v
  | MStore m' a' v => MStore (drop_same8 a m') a' v
  | _ => m
  end.

(* a store that writes back what is already there is dropped *)
Definition s_mstore (m a v : term) : term :=
  match v with
  | TMload m' a' => if term_eqb a a' && term_eqb m' (relevant 32 a m) then m else ins_store true a v (drop_same a m)
  | _ => ins_store true a v (drop_same a m)
  end.
Definition s_sstore (s k v : term) : term :=
  match v with
  | TSload s' k' => if term_eqb k k' && term_eqb s' (relevant_s k s) then s else ins_sstore k v (drop_same_s k s)
  | _ => ins_sstore k v (drop_same_s k s)
  end.

Fixpoint norm (t : term) : term :=
  match t with
  | TConst _ | TVar _ | TSym _ | TEnv0 _ | MInit | SInit => t
  | TEnv1 k a => simp_env1 k (norm a)
  | TOp1 o a => simp1 o (norm a)
  | TOp2 o a b => simp2 o (norm a) (norm b)
  | TOp3 o a b c => simp3 o (norm a) (norm b) (norm c)
  | TMload m a => s_mload (norm m) (norm a)
  | TSload s k => s_sload (norm s) (norm k)
  | TKeccak m a n => s_keccak (norm m) (norm a) (norm n)
  | MStore m a v => s_mstore (norm m) (norm a) (norm v)
  | MStore8 m a v => ins_store false (norm a) (norm v) (drop_same8 (norm a) (norm m))
  | SStore s k v => s_sstore (norm s) (norm k) (norm v)
  end.

Definition norm2 (t : term) : term := norm (norm t).
