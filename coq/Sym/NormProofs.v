(* Soundness of the normaliser: for every well-formed initial state, [norm t] is
   well sorted and has the value of [t] (pointwise for memories and storages). *)
From Coq Require Import ZArith List Bool Lia.
From GV Require Import Ref.Word Ref.WordLemmas Ref.EVM Sym.Term Sym.TermLemmas Sym.WordFacts Sym.MemFacts Sym.Norm.
Import ListNotations.
Local Open Scope Z_scope.

Lemma is_c_eq t z : is_c t z = true -> t = TConst z.
Proof. destruct t; simpl; try discriminate. intros H. apply Z.eqb_eq in H. congruence. Qed.

Lemma eval_op2_comm o x y : commutative o = true -> eval_op2 o x y = eval_op2 o y x.
Proof.
  destruct o; simpl; try discriminate; intros _;
    auto using add_comm, mul_comm, and_comm, or_comm, xor_comm, eq_comm.
Qed.

Lemma inner_eq o t x y : inner o t = Some (x, y) -> t = TOp2 o x y.
Proof.
  destruct t; simpl; try discriminate. destruct (op2_eqb o o0) eqn:E; [|discriminate].
  apply op2_eqb_eq in E. intros H. inversion H; subst. reflexivity.
Qed.

Lemma among_cases x p : among x p = true -> x = fst p \/ x = snd p.
Proof.
  unfold among. intros H. apply orb_true_iff in H. destruct H as [H|H]; apply term_eqb_eq in H; auto.
Qed.

Lemma is_not_of_eq t x : is_not_of t x = true -> t = TOp1 NOT x.
Proof.
  destruct t; simpl; try discriminate. destruct o; try discriminate. intros H.
  apply term_eqb_eq in H. subst. reflexivity.
Qed.

Lemma inw_constw z : inw z -> constw z = true.
Proof. unfold inw, constw. intros [? ?]. apply andb_true_iff. split; [apply Z.leb_le|apply Z.ltb_lt]; assumption. Qed.

Lemma shl_one_eq t y : shl_one t = Some y -> t = TOp2 SHL y (TConst 1).
Proof.
  destruct t as [z|n|k|k|k a1|o a1|o a1 a2|o a1 a2 a3|m a1|s k|m a1 a2| |m a1 v|m a1 v| |s k v]; simpl; try discriminate.
  destruct o; try discriminate. destruct (is_c a2 1) eqn:E; [|discriminate]. apply is_c_eq in E. subst.
  intros H; inversion H; subst; reflexivity.
Qed.

Lemma pow2_exp_eq t k : pow2_exp t = Some k -> t = TConst (2 ^ k) /\ 0 <= k < 256.
Proof.
  destruct t as [c| | | | | | | | | | | | | | | ]; simpl; try discriminate.
  destruct ((0 <? c) && (c =? 2 ^ Z.log2 c) && (Z.log2 c <? 256)) eqn:G; [|discriminate].
  intros H; inversion H; subst k. apply andb_true_iff in G. destruct G as [G G3].
  apply andb_true_iff in G. destruct G as [G1 G2]. apply Z.ltb_lt in G1, G3. apply Z.eqb_eq in G2.
  split; [f_equal; exact G2|]. split; [apply Z.log2_nonneg|exact G3].
Qed.

Lemma first_some_in {A} (l : list (option A)) x : first_some l = Some x -> In (Some x) l.
Proof.
  induction l as [|o l IH]; [discriminate|]. destruct o as [y|]; cbn [first_some].
  - intros H; inversion H; subst. left; reflexivity.
  - intros H. right. apply IH. exact H.
Qed.

Section Norm.
  Variable r : rho.
  Hypothesis Hr : wf_rho r.
  Notation ev := (evalw r).

  Definition ok (t : term) (v : Z) : Prop := wsort t = true /\ ev t = v.

  Lemma inw_ev t : wsort t = true -> inw (ev t).
  Proof. apply evalw_inw. exact Hr. Qed.

  Lemma is_boolt_sound t : is_boolt t = true -> isbool (ev t).
  Proof.
    destruct t; simpl; try discriminate.
    - intros H. apply orb_true_iff in H. destruct H as [H|H]; apply Z.eqb_eq in H; subst; [left|right]; reflexivity.
    - destruct o; try discriminate. intros _. apply b2z_isbool.
    - destruct o; try discriminate; intros _; apply b2z_isbool.
  Qed.

  Lemma is_addr_sound t : is_addr t = true -> 0 <= ev t < 2 ^ 160.
  Proof.
    destruct Hr as (_ & _ & _ & He). destruct He as (_ & He0 & _ & _ & A1 & A2 & A3 & A4 & _).
    destruct t; simpl; try discriminate. intros H.
    repeat (apply orb_true_iff in H; destruct H as [H|H]); apply N.eqb_eq in H; subst k;
      (split; [apply He0|assumption]).
  Qed.

  Lemma mk2_ok o a b : wsort a = true -> wsort b = true ->
    ok (mk2 o a b) (eval_op2 o (ev a) (ev b)).
  Proof.
    intros Ha Hb. unfold mk2, ok. destruct (commutative o) eqn:C.
    - destruct (term_cmp a b); cbn [wsort evalw]; rewrite ?Ha, ?Hb; split; try reflexivity.
      apply eval_op2_comm; assumption.
    - cbn [wsort evalw]. rewrite Ha, Hb. split; reflexivity.
  Qed.

  Ltac brk :=
    match goal with
    | |- context [if ?c then _ else _] => let E := fresh "E" in destruct c eqn:E
    end.
  Ltac facts :=
    repeat match goal with
           | H : is_c _ _ = true |- _ => apply is_c_eq in H; subst
           | H : term_eqb _ _ = true |- _ => apply term_eqb_eq in H; subst
           | H : _ && _ = true |- _ => apply andb_true_iff in H; destruct H
           | H : is_not_of _ _ = true |- _ => apply is_not_of_eq in H; subst
           end.
  Ltac dflt := unfold ok; cbn [wsort evalw eval_op1 eval_op2] in *;
               first [ match goal with H : false = true |- _ => discriminate H end
                     | repeat match goal with
                              | H : _ && _ = true |- _ => apply andb_true_iff in H; destruct H
                              end;
                       split;
                       [repeat (match goal with H : ?x = true |- context [?x] => lazymatch x with true => fail | _ => rewrite H end end); reflexivity
                       |reflexivity] ].

  Lemma s_iszero_ok a : wsort a = true -> ok (s_iszero a) (wiszero (ev a)).
  Proof.
    intros Ha. destruct a as [z|n|k|k|k a1|o a1|o a1 a2|o a1 a2 a3|m a1|s k|m a1 a2| |m a1 v|m a1 v| |s k v];
      try (unfold s_iszero; dflt).
    - unfold ok. cbn [s_iszero wsort evalw]. split; [|reflexivity]. apply inw_constw, wiszero_range.
    - (* TOp1 *) destruct o; try (unfold s_iszero; dflt).
      assert (Hb : is_boolt a1 = true -> ok a1 (wiszero (ev (TOp1 ISZERO a1)))).
      { intros Hb. unfold ok; split; [exact Ha|]. cbn [evalw eval_op1]. symmetry.
        apply iszero_iszero_bool; apply is_boolt_sound; assumption. }
      cbn [s_iszero].
      destruct a1 as [z|n|k|k|k b1|o b1|o b1 b2|o b1 b2 b3|m b1|s k|m b1 b2| |m b1 v|m b1 v| |s k v];
        try (cbn [wsort] in Ha; discriminate Ha);
        try (brk; [apply Hb; first [assumption|reflexivity]|dflt]).
      destruct o; try (brk; [apply Hb; first [assumption|reflexivity]|dflt]).
      unfold ok. split; [exact Ha|]. cbn [evalw eval_op1]. symmetry. apply iszero3.
    - (* TOp2 *) cbn [wsort] in Ha. apply andb_true_iff in Ha. destruct Ha as [Ha1 Ha2].
      destruct o; try (unfold s_iszero; unfold ok; cbn [wsort evalw eval_op1 eval_op2]; rewrite Ha1, Ha2; split; reflexivity).
      + cbn [s_iszero]. destruct (mk2_ok EQ a1 a2 Ha1 Ha2) as [S E]. split; [exact S|].
        rewrite E. cbn [evalw eval_op1 eval_op2]. symmetry. apply iszero_sub; apply inw_ev; assumption.
      + cbn [s_iszero]. destruct (mk2_ok EQ a1 a2 Ha1 Ha2) as [S E]. split; [exact S|].
        rewrite E. cbn [evalw eval_op1 eval_op2]. symmetry. apply iszero_xor.
  Qed.

  Lemma s_not_ok a : wsort a = true -> ok (s_not a) (wnot (ev a)).
  Proof.
    intros Ha. destruct a as [z|n|k|k|k a1|o a1|o a1 a2|o a1 a2 a3|m a1|s k|m a1 a2| |m a1 v|m a1 v| |s k v];
      try (unfold s_not; dflt).
    - unfold ok. cbn [s_not wsort evalw]. split; [|reflexivity]. apply inw_constw, wnot_range, constw_inw. exact Ha.
    - destruct o; try (unfold s_not; dflt). cbn [s_not]. unfold ok. split; [exact Ha|].
      cbn [evalw eval_op1]. symmetry. apply not_not.
  Qed.

  Ltac start2 f := let Ha := fresh "Ha" in let Hb := fresh "Hb" in
    intros Ha Hb; pose proof (inw_ev _ Ha) as Wa; pose proof (inw_ev _ Hb) as Wb; unfold f.
  (* close a branch: sortedness by assumption/computation, value by the given lemma *)
  Ltac by_lemma L := unfold ok; split;
    [first [assumption | reflexivity | (cbn [wsort]; repeat (match goal with H : wsort ?t = true |- context [wsort ?t] => rewrite H end); reflexivity)]
    |cbn [evalw eval_op1 eval_op2] in *; symmetry; apply L; try assumption;
     try (match goal with H : inw ?x |- 0 <= ?x => apply H end)].

  Lemma s_add_ok a b : wsort a = true -> wsort b = true -> ok (s_add a b) (eval_op2 ADD (ev a) (ev b)).
  Proof. start2 s_add. brk; facts; [by_lemma add_0_l|dflt]. Qed.

  Lemma s_mul_ok a b : wsort a = true -> wsort b = true -> ok (s_mul a b) (eval_op2 MUL (ev a) (ev b)).
  Proof.
    start2 s_mul. brk; facts; [by_lemma mul_0_l|]. brk; facts; [by_lemma mul_1_l|].
    destruct (shl_one b) as [y|] eqn:Sb.
    - apply shl_one_eq in Sb. subst b. cbn [wsort] in Hb. apply andb_true_iff in Hb. destruct Hb as [Hy _].
      unfold ok. cbn [wsort evalw eval_op2]. rewrite Hy, Ha. split; [reflexivity|].
      symmetry. apply mul_shl_1. apply (inw_ev _ Hy).
    - destruct (shl_one a) as [y|] eqn:Sa.
      { apply shl_one_eq in Sa. subst a. cbn [wsort] in Ha. apply andb_true_iff in Ha. destruct Ha as [Hy _].
        unfold ok. cbn [wsort evalw eval_op2]. rewrite Hy, Hb. split; [reflexivity|].
        rewrite mul_comm. symmetry. apply mul_shl_1. apply (inw_ev _ Hy). }
      destruct (pow2_exp a) as [k|] eqn:Pa; [|dflt].
      apply pow2_exp_eq in Pa. destruct Pa as [-> Hk]. unfold ok. cbn [wsort evalw eval_op2]. rewrite Hb.
      split; [|symmetry; apply mul_pow2; exact Hk].
      rewrite andb_true_r. apply inw_constw. unfold inw. assert (256 < W) by (unfold W; apply (Z.pow_lt_mono_r 2 8 256); lia). lia.
  Qed.

  Lemma s_sub_ok a b : wsort a = true -> wsort b = true -> ok (s_sub a b) (eval_op2 SUB (ev a) (ev b)).
  Proof. start2 s_sub. brk; facts; [by_lemma sub_0_r|]. brk; facts; [by_lemma sub_diag|dflt]. Qed.

  Lemma s_div_ok a b : wsort a = true -> wsort b = true -> ok (s_div a b) (eval_op2 DIV (ev a) (ev b)).
  Proof.
    start2 s_div. brk; facts; [by_lemma div_1_r|]. brk; facts; [by_lemma div_0_r|].
    brk; facts; [by_lemma div_0_l|].
    destruct (pow2_exp b) as [k|] eqn:Pb.
    { apply pow2_exp_eq in Pb. destruct Pb as [-> Hk]. unfold ok. cbn [wsort evalw eval_op2]. rewrite Ha.
      split; [|symmetry; apply div_pow2; exact Hk].
      rewrite andb_true_r. apply inw_constw. unfold inw. assert (256 < W) by (unfold W; apply (Z.pow_lt_mono_r 2 8 256); lia). lia. }
    destruct (shl_one b) as [y|] eqn:Sb; [|dflt].
    apply shl_one_eq in Sb. subst b. cbn [wsort] in Hb. apply andb_true_iff in Hb. destruct Hb as [Hy _].
    unfold ok. cbn [wsort evalw eval_op2]. rewrite Hy, Ha. split; [reflexivity|].
    symmetry. apply div_shl_1. apply (inw_ev _ Hy).
  Qed.

  Lemma s_sdiv_ok a b : wsort a = true -> wsort b = true -> ok (s_sdiv a b) (eval_op2 SDIV (ev a) (ev b)).
  Proof.
    start2 s_sdiv. brk; facts; [by_lemma sdiv_1_r|]. brk; facts; [by_lemma sdiv_0_r|].
    brk; facts; [by_lemma sdiv_0_l|dflt].
  Qed.

  Lemma s_mod_ok a b : wsort a = true -> wsort b = true -> ok (s_mod a b) (eval_op2 MOD (ev a) (ev b)).
  Proof.
    start2 s_mod. brk; facts; [by_lemma mod_1_r|]. brk; facts; [by_lemma mod_0_r|].
    brk; facts; [by_lemma mod_diag|]. brk; facts; [by_lemma mod_0_l|dflt].
  Qed.

  Lemma s_smod_ok a b : wsort a = true -> wsort b = true -> ok (s_smod a b) (eval_op2 SMOD (ev a) (ev b)).
  Proof. start2 s_smod. brk; facts; [by_lemma smod_0_r|dflt]. Qed.

  Lemma s_exp_ok a b : wsort a = true -> wsort b = true -> ok (s_exp a b) (eval_op2 EXP (ev a) (ev b)).
  Proof.
    start2 s_exp. brk; facts; [by_lemma exp_0_r|]. brk; facts; [by_lemma exp_1_r|].
    brk; facts; [by_lemma exp_1_l|].
    brk; facts.
    { destruct (s_iszero_ok b Hb) as [S E3]. split; [exact S|]. rewrite E3. cbn [evalw eval_op2].
      symmetry. apply exp_0_l. apply Wb. }
    brk; facts; [|dflt].
    unfold ok. cbn [wsort evalw eval_op2]. rewrite Hb. split; [reflexivity|].
    symmetry. apply exp_2_l. apply Wb.
  Qed.

  Lemma s_lt_ok a b : wsort a = true -> wsort b = true -> ok (s_lt a b) (eval_op2 LT (ev a) (ev b)).
  Proof.
    start2 s_lt. brk; facts; [by_lemma lt_x_0|]. brk; facts; [by_lemma lt_irrefl|].
    brk; facts.
    { destruct (s_iszero_ok a Ha) as [S E3]. split; [exact S|]. rewrite E3. cbn [evalw eval_op2].
      symmetry. apply lt_1_iszero. apply Wa. }
    brk; facts; [|dflt].
    destruct (s_iszero_ok b Hb) as [S1 E3]. destruct (s_iszero_ok _ S1) as [S2 E4].
    split; [exact S2|]. rewrite E4, E3. cbn [evalw eval_op2]. symmetry. apply lt0_as_iszero. apply Wb.
  Qed.

  Lemma s_slt_ok a b : wsort a = true -> wsort b = true -> ok (s_slt a b) (eval_op2 SLT (ev a) (ev b)).
  Proof. start2 s_slt. brk; facts; [by_lemma slt_irrefl|dflt]. Qed.

  Lemma s_eq_ok a b : wsort a = true -> wsort b = true -> ok (s_eq a b) (eval_op2 EQ (ev a) (ev b)).
  Proof.
    start2 s_eq. brk; facts; [by_lemma eq_refl_w|].
    brk; facts.
    { destruct (s_iszero_ok b Hb) as [S E3]. split; [exact S|]. rewrite E3. cbn [evalw eval_op2].
      symmetry. apply eq_0_iszero. }
    brk; facts.
    { split; [exact Hb|]. cbn [evalw eval_op2]. symmetry. apply eq_1_bool. apply is_boolt_sound. assumption. }
    destruct (inner XOR b) as [[x y]|] eqn:I1.
    { apply inner_eq in I1. subst b. cbn [wsort] in Hb. apply andb_true_iff in Hb. destruct Hb as [Hx Hy].
      brk; facts.
      - destruct (s_iszero_ok y Hy) as [S E5]. split; [exact S|]. rewrite E5. cbn [evalw eval_op2].
        symmetry. apply eq_xor_self.
      - brk; facts; [|dflt]. destruct (s_iszero_ok x Hx) as [S E6]. split; [exact S|]. rewrite E6.
        cbn [evalw eval_op2]. symmetry. apply eq_xor_self_r. }
    destruct (inner XOR a) as [[x y]|] eqn:I2; [|dflt].
    apply inner_eq in I2. subst a. cbn [wsort] in Ha. apply andb_true_iff in Ha. destruct Ha as [Hx Hy].
    brk; facts.
    - destruct (s_iszero_ok y Hy) as [S E5]. split; [exact S|]. rewrite E5. cbn [evalw eval_op2].
      rewrite eq_comm. symmetry. apply eq_xor_self.
    - brk; facts; [|dflt]. destruct (s_iszero_ok x Hx) as [S E6]. split; [exact S|]. rewrite E6.
      cbn [evalw eval_op2]. rewrite eq_comm. symmetry. apply eq_xor_self_r.
  Qed.

  Lemma s_shift_ok o a b : (o = SHL \/ o = SHR \/ o = SAR) -> wsort a = true -> wsort b = true ->
    ok (s_shift o a b) (eval_op2 o (ev a) (ev b)).
  Proof.
    intros Ho. start2 s_shift. brk; facts.
    { destruct Ho as [->|[->| ->]]; [by_lemma shl_0_l|by_lemma shr_0_l|by_lemma sar_0_l]. }
    brk; facts.
    { destruct Ho as [->|[->| ->]]; [by_lemma shl_x_0|by_lemma shr_x_0|by_lemma sar_x_0]. }
    brk.
    { facts.
      destruct a as [c| | | | | | | | | | | | | | | ]; try discriminate.
      match goal with H : big_shift (TConst c) = true |- _ => cbn [big_shift] in H; apply Z.leb_le in H end.
      destruct Ho as [->|[->| ->]].
      - unfold ok. split; [reflexivity|]. cbn [evalw eval_op2]. symmetry. apply shl_big. assumption.
      - unfold ok. split; [reflexivity|]. cbn [evalw eval_op2]. symmetry. apply shr_big. assumption.
      - match goal with H : negb (op2_eqb SAR SAR) = true |- _ => discriminate H end. }
    destruct (op2_eqb o SHL) eqn:EO; [|dflt].
    destruct (shl_and_view a b) as [[[s c] y]|] eqn:V; [|dflt].
    assert (o = SHL) by (destruct o; try discriminate EO; reflexivity). subst o.
    unfold shl_and_view in V.
    destruct a as [s0| | | | | | | | | | | | | | | ]; try discriminate V.
    destruct b as [| | | | | |o0 b1 b2| | | | | | | | | ]; try discriminate V.
    destruct o0; try discriminate V.
    destruct b1 as [c0| | | | | | | | | | | | | | | ]; try discriminate V.
    destruct ((0 <=? s0) && (s0 <? 256)) eqn:G; [|discriminate V].
    inversion V; subst s0 c0 b2. clear V.
    apply andb_true_iff in G. destruct G as [G1 G2]. apply Z.leb_le in G1. apply Z.ltb_lt in G2.
    cbn [wsort] in Hb. repeat (apply andb_true_iff in Hb; destruct Hb as [Hb ?]).
    cbn [wsort] in Ha.
    assert (Hy : wsort y = true) by assumption.
    cbv zeta. destruct (Z.land c (Z.ones (256 - s)) =? Z.ones (256 - s)) eqn:Mk.
    - apply Z.eqb_eq in Mk. unfold ok. cbn [wsort evalw eval_op2]. split.
      + rewrite Ha, Hy. reflexivity.
      + symmetry. apply shl_mask_drop; [lia|exact Mk].
    - unfold ok. cbn [wsort evalw eval_op2]. split.
      + rewrite Ha, Hy. rewrite andb_true_r. cbn [andb].
        assert (R : 0 <= Z.land c (Z.ones (256 - s)) < W).
        { rewrite Z.land_ones by lia.
          assert (P : 0 < 2 ^ (256 - s)) by (apply Z.pow_pos_nonneg; lia).
          pose proof (Z.mod_pos_bound c (2 ^ (256 - s)) P) as B.
          assert (2 ^ (256 - s) <= 2 ^ 256) by (apply Z.pow_le_mono_r; lia).
          unfold W. lia. }
        rewrite (inw_constw _ R). reflexivity.
      + symmetry. apply shl_mask_canon. lia.
  Qed.

  Ltac sorts := cbn [wsort] in *;
    repeat match goal with H : _ && _ = true |- _ => apply andb_true_iff in H; destruct H end.

  (* --- AND ------------------------------------------------------------------- *)
  Definition rule_ok (o : op2) (rl : term -> term -> option term) : Prop :=
    forall a b t, wsort a = true -> wsort b = true -> rl a b = Some t -> ok t (eval_op2 o (ev a) (ev b)).

  Lemma ra_const_shl_ok : rule_ok AND ra_const_shl.
  Proof.
    intros a b t Ha Hb. unfold ra_const_shl.
    destruct (and_const_shl_view a b) as [[[c s] y]|] eqn:V; [|discriminate]. intros H.
    unfold and_const_shl_view in V.
    destruct a as [c0| | | | | | | | | | | | | | | ]; try discriminate V.
    destruct b as [| | | | | |o0 b1 b2| | | | | | | | | ]; try discriminate V.
    destruct o0; try discriminate V.
    destruct b1 as [s0| | | | | | | | | | | | | | | ]; try discriminate V.
    destruct ((0 <=? s0) && (s0 <? 256)) eqn:G; [|discriminate V]. inversion V; subst c0 s0 b2. clear V.
    apply andb_true_iff in G. destruct G as [G1 G2]. apply Z.leb_le in G1. apply Z.ltb_lt in G2.
    sorts.
    assert (Wc : inw c) by (apply constw_inw; assumption).
    assert (Ws : constw (wshr s c) = true).
    { apply inw_constw. apply wshr_range; [exact Wc|lia]. }
    destruct (Z.land (wshr s c) (Z.ones (256 - s)) =? Z.ones (256 - s)) eqn:Mk; inversion H; subst t; clear H.
    - apply Z.eqb_eq in Mk. unfold ok. cbn [wsort evalw eval_op2].
      split; [repeat match goal with Hx : _ = true |- _ => rewrite Hx end; reflexivity|].
      symmetry. rewrite and_const_shl by lia. apply shl_mask_drop; [lia|exact Mk].
    - destruct (mk2_ok AND (TConst (wshr s c)) y Ws) as [S5 E5]; [assumption|].
      unfold ok. cbn [wsort evalw eval_op2]. rewrite S5, E5.
      split; [match goal with Hx : constw s = true |- _ => rewrite Hx end; reflexivity|].
      cbn [evalw eval_op2]. symmetry. apply and_const_shl. lia.
  Qed.

  Lemma ra_and_r_ok : rule_ok AND ra_and_r.
  Proof.
    intros a b t Ha Hb. unfold ra_and_r. destruct (inner AND b) as [[x y]|] eqn:I; [|discriminate].
    destruct (among a (x, y)) eqn:E; [|discriminate]. intros H; inversion H; subst t.
    apply inner_eq in I. subst b. apply among_cases in E. cbn [fst snd] in E.
    split; [exact Hb|]. cbn [evalw eval_op2]. destruct E; subst; symmetry; [apply and_and_absorb|apply and_and_absorb_r].
  Qed.
  Lemma ra_and_l_ok : rule_ok AND ra_and_l.
  Proof.
    intros a b t Ha Hb. unfold ra_and_l. destruct (inner AND a) as [[x y]|] eqn:I; [|discriminate].
    destruct (among b (x, y)) eqn:E; [|discriminate]. intros H; inversion H; subst t.
    apply inner_eq in I. subst a. apply among_cases in E. cbn [fst snd] in E.
    split; [exact Ha|]. cbn [evalw eval_op2]. rewrite (and_comm (wand (ev x) (ev y))).
    destruct E; subst; symmetry; [apply and_and_absorb|apply and_and_absorb_r].
  Qed.
  Lemma ra_or_r_ok : rule_ok AND ra_or_r.
  Proof.
    intros a b t Ha Hb. unfold ra_or_r. destruct (inner OR b) as [[x y]|] eqn:I; [|discriminate].
    destruct (among a (x, y)) eqn:E; [|discriminate]. intros H; inversion H; subst t.
    apply inner_eq in I. subst b. apply among_cases in E. cbn [fst snd] in E.
    split; [exact Ha|]. cbn [evalw eval_op2]. destruct E; subst; symmetry; [apply and_or_absorb|apply and_or_absorb_r].
  Qed.
  Lemma ra_or_l_ok : rule_ok AND ra_or_l.
  Proof.
    intros a b t Ha Hb. unfold ra_or_l. destruct (inner OR a) as [[x y]|] eqn:I; [|discriminate].
    destruct (among b (x, y)) eqn:E; [|discriminate]. intros H; inversion H; subst t.
    apply inner_eq in I. subst a. apply among_cases in E. cbn [fst snd] in E.
    split; [exact Hb|]. cbn [evalw eval_op2]. rewrite (and_comm (wor (ev x) (ev y))).
    destruct E; subst; symmetry; [apply and_or_absorb|apply and_or_absorb_r].
  Qed.

  Lemma ra_shl_shl_ok : rule_ok AND ra_shl_shl.
  Proof.
    intros a b t Ha Hb. unfold ra_shl_shl.
    destruct (inner SHL a) as [[s y]|] eqn:I5; [|discriminate].
    destruct (inner SHL b) as [[s' z]|] eqn:I6; [|discriminate].
    destruct (term_eqb s s') eqn:E; [|discriminate]. intros H; inversion H; subst t. clear H.
    apply term_eqb_eq in E. subst s'. apply inner_eq in I5. apply inner_eq in I6. subst a b. sorts.
    destruct (mk2_ok AND y z) as [S E5]; try assumption.
    unfold ok. cbn [wsort evalw eval_op2]. rewrite S, E5.
    split; [match goal with H : wsort s = true |- _ => rewrite H end; reflexivity|].
    cbn [eval_op2]. symmetry. apply and_shl_shl. apply inw_ev. assumption.
  Qed.

  Lemma first_rule_ok o (rules : list (term -> term -> option term)) a b t :
    Forall (rule_ok o) rules -> wsort a = true -> wsort b = true ->
    first_some (map (fun rl => rl a b) rules) = Some t -> ok t (eval_op2 o (ev a) (ev b)).
  Proof.
    intros HF Ha Hb H. apply first_some_in in H. apply in_map_iff in H. destruct H as (rl & E & Hin).
    rewrite Forall_forall in HF. exact (HF rl Hin a b t Ha Hb E).
  Qed.

  Lemma s_and_ok a b : wsort a = true -> wsort b = true -> ok (s_and a b) (eval_op2 AND (ev a) (ev b)).
  Proof.
    start2 s_and. brk; facts; [by_lemma and_0_l|]. brk; facts; [by_lemma and_diag|].
    brk; facts; [by_lemma and_ones_l|].
    brk; facts.
    { split; [exact Hb|]. cbn [evalw eval_op2]. symmetry. apply and_addr_mask. apply is_addr_sound. assumption. }
    brk.
    { apply orb_true_iff in E3. destruct E3 as [E3|E3]; facts.
      - unfold ok. split; [reflexivity|]. cbn [evalw eval_op1 eval_op2]. symmetry. apply and_not_self. exact Wa.
      - unfold ok. split; [reflexivity|]. cbn [evalw eval_op1 eval_op2]. symmetry. rewrite and_comm. apply and_not_self. exact Wb. }
    change [ra_const_shl a b; ra_and_r a b; ra_and_l a b; ra_or_r a b; ra_or_l a b; ra_shl_shl a b]
      with (map (fun rl => rl a b) [ra_const_shl; ra_and_r; ra_and_l; ra_or_r; ra_or_l; ra_shl_shl]).
    destruct (first_some _) as [t|] eqn:F; [|dflt].
    apply (first_rule_ok AND [ra_const_shl; ra_and_r; ra_and_l; ra_or_r; ra_or_l; ra_shl_shl] a b t); try assumption.
    repeat (apply Forall_cons; [first [apply ra_const_shl_ok|apply ra_and_r_ok|apply ra_and_l_ok|apply ra_or_r_ok|apply ra_or_l_ok|apply ra_shl_shl_ok]|]).
    apply Forall_nil.
  Qed.

  (* --- OR -------------------------------------------------------------------- *)
  Lemma ro_and_r_ok : rule_ok OR ro_and_r.
  Proof.
    intros a b t Ha Hb. unfold ro_and_r. destruct (inner AND b) as [[x y]|] eqn:I; [|discriminate].
    destruct (among a (x, y)) eqn:E; [|discriminate]. intros H; inversion H; subst t.
    apply inner_eq in I. subst b. apply among_cases in E. cbn [fst snd] in E.
    split; [exact Ha|]. cbn [evalw eval_op2]. destruct E; subst; symmetry; [apply or_and_absorb|apply or_and_absorb_r].
  Qed.
  Lemma ro_and_l_ok : rule_ok OR ro_and_l.
  Proof.
    intros a b t Ha Hb. unfold ro_and_l. destruct (inner AND a) as [[x y]|] eqn:I; [|discriminate].
    destruct (among b (x, y)) eqn:E; [|discriminate]. intros H; inversion H; subst t.
    apply inner_eq in I. subst a. apply among_cases in E. cbn [fst snd] in E.
    split; [exact Hb|]. cbn [evalw eval_op2]. rewrite (or_comm (wand (ev x) (ev y))).
    destruct E; subst; symmetry; [apply or_and_absorb|apply or_and_absorb_r].
  Qed.
  Lemma ro_or_r_ok : rule_ok OR ro_or_r.
  Proof.
    intros a b t Ha Hb. unfold ro_or_r. destruct (inner OR b) as [[x y]|] eqn:I; [|discriminate].
    destruct (among a (x, y)) eqn:E; [|discriminate]. intros H; inversion H; subst t.
    apply inner_eq in I. subst b. apply among_cases in E. cbn [fst snd] in E.
    split; [exact Hb|]. cbn [evalw eval_op2]. destruct E; subst; symmetry; [apply or_or_absorb_l|apply or_or_absorb_r].
  Qed.
  Lemma ro_or_l_ok : rule_ok OR ro_or_l.
  Proof.
    intros a b t Ha Hb. unfold ro_or_l. destruct (inner OR a) as [[x y]|] eqn:I; [|discriminate].
    destruct (among b (x, y)) eqn:E; [|discriminate]. intros H; inversion H; subst t.
    apply inner_eq in I. subst a. apply among_cases in E. cbn [fst snd] in E.
    split; [exact Ha|]. cbn [evalw eval_op2]. rewrite (or_comm (wor (ev x) (ev y))).
    destruct E; subst; symmetry; [apply or_or_absorb_l|apply or_or_absorb_r].
  Qed.

  Lemma s_or_ok a b : wsort a = true -> wsort b = true -> ok (s_or a b) (eval_op2 OR (ev a) (ev b)).
  Proof.
    start2 s_or. brk; facts; [by_lemma or_0_l|].
    brk; facts.
    { unfold ok. split; [apply inw_constw; pose proof W_pos; unfold inw; lia|].
      cbn [evalw eval_op1 eval_op2]. symmetry. apply or_ones_l. apply (inw_ev _ Hb). }
    brk; facts; [by_lemma or_diag|].
    brk.
    { apply orb_true_iff in E2. destruct E2 as [E2|E2]; facts.
      - unfold ok. split; [apply inw_constw; pose proof W_pos; unfold inw; lia|].
        cbn [evalw eval_op1 eval_op2]. symmetry. apply or_not_self. exact Wa.
      - unfold ok. split; [apply inw_constw; pose proof W_pos; unfold inw; lia|].
        cbn [evalw eval_op1 eval_op2]. symmetry. rewrite or_comm. apply or_not_self. exact Wb. }
    change [ro_and_r a b; ro_and_l a b; ro_or_r a b; ro_or_l a b]
      with (map (fun rl => rl a b) [ro_and_r; ro_and_l; ro_or_r; ro_or_l]).
    destruct (first_some _) as [t|] eqn:F; [|dflt].
    apply (first_rule_ok OR [ro_and_r; ro_and_l; ro_or_r; ro_or_l] a b t); try assumption.
    repeat (apply Forall_cons; [first [apply ro_and_r_ok|apply ro_and_l_ok|apply ro_or_r_ok|apply ro_or_l_ok]|]).
    apply Forall_nil.
  Qed.

  (* --- XOR ------------------------------------------------------------------- *)
  Lemma rx_r_ok : rule_ok XOR rx_r.
  Proof.
    intros a b t Ha Hb. unfold rx_r. destruct (inner XOR b) as [[x y]|] eqn:I; [|discriminate].
    apply inner_eq in I. subst b. sorts.
    destruct (term_eqb a x) eqn:E1.
    - intros Hq; inversion Hq; subst t. facts. split; [assumption|]. cbn [evalw eval_op2]. symmetry. apply xor_xor_cancel.
    - destruct (term_eqb a y) eqn:E2; [|discriminate]. intros Hq; inversion Hq; subst t. facts.
      split; [assumption|]. cbn [evalw eval_op2]. symmetry. apply xor_xor_cancel_r.
  Qed.
  Lemma rx_l_ok : rule_ok XOR rx_l.
  Proof.
    intros a b t Ha Hb. unfold rx_l. destruct (inner XOR a) as [[x y]|] eqn:I; [|discriminate].
    apply inner_eq in I. subst a. sorts.
    destruct (term_eqb b x) eqn:E1.
    - intros Hq; inversion Hq; subst t. facts. split; [assumption|]. cbn [evalw eval_op2].
      rewrite (xor_comm (wxor _ _)). symmetry. apply xor_xor_cancel.
    - destruct (term_eqb b y) eqn:E2; [|discriminate]. intros Hq; inversion Hq; subst t. facts.
      split; [assumption|]. cbn [evalw eval_op2]. rewrite (xor_comm (wxor _ _)). symmetry. apply xor_xor_cancel_r.
  Qed.

  Lemma s_xor_ok a b : wsort a = true -> wsort b = true -> ok (s_xor a b) (eval_op2 XOR (ev a) (ev b)).
  Proof.
    start2 s_xor. brk; facts; [by_lemma xor_diag|]. brk; facts; [by_lemma xor_0_l|].
    change [rx_r a b; rx_l a b] with (map (fun rl => rl a b) [rx_r; rx_l]).
    destruct (first_some _) as [t|] eqn:F; [|dflt].
    apply (first_rule_ok XOR [rx_r; rx_l] a b t); try assumption.
    repeat (apply Forall_cons; [first [apply rx_r_ok|apply rx_l_ok]|]).
    apply Forall_nil.
  Qed.

  Lemma both_const_eq a b x y : both_const a b = Some (x, y) -> a = TConst x /\ b = TConst y.
  Proof.
    destruct a as [z|n|k|k|k a1|o a1|o a1 a2|o a1 a2 a3|m a1|s k|m a1 a2| |m a1 v|m a1 v| |s k v]; simpl; try discriminate.
    destruct b as [z'|n|k|k|k a1|o a1|o a1 a2|o a1 a2 a3|m a1|s k|m a1 a2| |m a1 v|m a1 v| |s k v]; simpl; try discriminate.
    intros H; inversion H; subst; split; reflexivity.
  Qed.

  Lemma simp2'_ok o a b : wsort a = true -> wsort b = true -> ok (simp2' o a b) (eval_op2 o (ev a) (ev b)).
  Proof.
    intros Ha Hb. destruct o; cbn [simp2'];
      try (destruct (term_cmp a b);
           first [ apply s_add_ok | apply s_mul_ok | apply s_and_ok | apply s_or_ok | apply s_xor_ok | apply s_eq_ok
                 | (rewrite (eval_op2_comm _ (ev a) (ev b)) by reflexivity;
                    first [ apply s_add_ok | apply s_mul_ok | apply s_and_ok | apply s_or_ok | apply s_xor_ok | apply s_eq_ok ]) ];
           assumption);
      try (first [apply s_sub_ok | apply s_div_ok | apply s_sdiv_ok | apply s_mod_ok | apply s_smod_ok
                 | apply s_exp_ok | apply s_lt_ok | apply s_slt_ok ]; assumption);
      try (apply s_shift_ok; auto);
      try dflt.
  Qed.

  Lemma simp2_ok o a b : wsort a = true -> wsort b = true -> ok (simp2 o a b) (eval_op2 o (ev a) (ev b)).
  Proof.
    intros Ha Hb. unfold simp2. destruct (both_const a b) as [[x y]|] eqn:E; [|apply simp2'_ok; assumption].
    apply both_const_eq in E. destruct E; subst. unfold ok. cbn [wsort evalw]. split; [|reflexivity].
    apply inw_constw, eval_op2_range; apply constw_inw; assumption.
  Qed.

  Lemma simp1_ok o a : wsort a = true -> ok (simp1 o a) (eval_op1 o (ev a)).
  Proof. intros Ha. destruct o; cbn [simp1 eval_op1]; [apply s_iszero_ok|apply s_not_ok]; assumption. Qed.

  Lemma simp3_ok o a b c : wsort a = true -> wsort b = true -> wsort c = true ->
    ok (simp3 o a b c) (eval_op3 o (ev a) (ev b) (ev c)).
  Proof.
    intros Ha Hb Hc. unfold simp3.
    assert (D : ok (TOp3 o a b c) (eval_op3 o (ev a) (ev b) (ev c))).
    { unfold ok. cbn [wsort evalw]. rewrite Ha, Hb, Hc. split; reflexivity. }
    destruct (both_const a b) as [[x y]|] eqn:E; [|exact D].
    destruct c as [z|n|k|k|k a1|o1 a1|o1 a1 a2|o1 a1 a2 a3|m a1|s k|m a1 a2| |m a1 v|m a1 v| |s k v]; try exact D.
    apply both_const_eq in E. destruct E; subst. unfold ok. cbn [wsort evalw]. split; [|reflexivity].
    apply inw_constw, eval_op3_range. apply constw_inw; assumption.
  Qed.

  Lemma simp_env1_ok k a : wsort a = true -> ok (simp_env1 k a) (e_env1 (r_env r) k (ev a)).
  Proof.
    intros Ha. assert (D : ok (TEnv1 k a) (e_env1 (r_env r) k (ev a))).
    { unfold ok. cbn [wsort evalw]. split; [exact Ha|reflexivity]. }
    destruct a as [z|n|k'|k'|k' a1|o1 a1|o1 a1 a2|o1 a1 a2 a3|m a1|s k'|m a1 a2| |m a1 v|m a1 v| |s k' v]; try exact D.
    cbn [simp_env1]. destruct (N.eqb k K_BALANCE && N.eqb k' K_ADDRESS) eqn:E; [|exact D].
    apply andb_true_iff in E. destruct E as [E1 E2]. apply N.eqb_eq in E1, E2. subst.
    unfold ok. cbn [wsort evalw]. split; [reflexivity|].
    destruct Hr as (_ & _ & _ & He). destruct He as (_ & _ & _ & _ & _ & _ & _ & _ & Hsb). exact Hsb.
  Qed.

  (* --- addresses ------------------------------------------------------------ *)
  Definition bval (b : option term) : Z := match b with None => 0 | Some x => ev x end.

  Lemma split_addr_sound t : wsort t = true ->
    ev t = (bval (fst (split_addr t)) + snd (split_addr t)) mod W.
  Proof.
    intros Ht. pose proof (inw_ev _ Ht) as Wt.
    assert (D : ev t = (ev t + 0) mod W) by (rewrite Z.add_0_r; symmetry; apply Z.mod_small; exact Wt).
    destruct t as [z|n|k|k|k a1|o a1|o a1 a2|o a1 a2 a3|m a1|s k|m a1 a2| |m a1 v|m a1 v| |s k v];
      try exact D.
    - cbn [split_addr fst snd bval evalw]. rewrite Z.add_0_l. symmetry. apply Z.mod_small. exact Wt.
    - destruct o; try exact D.
      destruct a1 as [z|n|k|k|k b1|o b1|o b1 b2|o b1 b2 b3|m b1|s k|m b1 b2| |m b1 v|m b1 v| |s k v];
        try exact D.
      cbn [split_addr fst snd bval evalw eval_op2]. unfold wadd, wrap. f_equal. lia.
  Qed.

  Lemma same_base_eq b1 b2 : same_base b1 b2 = true -> bval b1 = bval b2.
  Proof.
    destruct b1, b2; simpl; try discriminate; [|reflexivity]. intros H. apply term_eqb_eq in H. subst. reflexivity.
  Qed.

  Lemma mod_diff_cases B c1 c2 : let A1 := (B + c1) mod W in let A2 := (B + c2) mod W in
    let d := (c2 - c1) mod W in A2 - A1 = d \/ A2 - A1 = d - W.
  Proof.
    pose proof W_pos as HW. intros A1 A2 d.
    pose proof (Z.div_mod (B + c1) W ltac:(lia)) as E1. pose proof (Z.mod_pos_bound (B + c1) W HW) as R1.
    pose proof (Z.div_mod (B + c2) W ltac:(lia)) as E2. pose proof (Z.mod_pos_bound (B + c2) W HW) as R2.
    pose proof (Z.div_mod (c2 - c1) W ltac:(lia)) as E3. pose proof (Z.mod_pos_bound (c2 - c1) W HW) as R3.
    fold A1 in E1, R1. fold A2 in E2, R2. fold d in E3, R3.
    set (q1 := (B + c1) / W) in *. set (q2 := (B + c2) / W) in *. set (q3 := (c2 - c1) / W) in *.
    assert (A2 - A1 = d + W * (q3 - q2 + q1)) by lia.
    assert (q3 - q2 + q1 = 0 \/ q3 - q2 + q1 = -1) by nia.
    lia.
  Qed.

  Lemma disj_sound n1 a1 n2 a2 : disj n1 a1 n2 a2 = true -> wsort a1 = true -> wsort a2 = true ->
    forall x, ~ (ev a1 <= x < ev a1 + n1 /\ ev a2 <= x < ev a2 + n2).
  Proof.
    unfold disj. intros H H1 H2 x.
    destruct (disj_const n1 a1 n2 a2) eqn:DC.
    { unfold disj_const in DC.
      destruct a1 as [c1| | | | | | | | | | | | | | | ]; try discriminate DC.
      destruct a2 as [c2| | | | | | | | | | | | | | | ]; try discriminate DC.
      cbn [evalw]. apply orb_true_iff in DC. destruct DC as [DC|DC]; apply Z.leb_le in DC; lia. }
    rewrite (split_addr_sound a1 H1), (split_addr_sound a2 H2).
    destruct (split_addr a1) as [b1 c1]. destruct (split_addr a2) as [b2 c2]. cbn [fst snd].
    cbn [orb] in H.
    apply orb_true_iff in H. destruct H as [H|H].
    { apply orb_true_iff in H. destruct H as [H|H]; apply Z.eqb_eq in H; lia. }
    repeat (apply andb_true_iff in H; destruct H as [H ?]).
    apply same_base_eq in H. rewrite <- H.
    repeat match goal with
           | H : (_ <=? _) = true |- _ => apply Z.leb_le in H
           end.
    pose proof (mod_diff_cases (bval b1) c1 c2) as C. cbv zeta in C. lia.
  Qed.

  Lemma keys_distinct_sound k1 k2 : keys_distinct k1 k2 = true -> wsort k1 = true -> wsort k2 = true ->
    ev k1 <> ev k2.
  Proof.
    unfold keys_distinct. intros H H1 H2.
    rewrite (split_addr_sound k1 H1), (split_addr_sound k2 H2).
    destruct (split_addr k1) as [b1 c1]. destruct (split_addr k2) as [b2 c2]. cbn [fst snd].
    apply andb_true_iff in H. destruct H as [H D]. apply same_base_eq in H. rewrite <- H.
    apply negb_true_iff in D. apply Z.eqb_neq in D.
    pose proof (mod_diff_cases (bval b1) c1 c2) as C. cbv zeta in C. pose proof W_pos.
    pose proof (Z.mod_pos_bound (c2 - c1) W ltac:(lia)). lia.
  Qed.

  (* --- memory reads ----------------------------------------------------------- *)
  Lemma relevant_sound n a m : msort m = true -> wsort a = true ->
    msort (relevant n a m) = true /\
    (forall x, ev a <= x < ev a + n -> evalm r (relevant n a m) x = evalm r m x).
  Proof.
    intros Hm Ha.
    induction m as [z|n0|k|k|k a1 _|o a1 _|o a1 _ a2 _|o a1 _ a2 _ a3 _|m0 _ a1 _|s0 _ k _|m0 _ a1 _ a2 _
                   | |m0 IH a1 _ v _|m0 IH a1 _ v _| |s0 _ k _ v _]; try discriminate Hm.
    - split; [reflexivity|intros; reflexivity].
    - cbn [msort] in Hm. apply andb_true_iff in Hm. destruct Hm as [Hm Hv].
      apply andb_true_iff in Hm. destruct Hm as [Hm Ha1]. destruct (IH Hm) as [IS IE].
      cbn [relevant]. destruct (disj n a 32 a1) eqn:D.
      + split; [exact IS|]. intros x Hx. rewrite IE by exact Hx. cbn [evalm]. symmetry. apply mstore_other.
        intros Hin. apply (disj_sound _ _ _ _ D Ha Ha1 x). split; assumption.
      + split; [cbn [msort]; rewrite IS, Ha1, Hv; reflexivity|].
        intros x Hx. cbn [evalm]. unfold mstore. rewrite IE by exact Hx. reflexivity.
    - cbn [msort] in Hm. apply andb_true_iff in Hm. destruct Hm as [Hm Hv].
      apply andb_true_iff in Hm. destruct Hm as [Hm Ha1]. destruct (IH Hm) as [IS IE].
      cbn [relevant]. destruct (disj n a 1 a1) eqn:D.
      + split; [exact IS|]. intros x Hx. rewrite IE by exact Hx. cbn [evalm]. symmetry. apply mstore8_other.
        intros Hin. apply (disj_sound _ _ _ _ D Ha Ha1 x). split; [assumption|lia].
      + split; [cbn [msort]; rewrite IS, Ha1, Hv; reflexivity|].
        intros x Hx. cbn [evalm]. unfold mstore8. rewrite IE by exact Hx. reflexivity.
  Qed.

  Lemma s_mload_ok m a : msort m = true -> wsort a = true -> ok (s_mload m a) (mload (evalm r m) (ev a)).
  Proof.
    intros Hm Ha. unfold s_mload. destruct (relevant_sound 32 a m Hm Ha) as [RS RE].
    assert (E : mload (evalm r (relevant 32 a m)) (ev a) = mload (evalm r m) (ev a)).
    { apply mload_ext. intros x Hx. apply RE. exact Hx. }
    assert (D : ok (TMload (relevant 32 a m) a) (mload (evalm r m) (ev a))).
    { unfold ok. cbn [wsort evalw]. rewrite RS, Ha. split; [reflexivity|exact E]. }
    destruct (relevant 32 a m) as [z|n0|k|k|k a1|o a1|o a1 a2|o a1 a2 a3|m0 a1|s0 k|m0 a1 a2
                                  | |m0 a1 v|m0 a1 v| |s0 k v] eqn:R; try exact D.
    destruct (term_eqb a a1) eqn:Q; [|exact D]. apply term_eqb_eq in Q. subst a1.
    cbn [msort] in RS. apply andb_true_iff in RS. destruct RS as [_ Hv].
    split; [exact Hv|]. rewrite <- E. cbn [evalm]. symmetry. apply mload_mstore_same. apply inw_ev. exact Hv.
  Qed.

  Lemma s_keccak_ok m a n : msort m = true -> wsort a = true -> wsort n = true ->
    ok (s_keccak m a n) (e_keccak (r_env r) (mem_range (evalm r m) (ev a) (Z.to_nat (ev n)))).
  Proof.
    intros Hm Ha Hn.
    assert (D : ok (TKeccak m a n) (e_keccak (r_env r) (mem_range (evalm r m) (ev a) (Z.to_nat (ev n))))).
    { unfold ok. cbn [wsort evalw]. rewrite Hm, Ha, Hn. split; reflexivity. }
    destruct n as [z|n0|k|k|k a1|o a1|o a1 a2|o a1 a2 a3|m0 a1|s0 k|m0 a1 a2| |m0 a1 v|m0 a1 v| |s0 k v];
      try exact D.
    cbn [s_keccak]. destruct (relevant_sound z a m Hm Ha) as [RS RE].
    unfold ok. cbn [wsort evalw] in *. rewrite RS, Ha, Hn. split; [reflexivity|].
    f_equal. apply mem_range_ext. intros x Hx. apply RE.
    assert (0 <= z) by (apply constw_inw in Hn; apply Hn). rewrite Z2Nat.id in Hx by assumption. exact Hx.
  Qed.

  Lemma relevant_s_sound k s : ssort s = true -> wsort k = true ->
    ssort (relevant_s k s) = true /\ evals r (relevant_s k s) (ev k) = evals r s (ev k).
  Proof.
    intros Hs Hk.
    induction s as [z|n0|k0|k0|k0 a1 _|o a1 _|o a1 _ a2 _|o a1 _ a2 _ a3 _|m0 _ a1 _|s0 _ k0 _|m0 _ a1 _ a2 _
                   | |m0 _ a1 _ v _|m0 _ a1 _ v _| |s0 IH k0 _ v _]; try discriminate Hs.
    - split; reflexivity.
    - cbn [ssort] in Hs. apply andb_true_iff in Hs. destruct Hs as [Hs Hv].
      apply andb_true_iff in Hs. destruct Hs as [Hs Hk0]. destruct (IH Hs) as [IS IE].
      cbn [relevant_s]. destruct (keys_distinct k k0) eqn:D.
      + split; [exact IS|]. rewrite IE. cbn [evals]. symmetry. apply sstore_other.
        apply (keys_distinct_sound _ _ D Hk Hk0).
      + split; [cbn [ssort]; rewrite IS, Hk0, Hv; reflexivity|].
        cbn [evals]. unfold sstore. rewrite IE. reflexivity.
  Qed.

  Lemma s_sload_ok s k : ssort s = true -> wsort k = true -> ok (s_sload s k) (evals r s (ev k)).
  Proof.
    intros Hs Hk. unfold s_sload. destruct (relevant_s_sound k s Hs Hk) as [RS RE].
    assert (D : ok (TSload (relevant_s k s) k) (evals r s (ev k))).
    { unfold ok. cbn [wsort evalw]. rewrite RS, Hk. split; [reflexivity|exact RE]. }
    destruct (relevant_s k s) as [z|n0|k0|k0|k0 a1|o a1|o a1 a2|o a1 a2 a3|m0 a1|s0 k0|m0 a1 a2
                                 | |m0 a1 v|m0 a1 v| |s0 k0 v] eqn:R; try exact D.
    destruct (term_eqb k k0) eqn:Q; [|exact D]. apply term_eqb_eq in Q. subst k0.
    cbn [ssort] in RS. apply andb_true_iff in RS. destruct RS as [_ Hv].
    split; [exact Hv|]. rewrite <- RE. cbn [evals]. symmetry. apply sstore_same.
  Qed.

  Lemma drop_same_sound a m : msort m = true -> wsort a = true ->
    msort (drop_same a m) = true /\
    (forall x, ~ (ev a <= x < ev a + 32) -> evalm r (drop_same a m) x = evalm r m x).
  Proof.
    intros Hm Ha.
    induction m as [z|n0|k|k|k a1 _|o a1 _|o a1 _ a2 _|o a1 _ a2 _ a3 _|m0 _ a1 _|s0 _ k _|m0 _ a1 _ a2 _
                   | |m0 IH a1 _ v _|m0 IH a1 _ v _| |s0 _ k _ v _]; try discriminate Hm.
    - split; [reflexivity|intros; reflexivity].
    - cbn [msort] in Hm. apply andb_true_iff in Hm. destruct Hm as [Hm Hv].
      apply andb_true_iff in Hm. destruct Hm as [Hm Ha1]. destruct (IH Hm) as [IS IE].
      cbn [drop_same]. destruct (term_eqb a a1) eqn:D.
      + apply term_eqb_eq in D. subst a1. split; [exact IS|]. intros x Hx. rewrite IE by exact Hx.
        cbn [evalm]. symmetry. apply mstore_other. exact Hx.
      + split; [cbn [msort]; rewrite IS, Ha1, Hv; reflexivity|].
        intros x Hx. cbn [evalm]. unfold mstore. rewrite IE by exact Hx. reflexivity.
    - cbn [msort] in Hm. apply andb_true_iff in Hm. destruct Hm as [Hm Hv].
      apply andb_true_iff in Hm. destruct Hm as [Hm Ha1]. destruct (IH Hm) as [IS IE].
      cbn [drop_same]. destruct (term_eqb a a1) eqn:D.
      + apply term_eqb_eq in D. subst a1. split; [exact IS|]. intros x Hx. rewrite IE by exact Hx.
        cbn [evalm]. symmetry. apply mstore8_other. lia.
      + split; [cbn [msort]; rewrite IS, Ha1, Hv; reflexivity|].
        intros x Hx. cbn [evalm]. unfold mstore8. rewrite IE by exact Hx. reflexivity.
  Qed.

  Lemma drop_same8_sound a m : msort m = true -> wsort a = true ->
    msort (drop_same8 a m) = true /\
    (forall x, x <> ev a -> evalm r (drop_same8 a m) x = evalm r m x).
  Proof.
    intros Hm Ha.
    induction m as [z|n0|k|k|k a1 _|o a1 _|o a1 _ a2 _|o a1 _ a2 _ a3 _|m0 _ a1 _|s0 _ k _|m0 _ a1 _ a2 _
                   | |m0 IH a1 _ v _|m0 IH a1 _ v _| |s0 _ k _ v _]; try discriminate Hm.
    - split; [reflexivity|intros; reflexivity].
    - cbn [msort] in Hm. apply andb_true_iff in Hm. destruct Hm as [Hm Hv].
      apply andb_true_iff in Hm. destruct Hm as [Hm Ha1]. destruct (IH Hm) as [IS IE].
      cbn [drop_same8]. split; [cbn [msort]; rewrite IS, Ha1, Hv; reflexivity|].
      intros x Hx. cbn [evalm]. unfold mstore. rewrite IE by exact Hx. reflexivity.
    - cbn [msort] in Hm. apply andb_true_iff in Hm. destruct Hm as [Hm Hv].
      apply andb_true_iff in Hm. destruct Hm as [Hm Ha1]. destruct (IH Hm) as [IS IE].
      cbn [drop_same8]. destruct (term_eqb a a1) eqn:D.
      + apply term_eqb_eq in D. subst a1. split; [exact IS|]. intros x Hx. rewrite IE by exact Hx.
        cbn [evalm]. symmetry. apply mstore8_other. exact Hx.
      + split; [cbn [msort]; rewrite IS, Ha1, Hv; reflexivity|].
        intros x Hx. cbn [evalm]. unfold mstore8. rewrite IE by exact Hx. reflexivity.
  Qed.

  Lemma mstore_drop_same m a v : msort m = true -> wsort a = true ->
    forall x, mstore (evalm r (drop_same a m)) (ev a) v x = mstore (evalm r m) (ev a) v x.
  Proof.
    intros Hm Ha x. destruct (drop_same_sound a m Hm Ha) as [_ E].
    destruct (Z_le_dec (ev a) x) as [H1|H1]; [destruct (Z_lt_dec x (ev a + 32)) as [H2|H2]|].
    - rewrite !mstore_in by lia. reflexivity.
    - rewrite !mstore_other by lia. apply E. lia.
    - rewrite !mstore_other by lia. apply E. lia.
  Qed.

  Lemma mstore_mstore_comm m a v a' v' x : ~ (a <= x < a + 32 /\ a' <= x < a' + 32) ->
    mstore (mstore m a v) a' v' x = mstore (mstore m a' v') a v x.
  Proof.
    intros D. unfold mstore.
    destruct ((a' <=? x) && (x <? a' + 32)) eqn:E1; destruct ((a <=? x) && (x <? a + 32)) eqn:E2; try reflexivity.
    exfalso. apply D. lia.
  Qed.
  Lemma mstore8_mstore_comm m a v a' v' x : ~ (a <= x < a + 1 /\ a' <= x < a' + 32) ->
    mstore (mstore8 m a v) a' v' x = mstore8 (mstore m a' v') a v x.
  Proof.
    intros D. unfold mstore, mstore8.
    destruct ((a' <=? x) && (x <? a' + 32)) eqn:E1; destruct (x =? a) eqn:E2; try reflexivity.
    exfalso. apply D. lia.
  Qed.
  Lemma mstore_mstore8_comm m a v a' v' x : ~ (a <= x < a + 32 /\ a' <= x < a' + 1) ->
    mstore8 (mstore m a v) a' v' x = mstore (mstore8 m a' v') a v x.
  Proof.
    intros D. unfold mstore, mstore8.
    destruct ((a <=? x) && (x <? a + 32)) eqn:E1; destruct (x =? a') eqn:E2; try reflexivity.
    exfalso. apply D. lia.
  Qed.
  Lemma mstore8_mstore8_comm m a v a' v' x : ~ (a <= x < a + 1 /\ a' <= x < a' + 1) ->
    mstore8 (mstore8 m a v) a' v' x = mstore8 (mstore8 m a' v') a v x.
  Proof.
    intros D. unfold mstore8.
    destruct (x =? a) eqn:E1; destruct (x =? a') eqn:E2; try reflexivity.
    exfalso. apply D. lia.
  Qed.

  Lemma mstore8_mstore8_same m a a' v x :
    mstore8 (mstore8 m a v) a' v x = mstore8 (mstore8 m a' v) a v x.
  Proof. unfold mstore8. destruct (x =? a) eqn:E1; destruct (x =? a') eqn:E2; reflexivity. Qed.

  Definition store_w (w : bool) (m : memory) (a v : Z) : memory := if w then mstore m a v else mstore8 m a v.

  Lemma ins_store_sound w a v m : msort m = true -> wsort a = true -> wsort v = true ->
    msort (ins_store w a v m) = true /\
    (forall x, evalm r (ins_store w a v m) x = store_w w (evalm r m) (ev a) (ev v) x).
  Proof.
    intros Hm Ha Hv.
    assert (T : forall m0, msort m0 = true ->
                msort (if w then MStore m0 a v else MStore8 m0 a v) = true /\
                (forall x, evalm r (if w then MStore m0 a v else MStore8 m0 a v) x = store_w w (evalm r m0) (ev a) (ev v) x)).
    { intros m0 H0. destruct w; cbn [msort evalm store_w]; rewrite H0, Ha, Hv; split; reflexivity. }
    induction m as [z|n0|k|k|k a1 _|o a1 _|o a1 _ a2 _|o a1 _ a2 _ a3 _|m0 _ a1 _|s0 _ k _|m0 _ a1 _ a2 _
                   | |m0 IH a1 _ v1 _|m0 IH a1 _ v1 _| |s0 _ k _ v1 _]; try discriminate Hm.
    - cbn [ins_store]. apply T. reflexivity.
    - pose proof Hm as Hm'. cbn [msort] in Hm. apply andb_true_iff in Hm. destruct Hm as [Hm Hv1].
      apply andb_true_iff in Hm. destruct Hm as [Hm Ha1]. destruct (IH Hm) as [IS IE].
      cbn [ins_store]. destruct (disj (if w then 32 else 1) a 32 a1 && addr_lt a a1) eqn:D; [|apply T; exact Hm'].
      apply andb_true_iff in D. destruct D as [D _].
      split; [cbn [msort]; rewrite IS, Ha1, Hv1; reflexivity|].
      intros x. cbn [evalm]. pose proof (disj_sound _ _ _ _ D Ha Ha1 x) as DS.
      transitivity (mstore (store_w w (evalm r m0) (ev a) (ev v)) (ev a1) (ev v1) x).
      { unfold mstore. rewrite IE. reflexivity. }
      destruct w; cbn [store_w].
      + apply mstore_mstore_comm. exact DS.
      + apply mstore8_mstore_comm. exact DS.
    - pose proof Hm as Hm'. cbn [msort] in Hm. apply andb_true_iff in Hm. destruct Hm as [Hm Hv1].
      apply andb_true_iff in Hm. destruct Hm as [Hm Ha1]. destruct (IH Hm) as [IS IE].
      cbn [ins_store].
      destruct ((disj (if w then 32 else 1) a 1 a1 && addr_lt a a1) || (negb w && term_eqb v v1 && olt a a1)) eqn:D;
        [|apply T; exact Hm'].
      split; [cbn [msort]; rewrite IS, Ha1, Hv1; reflexivity|].
      intros x. cbn [evalm].
      transitivity (mstore8 (store_w w (evalm r m0) (ev a) (ev v)) (ev a1) (ev v1) x).
      { unfold mstore8. rewrite IE. reflexivity. }
      apply orb_true_iff in D. destruct D as [D|D].
      + apply andb_true_iff in D. destruct D as [D _].
        pose proof (disj_sound _ _ _ _ D Ha Ha1 x) as DS.
        destruct w; cbn [store_w].
        * apply mstore_mstore8_comm. exact DS.
        * apply mstore8_mstore8_comm. exact DS.
      + apply andb_true_iff in D. destruct D as [D _]. apply andb_true_iff in D. destruct D as [Dw Dv].
        destruct w; [discriminate Dw|]. apply term_eqb_eq in Dv. subst v1. cbn [store_w].
        apply mstore8_mstore8_same.
  Qed.

  Lemma ins_sstore_sound k v s : ssort s = true -> wsort k = true -> wsort v = true ->
    ssort (ins_sstore k v s) = true /\
    (forall x, evals r (ins_sstore k v s) x = sstore (evals r s) (ev k) (ev v) x).
  Proof.
    intros Hs Hk Hv.
    assert (T : forall s0, ssort s0 = true ->
                ssort (SStore s0 k v) = true /\ (forall x, evals r (SStore s0 k v) x = sstore (evals r s0) (ev k) (ev v) x)).
    { intros s0 H0. cbn [ssort evals]. rewrite H0, Hk, Hv. split; reflexivity. }
    induction s as [z|n0|k0|k0|k0 a1 _|o a1 _|o a1 _ a2 _|o a1 _ a2 _ a3 _|m0 _ a1 _|s0 _ k0 _|m0 _ a1 _ a2 _
                   | |m0 _ a1 _ v1 _|m0 _ a1 _ v1 _| |s0 IH k0 _ v1 _]; try discriminate Hs.
    - cbn [ins_sstore]. apply T. reflexivity.
    - pose proof Hs as Hs'. cbn [ssort] in Hs. apply andb_true_iff in Hs. destruct Hs as [Hs Hv1].
      apply andb_true_iff in Hs. destruct Hs as [Hs Hk0]. destruct (IH Hs) as [IS IE].
      cbn [ins_sstore]. destruct ((keys_distinct k k0 || term_eqb v v1) && olt k k0) eqn:D; [|apply T; exact Hs'].
      apply andb_true_iff in D. destruct D as [D _].
      split; [cbn [ssort]; rewrite IS, Hk0, Hv1; reflexivity|].
      intros x. cbn [evals]. unfold sstore at 1. rewrite IE. unfold sstore.
      apply orb_true_iff in D. destruct D as [D|D].
      + pose proof (keys_distinct_sound _ _ D Hk Hk0) as NE.
        destruct (x =? ev k0) eqn:E1; destruct (x =? ev k) eqn:E2; try reflexivity.
        apply Z.eqb_eq in E1, E2. exfalso. apply NE. congruence.
      + apply term_eqb_eq in D. subst v1.
        destruct (x =? ev k0) eqn:E1; destruct (x =? ev k) eqn:E2; reflexivity.
  Qed.

  Lemma s_mstore_ok m a v : msort m = true -> wsort a = true -> wsort v = true ->
    msort (s_mstore m a v) = true /\
    (forall x, evalm r (s_mstore m a v) x = mstore (evalm r m) (ev a) (ev v) x).
  Proof.
    intros Hm Ha Hv. destruct (drop_same_sound a m Hm Ha) as [DS _].
    assert (D : msort (ins_store true a v (drop_same a m)) = true /\
                (forall x, evalm r (ins_store true a v (drop_same a m)) x = mstore (evalm r m) (ev a) (ev v) x)).
    { destruct (ins_store_sound true a v _ DS Ha Hv) as [S E]. split; [exact S|]. intros x. rewrite E.
      cbn [store_w]. apply mstore_drop_same; assumption. }
    destruct v as [z|n0|k|k|k a1|o a1|o a1 a2|o a1 a2 a3|m0 a1|s0 k|m0 a1 a2| |m0 a1 v0|m0 a1 v0| |s0 k v0];
      try exact D.
    cbn [s_mstore]. destruct (term_eqb a a1 && term_eqb m0 (relevant 32 a m)) eqn:Q; [|exact D].
    apply andb_true_iff in Q. destruct Q as [Q1 Q2]. apply term_eqb_eq in Q1, Q2. subst a1 m0.
    split; [exact Hm|]. intros x. cbn [evalw].
    destruct (relevant_sound 32 a m Hm Ha) as [RS RE].
    rewrite (mload_ext (evalm r (relevant 32 a m)) (evalm r m) (ev a)) by (intros y Hy; apply RE; exact Hy).
    symmetry. apply mstore_mload_same. apply (evalm_wf r m Hr Hm).
  Qed.

  Lemma drop_same_s_sound k s : ssort s = true -> wsort k = true ->
    ssort (drop_same_s k s) = true /\
    (forall x, x <> ev k -> evals r (drop_same_s k s) x = evals r s x).
  Proof.
    intros Hs Hk.
    induction s as [z|n0|k0|k0|k0 a1 _|o a1 _|o a1 _ a2 _|o a1 _ a2 _ a3 _|m0 _ a1 _|s0 _ k0 _|m0 _ a1 _ a2 _
                   | |m0 _ a1 _ v _|m0 _ a1 _ v _| |s0 IH k0 _ v _]; try discriminate Hs.
    - split; [reflexivity|intros; reflexivity].
    - cbn [ssort] in Hs. apply andb_true_iff in Hs. destruct Hs as [Hs Hv].
      apply andb_true_iff in Hs. destruct Hs as [Hs Hk0]. destruct (IH Hs) as [IS IE].
      cbn [drop_same_s]. destruct (term_eqb k k0) eqn:D.
      + apply term_eqb_eq in D. subst k0. split; [exact IS|]. intros x Hx. rewrite IE by exact Hx.
        cbn [evals]. symmetry. apply sstore_other. exact Hx.
      + split; [cbn [ssort]; rewrite IS, Hk0, Hv; reflexivity|].
        intros x Hx. cbn [evals]. unfold sstore. rewrite IE by exact Hx. reflexivity.
  Qed.

  Lemma s_sstore_ok s k v : ssort s = true -> wsort k = true -> wsort v = true ->
    ssort (s_sstore s k v) = true /\
    (forall x, evals r (s_sstore s k v) x = sstore (evals r s) (ev k) (ev v) x).
  Proof.
    intros Hs Hk Hv. destruct (drop_same_s_sound k s Hs Hk) as [DS DE].
    assert (D : ssort (ins_sstore k v (drop_same_s k s)) = true /\
                (forall x, evals r (ins_sstore k v (drop_same_s k s)) x = sstore (evals r s) (ev k) (ev v) x)).
    { destruct (ins_sstore_sound k v _ DS Hk Hv) as [S E]. split; [exact S|]. intros x. rewrite E. unfold sstore.
      destruct (Z.eqb_spec x (ev k)); [reflexivity|]. apply DE. assumption. }
    destruct v as [z|n0|k0|k0|k0 a1|o a1|o a1 a2|o a1 a2 a3|m0 a1|s0 k0|m0 a1 a2| |m0 a1 v0|m0 a1 v0| |s0 k0 v0];
      try exact D.
    cbn [s_sstore]. destruct (term_eqb k k0 && term_eqb s0 (relevant_s k s)) eqn:Q; [|exact D].
    apply andb_true_iff in Q. destruct Q as [Q1 Q2]. apply term_eqb_eq in Q1, Q2. subst k0 s0.
    split; [exact Hs|]. intros x. cbn [evalw].
    destruct (relevant_s_sound k s Hs Hk) as [RS RE]. rewrite RE.
    unfold sstore. destruct (Z.eqb_spec x (ev k)); [subst; reflexivity|reflexivity].
  Qed.

  Definition P (t : term) : Prop :=
    (wsort t = true -> ok (norm t) (ev t)) /\
    (msort t = true -> msort (norm t) = true /\ forall x, evalm r (norm t) x = evalm r t x) /\
    (ssort t = true -> ssort (norm t) = true /\ forall k, evals r (norm t) k = evals r t k).

  Ltac split3 := split; [|split]; intros Hs; try discriminate Hs.
  Ltac sorts_in H := cbn [wsort msort ssort] in H;
    repeat match type of H with _ && _ = true => let H2 := fresh "Hs" in apply andb_true_iff in H; destruct H as [H H2] end.

  Lemma norm_ok t : P t.
  Proof.
    unfold P.
    induction t as [z|n|k|k|k a IHa|o a IHa|o a IHa b IHb|o a IHa b IHb c IHc|m IHm a IHa|s IHs k IHk|m IHm a IHa n IHn
                   | |m IHm a IHa v IHv|m IHm a IHa v IHv| |s IHs k IHk v IHv]; cbn [norm].
    - split3. split; [exact Hs|reflexivity].
    - split3. split; [exact Hs|reflexivity].
    - split3. split; [exact Hs|reflexivity].
    - split3. split; [exact Hs|reflexivity].
    - split3. cbn [wsort] in Hs. destruct (proj1 IHa Hs) as [S E].
      destruct (simp_env1_ok k _ S) as [S' E']. split; [exact S'|]. rewrite E', E. reflexivity.
    - split3. cbn [wsort] in Hs. destruct (proj1 IHa Hs) as [S E].
      destruct (simp1_ok o _ S) as [S' E']. split; [exact S'|]. rewrite E', E. reflexivity.
    - split3. sorts_in Hs. destruct (proj1 IHa Hs) as [Sa Ea]. destruct (proj1 IHb Hs0) as [Sb Eb].
      destruct (simp2_ok o _ _ Sa Sb) as [S' E']. split; [exact S'|]. rewrite E', Ea, Eb. reflexivity.
    - split3. sorts_in Hs. destruct (proj1 IHa Hs) as [Sa Ea]. destruct (proj1 IHb Hs1) as [Sb Eb].
      destruct (proj1 IHc Hs0) as [Sc Ec].
      destruct (simp3_ok o _ _ _ Sa Sb Sc) as [S' E']. split; [exact S'|]. rewrite E', Ea, Eb, Ec. reflexivity.
    - (* mload *) split3. sorts_in Hs. destruct (proj1 (proj2 IHm) Hs) as [Sm Em]. destruct (proj1 IHa Hs0) as [Sa Ea].
      destruct (s_mload_ok _ _ Sm Sa) as [S' E']. split; [exact S'|]. rewrite E', Ea. cbn [evalw].
      apply mload_ext. intros x _. apply Em.
    - (* sload *) split3. sorts_in Hs. destruct (proj2 (proj2 IHs) Hs) as [Ss Es]. destruct (proj1 IHk Hs0) as [Sk Ek].
      destruct (s_sload_ok _ _ Ss Sk) as [S' E']. split; [exact S'|]. rewrite E', Ek. cbn [evalw]. apply Es.
    - (* keccak *) split3. sorts_in Hs. destruct (proj1 (proj2 IHm) Hs) as [Sm Em]. destruct (proj1 IHa Hs1) as [Sa Ea].
      destruct (proj1 IHn Hs0) as [Sn En].
      destruct (s_keccak_ok _ _ _ Sm Sa Sn) as [S' E']. split; [exact S'|]. rewrite E', Ea, En. cbn [evalw].
      f_equal. apply mem_range_ext. intros x _. apply Em.
    - split3. split; [reflexivity|intros; reflexivity].
    - (* mstore *) split3. sorts_in Hs. destruct (proj1 (proj2 IHm) Hs) as [Sm Em]. destruct (proj1 IHa Hs1) as [Sa Ea].
      destruct (proj1 IHv Hs0) as [Sv Ev].
      destruct (s_mstore_ok _ _ _ Sm Sa Sv) as [S' E']. split; [exact S'|]. intros x. rewrite E', Ea, Ev.
      cbn [evalm]. unfold mstore. rewrite Em. reflexivity.
    - (* mstore8 *) split3. sorts_in Hs. destruct (proj1 (proj2 IHm) Hs) as [Sm Em]. destruct (proj1 IHa Hs1) as [Sa Ea].
      destruct (proj1 IHv Hs0) as [Sv Ev].
      destruct (drop_same8_sound _ _ Sm Sa) as [DS DE].
      destruct (ins_store_sound false _ _ _ DS Sa Sv) as [S' E']. split; [exact S'|]. intros x. rewrite E', Ea, Ev.
      cbn [store_w evalm]. unfold mstore8. destruct (x =? ev a) eqn:Q; [reflexivity|].
      apply Z.eqb_neq in Q. rewrite DE by (rewrite Ea; exact Q). apply Em.
    - split3. split; [reflexivity|intros; reflexivity].
    - (* sstore *) split3. sorts_in Hs. destruct (proj2 (proj2 IHs) Hs) as [Ss Es]. destruct (proj1 IHk Hs1) as [Sk Ek].
      destruct (proj1 IHv Hs0) as [Sv Ev].
      destruct (s_sstore_ok _ _ _ Ss Sk Sv) as [S' E']. split; [exact S'|]. intros x. rewrite E', Ek, Ev.
      cbn [evals]. unfold sstore. rewrite Es. reflexivity.
  Qed.

  Theorem norm_sound_w t : wsort t = true -> wsort (norm t) = true /\ ev (norm t) = ev t.
  Proof. intros H. apply (proj1 (norm_ok t) H). Qed.
  Theorem norm_sound_m t : msort t = true -> msort (norm t) = true /\ forall x, evalm r (norm t) x = evalm r t x.
  Proof. intros H. apply (proj1 (proj2 (norm_ok t)) H). Qed.
  Theorem norm_sound_s t : ssort t = true -> ssort (norm t) = true /\ forall k, evals r (norm t) k = evals r t k.
  Proof. intros H. apply (proj2 (proj2 (norm_ok t)) H). Qed.

  Theorem norm2_sound_w t : wsort t = true -> wsort (norm2 t) = true /\ ev (norm2 t) = ev t.
  Proof.
    intros H. destruct (norm_sound_w t H) as [S E]. destruct (norm_sound_w _ S) as [S' E'].
    unfold norm2. split; [exact S'|]. rewrite E', E. reflexivity.
  Qed.
  Theorem norm2_sound_m t : msort t = true -> msort (norm2 t) = true /\ forall x, evalm r (norm2 t) x = evalm r t x.
  Proof.
    intros H. destruct (norm_sound_m t H) as [S E]. destruct (norm_sound_m _ S) as [S' E'].
    unfold norm2. split; [exact S'|]. intros x. rewrite E', E. reflexivity.
  Qed.
  Theorem norm2_sound_s t : ssort t = true -> ssort (norm2 t) = true /\ forall k, evals r (norm2 t) k = evals r t k.
  Proof.
    intros H. destruct (norm_sound_s t H) as [S E]. destruct (norm_sound_s _ S) as [S' E'].
    unfold norm2. split; [exact S'|]. intros x. rewrite E', E. reflexivity.
  Qed.
End Norm.
