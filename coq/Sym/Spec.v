(* The stack-functional specification (SFS, the JSON document GASOL's front end hands to its
   back ends) as a Coq record, and the vocabulary of instruction-id sequences ("ids") the back
   ends return.  Model only: no proofs, no dependencies beyond the standard library.

   VALUE MODEL.  A *value* of a specification S is an [operand]:
     - [OVar v]   the stack variable "s(v)" of S.  A variable denotes either the word found at a
                  position of the initial stack (when it occurs in [s_src]) or the word produced
                  by the unique user instruction that lists it in [ui_out];
     - [OConst z] the literal word z (an integer written directly in "inpt_sk"/"tgt_ws"; this
                  happens when PUSH is not abstracted, option -push-basic).
   Variables and instruction ids are natural numbers: harness/sfs2coq.py interns the strings
   "s(k)" -> k and the instruction ids ("ADD_0", ...) -> their position in "user_instrs"
   (deterministic; the reverse tables are kept next to every replay).
   Stack lists are TOP FIRST, exactly as in the JSON ("src_ws", "tgt_ws", "inpt_sk": element 0 is
   the top of the stack / the first operand popped).

   A user instruction with [ui_push = true] and [ui_value = Some z] is the abstraction of
   "PUSH z": for the symbolic machine it is an ordinary 0-ary uninterpreted instruction
   producing its output variable.  The link from these symbolic values to concrete EVM words
   (an interpretation of [ui_op] as an EVM opcode, memory and storage) is deliberately NOT part
   of this file; it is layered on top (Sym/Term.v, Ref/EVM.v). *)
From Coq Require Import ZArith List Bool.
From Coq Require String Ascii.
Import ListNotations.
Notation string := String.string.

Inductive operand : Type :=
| OVar (v : nat)
| OConst (z : Z).

Definition operand_eqb (a b : operand) : bool :=
  match a, b with
  | OVar x, OVar y => Nat.eqb x y
  | OConst x, OConst y => Z.eqb x y
  | _, _ => false
  end.

Fixpoint operands_eqb (l1 l2 : list operand) : bool :=
  match l1, l2 with
  | [], [] => true
  | a :: r1, b :: r2 => operand_eqb a b && operands_eqb r1 r2
  | _, _ => false
  end.

(* One entry of "user_instrs". *)
Record uinstr : Type := mkUI {
  ui_id : nat;                (* interned "id" *)
  ui_op : string;             (* "disasm", e.g. "ADD", "MSTORE", "PUSH", "PUSH [tag]" *)
  ui_in : list operand;       (* "inpt_sk", first element = top of stack when executed *)
  ui_out : list nat;          (* "outpt_sk" (variables; at most one in GASOL's specs) *)
  ui_comm : bool;             (* "commutative" *)
  ui_storage : bool;          (* "storage": must be executed exactly once *)
  ui_push : bool;             (* "push" *)
  ui_value : option Z;        (* "value"[0] when present *)
  ui_gas : Z;                 (* "gas" *)
  ui_size : Z                 (* "size" *)
}.

Record spec : Type := mkSpec {
  s_src : list operand;            (* "src_ws", top first *)
  s_tgt : list operand;            (* "tgt_ws", top first *)
  s_instrs : list uinstr;          (* "user_instrs", in JSON order *)
  s_deps : list (nat * nat);       (* "dependencies": (a, b) = a must happen before b *)
  s_mem_deps : list (nat * nat);   (* "memory_dependences" *)
  s_sto_deps : list (nat * nat);   (* "storage_dependences" *)
  s_init_len : nat;                (* "init_progr_len" *)
  s_max_len : nat;                 (* "max_progr_len" *)
  s_max_sk : nat;                  (* "max_sk_sz" *)
  s_min_len : nat                  (* "min_length" (0 when absent) *)
}.

(* One element of an id sequence returned by a back end. *)
Inductive step : Type :=
| SPop
| SDup (k : nat)
| SSwap (k : nat)
| SNop
| SPushC (z : Z)      (* basic push of a literal, id "PUSHn 0x.." (not a user instruction) *)
| SIns (id : nat).    (* the user instruction with this interned id *)

Definition step_eqb (a b : step) : bool :=
  match a, b with
  | SPop, SPop => true
  | SDup x, SDup y => Nat.eqb x y
  | SSwap x, SSwap y => Nat.eqb x y
  | SNop, SNop => true
  | SPushC x, SPushC y => Z.eqb x y
  | SIns x, SIns y => Nat.eqb x y
  | _, _ => false
  end.

Definition is_nop (s : step) : bool := match s with SNop => true | _ => false end.

(* Length of a sequence as GASOL measures it: NOPs are padding and are dropped when the
   sequence is turned into assembly (solution_generation/ids2asm.py). *)
Definition seq_len (q : list step) : nat := length (filter (fun s => negb (is_nop s)) q).

(* First user instruction with the given id (ids are unique in well-formed specs). *)
Definition find_instr (S : spec) (id : nat) : option uinstr :=
  find (fun u => Nat.eqb (ui_id u) id) (s_instrs S).

(* The user instruction that defines variable v (first one listing v among its outputs). *)
Definition definer (S : spec) (v : nat) : option uinstr :=
  find (fun u => existsb (Nat.eqb v) (ui_out u)) (s_instrs S).

(* Commutative instructions may take their two operands in either order. *)
Definition swap2 (l : list operand) : list operand :=
  match l with
  | [a; b] => [b; a]
  | _ => l
  end.

(* Names of stores as the greedy and the occurrence counter recognise them
   ('MSTORE' in disasm or 'SSTORE' in disasm: covers MSTORE8). *)
Fixpoint prefixb (p s : string) : bool :=
  match p, s with
  | String.EmptyString, _ => true
  | String.String a p', String.String b s' => Ascii.eqb a b && prefixb p' s'
  | _, _ => false
  end.
Fixpoint substrb (p s : string) : bool :=
  prefixb p s || match s with String.EmptyString => false | String.String _ s' => substrb p s' end.
