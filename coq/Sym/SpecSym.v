(* Denotation of a specification (SFS) under a schedule of its memory/storage operations,
   as symbolic terms over the initial state (executable; no proofs).

   [opmap] gives, for every user instruction id, the EVM instruction it stands for (built by
   the harness with the same interning as the block it is compared with).
   [L] is the order in which the memory, storage and hash operations are executed.
   The value of a variable is: the i-th initial stack word when it is the i-th element of
   src_ws; the term of the instruction that defines it otherwise; loads and hashes read the
   memory/storage as it is at their position in L. *)
From Coq Require Import ZArith List Bool.
From GV Require Import Ref.Word Ref.EVM Sym.Term Sym.SymExec Sym.Spec.
Import ListNotations.

Definition is_memop (i : instr) : bool :=
  match i with IMload | IMstore | IMstore8 | ISload | ISstore | IKeccak => true | _ => false end.

Fixpoint assoc {A} (k : nat) (l : list (nat * A)) : option A :=
  match l with
  | [] => None
  | (k', v) :: r => if Nat.eqb k k' then Some v else assoc k r
  end.

Fixpoint index_of (o : operand) (l : list operand) (i : nat) : option nat :=
  match l with
  | [] => None
  | x :: r => if operand_eqb o x then Some i else index_of o r (S i)
  end.

Fixpoint all_some {A} (l : list (option A)) : option (list A) :=
  match l with
  | [] => Some []
  | Some x :: r => match all_some r with Some r' => Some (x :: r') | None => None end
  | None :: _ => None
  end.

Section Denote.
  Variable S : spec.
  Variable opmap : list (nat * instr).

  (* term of an operand; [bound] holds the outputs of the memory operations executed so far *)
  Fixpoint term_of (fuel : nat) (bound : list (nat * term)) (o : operand) : option term :=
    match o with
    | OConst z => Some (TConst z)
    | OVar v =>
      match index_of o (s_src S) 0 with
      | Some i => Some (TVar i)
      | None =>
        match assoc v bound with
        | Some t => Some t
        | None =>
          match fuel with
          | O => None
          | Datatypes.S f =>
            match definer S v with
            | None => None
            | Some u =>
              match assoc (ui_id u) opmap with
              | None => None
              | Some i =>
                if is_memop i then None        (* a load that has not been executed yet *)
                else
                  match all_some (map (term_of f bound) (ui_in u)), i with
                  | Some [], IPush z => Some (TConst z)
                  | Some [], IPushSym k => Some (TSym k)
                  | Some [], IEnv0 k => Some (TEnv0 k)
                  | Some [a], IEnv1 k => Some (TEnv1 k a)
                  | Some [a], IOp1 op => Some (TOp1 op a)
                  | Some [a; b], IOp2 op => Some (TOp2 op a b)
                  | Some [a; b; c], IOp3 op => Some (TOp3 op a b c)
                  | _, _ => None
                  end
              end
            end
          end
        end
      end
    end.

  Record dstate := { d_bound : list (nat * term); d_mem : term; d_sto : term }.

  Definition exec_memop (fuel : nat) (d : dstate) (id : nat) : option dstate :=
    match find_instr S id, assoc id opmap with
    | Some u, Some i =>
      match all_some (map (term_of fuel (d_bound d)) (ui_in u)), i, ui_out u with
      | Some [a], IMload, [v] =>
        Some {| d_bound := (v, TMload (d_mem d) a) :: d_bound d; d_mem := d_mem d; d_sto := d_sto d |}
      | Some [a; x], IMstore, [] =>
        Some {| d_bound := d_bound d; d_mem := MStore (d_mem d) a x; d_sto := d_sto d |}
      | Some [a; x], IMstore8, [] =>
        Some {| d_bound := d_bound d; d_mem := MStore8 (d_mem d) a x; d_sto := d_sto d |}
      | Some [k], ISload, [v] =>
        Some {| d_bound := (v, TSload (d_sto d) k) :: d_bound d; d_mem := d_mem d; d_sto := d_sto d |}
      | Some [k; x], ISstore, [] =>
        Some {| d_bound := d_bound d; d_mem := d_mem d; d_sto := SStore (d_sto d) k x |}
      | Some [a; n], IKeccak, [v] =>
        Some {| d_bound := (v, TKeccak (d_mem d) a n) :: d_bound d; d_mem := d_mem d; d_sto := d_sto d |}
      | _, _, _ => None
      end
    | _, _ => None
    end.

  Fixpoint exec_sched (fuel : nat) (d : dstate) (L : list nat) : option dstate :=
    match L with
    | [] => Some d
    | id :: r => match exec_memop fuel d id with Some d' => exec_sched fuel d' r | None => None end
    end.

  (* the memory operations of the specification *)
  Definition memop_ids : list nat :=
    map ui_id (filter (fun u => match assoc (ui_id u) opmap with Some i => is_memop i | None => false end)
                      (s_instrs S)).

  Fixpoint mem_nat (x : nat) (l : list nat) : bool :=
    match l with [] => false | y :: r => Nat.eqb x y || mem_nat x r end.
  Fixpoint nodup_nat (l : list nat) : bool :=
    match l with [] => true | x :: r => negb (mem_nat x r) && nodup_nat r end.
  Fixpoint pos_of (x : nat) (l : list nat) (i : nat) : option nat :=
    match l with [] => None | y :: r => if Nat.eqb x y then Some i else pos_of x r (Datatypes.S i) end.

  (* L executes every memory operation exactly once and respects the declared dependences *)
  Definition admissible (L : list nat) : bool :=
    nodup_nat L && forallb (fun x => mem_nat x L) memop_ids && forallb (fun x => mem_nat x memop_ids) L &&
    forallb (fun p => match pos_of (fst p) L 0, pos_of (snd p) L 0 with
                      | Some i, Some j => Nat.ltb i j
                      | _, _ => true
                      end) (s_deps S).

  Definition spec_sym (L : list nat) : option sstate :=
    let fuel := Datatypes.S (length (s_instrs S)) in
    match exec_sched fuel {| d_bound := []; d_mem := MInit; d_sto := SInit |} L with
    | None => None
    | Some d =>
      match all_some (map (term_of fuel (d_bound d)) (s_tgt S)) with
      | None => None
      | Some ts => Some {| s_stk := ts; s_base := length (s_src S); s_mem := d_mem d; s_sto := d_sto d |}
      end
    end.
End Denote.
