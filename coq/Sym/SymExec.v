(* Symbolic execution of event-free instruction lists (executable; no proofs here). *)
From Coq Require Import ZArith List Bool Lia.
From GV Require Import Ref.Word Ref.EVM Sym.Term.
Import ListNotations.

(* The symbolic stack is [s_stk] on top of the untouched part of the initial
   stack, which starts at initial position [s_base]. *)
Record sstate := { s_stk : list term; s_base : nat; s_mem : term; s_sto : term }.

Definition sinit : sstate := {| s_stk := []; s_base := 0; s_mem := MInit; s_sto := SInit |}.

Fixpoint fresh (base n : nat) : list term :=
  match n with O => [] | S k => TVar base :: fresh (S base) k end.

(* make the top k cells explicit *)
Definition ensure (k : nat) (s : sstate) : sstate :=
  let l := length (s_stk s) in
  if (k <=? l)%nat then s
  else {| s_stk := s_stk s ++ fresh (s_base s) (k - l); s_base := s_base s + (k - l);
          s_mem := s_mem s; s_sto := s_sto s |}.

Definition arity (i : instr) : nat :=
  match i with
  | IPush _ | IPushSym _ | IEnv0 _ => 0
  | IPop | IOp1 _ | IEnv1 _ | IMload | ISload => 1
  | IOp2 _ | IMstore | IMstore8 | ISstore | IKeccak => 2
  | IOp3 _ => 3
  | IDup n => n
  | ISwap n => S n
  | IEvent _ _ _ => 0
  end.

Definition with_stk (s : sstate) (l : list term) : sstate :=
  {| s_stk := l; s_base := s_base s; s_mem := s_mem s; s_sto := s_sto s |}.

Definition sym_step' (i : instr) (s : sstate) : option sstate :=
  let st := s_stk s in
  match i with
  | IPush v => Some (with_stk s (TConst v :: st))
  | IPushSym k => Some (with_stk s (TSym k :: st))
  | IPop => match st with _ :: r => Some (with_stk s r) | _ => None end
  | IDup n =>
    if ((1 <=? n) && (n <=? 16))%nat then
      match nth_error st (n - 1) with Some x => Some (with_stk s (x :: st)) | None => None end
    else None
  | ISwap n =>
    if ((1 <=? n) && (n <=? 16))%nat then
      match swap_top n st with Some st' => Some (with_stk s st') | None => None end
    else None
  | IOp1 o => match st with a :: r => Some (with_stk s (TOp1 o a :: r)) | _ => None end
  | IOp2 o => match st with a :: b :: r => Some (with_stk s (TOp2 o a b :: r)) | _ => None end
  | IOp3 o => match st with a :: b :: c :: r => Some (with_stk s (TOp3 o a b c :: r)) | _ => None end
  | IEnv0 k => Some (with_stk s (TEnv0 k :: st))
  | IEnv1 k => match st with a :: r => Some (with_stk s (TEnv1 k a :: r)) | _ => None end
  | IMload => match st with a :: r => Some (with_stk s (TMload (s_mem s) a :: r)) | _ => None end
  | IMstore => match st with a :: v :: r =>
                 Some {| s_stk := r; s_base := s_base s; s_mem := MStore (s_mem s) a v; s_sto := s_sto s |}
               | _ => None end
  | IMstore8 => match st with a :: v :: r =>
                 Some {| s_stk := r; s_base := s_base s; s_mem := MStore8 (s_mem s) a v; s_sto := s_sto s |}
               | _ => None end
  | ISload => match st with k :: r => Some (with_stk s (TSload (s_sto s) k :: r)) | _ => None end
  | ISstore => match st with k :: v :: r =>
                 Some {| s_stk := r; s_base := s_base s; s_mem := s_mem s; s_sto := SStore (s_sto s) k v |}
               | _ => None end
  | IKeccak => match st with a :: n :: r => Some (with_stk s (TKeccak (s_mem s) a n :: r)) | _ => None end
  | IEvent _ _ _ => None
  end.

Definition sym_step (i : instr) (s : sstate) : option sstate := sym_step' i (ensure (arity i) s).

Fixpoint symexec (b : list instr) (s : sstate) : option sstate :=
  match b with
  | [] => Some s
  | i :: r => match sym_step i s with Some s' => symexec r s' | None => None end
  end.
