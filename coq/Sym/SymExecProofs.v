(* Soundness and completeness of symbolic execution w.r.t. the reference semantics:
   for every initial state, the concrete run succeeds exactly when the initial stack
   is at least [s_base] deep, and then the final state is the value of the symbolic one. *)
From Coq Require Import ZArith List Bool Lia.
From GV Require Import Ref.Word Ref.EVM Sym.Term Sym.SymExec.
Import ListNotations.

Lemma skipn_cons_nth {A} (d : A) (l : list A) (n : nat) :
  (n < length l)%nat -> skipn n l = nth n l d :: skipn (S n) l.
Proof.
  revert n. induction l as [|x l IH]; intros n Hn; simpl in Hn; [lia|].
  destruct n as [|n]; [reflexivity|]. cbn [skipn nth]. apply IH. lia.
Qed.

Lemma skipn_skipn' {A} (l : list A) (a b : nat) : skipn a (skipn b l) = skipn (b + a) l.
Proof.
  revert l. induction b as [|b IH]; intros l; [reflexivity|].
  destruct l as [|x l]; [rewrite !skipn_nil; reflexivity|]. cbn [skipn plus]. apply IH.
Qed.

Lemma firstn_map_app {A B} (f : A -> B) (k : nat) (r : list A) (t : list B) :
  (k <= length r)%nat -> firstn k (map f r ++ t) = map f (firstn k r).
Proof.
  intros H. rewrite firstn_app, firstn_map, map_length.
  replace (k - length r)%nat with 0%nat by lia. rewrite firstn_O, app_nil_r. reflexivity.
Qed.
Lemma skipn_map_app {A B} (f : A -> B) (k : nat) (r : list A) (t : list B) :
  (k <= length r)%nat -> skipn k (map f r ++ t) = map f (skipn k r) ++ t.
Proof.
  intros H. rewrite skipn_app, skipn_map, map_length.
  replace (k - length r)%nat with 0%nat by lia. reflexivity.
Qed.

Lemma swap_top_map_app {A B} (f : A -> B) (n : nat) (l l' : list A) (t : list B) :
  swap_top n l = Some l' -> swap_top n (map f l ++ t) = Some (map f l' ++ t).
Proof.
  unfold swap_top. destruct l as [|x r]; [discriminate|]. destruct n as [|k]; [discriminate|].
  destruct (nth_error r k) as [y|] eqn:E; [|discriminate]. intros H. inversion H; subst l'. clear H.
  assert (Hk : (k < length r)%nat) by (apply nth_error_Some; congruence).
  change (map f (x :: r) ++ t) with (f x :: (map f r ++ t)). cbv iota beta.
  rewrite nth_error_app1 by (rewrite map_length; exact Hk).
  rewrite (map_nth_error f _ _ E).
  rewrite firstn_map_app by lia. rewrite skipn_map_app by lia.
  f_equal. rewrite (map_cons f y), map_app, (map_cons f x), <- app_comm_cons.
  f_equal. rewrite <- app_assoc. reflexivity.
Qed.

Lemma swap_top_len {A} (n : nat) (l l' : list A) : swap_top n l = Some l' -> (S n <= length l)%nat.
Proof.
  unfold swap_top. destruct l as [|x r]; [discriminate|]. destruct n as [|k]; [discriminate|].
  destruct (nth_error r k) eqn:E; [|discriminate]. intros _.
  assert ((k < length r)%nat) by (apply nth_error_Some; congruence). simpl. lia.
Qed.

Section Sound.
  Variable e : env.
  Variable s0 : state.

  Definition rho0 : rho := {| r_stk := stk s0; r_mem := mem s0; r_sto := sto s0; r_env := e |}.

  Definition Inv (ss : sstate) (c : state) : Prop :=
    stk c = map (evalw rho0) (s_stk ss) ++ skipn (s_base ss) (stk s0) /\
    mem c = evalm rho0 (s_mem ss) /\ sto c = evals rho0 (s_sto ss) /\
    (s_base ss <= length (stk s0))%nat.

  Lemma Inv_init : Inv sinit s0.
  Proof. unfold Inv, sinit; simpl. repeat split; lia. Qed.

  Lemma fresh_eval n : forall base, (base + n <= length (stk s0))%nat ->
    map (evalw rho0) (fresh base n) = firstn n (skipn base (stk s0)).
  Proof.
    induction n as [|n IH]; intros base H; [reflexivity|].
    cbn [fresh map]. rewrite (skipn_cons_nth 0%Z) by lia. cbn [firstn evalw rho0 r_stk].
    f_equal. apply IH. lia.
  Qed.

  Lemma Inv_len ss c : Inv ss c ->
    length (stk c) = (length (s_stk ss) + (length (stk s0) - s_base ss))%nat.
  Proof. intros (H & _). rewrite H, app_length, map_length, skipn_length. reflexivity. Qed.

  Lemma ensure_ok k ss c : Inv ss c -> (k <= length (stk c))%nat ->
    Inv (ensure k ss) c /\ (k <= length (s_stk (ensure k ss)))%nat.
  Proof.
    intros HI Hk. pose proof (Inv_len _ _ HI) as HL. unfold ensure.
    destruct (Nat.leb_spec k (length (s_stk ss))) as [Hle|Hgt]; [split; [exact HI|exact Hle]|].
    destruct HI as (H1 & H2 & H3 & H4).
    set (d := (k - length (s_stk ss))%nat).
    assert (Hd : (s_base ss + d <= length (stk s0))%nat) by (unfold d; lia).
    split.
    - unfold Inv; cbn [s_stk s_base s_mem s_sto]. repeat split; try assumption.
      rewrite H1, map_app, <- app_assoc. f_equal. rewrite (fresh_eval d _ Hd).
      rewrite <- (skipn_skipn' (stk s0) d (s_base ss)). rewrite firstn_skipn. reflexivity.
    - cbn [s_stk]. rewrite app_length.
      assert (length (fresh (s_base ss) d) = d).
      { clear. generalize (s_base ss). induction d; intros b; simpl; [reflexivity|]. f_equal. apply IHd. }
      unfold d in *. lia.
  Qed.

  Lemma ensure_need k ss c : Inv ss c -> (s_base (ensure k ss) <= length (stk s0))%nat ->
    (k <= length (stk c))%nat.
  Proof.
    intros HI. pose proof (Inv_len _ _ HI) as HL. destruct HI as (_ & _ & _ & H4). unfold ensure.
    destruct (Nat.leb_spec k (length (s_stk ss))); cbn [s_base]; lia.
  Qed.

  Lemma ensure_base_mono k ss : (s_base ss <= s_base (ensure k ss))%nat.
  Proof. unfold ensure. destruct (k <=? length (s_stk ss))%nat; cbn [s_base]; lia. Qed.

  Lemma step_arity i c c' : step e i c = Some c' -> (arity i <= length (stk c))%nat.
  Proof.
    destruct i; cbn [step arity]; intros H; try lia;
      try (destruct (stk c) as [|x0 [|x1 [|x2 l]]]; simpl; try discriminate; lia).
    - destruct ((1 <=? n)%nat && (n <=? 16)%nat) eqn:G; [|discriminate].
      destruct (nth_error (stk c) (n - 1)) eqn:E; [|discriminate].
      assert ((n - 1 < length (stk c))%nat) by (apply nth_error_Some; congruence).
      apply andb_true_iff in G. destruct G as [G _]. apply Nat.leb_le in G. lia.
    - destruct ((1 <=? n)%nat && (n <=? 16)%nat); [|discriminate].
      destruct (swap_top n (stk c)) eqn:E; [|discriminate]. eapply swap_top_len; eassumption.
  Qed.

  Lemma sym_step'_ok i ss ss1 c : Inv ss c -> (arity i <= length (s_stk ss))%nat ->
    sym_step' i ss = Some ss1 -> exists c', step e i c = Some c' /\ Inv ss1 c'.
  Proof.
    intros (H1 & H2 & H3 & H4) Har Hs.
    destruct i; cbn [sym_step' arity] in Hs, Har; cbn [step].
    - (* push *) inversion Hs; subst. eexists; split; [reflexivity|].
      unfold Inv; cbn. rewrite H1. repeat split; assumption.
    - inversion Hs; subst. eexists; split; [reflexivity|].
      unfold Inv; cbn. rewrite H1. repeat split; assumption.
    - (* pop *) destruct (s_stk ss) as [|a l] eqn:E; [discriminate|]. inversion Hs; subst.
      rewrite H1. cbn [map app]. eexists; split; [reflexivity|]. unfold Inv; cbn. repeat split; assumption.
    - (* dup *) destruct ((1 <=? n)%nat && (n <=? 16)%nat); [|discriminate].
      destruct (nth_error (s_stk ss) (n - 1)) as [x|] eqn:E; [|discriminate]. inversion Hs; subst.
      assert (Hn : (n - 1 < length (s_stk ss))%nat) by (apply nth_error_Some; congruence).
      rewrite H1. rewrite nth_error_app1 by (rewrite map_length; exact Hn).
      rewrite (map_nth_error _ _ _ E). eexists; split; [reflexivity|].
      unfold Inv; cbn. repeat split; assumption.
    - (* swap *) destruct ((1 <=? n)%nat && (n <=? 16)%nat); [|discriminate].
      destruct (swap_top n (s_stk ss)) as [l'|] eqn:E; [|discriminate]. inversion Hs; subst.
      rewrite H1. rewrite (swap_top_map_app _ _ _ _ _ E). eexists; split; [reflexivity|].
      unfold Inv; cbn. repeat split; assumption.
    - destruct (s_stk ss) as [|a l] eqn:E; [discriminate|]. inversion Hs; subst.
      rewrite H1. cbn [map app]. eexists; split; [reflexivity|]. unfold Inv; cbn. repeat split; assumption.
    - destruct (s_stk ss) as [|a [|b l]] eqn:E; try discriminate. inversion Hs; subst.
      rewrite H1. cbn [map app]. eexists; split; [reflexivity|]. unfold Inv; cbn. repeat split; assumption.
    - destruct (s_stk ss) as [|a [|b [|c0 l]]] eqn:E; try discriminate. inversion Hs; subst.
      rewrite H1. cbn [map app]. eexists; split; [reflexivity|]. unfold Inv; cbn. repeat split; assumption.
    - inversion Hs; subst. eexists; split; [reflexivity|].
      unfold Inv; cbn. rewrite H1. repeat split; assumption.
    - destruct (s_stk ss) as [|a l] eqn:E; [discriminate|]. inversion Hs; subst.
      rewrite H1. cbn [map app]. eexists; split; [reflexivity|]. unfold Inv; cbn. repeat split; assumption.
    - (* mload *) destruct (s_stk ss) as [|a l] eqn:E; [discriminate|]. inversion Hs; subst.
      rewrite H1. cbn [map app]. eexists; split; [reflexivity|]. unfold Inv; cbn.
      rewrite H2. repeat split; assumption.
    - (* mstore *) destruct (s_stk ss) as [|a [|b l]] eqn:E; try discriminate. inversion Hs; subst.
      rewrite H1. cbn [map app]. eexists; split; [reflexivity|]. unfold Inv; cbn.
      rewrite H2. repeat split; assumption.
    - destruct (s_stk ss) as [|a [|b l]] eqn:E; try discriminate. inversion Hs; subst.
      rewrite H1. cbn [map app]. eexists; split; [reflexivity|]. unfold Inv; cbn.
      rewrite H2. repeat split; assumption.
    - (* sload *) destruct (s_stk ss) as [|a l] eqn:E; [discriminate|]. inversion Hs; subst.
      rewrite H1. cbn [map app]. eexists; split; [reflexivity|]. unfold Inv; cbn.
      rewrite H3. repeat split; assumption.
    - destruct (s_stk ss) as [|a [|b l]] eqn:E; try discriminate. inversion Hs; subst.
      rewrite H1. cbn [map app]. eexists; split; [reflexivity|]. unfold Inv; cbn.
      rewrite H3. repeat split; assumption.
    - (* keccak *) destruct (s_stk ss) as [|a [|b l]] eqn:E; try discriminate. inversion Hs; subst.
      rewrite H1. cbn [map app]. eexists; split; [reflexivity|]. unfold Inv; cbn.
      rewrite H2. repeat split; assumption.
    - discriminate.
  Qed.

  Lemma sym_step'_base i ss ss1 : sym_step' i ss = Some ss1 -> s_base ss1 = s_base ss.
  Proof.
    destruct i; cbn [sym_step']; intros H;
      repeat match goal with
             | H : context [if ?b then _ else _] |- _ => destruct b; try discriminate
             | H : context [match ?x with _ => _ end] |- _ => destruct x eqn:?; try discriminate
             end; inversion H; subst; reflexivity.
  Qed.

  Lemma sym_step_ok i ss ss1 c : Inv ss c -> sym_step i ss = Some ss1 ->
    (arity i <= length (stk c))%nat -> exists c', step e i c = Some c' /\ Inv ss1 c'.
  Proof.
    intros HI Hs Ha. unfold sym_step in Hs.
    destruct (ensure_ok _ _ _ HI Ha) as [HI' Hl]. eapply sym_step'_ok; eassumption.
  Qed.

  Lemma sym_step_base i ss ss1 : sym_step i ss = Some ss1 -> s_base ss1 = s_base (ensure (arity i) ss).
  Proof. unfold sym_step. apply sym_step'_base. Qed.

  Lemma symexec_base_mono b : forall ss ss', symexec b ss = Some ss' -> (s_base ss <= s_base ss')%nat.
  Proof.
    induction b as [|i b IH]; intros ss ss' H; cbn [symexec] in H.
    - inversion H; subst; lia.
    - destruct (sym_step i ss) as [ss1|] eqn:E; [|discriminate].
      apply IH in H. rewrite (sym_step_base _ _ _ E) in H.
      pose proof (ensure_base_mono (arity i) ss). lia.
  Qed.

  Lemma symexec_sound_gen b : forall ss c ss', Inv ss c -> symexec b ss = Some ss' ->
    ((s_base ss' <= length (stk s0))%nat -> exists c', exec e b c = Some c' /\ Inv ss' c') /\
    (forall c', exec e b c = Some c' -> Inv ss' c').
  Proof.
    induction b as [|i b IH]; intros ss c ss' HI H; cbn [symexec] in H; cbn [exec].
    - inversion H; subst. split; [intros _; eexists; split; [reflexivity|assumption]|].
      intros c' Hc; inversion Hc; subst; assumption.
    - destruct (sym_step i ss) as [ss1|] eqn:E; [|discriminate]. split.
      + intros Hb. pose proof (symexec_base_mono _ _ _ H) as Hm.
        assert (Ha : (arity i <= length (stk c))%nat).
        { eapply ensure_need; [eassumption|]. rewrite <- (sym_step_base _ _ _ E). lia. }
        destruct (sym_step_ok _ _ _ _ HI E Ha) as (c1 & Hc1 & HI1). rewrite Hc1.
        apply (proj1 (IH _ _ _ HI1 H)). exact Hb.
      + intros c' Hc. destruct (step e i c) as [c1|] eqn:Es; [|discriminate].
        pose proof (step_arity _ _ _ Es) as Ha.
        destruct (sym_step_ok _ _ _ _ HI E Ha) as (c1' & Hc1 & HI1).
        rewrite Es in Hc1. inversion Hc1; subst c1'.
        apply (proj2 (IH _ _ _ HI1 H)). exact Hc.
  Qed.

  (* the concrete run from s0 succeeds iff the stack is deep enough, and then ... *)
  Theorem symexec_sound b ss c : symexec b sinit = Some ss -> exec e b s0 = Some c ->
    (s_base ss <= length (stk s0))%nat /\
    stk c = map (evalw rho0) (s_stk ss) ++ skipn (s_base ss) (stk s0) /\
    mem c = evalm rho0 (s_mem ss) /\ sto c = evals rho0 (s_sto ss).
  Proof.
    intros H Hc. destruct (symexec_sound_gen b _ _ _ Inv_init H) as [_ H2].
    destruct (H2 _ Hc) as (A & B & C & D). repeat split; assumption.
  Qed.

  Theorem symexec_complete b ss : symexec b sinit = Some ss ->
    (s_base ss <= length (stk s0))%nat -> exists c, exec e b s0 = Some c.
  Proof.
    intros H Hb. destruct (symexec_sound_gen b _ _ _ Inv_init H) as [H1 _].
    destruct (H1 Hb) as (c & Hc & _). exists c; exact Hc.
  Qed.
End Sound.
