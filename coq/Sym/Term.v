(* Symbolic terms over the initial machine state, and their evaluation.
   One inductive type with three "sorts" (words, memories, storages) so that
   structural induction stays simple; ill-sorted terms evaluate to a default and
   are never produced by symbolic execution. *)
From Coq Require Import ZArith List Bool Lia.
From GV Require Import Ref.Word Ref.EVM.
Import ListNotations.
Local Open Scope Z_scope.

Inductive term :=
| TConst (z : Z)
| TVar (n : nat)                       (* n-th word of the initial stack (0 = top) *)
| TSym (k : N)
| TEnv0 (k : N)
| TEnv1 (k : N) (a : term)
| TOp1 (o : op1) (a : term)
| TOp2 (o : op2) (a b : term)
| TOp3 (o : op3) (a b c : term)
| TMload (m a : term)
| TSload (s k : term)
| TKeccak (m off len : term)
| MInit
| MStore (m a v : term)
| MStore8 (m a v : term)
| SInit
| SStore (s k v : term).

(* the initial state a term is evaluated in *)
Record rho := { r_stk : list Z; r_mem : memory; r_sto : storage; r_env : env }.

Fixpoint evalw (r : rho) (t : term) {struct t} : Z :=
  match t with
  | TConst z => z
  | TVar n => nth n (r_stk r) 0
  | TSym k => e_sym (r_env r) k
  | TEnv0 k => e_env0 (r_env r) k
  | TEnv1 k a => e_env1 (r_env r) k (evalw r a)
  | TOp1 o a => eval_op1 o (evalw r a)
  | TOp2 o a b => eval_op2 o (evalw r a) (evalw r b)
  | TOp3 o a b c => eval_op3 o (evalw r a) (evalw r b) (evalw r c)
  | TMload m a => mload (evalm r m) (evalw r a)
  | TSload s k => evals r s (evalw r k)
  | TKeccak m a n => e_keccak (r_env r) (mem_range (evalm r m) (evalw r a) (Z.to_nat (evalw r n)))
  | _ => 0
  end
with evalm (r : rho) (t : term) {struct t} : memory :=
  match t with
  | MStore m a v => mstore (evalm r m) (evalw r a) (evalw r v)
  | MStore8 m a v => mstore8 (evalm r m) (evalw r a) (evalw r v)
  | _ => r_mem r
  end
with evals (r : rho) (t : term) {struct t} : storage :=
  match t with
  | SStore s k v => sstore (evals r s) (evalw r k) (evalw r v)
  | _ => r_sto r
  end.

(* --- decidable syntactic equality ------------------------------------------- *)
Definition op1_eqb (a b : op1) : bool :=
  match a, b with ISZERO, ISZERO | NOT, NOT => true | _, _ => false end.
Definition op2_code (o : op2) : nat :=
  match o with
  | ADD => 0 | MUL => 1 | SUB => 2 | DIV => 3 | SDIV => 4 | MOD => 5 | SMOD => 6 | EXP => 7
  | SIGNEXTEND => 8 | LT => 9 | GT => 10 | SLT => 11 | SGT => 12 | EQ => 13 | AND => 14
  | OR => 15 | XOR => 16 | BYTE => 17 | SHL => 18 | SHR => 19 | SAR => 20
  end%nat.
Definition op2_eqb (a b : op2) : bool := Nat.eqb (op2_code a) (op2_code b).
Definition op3_eqb (a b : op3) : bool :=
  match a, b with ADDMOD, ADDMOD | MULMOD, MULMOD => true | _, _ => false end.

Fixpoint term_eqb (x y : term) {struct x} : bool :=
  match x, y with
  | TConst a, TConst b => Z.eqb a b
  | TVar a, TVar b => Nat.eqb a b
  | TSym a, TSym b => N.eqb a b
  | TEnv0 a, TEnv0 b => N.eqb a b
  | TEnv1 k a, TEnv1 k' a' => N.eqb k k' && term_eqb a a'
  | TOp1 o a, TOp1 o' a' => op1_eqb o o' && term_eqb a a'
  | TOp2 o a b, TOp2 o' a' b' => op2_eqb o o' && term_eqb a a' && term_eqb b b'
  | TOp3 o a b c, TOp3 o' a' b' c' => op3_eqb o o' && term_eqb a a' && term_eqb b b' && term_eqb c c'
  | TMload m a, TMload m' a' => term_eqb m m' && term_eqb a a'
  | TSload m a, TSload m' a' => term_eqb m m' && term_eqb a a'
  | TKeccak m a n, TKeccak m' a' n' => term_eqb m m' && term_eqb a a' && term_eqb n n'
  | MInit, MInit => true
  | MStore m a v, MStore m' a' v' => term_eqb m m' && term_eqb a a' && term_eqb v v'
  | MStore8 m a v, MStore8 m' a' v' => term_eqb m m' && term_eqb a a' && term_eqb v v'
  | SInit, SInit => true
  | SStore m a v, SStore m' a' v' => term_eqb m m' && term_eqb a a' && term_eqb v v'
  | _, _ => false
  end.

(* a total structural order used only to pick a canonical argument order for
   commutative operators (no property of it is needed for soundness) *)
Definition tag (t : term) : nat :=
  match t with
  | TConst _ => 0 | TVar _ => 1 | TSym _ => 2 | TEnv0 _ => 3 | TEnv1 _ _ => 4 | TOp1 _ _ => 5
  | TOp2 _ _ _ => 6 | TOp3 _ _ _ _ => 7 | TMload _ _ => 8 | TSload _ _ => 9 | TKeccak _ _ _ => 10
  | MInit => 11 | MStore _ _ _ => 12 | MStore8 _ _ _ => 13 | SInit => 14 | SStore _ _ _ => 15
  end%nat.
Definition lex (c : comparison) (d : comparison) : comparison :=
  match c with Eq => d | _ => c end.
Fixpoint term_cmp (x y : term) {struct x} : comparison :=
  match x, y with
  | TConst a, TConst b => Z.compare a b
  | TVar a, TVar b => Nat.compare a b
  | TSym a, TSym b => N.compare a b
  | TEnv0 a, TEnv0 b => N.compare a b
  | TEnv1 k a, TEnv1 k' a' => lex (N.compare k k') (term_cmp a a')
  | TOp1 o a, TOp1 o' a' =>
    lex (Nat.compare (match o with ISZERO => 0 | NOT => 1 end) (match o' with ISZERO => 0 | NOT => 1 end))
        (term_cmp a a')
  | TOp2 o a b, TOp2 o' a' b' =>
    lex (Nat.compare (op2_code o) (op2_code o')) (lex (term_cmp a a') (term_cmp b b'))
  | TOp3 o a b c, TOp3 o' a' b' c' =>
    lex (Nat.compare (match o with ADDMOD => 0 | MULMOD => 1 end) (match o' with ADDMOD => 0 | MULMOD => 1 end))
        (lex (term_cmp a a') (lex (term_cmp b b') (term_cmp c c')))
  | TMload m a, TMload m' a' => lex (term_cmp a a') (term_cmp m m')
  | TSload m a, TSload m' a' => lex (term_cmp a a') (term_cmp m m')
  | TKeccak m a n, TKeccak m' a' n' => lex (term_cmp a a') (lex (term_cmp n n') (term_cmp m m'))
  | MStore m a v, MStore m' a' v' => lex (term_cmp a a') (lex (term_cmp v v') (term_cmp m m'))
  | MStore8 m a v, MStore8 m' a' v' => lex (term_cmp a a') (lex (term_cmp v v') (term_cmp m m'))
  | SStore m a v, SStore m' a' v' => lex (term_cmp a a') (lex (term_cmp v v') (term_cmp m m'))
  | _, _ => Nat.compare (tag x) (tag y)
  end.
