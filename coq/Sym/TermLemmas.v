(* Basic facts about terms: equality test, sorts, values are words. *)
From Coq Require Import ZArith List Bool Lia.
From GV Require Import Ref.Word Ref.WordLemmas Ref.EVM Sym.Term.
Import ListNotations.
Local Open Scope Z_scope.

Lemma op1_eqb_eq a b : op1_eqb a b = true -> a = b.
Proof. destruct a, b; simpl; congruence. Qed.
Lemma op2_eqb_eq a b : op2_eqb a b = true -> a = b.
Proof. destruct a, b; unfold op2_eqb; simpl; congruence. Qed.
Lemma op3_eqb_eq a b : op3_eqb a b = true -> a = b.
Proof. destruct a, b; simpl; congruence. Qed.

Lemma term_eqb_eq x : forall y, term_eqb x y = true -> x = y.
Proof.
  induction x; intros y H; destruct y; simpl in H; try discriminate;
    repeat match goal with
           | H : _ && _ = true |- _ => apply andb_true_iff in H; destruct H
           end;
    repeat match goal with
           | H : Z.eqb _ _ = true |- _ => apply Z.eqb_eq in H
           | H : Nat.eqb _ _ = true |- _ => apply Nat.eqb_eq in H
           | H : N.eqb _ _ = true |- _ => apply N.eqb_eq in H
           | H : op1_eqb _ _ = true |- _ => apply op1_eqb_eq in H
           | H : op2_eqb _ _ = true |- _ => apply op2_eqb_eq in H
           | H : op3_eqb _ _ = true |- _ => apply op3_eqb_eq in H
           | IH : forall y, term_eqb ?x y = true -> ?x = y, H : term_eqb ?x _ = true |- _ => apply IH in H
           end; subst; reflexivity.
Qed.

(* --- sorts ------------------------------------------------------------------- *)
Definition constw (z : Z) : bool := (0 <=? z) && (z <? W).

Fixpoint wsort (t : term) : bool :=
  match t with
  | TConst z => constw z
  | TVar _ | TSym _ | TEnv0 _ => true
  | TEnv1 _ a | TOp1 _ a => wsort a
  | TOp2 _ a b => wsort a && wsort b
  | TOp3 _ a b c => wsort a && wsort b && wsort c
  | TMload m a => msort m && wsort a
  | TSload s k => ssort s && wsort k
  | TKeccak m a n => msort m && wsort a && wsort n
  | _ => false
  end
with msort (t : term) : bool :=
  match t with
  | MInit => true
  | MStore m a v | MStore8 m a v => msort m && wsort a && wsort v
  | _ => false
  end
with ssort (t : term) : bool :=
  match t with
  | SInit => true
  | SStore s k v => ssort s && wsort k && wsort v
  | _ => false
  end.

Definition wf_rho (r : rho) : Prop :=
  wf_stack (r_stk r) /\ wf_mem (r_mem r) /\ wf_sto (r_sto r) /\ wf_env (r_env r).

Lemma constw_inw z : constw z = true -> inw z.
Proof. unfold constw, inw. intros H. apply andb_true_iff in H. lia. Qed.

Lemma nth_inw l n : wf_stack l -> inw (nth n l 0).
Proof.
  unfold wf_stack. intros H. revert n. induction H as [|x l Hx Hl IH]; intros [|n]; simpl;
    try assumption; try apply IH; apply (b2z_range false).
Qed.

Lemma read_be_range m a n : wf_mem m -> 0 <= read_be m a n < 256 ^ Z.of_nat n.
Proof.
  intros Hm. induction n as [|n IH].
  - simpl. lia.
  - cbn [read_be]. rewrite Nat2Z.inj_succ, Z.pow_succ_r by lia.
    specialize (Hm (a + Z.of_nat n)). nia.
Qed.

Lemma mload_range m a : wf_mem m -> inw (mload m a).
Proof.
  intros Hm. unfold mload, inw, W. pose proof (read_be_range m a 32 Hm) as H.
  change (256 ^ Z.of_nat 32) with (2 ^ 256) in H. exact H.
Qed.

Lemma mstore_wf m a v : wf_mem m -> wf_mem (mstore m a v).
Proof.
  intros Hm x. unfold mstore. destruct ((a <=? x) && (x <? a + 32)); [|apply Hm].
  apply Z.mod_pos_bound. lia.
Qed.
Lemma mstore8_wf m a v : wf_mem m -> wf_mem (mstore8 m a v).
Proof.
  intros Hm x. unfold mstore8. destruct (x =? a); [|apply Hm]. apply Z.mod_pos_bound. lia.
Qed.
Lemma sstore_wf s k v : wf_sto s -> inw v -> wf_sto (sstore s k v).
Proof. intros Hs Hv x. unfold sstore. destruct (x =? k); [assumption|apply Hs]. Qed.

Lemma eval_op1_range o a : inw a -> inw (eval_op1 o a).
Proof. destruct o; simpl; intros; [apply wiszero_range|apply wnot_range; assumption]. Qed.

Lemma eval_op2_range o a b : inw a -> inw b -> inw (eval_op2 o a b).
Proof.
  intros Ha Hb. destruct o; cbn [eval_op2];
    try apply wrap_range; try apply b2z_range;
    try (apply wdiv_range; assumption); try (apply wmod_range; assumption);
    try apply wsdiv_range; try apply wsmod_range;
    try (apply wand_range; assumption); try (apply wor_range; assumption);
    try (apply wxor_range; assumption); try apply wbyte_range; try apply wshl_range;
    try apply wsar_range.
  - rewrite powmod_spec by apply Hb. apply wexp_range.
  - apply wsignextend_range; [assumption|apply Ha].
  - apply wshr_range; [assumption|apply Ha].
Qed.

Lemma eval_op3_range o a b c : inw c -> inw (eval_op3 o a b c).
Proof. intros Hc. destruct o; cbn [eval_op3]; [apply waddmod_range|apply wmulmod_range]; assumption. Qed.

Lemma eval_sorted r (Hr : wf_rho r) t :
  (wsort t = true -> inw (evalw r t)) /\
  (msort t = true -> wf_mem (evalm r t)) /\
  (ssort t = true -> wf_sto (evals r t)).
Proof.
  destruct Hr as (Hs & Hm & Hst & He).
  destruct He as (He1 & He2 & He3 & He4 & _).
  induction t; cbn [wsort msort ssort evalw evalm evals];
    (split; [|split]); intros H; try discriminate;
    repeat match goal with
           | H : _ && _ = true |- _ => apply andb_true_iff in H; destruct H
           end;
    repeat match goal with
           | IH : (wsort ?t = true -> _) /\ _ /\ _ |- _ => destruct IH as (? & ? & ?)
           end;
    auto using constw_inw, nth_inw, eval_op1_range, eval_op2_range, eval_op3_range,
      mload_range, mstore_wf, mstore8_wf, sstore_wf.
  match goal with Hx : ssort ?t = true -> wf_sto _ |- inw (evals _ ?t _) => apply Hx; assumption end.
Qed.

Lemma evalw_inw r t : wf_rho r -> wsort t = true -> inw (evalw r t).
Proof. intros Hr. apply (eval_sorted r Hr t). Qed.
Lemma evalm_wf r t : wf_rho r -> msort t = true -> wf_mem (evalm r t).
Proof. intros Hr. apply (eval_sorted r Hr t). Qed.
Lemma evals_wf r t : wf_rho r -> ssort t = true -> wf_sto (evals r t).
Proof. intros Hr. apply (eval_sorted r Hr t). Qed.
