(* Algebraic identities of the reference word operations used by the normaliser. *)
From Coq Require Import ZArith Bool Lia.
From GV Require Import Ref.Word Ref.WordLemmas.
Local Open Scope Z_scope.

Ltac bitwise :=
  apply Z.bits_inj'; intros n Hn;
  repeat (rewrite ?Z.land_spec, ?Z.lor_spec, ?Z.lxor_spec, ?Z.ldiff_spec, ?Z.bits_0);
  repeat match goal with |- context [Z.testbit ?x n] => destruct (Z.testbit x n) end; reflexivity.

Lemma W_ones : W - 1 = Z.ones 256.
Proof. rewrite Z.ones_equiv. unfold W. lia. Qed.

Lemma and_0_l x : wand 0 x = 0. Proof. apply Z.land_0_l. Qed.
Lemma and_diag x : wand x x = x. Proof. apply Z.land_diag. Qed.
Lemma and_comm x y : wand x y = wand y x. Proof. apply Z.land_comm. Qed.
Lemma or_comm x y : wor x y = wor y x. Proof. apply Z.lor_comm. Qed.
Lemma xor_comm x y : wxor x y = wxor y x. Proof. apply Z.lxor_comm. Qed.
Lemma and_ones_l x : inw x -> wand (W - 1) x = x.
Proof.
  intros H. unfold wand. rewrite W_ones, Z.land_comm, Z.land_ones by lia.
  apply Z.mod_small. exact H.
Qed.
Lemma or_0_l x : wor 0 x = x. Proof. apply Z.lor_0_l. Qed.
Lemma or_diag x : wor x x = x. Proof. apply Z.lor_diag. Qed.
Lemma xor_diag x : wxor x x = 0. Proof. apply Z.lxor_nilpotent. Qed.
Lemma xor_0_l x : wxor 0 x = x. Proof. apply Z.lxor_0_l. Qed.

Lemma and_and_absorb x y : wand x (wand x y) = wand x y. Proof. unfold wand. bitwise. Qed.
Lemma or_and_absorb x y : wor x (wand x y) = x. Proof. unfold wand, wor. bitwise. Qed.
Lemma or_or_absorb x y : wor (wor x y) y = wor x y. Proof. unfold wor. bitwise. Qed.
Lemma and_or_absorb x y : wand x (wor x y) = x. Proof. unfold wand, wor. bitwise. Qed.
Lemma xor_xor_cancel x y : wxor x (wxor x y) = y. Proof. unfold wxor. bitwise. Qed.

Lemma wnot_ldiff x : inw x -> wnot x = Z.ldiff (Z.ones 256) x.
Proof.
  intros H. unfold wnot. rewrite W_ones. apply Z.sub_nocarry_ldiff.
  apply Z.bits_inj'; intros n Hn. rewrite Z.ldiff_spec, Z.bits_0.
  destruct (Z_lt_le_dec n 256).
  - rewrite Z.ones_spec_low by lia. apply andb_false_r.
  - rewrite (bits_inw x n H) by lia. reflexivity.
Qed.

Lemma and_not_self x : inw x -> wand x (wnot x) = 0.
Proof. intros H. rewrite (wnot_ldiff x H). unfold wand. bitwise. Qed.

Lemma or_not_self x : inw x -> wor x (wnot x) = W - 1.
Proof.
  intros H. rewrite (wnot_ldiff x H), W_ones. unfold wor.
  apply Z.bits_inj'; intros n Hn. rewrite Z.lor_spec, Z.ldiff_spec.
  destruct (Z_lt_le_dec n 256).
  - rewrite Z.ones_spec_low by lia. destruct (Z.testbit x n); reflexivity.
  - rewrite (bits_inw x n H) by lia. rewrite Z.ones_spec_high by lia. reflexivity.
Qed.

Lemma not_not x : wnot (wnot x) = x. Proof. unfold wnot. lia. Qed.

Definition isbool (z : Z) : Prop := z = 0 \/ z = 1.
Lemma b2z_isbool b : isbool (b2z b). Proof. destruct b; [right|left]; reflexivity. Qed.
Lemma iszero_iszero_bool z : isbool z -> wiszero (wiszero z) = z.
Proof. intros [->| ->]; reflexivity. Qed.
Lemma iszero3 z : wiszero (wiszero (wiszero z)) = wiszero z.
Proof. apply iszero_iszero_bool. apply b2z_isbool. Qed.
Lemma iszero_lt0 x : 0 <= x -> wiszero (wlt 0 x) = wiszero x.
Proof. intros H. unfold wiszero, wlt. destruct (Z.ltb_spec 0 x), (Z.eqb_spec x 0); simpl; try reflexivity; lia. Qed.
Lemma lt0_as_iszero x : 0 <= x -> wlt 0 x = wiszero (wiszero x).
Proof. intros H. unfold wiszero, wlt. destruct (Z.ltb_spec 0 x), (Z.eqb_spec x 0); simpl; try reflexivity; lia. Qed.
Lemma lt_1_iszero x : 0 <= x -> wlt x 1 = wiszero x.
Proof. intros H. unfold wiszero, wlt. destruct (Z.ltb_spec x 1), (Z.eqb_spec x 0); simpl; try reflexivity; lia. Qed.
Lemma lt_x_0 x : 0 <= x -> wlt x 0 = 0.
Proof. intros H. unfold wlt. destruct (Z.ltb_spec x 0); simpl; [lia|reflexivity]. Qed.
Lemma lt_irrefl x : wlt x x = 0. Proof. unfold wlt. rewrite Z.ltb_irrefl. reflexivity. Qed.
Lemma slt_irrefl x : wslt x x = 0. Proof. unfold wslt. rewrite Z.ltb_irrefl. reflexivity. Qed.
Lemma gt_as_lt a b : wgt a b = wlt b a. Proof. reflexivity. Qed.
Lemma sgt_as_slt a b : wsgt a b = wslt b a. Proof. reflexivity. Qed.
Lemma eq_refl_w x : weq x x = 1. Proof. unfold weq. rewrite Z.eqb_refl. reflexivity. Qed.
Lemma eq_comm x y : weq x y = weq y x. Proof. unfold weq. rewrite Z.eqb_sym. reflexivity. Qed.
Lemma eq_0_iszero x : weq 0 x = wiszero x. Proof. unfold weq, wiszero. rewrite Z.eqb_sym. reflexivity. Qed.
Lemma eq_1_bool z : isbool z -> weq 1 z = z.
Proof. intros [->| ->]; reflexivity. Qed.
Lemma iszero_xor x y : wiszero (wxor x y) = weq x y.
Proof.
  unfold wiszero, weq, wxor. destruct (Z.eqb_spec x y) as [->|Hne].
  - rewrite Z.lxor_nilpotent. reflexivity.
  - destruct (Z.eqb_spec (Z.lxor x y) 0) as [E|E]; [|reflexivity].
    apply Z.lxor_eq in E. contradiction.
Qed.
Lemma iszero_sub x y : inw x -> inw y -> wiszero (wsub x y) = weq x y.
Proof.
  intros Hx Hy. unfold wiszero, weq, wsub, wrap, inw in *. pose proof W_pos.
  destruct (Z.eqb_spec x y) as [->|Hne].
  - rewrite Z.sub_diag, Z.mod_0_l by lia. reflexivity.
  - destruct (Z.eqb_spec ((x - y) mod W) 0) as [E|E]; [|reflexivity].
    apply Z.mod_divide in E; [|lia]. destruct E as [k Hk].
    assert (k = 0) by nia. subst k. lia.
Qed.

Lemma add_0_l x : inw x -> wadd 0 x = x. Proof. intros. unfold wadd. rewrite Z.add_0_l. apply wrap_small; assumption. Qed.
Lemma add_comm x y : wadd x y = wadd y x. Proof. unfold wadd. rewrite Z.add_comm. reflexivity. Qed.
Lemma mul_comm x y : wmul x y = wmul y x. Proof. unfold wmul. rewrite Z.mul_comm. reflexivity. Qed.
Lemma mul_0_l x : wmul 0 x = 0. Proof. unfold wmul, wrap. rewrite Z.mul_0_l. apply Z.mod_0_l. pose proof W_pos; lia. Qed.
Lemma mul_1_l x : inw x -> wmul 1 x = x. Proof. intros. unfold wmul. rewrite Z.mul_1_l. apply wrap_small; assumption. Qed.
Lemma sub_0_r x : inw x -> wsub x 0 = x. Proof. intros. unfold wsub. rewrite Z.sub_0_r. apply wrap_small; assumption. Qed.
Lemma sub_diag x : wsub x x = 0. Proof. unfold wsub, wrap. rewrite Z.sub_diag. apply Z.mod_0_l. pose proof W_pos; lia. Qed.
Lemma div_1_r x : wdiv x 1 = x. Proof. unfold wdiv. simpl. apply Z.div_1_r. Qed.
Lemma div_0_r x : wdiv x 0 = 0. Proof. reflexivity. Qed.
Lemma sdiv_0_r x : wsdiv x 0 = 0. Proof. reflexivity. Qed.
Lemma sgn_1 : sgn 1 = 1. Proof. reflexivity. Qed.
Lemma sdiv_1_r x : inw x -> wsdiv x 1 = x.
Proof. intros H. unfold wsdiv. simpl (1 =? 0). cbv iota. rewrite sgn_1, Z.quot_1_r. apply wrap_sgn; assumption. Qed.
Lemma mod_1_r x : wmod x 1 = 0. Proof. unfold wmod. simpl. apply Z.mod_1_r. Qed.
Lemma mod_0_r x : wmod x 0 = 0. Proof. reflexivity. Qed.
Lemma mod_diag x : wmod x x = 0.
Proof. unfold wmod. destruct (Z.eqb_spec x 0); [reflexivity|]. apply Z.mod_same; assumption. Qed.
Lemma smod_0_r x : wsmod x 0 = 0. Proof. reflexivity. Qed.

Lemma pow2_lt_W s : 0 <= s < 256 -> 0 < 2 ^ s < W.
Proof. intros H. split; [apply Z.pow_pos_nonneg; lia|]. unfold W. apply Z.pow_lt_mono_r; lia. Qed.

Lemma shl_0_l x : inw x -> wshl 0 x = x.
Proof. intros. unfold wshl. simpl (0 <? 256). cbv iota. rewrite Z.pow_0_r, Z.mul_1_r. apply wrap_small; assumption. Qed.
Lemma shr_0_l x : wshr 0 x = x.
Proof. unfold wshr. simpl (0 <? 256). cbv iota. rewrite Z.pow_0_r. apply Z.div_1_r. Qed.
Lemma sar_0_l x : inw x -> wsar 0 x = x.
Proof. intros. unfold wsar. simpl (0 <? 256). cbv iota. rewrite Z.pow_0_r, Z.div_1_r. apply wrap_sgn; assumption. Qed.
Lemma shl_x_0 s : wshl s 0 = 0.
Proof. unfold wshl, wrap. destruct (s <? 256); [|reflexivity]. rewrite Z.mul_0_l. apply Z.mod_0_l. pose proof W_pos; lia. Qed.
Lemma shr_x_0 s : wshr s 0 = 0.
Proof. unfold wshr. destruct (s <? 256); [|reflexivity]. apply Zdiv_0_l. Qed.
Lemma sgn_0 : sgn 0 = 0. Proof. reflexivity. Qed.
Lemma sar_x_0 s : wsar s 0 = 0.
Proof.
  unfold wsar. rewrite sgn_0. destruct (s <? 256); [|reflexivity].
  unfold wrap. rewrite Zdiv_0_l. apply Z.mod_0_l; pose proof W_pos; lia.
Qed.

Lemma mul_shl_1 x y : 0 <= y -> wmul x (wshl y 1) = wshl y x.
Proof.
  intros Hy. unfold wmul, wshl, wrap. pose proof W_pos. destruct (y <? 256).
  - rewrite Z.mul_1_l. rewrite Z.mul_mod_idemp_r by lia. reflexivity.
  - rewrite Z.mul_0_r. apply Z.mod_0_l. lia.
Qed.
Lemma div_shl_1 x y : 0 <= y -> wdiv x (wshl y 1) = wshr y x.
Proof.
  intros Hy. unfold wdiv, wshl, wshr, wrap. destruct (Z.ltb_spec y 256).
  - rewrite Z.mul_1_l. pose proof (pow2_lt_W y ltac:(lia)). rewrite Z.mod_small by lia.
    destruct (Z.eqb_spec (2 ^ y) 0); [lia|reflexivity].
  - reflexivity.
Qed.
Lemma and_shl_shl s y z : 0 <= s -> wand (wshl s y) (wshl s z) = wshl s (wand y z).
Proof.
  intros Hs. unfold wand, wshl, wrap. destruct (s <? 256); [|reflexivity].
  unfold W. rewrite <- !Z.land_ones by lia. rewrite <- !Z.shiftl_mul_pow2 by lia.
  rewrite Z.shiftl_land. bitwise.
Qed.

Lemma exp_0_r x : powmod x 0 = 1. Proof. reflexivity. Qed.
Lemma exp_1_r x : inw x -> powmod x 1 = x. Proof. intros. simpl. apply wrap_small; assumption. Qed.
Lemma exp_1_l x : 0 <= x -> powmod 1 x = 1.
Proof. intros. rewrite powmod_spec by assumption. unfold wexp. rewrite Z.pow_1_l by assumption. reflexivity. Qed.
Lemma exp_0_l x : 0 <= x -> powmod 0 x = wiszero x.
Proof.
  intros. rewrite powmod_spec by assumption. unfold wexp, wiszero.
  destruct (Z.eqb_spec x 0) as [->|]; [reflexivity|]. rewrite Z.pow_0_l by lia. reflexivity.
Qed.
Lemma exp_2_l x : 0 <= x -> powmod 2 x = wshl x 1.
Proof.
  intros. rewrite powmod_spec by assumption. unfold wexp, wshl, wrap. rewrite Z.mul_1_l.
  destruct (Z.ltb_spec x 256); [reflexivity|].
  apply Z.mod_divide; [pose proof W_pos; lia|]. exists (2 ^ (x - 256)). unfold W.
  rewrite <- Z.pow_add_r by lia. f_equal. lia.
Qed.

Lemma and_addr_mask a : 0 <= a < 2 ^ 160 -> wand (2 ^ 160 - 1) a = a.
Proof.
  intros H. unfold wand. replace (2 ^ 160 - 1) with (Z.ones 160) by (rewrite Z.ones_equiv; lia).
  rewrite Z.land_comm, Z.land_ones by lia. apply Z.mod_small. exact H.
Qed.

Lemma and_and_absorb_r x y : wand y (wand x y) = wand x y. Proof. unfold wand. bitwise. Qed.
Lemma or_and_absorb_r x y : wor y (wand x y) = y. Proof. unfold wand, wor. bitwise. Qed.
Lemma and_or_absorb_r x y : wand y (wor x y) = y. Proof. unfold wand, wor. bitwise. Qed.
Lemma or_or_absorb_l x y : wor x (wor x y) = wor x y. Proof. unfold wor. bitwise. Qed.
Lemma or_or_absorb_r x y : wor y (wor x y) = wor x y. Proof. unfold wor. bitwise. Qed.
Lemma xor_xor_cancel_r x y : wxor y (wxor x y) = x. Proof. unfold wxor. bitwise. Qed.

Lemma div_0_l x : wdiv 0 x = 0.
Proof. unfold wdiv. destruct (x =? 0); [reflexivity|apply Zdiv_0_l]. Qed.
Lemma sdiv_0_l x : wsdiv 0 x = 0.
Proof.
  unfold wsdiv. destruct (x =? 0); [reflexivity|]. rewrite sgn_0.
  replace (Z.quot 0 (sgn x)) with 0 by (destruct (sgn x); reflexivity).
  apply Z.mod_0_l. pose proof W_pos; lia.
Qed.
Lemma mod_0_l x : wmod 0 x = 0.
Proof. unfold wmod. destruct (x =? 0); [reflexivity|apply Zmod_0_l]. Qed.

Lemma eq_xor_self a y : weq a (wxor a y) = wiszero y.
Proof.
  unfold weq, wiszero. destruct (Z.eqb_spec y 0) as [->|Hy].
  - unfold wxor. rewrite Z.lxor_0_r, Z.eqb_refl. reflexivity.
  - destruct (Z.eqb_spec a (wxor a y)) as [E|E]; [|reflexivity].
    exfalso. apply Hy. rewrite <- (xor_xor_cancel a y). rewrite <- E. apply xor_diag.
Qed.
Lemma eq_xor_self_r a x : weq a (wxor x a) = wiszero x.
Proof. rewrite xor_comm. apply eq_xor_self. Qed.

Lemma and_const_shl c s y : 0 <= s < 256 -> wand c (wshl s y) = wshl s (wand (wshr s c) y).
Proof.
  intros Hs. unfold wand, wshl, wshr, wrap.
  destruct (Z.ltb_spec s 256) as [_|?]; [|lia].
  unfold W. rewrite <- !Z.land_ones by lia. rewrite <- !Z.shiftl_mul_pow2 by lia.
  rewrite <- Z.shiftr_div_pow2 by lia.
  apply Z.bits_inj'; intros n Hn.
  rewrite !Z.land_spec. destruct (Z_lt_le_dec n s) as [L|L].
  - rewrite !Z.shiftl_spec_low by lia. rewrite andb_false_l, andb_false_r. reflexivity.
  - rewrite !Z.shiftl_spec by lia. rewrite Z.land_spec, Z.shiftr_spec by lia.
    replace (n - s + s) with n by lia.
    destruct (Z.testbit c n), (Z.testbit y (n - s)), (Z.testbit (Z.ones 256) n); reflexivity.
Qed.

Lemma div_pow2 x k : 0 <= k < 256 -> wdiv x (2 ^ k) = wshr k x.
Proof.
  intros Hk. unfold wdiv, wshr. destruct (Z.ltb_spec k 256); [|lia].
  pose proof (Z.pow_pos_nonneg 2 k ltac:(lia) ltac:(lia)). destruct (Z.eqb_spec (2 ^ k) 0); [lia|reflexivity].
Qed.
Lemma mul_pow2 x k : 0 <= k < 256 -> wmul (2 ^ k) x = wshl k x.
Proof. intros Hk. unfold wmul, wshl. destruct (Z.ltb_spec k 256); [|lia]. rewrite Z.mul_comm. reflexivity. Qed.
Lemma shl_big s x : 256 <= s -> wshl s x = 0.
Proof. intros H. unfold wshl. destruct (Z.ltb_spec s 256); [lia|reflexivity]. Qed.
Lemma shr_big s x : 256 <= s -> wshr s x = 0.
Proof. intros H. unfold wshr. destruct (Z.ltb_spec s 256); [lia|reflexivity]. Qed.

Lemma or_ones_l x : inw x -> wor (W - 1) x = W - 1.
Proof.
  intros H. rewrite W_ones. unfold wor.
  apply Z.bits_inj'; intros n Hn. rewrite Z.lor_spec.
  destruct (Z_lt_le_dec n 256).
  - rewrite Z.ones_spec_low by lia. reflexivity.
  - rewrite Z.ones_spec_high by lia. cbn [orb].
    destruct H as [H0 H1]. destruct (Z.eq_dec x 0) as [->|Hx]; [apply Z.bits_0|].
    apply Z.bits_above_log2; [lia|]. apply Z.lt_le_trans with 256; [|lia].
    apply Z.log2_lt_pow2; [lia|]. exact H1.
Qed.

Lemma shl_mask_drop s c y : 0 <= s < 256 -> Z.land c (Z.ones (256 - s)) = Z.ones (256 - s) ->
  wshl s (wand c y) = wshl s y.
Proof.
  intros Hs Hc. unfold wand, wshl, wrap.
  destruct (Z.ltb_spec s 256) as [_|?]; [|lia].
  unfold W. rewrite <- !Z.land_ones by lia. rewrite <- !Z.shiftl_mul_pow2 by lia.
  apply Z.bits_inj'; intros n Hn.
  rewrite !Z.land_spec. destruct (Z_lt_le_dec n s) as [L|L].
  - rewrite !Z.shiftl_spec_low by lia. reflexivity.
  - rewrite !Z.shiftl_spec by lia. rewrite Z.land_spec.
    destruct (Z_lt_le_dec n 256) as [L2|L2].
    + assert (B : Z.testbit c (n - s) = true).
      { assert (E : Z.testbit (Z.land c (Z.ones (256 - s))) (n - s) = Z.testbit (Z.ones (256 - s)) (n - s)) by (rewrite Hc; reflexivity).
        rewrite Z.land_spec, Z.ones_spec_low in E by lia. rewrite andb_true_r in E. exact E. }
      rewrite B. reflexivity.
    + rewrite Z.ones_spec_high by lia. rewrite !andb_false_r. reflexivity.
Qed.

Lemma shl_mask_canon s c y : 0 <= s < 256 ->
  wshl s (wand c y) = wshl s (wand (Z.land c (Z.ones (256 - s))) y).
Proof.
  intros Hs. unfold wand, wshl, wrap.
  destruct (Z.ltb_spec s 256) as [_|?]; [|lia].
  unfold W. rewrite <- !Z.land_ones by lia. rewrite <- !Z.shiftl_mul_pow2 by lia.
  apply Z.bits_inj'; intros n Hn.
  rewrite !Z.land_spec. destruct (Z_lt_le_dec n s) as [L|L].
  - rewrite !Z.shiftl_spec_low by lia. reflexivity.
  - rewrite !Z.shiftl_spec by lia. rewrite !Z.land_spec.
    destruct (Z_lt_le_dec n 256) as [L2|L2].
    + rewrite (Z.ones_spec_low (256 - s)) by lia. rewrite andb_true_r. reflexivity.
    + rewrite (Z.ones_spec_high 256) by lia. rewrite !andb_false_r. reflexivity.
Qed.
