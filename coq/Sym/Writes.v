(* Generic theory of write lists (memory stores, storage stores): removal of
   overwritten writes and equality modulo commutation of disjoint writes.
   Lists are newest first. *)
From Coq Require Import ZArith List Bool Lia.
Import ListNotations.
Local Open Scope Z_scope.

Section Writes.
  Variable op : Type.
  Variable wr : op -> (Z -> Z) -> (Z -> Z).       (* effect of one write *)
  Variable inr : op -> Z -> Prop.                   (* cells the write touches *)
  Hypothesis inr_dec : forall o x, {inr o x} + {~ inr o x}.
  Hypothesis wr_out : forall o M x, ~ inr o x -> wr o M x = M x.
  Hypothesis wr_in : forall o M1 M2 x, inr o x -> wr o M1 x = wr o M2 x.

  Variable covers : op -> op -> bool.               (* covers n o: n overwrites every cell of o *)
  Hypothesis covers_sound : forall n o x, covers n o = true -> inr o x -> inr n x.
  Variable disjoint : op -> op -> bool.
  Hypothesis disjoint_sound : forall a b x, disjoint a b = true -> ~ (inr a x /\ inr b x).
  Variable op_eqb : op -> op -> bool.
  Hypothesis op_eqb_eq : forall a b, op_eqb a b = true -> a = b.

  Fixpoint mapply (l : list op) (M : Z -> Z) : Z -> Z :=
    match l with
    | [] => M
    | o :: rest => wr o (mapply rest M)
    end.

  Lemma mapply_app l1 l2 M : mapply (l1 ++ l2) M = mapply l1 (mapply l2 M).
  Proof. induction l1 as [|o l1 IH]; [reflexivity|]. cbn [app mapply]. rewrite IH. reflexivity. Qed.

  Lemma wr_local o M1 M2 x : M1 x = M2 x -> wr o M1 x = wr o M2 x.
  Proof.
    intros H. destruct (inr_dec o x) as [Hin|Hout]; [apply wr_in; exact Hin|].
    rewrite !wr_out by exact Hout. exact H.
  Qed.

  Lemma mapply_local l M1 M2 x : M1 x = M2 x -> mapply l M1 x = mapply l M2 x.
  Proof. intros H. induction l as [|o l IH]; [exact H|]. cbn [mapply]. apply wr_local. exact IH. Qed.

  Lemma mapply_overwritten l n M1 M2 x : In n l -> inr n x -> mapply l M1 x = mapply l M2 x.
  Proof.
    intros Hin Hx. induction l as [|o l IH]; [contradiction|]. cbn [mapply].
    destruct Hin as [->|Hin].
    - apply wr_in. exact Hx.
    - apply wr_local. apply IH. exact Hin.
  Qed.

  (* --- removal of overwritten writes ---------------------------------------- *)
  (* [newer]: the writes kept so far, oldest first *)
  Fixpoint dedup (newer : list op) (l : list op) : list op :=
    match l with
    | [] => []
    | o :: rest =>
      if existsb (fun n => covers n o) newer then dedup newer rest
      else o :: dedup (o :: newer) rest
    end.

  Lemma dedup_sound l : forall newer M x,
    mapply (rev newer ++ dedup newer l) M x = mapply (rev newer ++ l) M x.
  Proof.
    induction l as [|o rest IH]; intros newer M x; [reflexivity|]. cbn [dedup].
    destruct (existsb (fun n => covers n o) newer) eqn:E.
    - rewrite IH. rewrite !mapply_app. cbn [mapply].
      apply existsb_exists in E. destruct E as (n & Hn & Hc).
      destruct (inr_dec o x) as [Hin|Hout].
      + apply (mapply_overwritten (rev newer) n); [apply in_rev in Hn; exact Hn|].
        eapply covers_sound; eassumption.
      + apply mapply_local. symmetry. apply wr_out. exact Hout.
    - specialize (IH (o :: newer) M x). cbn [rev] in IH. rewrite <- !app_assoc in IH. exact IH.
  Qed.

  Lemma dedup_nil_sound l M x : mapply (dedup [] l) M x = mapply l M x.
  Proof. apply (dedup_sound l [] M x). Qed.

  (* --- equality modulo commutation ------------------------------------------- *)
  (* take out of l the first element equal to o, provided everything before it is disjoint from o *)
  Fixpoint pick (o : op) (l : list op) : option (list op) :=
    match l with
    | [] => None
    | p :: rest =>
      if op_eqb o p then Some rest
      else if disjoint p o then
             match pick o rest with Some r => Some (p :: r) | None => None end
           else None
    end.

  Fixpoint perm_match (l1 l2 : list op) : bool :=
    match l1 with
    | [] => match l2 with [] => true | _ => false end
    | o :: rest =>
      match pick o l2 with
      | Some l2' => perm_match rest l2'
      | None => false
      end
    end.

  Lemma wr_comm a b M x : disjoint a b = true -> wr a (wr b M) x = wr b (wr a M) x.
  Proof.
    intros D. destruct (inr_dec a x) as [Ha|Ha]; destruct (inr_dec b x) as [Hb|Hb].
    - exfalso. eapply disjoint_sound; [exact D|split; eassumption].
    - rewrite (wr_out b (wr a M)) by exact Hb. apply wr_in. exact Ha.
    - rewrite (wr_out a (wr b M)) by exact Ha. apply wr_in. exact Hb.
    - rewrite !wr_out by assumption. reflexivity.
  Qed.

  Lemma pick_sound o l : forall l', pick o l = Some l' ->
    forall M x, mapply l M x = mapply (o :: l') M x.
  Proof.
    induction l as [|p rest IH]; intros l' H M x; [discriminate|]. cbn [pick] in H.
    destruct (op_eqb o p) eqn:E.
    - apply op_eqb_eq in E. subst p. inversion H; subst. reflexivity.
    - destruct (disjoint p o) eqn:D; [|discriminate].
      destruct (pick o rest) as [r0|] eqn:P; [|discriminate]. inversion H; subst l'. clear H.
      cbn [mapply]. rewrite (wr_local p _ (mapply (o :: r0) M) x) by (apply IH; reflexivity).
      cbn [mapply]. apply wr_comm. exact D.
  Qed.

  Lemma perm_match_sound l1 : forall l2, perm_match l1 l2 = true ->
    forall M x, mapply l1 M x = mapply l2 M x.
  Proof.
    induction l1 as [|o rest IH]; intros l2 H M x; cbn [perm_match] in H.
    - destruct l2; [reflexivity|discriminate].
    - destruct (pick o l2) as [l2'|] eqn:P; [|discriminate].
      rewrite (pick_sound _ _ _ P M x). cbn [mapply]. apply wr_local. apply IH. exact H.
  Qed.

  Definition equiv_writes (l1 l2 : list op) : bool := perm_match (dedup [] l1) (dedup [] l2).

  Theorem equiv_writes_sound l1 l2 : equiv_writes l1 l2 = true ->
    forall M x, mapply l1 M x = mapply l2 M x.
  Proof.
    intros H M x. rewrite <- (dedup_nil_sound l1), <- (dedup_nil_sound l2).
    apply perm_match_sound. exact H.
  Qed.
End Writes.
