(* The equivalence validator (executable part; proofs in EquivProofs.v).
   [equiv_seg b1 b2]: event-free instruction lists b1 (original) and b2 (candidate) have the
   same effect on every state, and b2 needs no deeper stack.
   [equiv_blocks]: blocks are cut at their event instructions; events must be identical
   and in the same order, segments pairwise equivalent. *)
From Coq Require Import ZArith List Bool Lia.
From GV Require Import Ref.Word Ref.EVM Sym.Term Sym.TermLemmas Sym.SymExec Sym.Norm Sym.Writes.
Import ListNotations.
Local Open Scope Z_scope.

(* --- final memories ---------------------------------------------------------- *)
Record mop := { m8 : bool; ma : term; mv : term }.

Fixpoint mflat (m : term) : option (list mop) :=        (* newest first *)
  match m with
  | MInit => Some []
  | MStore m' a v => option_map (cons {| m8 := false; ma := a; mv := v |}) (mflat m')
  | MStore8 m' a v => option_map (cons {| m8 := true; ma := a; mv := v |}) (mflat m')
  | _ => None
  end.

Definition msize (o : mop) : Z := if m8 o then 1 else 32.
Definition mop_wf (o : mop) : bool := wsort (ma o) && wsort (mv o).
Definition mop_eqb (a b : mop) : bool :=
  Bool.eqb (m8 a) (m8 b) && term_eqb (ma a) (ma b) && term_eqb (mv a) (mv b).
Definition mdisjoint (a b : mop) : bool :=
  wsort (ma a) && wsort (ma b) && disj (msize a) (ma a) (msize b) (ma b).
Definition mcovers (n o : mop) : bool :=
  (Bool.eqb (m8 n) (m8 o) && term_eqb (ma n) (ma o)) ||
  (negb (m8 n) && m8 o &&
   match ma n, ma o with
   | TConst c1, TConst c2 => (c1 <=? c2) && (c2 <? c1 + 32)
   | _, _ => false
   end).

Definition mem_equiv (m1 m2 : term) : bool :=
  match mflat m1, mflat m2 with
  | Some l1, Some l2 => equiv_writes mop mcovers mdisjoint mop_eqb l1 l2
  | _, _ => false
  end.

(* --- final storages ------------------------------------------------------------ *)
Record sop := { sk : term; sv : term }.

Fixpoint sflat (s : term) : option (list sop) :=
  match s with
  | SInit => Some []
  | SStore s' k v => option_map (cons {| sk := k; sv := v |}) (sflat s')
  | _ => None
  end.

Definition sop_eqb (a b : sop) : bool := term_eqb (sk a) (sk b) && term_eqb (sv a) (sv b).
Definition sdisjoint (a b : sop) : bool := wsort (sk a) && wsort (sk b) && keys_distinct (sk a) (sk b).
Definition scovers (n o : sop) : bool := term_eqb (sk n) (sk o).

Definition sto_equiv (s1 s2 : term) : bool :=
  match sflat s1, sflat s2 with
  | Some l1, Some l2 => equiv_writes sop scovers sdisjoint sop_eqb l1 l2
  | _, _ => false
  end.

(* --- segments ------------------------------------------------------------------ *)
Fixpoint list_eqb (l1 l2 : list term) : bool :=
  match l1, l2 with
  | [], [] => true
  | x :: r1, y :: r2 => term_eqb x y && list_eqb r1 r2
  | _, _ => false
  end.

Definition equiv_sstates (s1 s2 : sstate) : bool :=
  (s_base s2 <=? s_base s1)%nat &&
  (let stk2 := s_stk s2 ++ fresh (s_base s2) (s_base s1 - s_base s2) in
   forallb wsort (s_stk s1) && forallb wsort stk2 &&
   msort (s_mem s1) && msort (s_mem s2) && ssort (s_sto s1) && ssort (s_sto s2) &&
   list_eqb (map norm2 (s_stk s1)) (map norm2 stk2) &&
   mem_equiv (norm2 (s_mem s1)) (norm2 (s_mem s2)) &&
   sto_equiv (norm2 (s_sto s1)) (norm2 (s_sto s2))).

Definition equiv_seg (b1 b2 : list instr) : bool :=
  match symexec b1 sinit, symexec b2 sinit with
  | Some s1, Some s2 => equiv_sstates s1 s2
  | _, _ => false
  end.

(* --- blocks --------------------------------------------------------------------- *)
Fixpoint split_ev (b : list instr) : list instr * option ((N * nat * nat) * list instr) :=
  match b with
  | [] => ([], None)
  | IEvent k i o :: r => ([], Some ((k, i, o), r))
  | x :: r => let (s, t) := split_ev r in (x :: s, t)
  end.

Definition ev_eqb (a b : N * nat * nat) : bool :=
  match a, b with (k, i, o), (k', i', o') => N.eqb k k' && Nat.eqb i i' && Nat.eqb o o' end.

Fixpoint equiv_blocks (fuel : nat) (b1 b2 : list instr) : bool :=
  match fuel with
  | O => false
  | S f =>
    let (s1, t1) := split_ev b1 in
    let (s2, t2) := split_ev b2 in
    equiv_seg s1 s2 &&
    match t1, t2 with
    | None, None => true
    | Some (e1, r1), Some (e2, r2) => ev_eqb e1 e2 && equiv_blocks f r1 r2
    | _, _ => false
    end
  end.

Definition equiv_block (b1 b2 : list instr) : bool := equiv_blocks (S (length b1)) b1 b2.
