(* Soundness of the equivalence validator. *)
From Coq Require Import ZArith List Bool Lia.
From GV Require Import Ref.Word Ref.WordLemmas Ref.EVM Sym.Term Sym.TermLemmas Sym.SymExec Sym.SymExecProofs
  Sym.MemFacts Sym.Norm Sym.NormProofs Sym.Writes Val.Equiv.
Import ListNotations.
Local Open Scope Z_scope.

Section Final.
  Variable r : rho.
  Hypothesis Hr : wf_rho r.
  Notation ev := (evalw r).

  (* --- memory ----------------------------------------------------------------- *)
  Definition mwr (o : mop) (M : Z -> Z) : Z -> Z :=
    if m8 o then mstore8 M (ev (ma o)) (ev (mv o)) else mstore M (ev (ma o)) (ev (mv o)).
  Definition minr (o : mop) (x : Z) : Prop := ev (ma o) <= x < ev (ma o) + msize o.

  Lemma minr_dec o x : {minr o x} + {~ minr o x}.
  Proof.
    unfold minr. destruct (Z_le_dec (ev (ma o)) x); [|right; lia].
    destruct (Z_lt_dec x (ev (ma o) + msize o)); [left|right]; lia.
  Qed.
  Lemma mwr_out o M x : ~ minr o x -> mwr o M x = M x.
  Proof.
    unfold minr, mwr, msize. destruct (m8 o); intros H.
    - apply mstore8_other. lia.
    - apply mstore_other. exact H.
  Qed.
  Lemma mwr_in o M1 M2 x : minr o x -> mwr o M1 x = mwr o M2 x.
  Proof.
    unfold minr, mwr, msize. destruct (m8 o); intros H.
    - assert (x = ev (ma o)) by lia. subst x. rewrite !mstore8_in. reflexivity.
    - rewrite !mstore_in by exact H. reflexivity.
  Qed.
  Lemma mcovers_sound n o x : mcovers n o = true -> minr o x -> minr n x.
  Proof.
    unfold mcovers, minr, msize. intros H Hx. apply orb_true_iff in H. destruct H as [H|H].
    - apply andb_true_iff in H. destruct H as [H1 H2]. apply eqb_prop in H1. apply term_eqb_eq in H2.
      rewrite H1, H2. exact Hx.
    - apply andb_true_iff in H. destruct H as [H H3]. apply andb_true_iff in H. destruct H as [H1 H2].
      apply negb_true_iff in H1. rewrite H1. rewrite H2 in Hx.
      destruct (ma n) as [c1| | | | | | | | | | | | | | | ]; try discriminate H3.
      destruct (ma o) as [c2| | | | | | | | | | | | | | | ]; try discriminate H3.
      apply andb_true_iff in H3. destruct H3 as [A B]. apply Z.leb_le in A. apply Z.ltb_lt in B.
      cbn [evalw] in *. lia.
  Qed.
  Lemma mdisjoint_sound a b x : mdisjoint a b = true -> ~ (minr a x /\ minr b x).
  Proof.
    unfold mdisjoint, minr. intros H. apply andb_true_iff in H. destruct H as [H D].
    apply andb_true_iff in H. destruct H as [Sa Sb]. apply (disj_sound r Hr _ _ _ _ D Sa Sb x).
  Qed.
  Lemma mop_eqb_eq a b : mop_eqb a b = true -> a = b.
  Proof.
    unfold mop_eqb. intros H. apply andb_true_iff in H. destruct H as [H H3].
    apply andb_true_iff in H. destruct H as [H1 H2]. apply eqb_prop in H1.
    apply term_eqb_eq in H2, H3. destruct a, b; cbn in *. subst. reflexivity.
  Qed.

  Lemma mflat_eval m : forall l, mflat m = Some l -> evalm r m = mapply mop mwr l (r_mem r).
  Proof.
    induction m as [z|n|k|k|k a _|o a _|o a _ b _|o a _ b _ c _|m _ a _|s _ k _|m _ a _ n _
                   | |m IHm a _ v _|m IHm a _ v _| |s _ k _ v _]; intros l H; cbn [mflat] in H; try discriminate H.
    - inversion H; subst. reflexivity.
    - destruct (mflat m) as [l0|]; [|discriminate H]. inversion H; subst. cbn [mapply evalm].
      rewrite (IHm l0 eq_refl). reflexivity.
    - destruct (mflat m) as [l0|]; [|discriminate H]. inversion H; subst. cbn [mapply evalm].
      rewrite (IHm l0 eq_refl). reflexivity.
  Qed.

  Theorem mem_equiv_sound m1 m2 : mem_equiv m1 m2 = true -> forall x, evalm r m1 x = evalm r m2 x.
  Proof.
    unfold mem_equiv. destruct (mflat m1) as [l1|] eqn:F1; [|discriminate].
    destruct (mflat m2) as [l2|] eqn:F2; [|discriminate]. intros H x.
    rewrite (mflat_eval _ _ F1), (mflat_eval _ _ F2).
    apply (equiv_writes_sound mop mwr minr minr_dec mwr_out mwr_in mcovers mcovers_sound
             mdisjoint mdisjoint_sound mop_eqb mop_eqb_eq l1 l2 H).
  Qed.

  (* --- storage ------------------------------------------------------------------ *)
  Definition swr (o : sop) (S : Z -> Z) : Z -> Z := sstore S (ev (sk o)) (ev (sv o)).
  Definition sinr (o : sop) (x : Z) : Prop := x = ev (sk o).

  Lemma sinr_dec o x : {sinr o x} + {~ sinr o x}.
  Proof. unfold sinr. apply Z.eq_dec. Qed.
  Lemma swr_out o S x : ~ sinr o x -> swr o S x = S x.
  Proof. unfold sinr, swr. intros H. apply sstore_other. exact H. Qed.
  Lemma swr_in o S1 S2 x : sinr o x -> swr o S1 x = swr o S2 x.
  Proof. unfold sinr, swr. intros ->. rewrite !sstore_same. reflexivity. Qed.
  Lemma scovers_sound n o x : scovers n o = true -> sinr o x -> sinr n x.
  Proof. unfold scovers, sinr. intros H ->. apply term_eqb_eq in H. rewrite H. reflexivity. Qed.
  Lemma sdisjoint_sound a b x : sdisjoint a b = true -> ~ (sinr a x /\ sinr b x).
  Proof.
    unfold sdisjoint, sinr. intros H [E1 E2]. apply andb_true_iff in H. destruct H as [H D].
    apply andb_true_iff in H. destruct H as [Sa Sb].
    apply (keys_distinct_sound r Hr _ _ D Sa Sb). congruence.
  Qed.
  Lemma sop_eqb_eq a b : sop_eqb a b = true -> a = b.
  Proof.
    unfold sop_eqb. intros H. apply andb_true_iff in H. destruct H as [H1 H2].
    apply term_eqb_eq in H1, H2. destruct a, b; cbn in *. subst. reflexivity.
  Qed.

  Lemma sflat_eval s : forall l, sflat s = Some l -> evals r s = mapply sop swr l (r_sto r).
  Proof.
    induction s as [z|n|k|k|k a _|o a _|o a _ b _|o a _ b _ c _|m _ a _|s _ k _|m _ a _ n _
                   | |m _ a _ v _|m _ a _ v _| |s IHs k _ v _]; intros l H; cbn [sflat] in H; try discriminate H.
    - inversion H; subst. reflexivity.
    - destruct (sflat s) as [l0|]; [|discriminate H]. inversion H; subst. cbn [mapply evals].
      rewrite (IHs l0 eq_refl). reflexivity.
  Qed.

  Theorem sto_equiv_sound s1 s2 : sto_equiv s1 s2 = true -> forall x, evals r s1 x = evals r s2 x.
  Proof.
    unfold sto_equiv. destruct (sflat s1) as [l1|] eqn:F1; [|discriminate].
    destruct (sflat s2) as [l2|] eqn:F2; [|discriminate]. intros H x.
    rewrite (sflat_eval _ _ F1), (sflat_eval _ _ F2).
    apply (equiv_writes_sound sop swr sinr sinr_dec swr_out swr_in scovers scovers_sound
             sdisjoint sdisjoint_sound sop_eqb sop_eqb_eq l1 l2 H).
  Qed.

  (* --- stacks --------------------------------------------------------------------- *)
  Lemma list_norm_eq l1 : forall l2, forallb wsort l1 = true -> forallb wsort l2 = true ->
    list_eqb (map norm2 l1) (map norm2 l2) = true -> map ev l1 = map ev l2.
  Proof.
    induction l1 as [|x l1 IH]; intros [|y l2] H1 H2 H; cbn [map list_eqb] in *; try discriminate; [reflexivity|].
    cbn [forallb] in H1, H2. apply andb_true_iff in H1, H2, H. destruct H1 as [Sx H1], H2 as [Sy H2], H as [E H].
    apply term_eqb_eq in E. f_equal; [|apply IH; assumption].
    destruct (norm2_sound_w r Hr x Sx) as [_ Ex]. destruct (norm2_sound_w r Hr y Sy) as [_ Ey].
    rewrite <- Ex, <- Ey, E. reflexivity.
  Qed.
End Final.

(* --- segments ---------------------------------------------------------------------- *)
Lemma rho0_wf e s : wf_env e -> wf_state s -> wf_rho (rho0 e s).
Proof.
  intros He (A & B & C). unfold wf_rho, rho0; cbn [r_stk r_mem r_sto r_env].
  split; [exact A|split; [exact B|split; [exact C|exact He]]].
Qed.

Lemma firstn_skipn_split {A} (l : list A) (a d : nat) :
  skipn a l = firstn d (skipn a l) ++ skipn (a + d) l.
Proof. rewrite <- (skipn_skipn' l d a). symmetry. apply firstn_skipn. Qed.

Theorem equiv_sstates_sound s1 s2 e s0 : equiv_sstates s1 s2 = true ->
  wf_env e -> wf_state s0 -> (s_base s1 <= length (stk s0))%nat ->
  let r := rho0 e s0 in
  (s_base s2 <= s_base s1)%nat /\
  map (evalw r) (s_stk s1) ++ skipn (s_base s1) (stk s0) =
  map (evalw r) (s_stk s2) ++ skipn (s_base s2) (stk s0) /\
  (forall x, evalm r (s_mem s1) x = evalm r (s_mem s2) x) /\
  (forall k, evals r (s_sto s1) k = evals r (s_sto s2) k).
Proof.
  intros H He Hs Hb r. assert (Hr : wf_rho r) by (apply rho0_wf; assumption).
  unfold equiv_sstates in H.
  apply andb_true_iff in H. destruct H as [H Q]. cbv zeta in Q.
  apply andb_true_iff in Q. destruct Q as [Q Qsto]. apply andb_true_iff in Q. destruct Q as [Q Qmem].
  apply andb_true_iff in Q. destruct Q as [Q Qstk]. apply andb_true_iff in Q. destruct Q as [Q Qs2].
  apply andb_true_iff in Q. destruct Q as [Q Qs1]. apply andb_true_iff in Q. destruct Q as [Q Qm2].
  apply andb_true_iff in Q. destruct Q as [Q Qm1]. apply andb_true_iff in Q. destruct Q as [Qk1 Qk2].
  apply Nat.leb_le in H. split; [exact H|].
  set (d := (s_base s1 - s_base s2)%nat) in *.
  split; [|split].
  - pose proof (list_norm_eq r Hr _ _ Qk1 Qk2 Qstk) as E. rewrite E, map_app, <- app_assoc. f_equal.
    rewrite (firstn_skipn_split (stk s0) (s_base s2) d).
    replace (s_base s2 + d)%nat with (s_base s1) by (unfold d; lia). f_equal.
    apply fresh_eval. unfold d. lia.
  - intros x. destruct (norm2_sound_m r Hr _ Qm1) as [_ E1]. destruct (norm2_sound_m r Hr _ Qm2) as [_ E2].
    rewrite <- E1, <- E2. apply (mem_equiv_sound r Hr). exact Qmem.
  - intros k. destruct (norm2_sound_s r Hr _ Qs1) as [_ E1]. destruct (norm2_sound_s r Hr _ Qs2) as [_ E2].
    rewrite <- E1, <- E2. apply (sto_equiv_sound r Hr). exact Qsto.
Qed.

(* Main theorem for event-free code: on every well-formed state on which the original
   succeeds, the candidate succeeds too and ends with the same stack, the same memory
   bytes and the same storage. *)
Theorem equiv_seg_sound b1 b2 : equiv_seg b1 b2 = true ->
  forall e s0 c1, wf_env e -> wf_state s0 -> exec e b1 s0 = Some c1 ->
  exists c2, exec e b2 s0 = Some c2 /\ stk c2 = stk c1 /\
             (forall x, mem c2 x = mem c1 x) /\ (forall k, sto c2 k = sto c1 k).
Proof.
  unfold equiv_seg. destruct (symexec b1 sinit) as [s1|] eqn:E1; [|discriminate].
  destruct (symexec b2 sinit) as [s2|] eqn:E2; [|discriminate].
  intros H e s0 c1 He Hs Hx.
  destruct (symexec_sound e s0 b1 s1 c1 E1 Hx) as (Hb1 & K1 & M1 & S1).
  destruct (equiv_sstates_sound s1 s2 e s0 H He Hs Hb1) as (Hle & KK & MM & SS).
  destruct (symexec_complete e s0 b2 s2 E2 ltac:(lia)) as (c2 & Hx2).
  destruct (symexec_sound e s0 b2 s2 c2 E2 Hx2) as (_ & K2 & M2 & S2).
  exists c2. split; [exact Hx2|]. split; [rewrite K1, K2; symmetry; exact KK|].
  split; [intros x; rewrite M1, M2; symmetry; apply MM|intros k; rewrite S1, S2; symmetry; apply SS].
Qed.

(* --- evaluation respects pointwise-equal initial states --------------------------------- *)
Definition rho_equiv (r r' : rho) : Prop :=
  r_stk r = r_stk r' /\ r_env r = r_env r' /\
  (forall x, r_mem r x = r_mem r' x) /\ (forall k, r_sto r k = r_sto r' k).

Lemma eval_ext r r' (H : rho_equiv r r') t :
  evalw r t = evalw r' t /\ (forall x, evalm r t x = evalm r' t x) /\ (forall k, evals r t k = evals r' t k).
Proof.
  destruct H as (Hs & He & Hm & Ht).
  induction t as [z|n|k|k|k a IHa|o a IHa|o a IHa b IHb|o a IHa b IHb c IHc|m IHm a IHa|s IHs k IHk|m IHm a IHa n IHn
                 | |m IHm a IHa v IHv|m IHm a IHa v IHv| |s IHs k IHk v IHv];
    cbn [evalw evalm evals]; (split; [|split]); try (intros; auto; fail); try reflexivity.
  - rewrite Hs. reflexivity.
  - rewrite He. reflexivity.
  - rewrite He. reflexivity.
  - rewrite He, (proj1 IHa). reflexivity.
  - rewrite (proj1 IHa). reflexivity.
  - rewrite (proj1 IHa), (proj1 IHb). reflexivity.
  - rewrite (proj1 IHa), (proj1 IHb), (proj1 IHc). reflexivity.
  - rewrite (proj1 IHa). apply mload_ext. intros x _. apply (proj1 (proj2 IHm)).
  - rewrite (proj1 IHk). apply (proj2 (proj2 IHs)).
  - rewrite He, (proj1 IHa), (proj1 IHn). f_equal. apply mem_range_ext. intros x _. apply (proj1 (proj2 IHm)).
  - intros x. rewrite (proj1 IHa), (proj1 IHv). unfold mstore. rewrite (proj1 (proj2 IHm)). reflexivity.
  - intros x. rewrite (proj1 IHa), (proj1 IHv). unfold mstore8. rewrite (proj1 (proj2 IHm)). reflexivity.
  - intros x. rewrite (proj1 IHk), (proj1 IHv). unfold sstore. rewrite (proj2 (proj2 IHs)). reflexivity.
Qed.

Definition state_equiv (a b : state) : Prop :=
  stk a = stk b /\ (forall x, mem a x = mem b x) /\ (forall k, sto a k = sto b k).

Lemma state_equiv_refl a : state_equiv a a.
Proof. repeat split; reflexivity. Qed.

Lemma state_equiv_trans a b c : state_equiv a b -> state_equiv b c -> state_equiv a c.
Proof.
  intros (A1 & A2 & A3) (B1 & B2 & B3). split; [congruence|].
  split; intros; [rewrite A2; apply B2|rewrite A3; apply B3].
Qed.

Lemma wf_state_equiv a b : state_equiv a b -> wf_state a -> wf_state b.
Proof.
  intros (A1 & A2 & A3) (W1 & W2 & W3). split; [rewrite <- A1; exact W1|].
  split; intros x; [rewrite <- A2; apply W2|rewrite <- A3; apply W3].
Qed.

(* running the same event-free code from equivalent states gives equivalent states *)
Lemma exec_proper e b ss s s' c : symexec b sinit = Some ss -> state_equiv s s' ->
  exec e b s = Some c -> exists c', exec e b s' = Some c' /\ state_equiv c c'.
Proof.
  intros Hx (A1 & A2 & A3) Hc.
  destruct (symexec_sound e s b ss c Hx Hc) as (Hb & K & M & S).
  destruct (symexec_complete e s' b ss Hx ltac:(rewrite <- A1; exact Hb)) as (c' & Hc').
  destruct (symexec_sound e s' b ss c' Hx Hc') as (_ & K' & M' & S').
  exists c'. split; [exact Hc'|].
  assert (R : rho_equiv (rho0 e s) (rho0 e s')) by (unfold rho_equiv, rho0; cbn; auto).
  split; [|split].
  - rewrite K, K', <- A1. f_equal. apply map_ext. intros t. apply (eval_ext _ _ R t).
  - intros x. rewrite M, M'. apply (eval_ext _ _ R).
  - intros k. rewrite S, S'. apply (eval_ext _ _ R).
Qed.

(* the state after a validated segment is well formed *)
Lemma exec_wf e b ss s c : symexec b sinit = Some ss ->
  forallb wsort (s_stk ss) = true -> msort (s_mem ss) = true -> ssort (s_sto ss) = true ->
  wf_env e -> wf_state s -> exec e b s = Some c -> wf_state c.
Proof.
  intros Hx Hk Hm Hs He Hw Hc.
  destruct (symexec_sound e s b ss c Hx Hc) as (Hb & K & M & S).
  assert (Hr : wf_rho (rho0 e s)) by (apply rho0_wf; assumption).
  split; [|split].
  - rewrite K. unfold wf_stack. apply Forall_app. split.
    + apply Forall_forall. intros v Hv. apply in_map_iff in Hv. destruct Hv as (t & <- & Ht).
      apply evalw_inw; [exact Hr|]. rewrite forallb_forall in Hk. apply Hk. exact Ht.
    + destruct Hw as (W1 & _). unfold wf_stack in W1. rewrite Forall_forall in *.
      intros v Hv. apply W1. rewrite <- (firstn_skipn (s_base ss) (stk s)). apply in_or_app. right. exact Hv.
  - rewrite M. apply evalm_wf; assumption.
  - rewrite S. apply evals_wf; assumption.
Qed.

(* --- blocks -------------------------------------------------------------------------------- *)
Definition event_equiv (a b : event) : Prop :=
  ev_k a = ev_k b /\ ev_args a = ev_args b /\ ev_env a = ev_env b /\
  (forall x, ev_mem a x = ev_mem b x) /\ (forall k, ev_sto a k = ev_sto b k).

Definition bstate_equiv (a b : bstate) : Prop :=
  b_env a = b_env b /\ state_equiv (b_state a) (b_state b) /\ Forall2 event_equiv (b_trace a) (b_trace b).

Definition wf_bstate (c : bstate) : Prop := wf_env (b_env c) /\ wf_state (b_state c).

Definition after_event (x : event -> response) (k : N) (nin nout : nat) (c : bstate) : bstate :=
  let s := b_state c in
  let ev := {| ev_k := k; ev_args := firstn nin (stk s); ev_mem := mem s; ev_sto := sto s; ev_env := b_env c |} in
  let rs := x ev in
  {| b_env := rs_env rs;
     b_state := {| stk := firstn nout (rs_outs rs ++ repeat 0%Z nout) ++ skipn nin (stk s);
                   mem := rs_mem rs; sto := rs_sto rs |};
     b_trace := b_trace c ++ [ev] |}.

Lemma run_split x b : forall s t c, split_ev b = (s, t) ->
  run x b c =
  match exec (b_env c) s (b_state c) with
  | None => None
  | Some d =>
    let c' := {| b_env := b_env c; b_state := d; b_trace := b_trace c |} in
    match t with
    | None => Some c'
    | Some ((k, nin, nout), rest) =>
      if (length (stk d) <? nin)%nat then None else run x rest (after_event x k nin nout c')
    end
  end.
Proof.
  induction b as [|i b IH]; intros s t c H; cbn [split_ev] in H.
  - inversion H; subst. cbn [run exec]. destruct c; reflexivity.
  - destruct i; try (destruct (split_ev b) as [s' t'] eqn:E; inversion H; subst; cbn [run exec];
                     destruct (step (b_env c) _ (b_state c)) as [d|]; [|reflexivity];
                     rewrite (IH s' t _ eq_refl); reflexivity).
    inversion H; subst. cbn [run exec]. reflexivity.
Qed.

Lemma split_ev_noevent b : forall s t, split_ev b = (s, t) ->
  forall k i o, ~ In (IEvent k i o) s.
Proof.
  induction b as [|x b IH]; intros s t H k i o; cbn [split_ev] in H.
  - inversion H; subst. intros [].
  - destruct x; try (destruct (split_ev b) as [s' t'] eqn:E; inversion H; subst;
                     intros [Hin|Hin]; [discriminate Hin|exact (IH _ _ eq_refl k i o Hin)]).
    inversion H; subst. intros [].
Qed.

Lemma split_ev_length b : forall s t, split_ev b = (s, t) ->
  match t with None => True | Some (_, rest) => (length rest < length b)%nat end.
Proof.
  induction b as [|x b IH]; intros s t H; cbn [split_ev] in H.
  - inversion H; subst. exact I.
  - destruct x; try (destruct (split_ev b) as [s' t'] eqn:E; inversion H; subst;
                     specialize (IH _ _ eq_refl); destruct t as [[? rest]|]; [cbn [length]; lia|exact I]).
    inversion H; subst. cbn [length]. lia.
Qed.

Section Blocks.
  Variable x : event -> response.
  Hypothesis x_proper : forall e1 e2, event_equiv e1 e2 ->
    rs_outs (x e1) = rs_outs (x e2) /\ rs_env (x e1) = rs_env (x e2) /\
    (forall y, rs_mem (x e1) y = rs_mem (x e2) y) /\ (forall k, rs_sto (x e1) k = rs_sto (x e2) k).
  Hypothesis x_wf : forall e, wf_env (ev_env e) -> wf_mem (ev_mem e) -> wf_sto (ev_sto e) ->
    wf_env (rs_env (x e)) /\ wf_stack (rs_outs (x e)) /\ wf_mem (rs_mem (x e)) /\ wf_sto (rs_sto (x e)).

  Lemma after_event_equiv k nin nout c c' : bstate_equiv c c' ->
    bstate_equiv (after_event x k nin nout c) (after_event x k nin nout c').
  Proof.
    intros (E & (S1 & S2 & S3) & T). unfold after_event.
    set (ev := {| ev_k := k; ev_args := firstn nin (stk (b_state c)); ev_mem := mem (b_state c);
                  ev_sto := sto (b_state c); ev_env := b_env c |}).
    set (ev' := {| ev_k := k; ev_args := firstn nin (stk (b_state c')); ev_mem := mem (b_state c');
                   ev_sto := sto (b_state c'); ev_env := b_env c' |}).
    assert (EE : event_equiv ev ev').
    { unfold event_equiv, ev, ev'; cbn. rewrite S1. repeat split; auto. }
    destruct (x_proper _ _ EE) as (O & V & M & St).
    split; [exact V|]. split.
    - unfold state_equiv; cbn. rewrite O, S1. repeat split; auto.
    - cbn. apply Forall2_app; [exact T|]. constructor; [exact EE|constructor].
  Qed.

  Lemma after_event_wf k nin nout c : wf_bstate c -> wf_bstate (after_event x k nin nout c).
  Proof.
    intros (We & (Ws & Wm & Wt)). unfold after_event, wf_bstate. cbn.
    destruct (x_wf {| ev_k := k; ev_args := firstn nin (stk (b_state c)); ev_mem := mem (b_state c);
                      ev_sto := sto (b_state c); ev_env := b_env c |} We Wm Wt) as (A & B & C & D).
    split; [exact A|]. split; [|split; assumption].
    cbn. unfold wf_stack in *. apply Forall_app. split.
    - apply Forall_forall. intros v Hv.
      assert (Hv' : In v (rs_outs (x {| ev_k := k; ev_args := firstn nin (stk (b_state c)); ev_mem := mem (b_state c);
                  ev_sto := sto (b_state c); ev_env := b_env c |}) ++ repeat 0%Z nout)).
      { rewrite <- (firstn_skipn nout (_ ++ repeat 0%Z nout)). apply in_or_app. left. exact Hv. }
      apply in_app_or in Hv'. destruct Hv' as [Hv'|Hv'].
      + rewrite Forall_forall in B. apply B. exact Hv'.
      + apply repeat_spec in Hv'. subst v. apply (WordLemmas.b2z_range false).
    - rewrite Forall_forall in *. intros v Hv. apply Ws.
      rewrite <- (firstn_skipn nin (stk (b_state c))). apply in_or_app. right. exact Hv.
  Qed.

  Theorem equiv_blocks_sound fuel : forall b1 b2, equiv_blocks fuel b1 b2 = true ->
    forall c c', wf_bstate c -> bstate_equiv c c' ->
    forall c1, run x b1 c = Some c1 -> exists c2, run x b2 c' = Some c2 /\ bstate_equiv c1 c2.
  Proof.
    induction fuel as [|f IH]; intros b1 b2 H c c' Wc Ec c1 R1; [discriminate H|].
    cbn [equiv_blocks] in H.
    destruct (split_ev b1) as [s1 t1] eqn:P1. destruct (split_ev b2) as [s2 t2] eqn:P2.
    apply andb_true_iff in H. destruct H as [Hseg Hrest].
    rewrite (run_split x b1 s1 t1 c P1) in R1. rewrite (run_split x b2 s2 t2 c' P2).
    destruct (exec (b_env c) s1 (b_state c)) as [d1|] eqn:X1; [|discriminate R1].
    destruct Wc as (We & Ws). destruct Ec as (Ee & Es & Et).
    (* candidate segment from the same state *)
    destruct (equiv_seg_sound s1 s2 Hseg (b_env c) (b_state c) d1 We Ws X1) as (d2 & X2 & K & M & S).
    (* ... and from the equivalent state *)
    unfold equiv_seg in Hseg.
    destruct (symexec s1 sinit) as [ss1|] eqn:Y1; [|discriminate Hseg].
    destruct (symexec s2 sinit) as [ss2|] eqn:Y2; [|discriminate Hseg].
    destruct (exec_proper (b_env c) s2 ss2 (b_state c) (b_state c') d2 Y2 Es X2) as (d2' & X2' & E2).
    rewrite <- Ee. rewrite X2'.
    assert (E12 : state_equiv d1 d2').
    { apply state_equiv_trans with d2; [|exact E2]. repeat split; auto. }
    (* well-formedness of the state after the segment *)
    assert (Wd1 : wf_state d1).
    { unfold equiv_sstates in Hseg. apply andb_true_iff in Hseg. destruct Hseg as [_ Q]. cbv zeta in Q.
      apply andb_true_iff in Q. destruct Q as [Q _]. apply andb_true_iff in Q. destruct Q as [Q _].
      apply andb_true_iff in Q. destruct Q as [Q _]. apply andb_true_iff in Q. destruct Q as [Q _].
      apply andb_true_iff in Q. destruct Q as [Q Qs1]. apply andb_true_iff in Q. destruct Q as [Q _].
      apply andb_true_iff in Q. destruct Q as [Q Qm1]. apply andb_true_iff in Q. destruct Q as [Qk1 _].
      apply (exec_wf (b_env c) s1 ss1 (b_state c) d1 Y1 Qk1 Qm1 Qs1 We Ws X1). }
    set (c1' := {| b_env := b_env c; b_state := d1; b_trace := b_trace c |}) in *.
    set (c2' := {| b_env := b_env c; b_state := d2'; b_trace := b_trace c' |}).
    assert (EC : bstate_equiv c1' c2') by (unfold bstate_equiv, c1', c2'; cbn; auto).
    assert (WC : wf_bstate c1') by (unfold wf_bstate, c1'; cbn; auto).
    destruct t1 as [[[[k1 i1] o1] r1]|]; destruct t2 as [[[[k2 i2] o2] r2]|]; try discriminate Hrest.
    - apply andb_true_iff in Hrest. destruct Hrest as [Hev Hrest].
      unfold ev_eqb in Hev. apply andb_true_iff in Hev. destruct Hev as [Hev Ho].
      apply andb_true_iff in Hev. destruct Hev as [Hk Hi].
      apply N.eqb_eq in Hk. apply Nat.eqb_eq in Hi, Ho. subst k2 i2 o2.
      cbv zeta in R1. destruct E12 as (K12 & _). rewrite <- K12.
      destruct (length (stk d1) <? i1)%nat; [discriminate R1|].
      apply (IH r1 r2 Hrest (after_event x k1 i1 o1 c1') (after_event x k1 i1 o1 c2')).
      + apply after_event_wf. exact WC.
      + apply after_event_equiv. exact EC.
      + exact R1.
    - cbv zeta in R1. inversion R1; subst c1. exists c2'. split; [reflexivity|exact EC].
  Qed.

  (* C01 for one block: a block accepted by [equiv_block] is observationally equivalent. *)
  Theorem equiv_block_sound b1 b2 : equiv_block b1 b2 = true ->
    forall c, wf_bstate c -> forall c1, run x b1 c = Some c1 ->
    exists c2, run x b2 c = Some c2 /\ bstate_equiv c1 c2.
  Proof.
    intros H c Wc c1 R. apply (equiv_blocks_sound _ b1 b2 H c c Wc); [|exact R].
    split; [reflexivity|]. split; [apply state_equiv_refl|].
    induction (b_trace c); constructor; [|assumption]. repeat split; reflexivity.
  Qed.
End Blocks.
