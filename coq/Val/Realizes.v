(* Validator: does an id sequence realize a specification?  Executable, no proofs here
   (soundness is in Val/RealizesProofs.v).

   A symbolic stack machine over the VALUES of the specification (Sym/Spec.v):
     POP            needs 1 element;
     DUPk, SWAPk    only for 1 <= k <= 16; need k resp. k+1 elements;
     NOP            nothing;
     PUSH literal   pushes the constant;
     user instr.    the top |inpt_sk| stack elements must EQUAL the declared "inpt_sk" (in order;
                    for a commutative instruction with two operands also in swapped order); they
                    are replaced by "outpt_sk".
   After the whole sequence the stack must be exactly "tgt_ws"; every instruction flagged
   "storage" must occur exactly once; every pair (a, b) of "dependencies" must be respected.

   ORDERING, the choice made for instructions occurring several times: EVERY occurrence of a
   must precede EVERY occurrence of b (no occurrence of a at or after the first occurrence of
   b).  Reason: the pairs order accesses to memory/storage (store->load, load->store,
   store->store, keccak); a load that is recomputed after a conflicting store would read another
   value, so each occurrence has to be on the right side.  In the Max-SMT encoding both ends of
   a pair carry a unique position variable, so there the question does not arise; the greedy
   may repeat non-store instructions.  A pair whose end does not occur constrains nothing. *)
From Coq Require Import ZArith List Bool Arith.
From GV Require Import Sym.Spec.
Import ListNotations.

Inductive rerr : Type :=
| EUnderflow            (* not enough elements on the stack *)
| EDepth (k : nat)      (* DUPk/SWAPk with k outside 1..16 *)
| EUnknownId (id : nat) (* no user instruction with this id *)
| EOperands (id : nat)  (* stack top differs from the declared operands *)
| EFinalStack           (* final stack differs from tgt_ws *)
| EStoreCount (id : nat) (n : nat)   (* storage instruction id occurs n <> 1 times *)
| EOrder (a b : nat)    (* pair (a,b): an occurrence of a at/after an occurrence of b *)
| ELength (n : nat)     (* sequence longer than the bound *)
| EPeak (n : nat).      (* stack grew to n > bound *)

Definition depth_ok (k : nat) : bool := (1 <=? k) && (k <=? 16).

(* one step; [inl e] = failure *)
Definition exec_step (S : spec) (stk : list operand) (st : step) : rerr + list operand :=
  match st with
  | SPop => match stk with [] => inl EUnderflow | _ :: r => inr r end
  | SDup k =>
      if depth_ok k then
        match nth_error stk (k - 1) with
        | Some v => inr (v :: stk)
        | None => inl EUnderflow
        end
      else inl (EDepth k)
  | SSwap k =>
      if depth_ok k then
        match stk with
        | [] => inl EUnderflow
        | a :: r =>
            match nth_error r (k - 1) with
            | Some b => inr (b :: firstn (k - 1) r ++ a :: skipn k r)
            | None => inl EUnderflow
            end
        end
      else inl (EDepth k)
  | SNop => inr stk
  | SPushC z => inr (OConst z :: stk)
  | SIns id =>
      match find_instr S id with
      | None => inl (EUnknownId id)
      | Some u =>
          let n := length (ui_in u) in
          if length stk <? n then inl EUnderflow
          else
            let args := firstn n stk in
            if operands_eqb args (ui_in u) || (ui_comm u && operands_eqb args (swap2 (ui_in u)))
            then inr (map OVar (ui_out u) ++ skipn n stk)
            else inl (EOperands id)
      end
  end.

(* run from position [pos]; result: failing position and reason, or final stack and peak height *)
Fixpoint run (S : spec) (stk : list operand) (peak : nat) (pos : nat) (q : list step)
  : (nat * rerr) + (list operand * nat) :=
  match q with
  | [] => inr (stk, peak)
  | st :: r =>
      match exec_step S stk st with
      | inl e => inl (pos, e)
      | inr stk' => run S stk' (Nat.max peak (length stk')) (pos + 1) r
      end
  end.

Definition is_ins (id : nat) (st : step) : bool :=
  match st with SIns j => Nat.eqb j id | _ => false end.

Definition count_ins (id : nat) (q : list step) : nat := length (filter (is_ins id) q).

(* storage instructions with a wrong number of occurrences *)
Definition store_errors (S : spec) (q : list step) : list rerr :=
  flat_map (fun u => if ui_storage u
                     then (if count_ins (ui_id u) q =? 1 then []
                           else [EStoreCount (ui_id u) (count_ins (ui_id u) q)])
                     else []) (s_instrs S).

Definition no_occ (a : nat) (q : list step) : bool := forallb (fun st => negb (is_ins a st)) q.

(* every occurrence of a strictly before every occurrence of b *)
Fixpoint dep_ok (a b : nat) (q : list step) : bool :=
  match q with
  | [] => true
  | st :: r => if is_ins b st then negb (is_ins a st) && no_occ a r else dep_ok a b r
  end.

Definition dep_errors (S : spec) (q : list step) : list rerr :=
  flat_map (fun p => if dep_ok (fst p) (snd p) q then [] else [EOrder (fst p) (snd p)]) (s_deps S).

(* Detailed verdict: None = realizes; Some (position, reason) = first failure.
   Position = index in q for execution errors, length q for the global conditions. *)
Definition check (S : spec) (q : list step) : option (nat * rerr) :=
  match run S (s_src S) (length (s_src S)) 0 q with
  | inl f => Some f
  | inr (stk, _) =>
      if operands_eqb stk (s_tgt S) then
        match store_errors S q ++ dep_errors S q with
        | [] => None
        | e :: _ => Some (length q, e)
        end
      else Some (length q, EFinalStack)
  end.

Definition realizes (S : spec) (q : list step) : bool :=
  match check S q with None => true | Some _ => false end.

Definition peak_of (S : spec) (q : list step) : nat :=
  match run S (s_src S) (length (s_src S)) 0 q with
  | inr (_, p) => p
  | inl _ => 0
  end.

Definition check_bounded (S : spec) (q : list step) (len sk : nat) : option (nat * rerr) :=
  match check S q with
  | Some f => Some f
  | None =>
      if seq_len q <=? len then
        if peak_of S q <=? sk then None else Some (length q, EPeak (peak_of S q))
      else Some (length q, ELength (seq_len q))
  end.

(* realizes within a program-length bound (NOPs not counted) and a stack-size bound
   (largest height reached, the initial stack included) *)
Definition realizes_bounded (S : spec) (q : list step) (len sk : nat) : bool :=
  match check_bounded S q len sk with None => true | Some _ => false end.

(* Shape conditions on a specification under which ids identify instructions and variables
   have at most one definition; checked (not assumed) on every specification the harness
   builds.  [realizes] itself does not need them. *)
Fixpoint nodupb_nat (l : list nat) : bool :=
  match l with
  | [] => true
  | a :: r => negb (existsb (Nat.eqb a) r) && nodupb_nat r
  end.

Definition src_vars (S : spec) : list nat :=
  flat_map (fun o => match o with OVar v => [v] | OConst _ => [] end) (s_src S).

Definition wf_spec (S : spec) : bool :=
  nodupb_nat (map ui_id (s_instrs S))
  && nodupb_nat (flat_map ui_out (s_instrs S) ++ src_vars S)
  && forallb (fun o => match o with OVar _ => true | OConst _ => false end) (s_src S)
  && forallb (fun u => length (ui_out u) <=? 1) (s_instrs S)
  && forallb (fun u => negb (ui_storage u) || match ui_out u with [] => true | _ => false end) (s_instrs S)
  && forallb (fun p => match find_instr S (fst p), find_instr S (snd p) with
                       | Some _, Some _ => true | _, _ => false end) (s_deps S).
