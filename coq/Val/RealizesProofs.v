(* Soundness of the validator [realizes] (Val/Realizes.v) against an INDEPENDENT relational
   definition of symbolic execution, of "every store exactly once", of "ordering respected"
   and of "operands as named".  Nothing here is used by the validator itself. *)
From Coq Require Import ZArith List Bool Arith Lia.
From GV Require Import Sym.Spec Val.Realizes.
Import ListNotations.

(* ------------------------------------------------------------------------------------- *)
(* Relational semantics *)

(* the operands found on the stack are the ones the specification names *)
Definition operands_named (u : uinstr) (args : list operand) : Prop :=
  args = ui_in u \/
  (ui_comm u = true /\ exists a b, ui_in u = [a; b] /\ args = [b; a]).

Inductive sstep (S : spec) : list operand -> step -> list operand -> Prop :=
| ss_pop : forall v stk, sstep S (v :: stk) SPop stk
| ss_dup : forall k v stk,
    1 <= k <= 16 -> nth_error stk (k - 1) = Some v -> sstep S stk (SDup k) (v :: stk)
| ss_swap : forall k a b mid rest,
    1 <= k <= 16 -> length mid = k - 1 ->
    sstep S (a :: mid ++ b :: rest) (SSwap k) (b :: mid ++ a :: rest)
| ss_nop : forall stk, sstep S stk SNop stk
| ss_pushc : forall z stk, sstep S stk (SPushC z) (OConst z :: stk)
| ss_ins : forall id u args rest,
    In u (s_instrs S) -> ui_id u = id -> operands_named u args ->
    sstep S (args ++ rest) (SIns id) (map OVar (ui_out u) ++ rest).

Inductive ssteps (S : spec) : list operand -> list step -> list operand -> Prop :=
| sss_nil : forall stk, ssteps S stk [] stk
| sss_cons : forall stk st stk1 q stk2,
    sstep S stk st stk1 -> ssteps S stk1 q stk2 -> ssteps S stk (st :: q) stk2.

(* number of stack elements a step touches (None: the id names no instruction) *)
Definition touches (S : spec) (st : step) (n : nat) : Prop :=
  match st with
  | SPop => n = 1
  | SDup k => n = k
  | SSwap k => n = k + 1
  | SNop => n = 0
  | SPushC _ => n = 0
  | SIns id => exists u, In u (s_instrs S) /\ ui_id u = id /\ n = length (ui_in u)
  end.

Definition depth_in_range (st : step) : Prop :=
  match st with
  | SDup k => 1 <= k <= 16
  | SSwap k => 1 <= k <= 16
  | _ => True
  end.

Definition step_eq_dec : forall a b : step, {a = b} + {a <> b}.
Proof. decide equality; try apply Nat.eq_dec; apply Z.eq_dec. Defined.

(* ------------------------------------------------------------------------------------- *)
(* Boolean equalities *)

Lemma operand_eqb_eq : forall a b, operand_eqb a b = true <-> a = b.
Proof.
  intros [x|x] [y|y]; simpl; split; intro H; try discriminate.
  - apply Nat.eqb_eq in H. now subst.
  - inversion H. apply Nat.eqb_refl.
  - apply Z.eqb_eq in H. now subst.
  - inversion H. apply Z.eqb_refl.
Qed.

Lemma operands_eqb_eq : forall l1 l2, operands_eqb l1 l2 = true <-> l1 = l2.
Proof.
  induction l1 as [|a r IH]; intros [|b r2]; simpl; split; intro H; try discriminate; auto.
  - apply andb_true_iff in H. destruct H as [H1 H2].
    apply operand_eqb_eq in H1. apply IH in H2. now subst.
  - inversion H; subst. apply andb_true_iff. split.
    + now apply operand_eqb_eq.
    + now apply IH.
Qed.

Lemma depth_ok_spec : forall k, depth_ok k = true <-> 1 <= k <= 16.
Proof.
  intro k. unfold depth_ok. rewrite andb_true_iff, !Nat.leb_le. tauto.
Qed.

Lemma find_instr_some : forall S id u,
  find_instr S id = Some u -> In u (s_instrs S) /\ ui_id u = id.
Proof.
  intros S id u H. unfold find_instr in H. apply find_some in H.
  destruct H as [H1 H2]. apply Nat.eqb_eq in H2. auto.
Qed.

(* ------------------------------------------------------------------------------------- *)
(* One step *)

Lemma nth_error_split_exact : forall (A : Type) (l : list A) n x,
  nth_error l n = Some x -> l = firstn n l ++ x :: skipn (S n) l /\ length (firstn n l) = n.
Proof.
  intros A l. induction l as [|a r IH]; intros [|n] x H; simpl in *; try discriminate.
  - inversion H. auto.
  - destruct (IH _ _ H) as [E L]. split; [f_equal; exact E | f_equal; exact L].
Qed.

Lemma exec_step_sound : forall S stk st stk',
  exec_step S stk st = inr stk' -> sstep S stk st stk'.
Proof.
  intros S stk st stk' H. destruct st as [|k|k| |z|id]; simpl in H.
  - destruct stk as [|v r]; [discriminate|]. inversion H; subst. constructor.
  - destruct (depth_ok k) eqn:D; [|discriminate].
    destruct (nth_error stk (k - 1)) as [v|] eqn:N; [|discriminate].
    inversion H; subst. apply depth_ok_spec in D. now constructor.
  - destruct (depth_ok k) eqn:D; [|discriminate].
    destruct stk as [|a r]; [discriminate|].
    destruct (nth_error r (k - 1)) as [b|] eqn:N; [|discriminate].
    inversion H; subst. apply depth_ok_spec in D.
    destruct (nth_error_split_exact _ _ _ _ N) as [E L].
    replace (Datatypes.S (k - 1)) with k in E by lia.
    rewrite E at 1.
    apply ss_swap; assumption.
  - inversion H; subst. constructor.
  - inversion H; subst. constructor.
  - destruct (find_instr S id) as [u|] eqn:F; [|discriminate].
    destruct (length stk <? length (ui_in u)) eqn:L; [discriminate|].
    apply Nat.ltb_ge in L.
    destruct (operands_eqb (firstn (length (ui_in u)) stk) (ui_in u)
              || ui_comm u && operands_eqb (firstn (length (ui_in u)) stk) (swap2 (ui_in u))) eqn:O;
      [|discriminate].
    inversion H; subst. apply find_instr_some in F. destruct F as [Fin Fid].
    rewrite <- (firstn_skipn (length (ui_in u)) stk) at 1.
    apply ss_ins with (u := u); auto.
    unfold operands_named.
    apply orb_true_iff in O. destruct O as [O|O].
    + left. now apply operands_eqb_eq.
    + apply andb_true_iff in O. destruct O as [C O]. apply operands_eqb_eq in O.
      destruct (ui_in u) as [|a [|b [|c r]]] eqn:E; simpl in O; try (left; exact O).
      right. split; [exact C|]. exists a, b. auto.
Qed.

Lemma exec_step_touches : forall S stk st stk',
  exec_step S stk st = inr stk' -> exists n, touches S st n /\ n <= length stk.
Proof.
  intros S stk st stk' H. destruct st as [|k|k| |z|id]; simpl in H.
  - destruct stk; [discriminate|]. exists 1. simpl. split; [reflexivity|lia].
  - destruct (depth_ok k) eqn:D; [|discriminate]. apply depth_ok_spec in D.
    destruct (nth_error stk (k - 1)) eqn:N; [|discriminate].
    exists k. split; [reflexivity|].
    assert (k - 1 < length stk) by (apply nth_error_Some; congruence). lia.
  - destruct (depth_ok k) eqn:D; [|discriminate]. apply depth_ok_spec in D.
    destruct stk as [|a r]; [discriminate|].
    destruct (nth_error r (k - 1)) eqn:N; [|discriminate].
    exists (k + 1). split; [reflexivity|].
    assert (k - 1 < length r) by (apply nth_error_Some; congruence). simpl. lia.
  - exists 0. split; [reflexivity|lia].
  - exists 0. split; [reflexivity|lia].
  - destruct (find_instr S id) as [u|] eqn:F; [|discriminate].
    destruct (length stk <? length (ui_in u)) eqn:L; [discriminate|].
    apply Nat.ltb_ge in L. apply find_instr_some in F. destruct F as [Fin Fid].
    exists (length (ui_in u)). split; [|exact L]. exists u. auto.
Qed.

Lemma exec_step_depth : forall S stk st stk',
  exec_step S stk st = inr stk' -> depth_in_range st.
Proof.
  intros S stk st stk' H. destruct st as [|k|k| |z|id]; simpl in *; auto;
    destruct (depth_ok k) eqn:D; try discriminate; now apply depth_ok_spec.
Qed.

(* ------------------------------------------------------------------------------------- *)
(* Runs *)

Lemma run_sound : forall S q stk peak pos stk' peak',
  run S stk peak pos q = inr (stk', peak') -> ssteps S stk q stk'.
Proof.
  intros S q. induction q as [|st r IH]; intros stk peak pos stk' peak' H; simpl in H.
  - inversion H; subst. constructor.
  - destruct (exec_step S stk st) as [e|stk1] eqn:E; [discriminate|].
    econstructor; [apply exec_step_sound; exact E|]. eapply IH; exact H.
Qed.

Lemma run_app : forall S pre post stk peak pos r,
  run S stk peak pos (pre ++ post) = inr r ->
  exists mid pk, run S stk peak pos pre = inr (mid, pk) /\
                 run S mid pk (pos + length pre) post = inr r.
Proof.
  intros S pre. induction pre as [|st p IH]; intros post stk peak pos r H; simpl in *.
  - exists stk, peak. split; [reflexivity|]. now rewrite Nat.add_0_r.
  - destruct (exec_step S stk st) as [e|stk1] eqn:E; [discriminate|].
    destruct (IH _ _ _ _ _ H) as (mid & pk & H1 & H2).
    exists mid, pk. split; [exact H1|].
    replace (pos + Datatypes.S (length p)) with (pos + 1 + length p) by lia. exact H2.
Qed.

Lemma run_peak : forall S q stk peak pos stk' peak',
  run S stk peak pos q = inr (stk', peak') ->
  peak <= peak' /\ (length stk <= peak -> length stk' <= peak').
Proof.
  intros S q. induction q as [|st r IH]; intros stk peak pos stk' peak' H; simpl in H.
  - inversion H; subst. auto.
  - destruct (exec_step S stk st) as [e|stk1] eqn:E; [discriminate|].
    apply IH in H. destruct H as [H1 H2]. split; [lia|]. intros _. apply H2. lia.
Qed.

(* ------------------------------------------------------------------------------------- *)
(* The global conditions *)

Lemma flat_map_nil : forall (A B : Type) (f : A -> list B) l,
  flat_map f l = [] -> forall x, In x l -> f x = [].
Proof.
  intros A B f l. induction l as [|a r IH]; simpl; intros H x Hx; [contradiction|].
  apply app_eq_nil in H. destruct H as [H1 H2]. destruct Hx as [->|Hx]; auto.
Qed.

Lemma count_ins_count_occ : forall id q,
  count_ins id q = count_occ step_eq_dec q (SIns id).
Proof.
  intros id q. unfold count_ins. induction q as [|st r IH]; simpl; [reflexivity|].
  destruct (step_eq_dec st (SIns id)) as [->|N].
  - simpl. rewrite Nat.eqb_refl. simpl. now rewrite IH.
  - destruct (is_ins id st) eqn:I; [|exact IH].
    exfalso. apply N. destruct st; simpl in I; try discriminate.
    apply Nat.eqb_eq in I. now subst.
Qed.

Lemma no_occ_spec : forall a q i, no_occ a q = true -> nth_error q i <> Some (SIns a).
Proof.
  intros a q. induction q as [|st r IH]; intros i H; simpl in *.
  - destruct i; discriminate.
  - apply andb_true_iff in H. destruct H as [H1 H2]. destruct i as [|i]; simpl.
    + intro E. inversion E; subst. simpl in H1. now rewrite Nat.eqb_refl in H1.
    + now apply IH.
Qed.

Lemma dep_ok_spec : forall a b q, dep_ok a b q = true ->
  forall i j, nth_error q i = Some (SIns a) -> nth_error q j = Some (SIns b) -> i < j.
Proof.
  intros a b q. induction q as [|st r IH]; intros H i j Hi Hj.
  - destruct i; discriminate.
  - simpl in H. destruct (is_ins b st) eqn:B.
    + apply andb_true_iff in H. destruct H as [H1 H2]. exfalso.
      destruct i as [|i]; simpl in Hi.
      * inversion Hi; subst. simpl in H1. now rewrite Nat.eqb_refl in H1.
      * exact (no_occ_spec _ _ i H2 Hi).
    + destruct j as [|j]; simpl in Hj.
      * inversion Hj; subst. simpl in B. now rewrite Nat.eqb_refl in B.
      * destruct i as [|i]; [lia|]. simpl in Hi. specialize (IH H i j Hi Hj). lia.
Qed.

(* ------------------------------------------------------------------------------------- *)
(* What acceptance gives *)

Lemma realizes_inv : forall S q, realizes S q = true ->
  exists peak,
    run S (s_src S) (length (s_src S)) 0 q = inr (s_tgt S, peak) /\
    store_errors S q = [] /\ dep_errors S q = [].
Proof.
  intros S q H. unfold realizes, check in H.
  destruct (run S (s_src S) (length (s_src S)) 0 q) as [f|[stk peak]] eqn:R; [discriminate|].
  destruct (operands_eqb stk (s_tgt S)) eqn:T; [|discriminate].
  apply operands_eqb_eq in T. subst stk.
  destruct (store_errors S q ++ dep_errors S q) eqn:E; [|discriminate].
  apply app_eq_nil in E. destruct E as [E1 E2]. exists peak. auto.
Qed.

(* (1)+(6) the sequence executes from the initial stack, every step defined, and ends with
   exactly the specified final stack *)
Theorem realizes_final_stack : forall S q,
  realizes S q = true -> ssteps S (s_src S) q (s_tgt S).
Proof.
  intros S q H. destruct (realizes_inv S q H) as (peak & R & _ & _).
  eapply run_sound; exact R.
Qed.

(* (1) never underflows: before every step the stack holds at least the elements it touches *)
Theorem realizes_no_underflow : forall S q,
  realizes S q = true ->
  forall pre st post, q = pre ++ st :: post ->
  exists stk n, ssteps S (s_src S) pre stk /\ touches S st n /\ n <= length stk.
Proof.
  intros S q H pre st post E. destruct (realizes_inv S q H) as (peak & R & _ & _).
  subst q. destruct (run_app _ _ _ _ _ _ _ R) as (mid & pk & R1 & R2).
  simpl in R2. destruct (exec_step S mid st) as [e|stk1] eqn:X; [discriminate|].
  destruct (exec_step_touches _ _ _ _ X) as (n & T & L).
  exists mid, n. split; [eapply run_sound; exact R1|auto].
Qed.

(* (2) only DUP/SWAP depths 1..16 *)
Theorem realizes_depths : forall S q,
  realizes S q = true -> Forall depth_in_range q.
Proof.
  intros S q H. destruct (realizes_inv S q H) as (peak & R & _ & _).
  apply Forall_forall. intros st Hin. apply in_split in Hin. destruct Hin as (pre & post & ->).
  destruct (run_app _ _ _ _ _ _ _ R) as (mid & pk & R1 & R2).
  simpl in R2. destruct (exec_step S mid st) as [e|stk1] eqn:X; [discriminate|].
  eapply exec_step_depth; exact X.
Qed.

(* (3) every store exactly once *)
Theorem realizes_stores_once : forall S q,
  realizes S q = true ->
  forall u, In u (s_instrs S) -> ui_storage u = true ->
  count_occ step_eq_dec q (SIns (ui_id u)) = 1.
Proof.
  intros S q H u Hin Hs. destruct (realizes_inv S q H) as (peak & _ & E & _).
  unfold store_errors in E. pose proof (flat_map_nil _ _ _ _ E u Hin) as F. simpl in F.
  rewrite Hs in F. destruct (count_ins (ui_id u) q =? 1) eqn:C; [|discriminate].
  apply Nat.eqb_eq in C. now rewrite <- count_ins_count_occ.
Qed.

(* (4) every declared ordering constraint: each occurrence of a before each occurrence of b *)
Theorem realizes_order : forall S q,
  realizes S q = true ->
  forall a b, In (a, b) (s_deps S) ->
  forall i j, nth_error q i = Some (SIns a) -> nth_error q j = Some (SIns b) -> i < j.
Proof.
  intros S q H a b Hin. destruct (realizes_inv S q H) as (peak & _ & _ & E).
  unfold dep_errors in E. pose proof (flat_map_nil _ _ _ _ E (a, b) Hin) as F. simpl in F.
  destruct (dep_ok a b q) eqn:D; [|discriminate]. now apply dep_ok_spec.
Qed.

(* (5) each uninterpreted operation is computed from exactly the operands the specification
   names: when an instruction id is executed, the top of the stack is its "inpt_sk" *)
Theorem realizes_operands : forall S q,
  realizes S q = true ->
  forall pre id post, q = pre ++ SIns id :: post ->
  exists u args rest,
    In u (s_instrs S) /\ ui_id u = id /\ operands_named u args /\
    ssteps S (s_src S) pre (args ++ rest) /\
    ssteps S (map OVar (ui_out u) ++ rest) post (s_tgt S).
Proof.
  intros S q H pre id post E. destruct (realizes_inv S q H) as (peak & R & _ & _).
  subst q. destruct (run_app _ _ _ _ _ _ _ R) as (mid & pk & R1 & R2).
  cbn [run] in R2. destruct (exec_step S mid (SIns id)) as [e|stk1] eqn:X; [discriminate|].
  pose proof (exec_step_sound _ _ _ _ X) as St. inversion St; subst.
  exists u, args, rest. repeat split; auto.
  - eapply run_sound; exact R1.
  - eapply run_sound; exact R2.
Qed.

(* the bounded variant: length (NOPs not counted) and stack height along the whole run *)
Theorem realizes_bounded_sound : forall S q len sk,
  realizes_bounded S q len sk = true ->
  realizes S q = true /\ seq_len q <= len /\
  forall pre post, q = pre ++ post ->
    exists stk, ssteps S (s_src S) pre stk /\ ssteps S stk post (s_tgt S) /\ length stk <= sk.
Proof.
  intros S q len sk H. unfold realizes_bounded, check_bounded in H.
  destruct (check S q) eqn:C; [discriminate|].
  destruct (seq_len q <=? len) eqn:L; [|discriminate].
  destruct (peak_of S q <=? sk) eqn:P; [|discriminate].
  apply Nat.leb_le in L. apply Nat.leb_le in P.
  assert (Hr : realizes S q = true) by (unfold realizes; now rewrite C).
  split; [exact Hr|]. split; [exact L|].
  intros pre post E. destruct (realizes_inv S q Hr) as (peak & R & _ & _).
  unfold peak_of in P. rewrite R in P. subst q.
  destruct (run_app _ _ _ _ _ _ _ R) as (mid & pk & R1 & R2).
  exists mid. split; [eapply run_sound; exact R1|]. split; [eapply run_sound; exact R2|].
  apply run_peak in R1. apply run_peak in R2. destruct R1 as [_ A]. destruct R2 as [B _].
  specialize (A (le_n _)). lia.
Qed.

(* ------------------------------------------------------------------------------------- *)
(* Non-vacuity: the specification the front end produces for
   PUSH 1 DUP3 MSTORE DUP1 PUSH 20 MLOAD ADD SWAP2 SSTORE CALLER
   and the ids the greedy returned for it. *)
From Coq Require Import String.
Local Open Scope string_scope.
Definition ex_spec : spec :=
  mkSpec [OVar 0; OVar 1] [OVar 2; OVar 3]
    [mkUI 0 "CALLER" [] [2] false false false None 2 1;
     mkUI 1 "ADD" [OVar 4; OVar 0] [3] true false false None 3 1;
     mkUI 2 "MLOAD" [OVar 5] [4] false false false None 3 1;
     mkUI 3 "SSTORE" [OVar 1; OVar 0] [] false true false None 5000 1;
     mkUI 4 "MSTORE" [OVar 1; OVar 6] [] false true false None 3 1;
     mkUI 5 "PUSH" [] [5] false false true (Some 32%Z) 3 2;
     mkUI 6 "PUSH" [] [6] false false true (Some 1%Z) 3 2]
    [(4, 2)] [(4, 2)] [] 10 10 5 9.

Definition ex_ids : list step :=
  [SIns 6; SDup 3; SIns 4; SDup 1; SSwap 1; SSwap 2; SIns 3; SIns 5; SIns 2; SIns 1; SIns 0].

Example ex_realizes : realizes ex_spec ex_ids = true.
Proof. vm_compute. reflexivity. Qed.

(* the block's own instructions, within the published bounds *)
Definition ex_orig : list step :=
  [SIns 6; SDup 3; SIns 4; SDup 1; SIns 5; SIns 2; SIns 1; SSwap 2; SIns 3; SIns 0].

Example ex_realizes_bounded : realizes_bounded ex_spec ex_orig 10 5 = true.
Proof. vm_compute. reflexivity. Qed.

(* the validator does reject: load moved before the store it depends on; store dropped;
   wrong operand order for a non-commutative instruction; DUP17 *)
Example ex_reject_order :
  check ex_spec [SIns 5; SIns 2; SIns 6; SDup 4; SIns 4; SDup 2; SIns 1; SSwap 2; SIns 3; SIns 0]
  = Some (10, EOrder 4 2).
Proof. vm_compute. reflexivity. Qed.

Example ex_reject_store :
  check ex_spec [SDup 1; SIns 5; SIns 2; SIns 1; SSwap 2; SIns 3; SIns 0]
  = Some (7, EStoreCount 4 0).
Proof. vm_compute. reflexivity. Qed.

Example ex_reject_operands :
  check ex_spec [SIns 6; SDup 3; SIns 4; SDup 1; SIns 5; SIns 2; SIns 1; SSwap 1; SIns 3]
  = Some (8, EOperands 3).
Proof. vm_compute. reflexivity. Qed.

Example ex_reject_depth : check ex_spec [SDup 17] = Some (0, EDepth 17).
Proof. vm_compute. reflexivity. Qed.
