(* Concrete search for a distinguishing state (executable; used only to FIND failing
   inputs when the validator rejects a pair; it proves nothing). The reference
   semantics itself is run on a family of concrete well-formed environments/states. *)
From Coq Require Import ZArith List Bool Lia.
From GV Require Import Ref.Word Ref.EVM Sym.Term Sym.SymExec Sym.SymExecProofs Val.Equiv.
Import ListNotations.
Local Open Scope Z_scope.

(* seed mod 4 selects a family: 0 generic values, 1 everything zero, 2 sign bit set, 3 all ones *)
Definition shape (seed h : Z) : Z :=
  match seed mod 4 with
  | 0 => h mod W
  | 1 => 0
  | 2 => (2 ^ 255 + h mod 2 ^ 64) mod W
  | _ => W - 1
  end.
Definition addr_like (k : N) : bool :=
  (N.eqb k K_ADDRESS || N.eqb k K_ORIGIN || N.eqb k K_CALLER || N.eqb k K_COINBASE)%bool.

Definition test_env (seed : Z) : env :=
  let e1 := fun (k : N) (a : Z) => shape seed (a * 31 + Z.of_N k * 1000000007 + seed * 101 + 5) in
  let e0raw := fun (k : N) =>
     let v := shape seed (Z.of_N k * 6700417 * 1000003 + seed * 7919 + 12345) in
     if addr_like k then v mod 2 ^ 160 else v in
  {| e_sym := fun k => shape seed (Z.of_N k * 65537 + seed * 31 + 1000);
     e_env0 := fun k => if N.eqb k K_SELFBALANCE then e1 K_BALANCE (e0raw K_ADDRESS) else e0raw k;
     e_env1 := e1;
     e_keccak := fun l => shape seed (fold_left (fun acc b => (acc * 257 + b + 1) mod W) l (seed + 7)) |}.

Definition test_mem (seed : Z) : memory :=
  fun x => match seed mod 4 with 1 => 0 | 3 => 255 | _ => (x * 37 + seed * 11 + 3) mod 256 end.
Definition test_sto (seed : Z) : storage := fun k => shape seed (k * 3 + seed * 13 + 7).

Definition test_state (seed : Z) (stack : list Z) : state :=
  {| stk := stack; mem := test_mem seed; sto := test_sto seed |}.

Fixpoint range32 (a : Z) (n : nat) : list Z :=
  match n with O => [] | S k => a :: range32 (a + 1) k end.

Definition probes_m (r : rho) (m : term) : list Z :=
  match mflat m with
  | Some l => flat_map (fun o => range32 (evalw r (ma o)) (if m8 o then 1 else 32)) l
  | None => []
  end.
Definition probes_s (r : rho) (s : term) : list Z :=
  match sflat s with
  | Some l => map (fun o => evalw r (sk o)) l
  | None => []
  end.

Fixpoint lzeq (a b : list Z) : bool :=
  match a, b with
  | [], [] => true
  | x :: r, y :: t => Z.eqb x y && lzeq r t
  | _, _ => false
  end.

(* 0 = agree, 1 = candidate fails where the original succeeds, 2 = stacks differ,
   3 = memory differs, 4 = storage differs, 5 = original does not run (stack too short / not a segment) *)
Definition differ (seed : Z) (stack : list Z) (b1 b2 : list instr) : Z :=
  let e := test_env seed in
  let s0 := test_state seed stack in
  match exec e b1 s0 with
  | None => 5
  | Some c1 =>
    match exec e b2 s0 with
    | None => 1
    | Some c2 =>
      if negb (lzeq (stk c1) (stk c2)) then 2
      else
        let r := rho0 e s0 in
        let pm := match symexec b1 sinit, symexec b2 sinit with
                  | Some s1, Some s2 => probes_m r (s_mem s1) ++ probes_m r (s_mem s2)
                  | _, _ => [] end in
        let ps := match symexec b1 sinit, symexec b2 sinit with
                  | Some s1, Some s2 => probes_s r (s_sto s1) ++ probes_s r (s_sto s2)
                  | _, _ => [] end in
        if negb (forallb (fun x => Z.eqb (mem c1 x) (mem c2 x)) pm) then 3
        else if negb (forallb (fun k => Z.eqb (sto c1 k) (sto c2 k)) ps) then 4
        else 0
    end
  end.

(* depth of initial stack the original needs *)
Definition need (b : list instr) : nat :=
  match symexec b sinit with Some s => s_base s | None => 0 end.

(* the same search for a symbolic state (the denotation of a specification under a schedule)
   against a block *)
Definition differ_sym (seed : Z) (stack : list Z) (ss : sstate) (b : list instr) : Z :=
  let e := test_env seed in
  let s0 := test_state seed stack in
  let r := rho0 e s0 in
  match exec e b s0 with
  | None => 5
  | Some c =>
    if (length stack <? s_base ss)%nat then 5
    else if negb (lzeq (stk c) (map (evalw r) (s_stk ss) ++ skipn (s_base ss) stack)) then 2
    else
      let pm := probes_m r (s_mem ss) ++ match symexec b sinit with Some s2 => probes_m r (s_mem s2) | None => [] end in
      let ps := probes_s r (s_sto ss) ++ match symexec b sinit with Some s2 => probes_s r (s_sto s2) | None => [] end in
      if negb (forallb (fun x => Z.eqb (mem c x) (evalm r (s_mem ss) x)) pm) then 3
      else if negb (forallb (fun k => Z.eqb (sto c k) (evals r (s_sto ss) k)) ps) then 4
      else 0
  end.
