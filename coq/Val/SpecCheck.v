(* Validators relating a specification (SFS) to the block it was derived from (executable).
   [spec_check S opmap L B]: L is an admissible schedule of S's memory operations and the
   denotation of S under L equals, on every state, what B computes.
   [deps_complete S opmap L]: every pair of memory/storage operations of which at least one
   writes, and whose ranges/keys are not provably disjoint, is ordered by the declared
   dependences or by data flow. *)
From Coq Require Import ZArith List Bool.
From GV Require Import Ref.Word Ref.EVM Sym.Term Sym.TermLemmas Sym.SymExec Sym.Norm Sym.Spec Sym.SpecSym Val.Equiv.
Import ListNotations.
Local Open Scope Z_scope.

Definition equiv_sym (s1 s2 : sstate) : bool := equiv_sstates s1 s2 || equiv_sstates s2 s1.

Definition spec_check (S : spec) (opmap : list (nat * instr)) (L : list nat) (B : list instr) : bool :=
  admissible S opmap L &&
  match spec_sym S opmap L, symexec B sinit with
  | Some s1, Some s2 => equiv_sym s1 s2
  | _, _ => false
  end.

(* --- completeness of the declared ordering -------------------------------------------- *)
Inductive acc_kind := AMem | ASto.
Record access := { a_id : nat; a_kind : acc_kind; a_write : bool; a_addr : term; a_size : option Z;
                   a_out : option term; a_ins : list term }.

Section Deps.
  Variable S : spec.
  Variable opmap : list (nat * instr).

  Definition access_of (fuel : nat) (d : dstate) (id : nat) : option access :=
    match find_instr S id, assoc id opmap with
    | Some u, Some i =>
      match all_some (map (term_of S opmap fuel (d_bound d)) (ui_in u)), i with
      | Some [a], IMload =>
        Some {| a_id := id; a_kind := AMem; a_write := false; a_addr := norm2 a; a_size := Some 32;
                a_out := Some (TMload (d_mem d) a); a_ins := [a] |}
      | Some [a; x], IMstore =>
        Some {| a_id := id; a_kind := AMem; a_write := true; a_addr := norm2 a; a_size := Some 32;
                a_out := None; a_ins := [a; x] |}
      | Some [a; x], IMstore8 =>
        Some {| a_id := id; a_kind := AMem; a_write := true; a_addr := norm2 a; a_size := Some 1;
                a_out := None; a_ins := [a; x] |}
      | Some [k], ISload =>
        Some {| a_id := id; a_kind := ASto; a_write := false; a_addr := norm2 k; a_size := None;
                a_out := Some (TSload (d_sto d) k); a_ins := [k] |}
      | Some [k; x], ISstore =>
        Some {| a_id := id; a_kind := ASto; a_write := true; a_addr := norm2 k; a_size := None;
                a_out := None; a_ins := [k; x] |}
      | Some [a; n], IKeccak =>
        Some {| a_id := id; a_kind := AMem; a_write := false; a_addr := norm2 a;
                a_size := match norm2 n with TConst c => Some c | _ => None end;
                a_out := Some (TKeccak (d_mem d) a n); a_ins := [a; n] |}
      | _, _ => None
      end
    | _, _ => None
    end.

  Fixpoint accesses (fuel : nat) (d : dstate) (L : list nat) : option (list access) :=
    match L with
    | [] => Some []
    | id :: r =>
      match access_of fuel d id, exec_memop S opmap fuel d id with
      | Some a, Some d' => match accesses fuel d' r with Some l => Some (a :: l) | None => None end
      | _, _ => None
      end
    end.

  Fixpoint subterm (x t : term) {struct t} : bool :=
    term_eqb x t ||
    match t with
    | TEnv1 _ a | TOp1 _ a => subterm x a
    | TOp2 _ a b | TMload a b | TSload a b => subterm x a || subterm x b
    | TOp3 _ a b c | TKeccak a b c | MStore a b c | MStore8 a b c | SStore a b c =>
      subterm x a || subterm x b || subterm x c
    | _ => false
    end.

  Definition provably_apart (a b : access) : bool :=
    match a_kind a, a_kind b with
    | AMem, AMem =>
      match a_size a, a_size b with
      | Some n1, Some n2 => wsort (a_addr a) && wsort (a_addr b) && disj n1 (a_addr a) n2 (a_addr b)
      | _, _ => false
      end
    | ASto, ASto => wsort (a_addr a) && wsort (a_addr b) && keys_distinct (a_addr a) (a_addr b)
    | _, _ => true
    end.

  (* direct order: declared dependence, or b consumes the value a produced *)
  Definition direct (a b : access) : bool :=
    existsb (fun p => Nat.eqb (fst p) (a_id a) && Nat.eqb (snd p) (a_id b)) (s_deps S) ||
    match a_out a with
    | Some o => existsb (subterm o) (a_ins b)
    | None => false
    end.

  (* ids reachable from the ids in [from] in at most [fuel] direct steps *)
  Fixpoint reach_set (fuel : nat) (all : list access) (from : list nat) : list nat :=
    match fuel with
    | O => from
    | Datatypes.S f =>
      let next := map a_id (filter (fun c => negb (mem_nat (a_id c) from) &&
                                             existsb (fun b => mem_nat (a_id b) from && direct b c) all) all) in
      match next with
      | [] => from
      | _ => reach_set f all (from ++ next)
      end
    end.

  Definition reach (all : list access) (a b : access) : bool :=
    mem_nat (a_id b) (reach_set (length all) all [a_id a]) && negb (Nat.eqb (a_id a) (a_id b)).

  (* two writes of the same value commute whatever their keys (storage) / offsets (single bytes) *)
  Definition same_value_commute (a b : access) : bool :=
    a_write a && a_write b &&
    match a_ins a, a_ins b with
    | [_; x], [_; y] =>
      term_eqb (norm2 x) (norm2 y) &&
      match a_kind a, a_kind b with
      | ASto, ASto => true
      | AMem, AMem => match a_size a, a_size b with Some 1, Some 1 => true | _, _ => false end
      | _, _ => false
      end
    | _, _ => false
    end.

  Definition deps_complete (L : list nat) : bool :=
    let fuel := Datatypes.S (length (s_instrs S)) in
    match accesses fuel {| d_bound := []; d_mem := MInit; d_sto := SInit |} L with
    | None => false
    | Some l =>
      forallb (fun a => forallb (fun b =>
        Nat.eqb (a_id a) (a_id b) || negb (a_write a || a_write b) || provably_apart a b || same_value_commute a b ||
        reach l a b || reach l b a) l) l
    end.
End Deps.
