(* Soundness of [spec_check]: the denotation of the specification under the schedule is what
   the block computes, on every well-formed state with enough stack. *)
From Coq Require Import ZArith List Bool Lia.
From GV Require Import Ref.Word Ref.EVM Sym.Term Sym.TermLemmas Sym.SymExec Sym.SymExecProofs Sym.Spec Sym.SpecSym
  Val.Equiv Val.EquivProofs Val.SpecCheck.
Import ListNotations.

Theorem spec_check_sound S opmap L B : spec_check S opmap L B = true ->
  exists ss, spec_sym S opmap L = Some ss /\ admissible S opmap L = true /\
  forall e s0 c, wf_env e -> wf_state s0 -> (s_base ss <= length (stk s0))%nat -> exec e B s0 = Some c ->
    let r := rho0 e s0 in
    stk c = map (evalw r) (s_stk ss) ++ skipn (s_base ss) (stk s0) /\
    (forall x, mem c x = evalm r (s_mem ss) x) /\ (forall k, sto c k = evals r (s_sto ss) k).
Proof.
  unfold spec_check. intros H. apply andb_true_iff in H. destruct H as [Had H].
  destruct (spec_sym S opmap L) as [ss|] eqn:E1; [|discriminate].
  destruct (symexec B sinit) as [s2|] eqn:E2; [|discriminate].
  exists ss. split; [reflexivity|]. split; [exact Had|].
  intros e s0 c He Hs Hb Hx. set (r := rho0 e s0).
  destruct (symexec_sound e s0 B s2 c E2 Hx) as (Hb2 & K & M & St).
  unfold equiv_sym in H. apply orb_true_iff in H. destruct H as [H|H].
  - destruct (equiv_sstates_sound ss s2 e s0 H He Hs Hb) as (_ & KK & MM & SS).
    fold r in KK, MM, SS. split; [rewrite K; symmetry; exact KK|].
    split; intros; [rewrite M; symmetry; apply MM|rewrite St; symmetry; apply SS].
  - destruct (equiv_sstates_sound s2 ss e s0 H He Hs Hb2) as (_ & KK & MM & SS).
    fold r in KK, MM, SS. split; [rewrite K; exact KK|].
    split; intros; [rewrite M; apply MM|rewrite St; apply SS].
Qed.
